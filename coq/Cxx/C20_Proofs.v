(* C20: lemmas about the models of Cxx/C20_Defs.v *)
From Coq Require Import List Ascii Bool Arith ZArith NArith Lia Sorted.
From CMI Require Import Cxx.C20_Defs.
Import ListNotations.
Local Open Scope nat_scope.

(* ------------------------------------------------------------------------
   A. bytes and the std::string order *)
Lemma N_of_ascii_inj : forall a b, N_of_ascii a = N_of_ascii b -> a = b.
Proof.
  intros a b H. rewrite <- (ascii_N_embedding a), <- (ascii_N_embedding b). now rewrite H.
Qed.

Lemma ceq_true : forall a b, ceq a b = true <-> a = b.
Proof. intros; unfold ceq; apply Ascii.eqb_eq. Qed.

Lemma ceq_false : forall a b, ceq a b = false <-> a <> b.
Proof. intros; unfold ceq; apply Ascii.eqb_neq. Qed.

Lemma ceq_refl : forall a, ceq a a = true.
Proof. intro; now apply ceq_true. Qed.

Lemma clt_irrefl : forall a, clt a a = false.
Proof. intro; unfold clt; apply N.ltb_irrefl. Qed.

Lemma clt_total : forall a b, clt a b = false -> clt b a = false -> a = b.
Proof.
  unfold clt; intros a b H1 H2. apply N.ltb_ge in H1, H2. apply N_of_ascii_inj. lia.
Qed.

Lemma clt_asym : forall a b, clt a b = true -> clt b a = false.
Proof. unfold clt; intros a b H. apply N.ltb_lt in H. apply N.ltb_ge. lia. Qed.

Lemma clt_trans : forall a b c, clt a b = true -> clt b c = true -> clt a c = true.
Proof. unfold clt; intros a b c H1 H2. apply N.ltb_lt in H1, H2. apply N.ltb_lt. lia. Qed.

Lemma str_eqb_eq : forall a b, str_eqb a b = true <-> a = b.
Proof.
  induction a as [|x a IH]; destruct b as [|y b]; simpl; split; intro H; try easy.
  - apply andb_true_iff in H as [H1 H2]. apply ceq_true in H1. apply IH in H2. now subst.
  - injection H as -> ->. rewrite ceq_refl. now apply IH.
Qed.

Lemma str_eqb_neq : forall a b, str_eqb a b = false <-> a <> b.
Proof.
  intros a b. split; intro H.
  - intro E. apply str_eqb_eq in E. congruence.
  - destruct (str_eqb a b) eqn:E; [apply str_eqb_eq in E; contradiction | reflexivity].
Qed.

Lemma str_ltb_irrefl : forall a, str_ltb a a = false.
Proof. induction a as [|x a IH]; simpl; [reflexivity|]. now rewrite clt_irrefl. Qed.

Lemma str_ltb_cons : forall x a y b,
  str_ltb (x :: a) (y :: b) = true <-> clt x y = true \/ (x = y /\ str_ltb a b = true).
Proof.
  intros. simpl. destruct (clt x y) eqn:E1.
  - split; auto.
  - destruct (clt y x) eqn:E2.
    + split; [discriminate|]. intros [H|[-> _]]; [discriminate|]. now rewrite clt_irrefl in E2.
    + pose proof (clt_total _ _ E1 E2) as ->. split; [intro; right; auto| intros [H|[_ H]]; [discriminate|auto]].
Qed.

Lemma str_ltb_asym : forall a b, str_ltb a b = true -> str_ltb b a = false.
Proof.
  induction a as [|x a IH]; destruct b as [|y b]; try easy.
  intro H. apply str_ltb_cons in H as [H|[-> H]].
  - simpl. now rewrite (clt_asym _ _ H), H.
  - simpl. rewrite clt_irrefl. now apply IH.
Qed.

Lemma str_ltb_trans : forall a b c, str_ltb a b = true -> str_ltb b c = true -> str_ltb a c = true.
Proof.
  induction a as [|x a IH]; destruct b as [|y b]; destruct c as [|z c]; try easy.
  intros H1 H2. apply str_ltb_cons in H1, H2. apply str_ltb_cons.
  destruct H1 as [H1|[-> H1]]; destruct H2 as [H2|[-> H2]]; eauto using clt_trans.
Qed.

Lemma str_ltb_total : forall a b, str_ltb a b = false -> str_ltb b a = false -> a = b.
Proof.
  induction a as [|x a IH]; destruct b as [|y b]; try easy.
  simpl. intros H1 H2. destruct (clt x y) eqn:E1; [discriminate|]. destruct (clt y x) eqn:E2; [discriminate|].
  pose proof (clt_total _ _ E1 E2) as ->. f_equal. now apply IH.
Qed.

(* strings with a common prefix are contiguous in the order *)
Lemma lt_prefix_mid : forall p a b c,
  str_ltb (p ++ a) b = true -> str_ltb b (p ++ c) = true -> exists r, b = p ++ r.
Proof.
  induction p as [|x p IH]; intros a b c H1 H2.
  - now exists b.
  - destruct b as [|y b]; [now destruct (p ++ a)|].
    simpl app in H1, H2. apply str_ltb_cons in H1, H2.
    destruct H1 as [H1|[-> H1]]; destruct H2 as [H2|[E H2]].
    + rewrite (clt_asym _ _ H1) in H2. discriminate.
    + subst. now rewrite clt_irrefl in H1.
    + now rewrite clt_irrefl in H2.
    + destruct (IH _ _ _ H1 H2) as [r ->]. now exists r.
Qed.

(* ------------------------------------------------------------------------
   B. the map: inserting increasing keys appends *)
Lemma dict_set_append : forall d k v,
  (forall kv, In kv d -> str_ltb (fst kv) k = true) -> dict_set k v d = d ++ [(k, v)].
Proof.
  induction d as [|[k' v'] d IH]; intros k v H; simpl; [reflexivity|].
  assert (L : str_ltb k' k = true) by (apply (H (k', v')); now left).
  rewrite (str_ltb_asym _ _ L), L. f_equal. apply IH. intros kv Hkv. apply H. now right.
Qed.

(* ------------------------------------------------------------------------
   C. lines *)
Definition no_char (c : ascii) (s : str) : Prop := ~ In c s.
Definition first_ok (s : str) : Prop := match s with c :: _ => is_blank c = false | [] => False end.

(* a name (component of a key) resp. a value as the parser can store it *)
Definition wf_name (s : str) : Prop :=
  first_ok s /\ first_ok (rev s) /\ no_char cCOLON s /\ no_char cHASH s /\ no_char cNL s.
Definition wf_value (s : str) : Prop :=
  first_ok s /\ first_ok (rev s) /\ no_char cHASH s /\ no_char cNL s.

Lemma is_blank_sp : is_blank cSP = true. Proof. reflexivity. Qed.

Lemma count_blank_indent : forall j s, count_blank (indent j ++ s) = 2 * j + count_blank s.
Proof. induction j as [|j IH]; intro s; simpl; [reflexivity|]. rewrite IH. lia. Qed.

Lemma count_blank_first_ok : forall s, first_ok s -> count_blank s = 0.
Proof. destruct s as [|c s]; simpl; [easy|]. now intros ->. Qed.

Lemma length_indent : forall j, length (indent j) = 2 * j.
Proof. induction j as [|j IH]; simpl; [reflexivity|]. rewrite IH. lia. Qed.

Lemma skipn_indent : forall j s, skipn (2 * j) (indent j ++ s) = s.
Proof.
  intros j s. rewrite <- (length_indent j). rewrite skipn_app, skipn_all, Nat.sub_diag. reflexivity.
Qed.

Lemma drop_blank_indent : forall j s, drop_blank (indent j ++ s) = drop_blank s.
Proof. induction j as [|j IH]; intro s; simpl; [reflexivity|]. apply IH. Qed.

Lemma drop_blank_first_ok : forall s, first_ok s -> drop_blank s = s.
Proof. destruct s as [|c s]; simpl; [easy|]. now intros ->. Qed.

Lemma strip_comments_id : forall s, no_char cHASH s -> strip_comments s = s.
Proof.
  induction s as [|c s IH]; intro H; simpl; [reflexivity|].
  destruct (ceq c cHASH) eqn:E.
  - apply ceq_true in E. subst. exfalso. apply H. now left.
  - f_equal. apply IH. intro Hin. apply H. now right.
Qed.

Lemma strip_comments_cut : forall s t, no_char cHASH s -> strip_comments (s ++ cHASH :: t) = s.
Proof.
  induction s as [|c s IH]; intros t H; simpl.
  - reflexivity.
  - destruct (ceq c cHASH) eqn:E.
    + apply ceq_true in E. subst. exfalso. apply H. now left.
    + f_equal. apply IH. intro Hin. apply H. now right.
Qed.

Lemma split_colon_app : forall s t, no_char cCOLON s -> split_colon (s ++ cCOLON :: t) = Some (s, t).
Proof.
  induction s as [|c s IH]; intros t H; simpl.
  - reflexivity.
  - destruct (ceq c cCOLON) eqn:E.
    + apply ceq_true in E. subst. exfalso. apply H. now left.
    + rewrite IH; [reflexivity|]. intro Hin. apply H. now right.
Qed.

Lemma no_char_app : forall c a b, no_char c (a ++ b) <-> no_char c a /\ no_char c b.
Proof.
  unfold no_char. intros. rewrite in_app_iff. tauto.
Qed.

Lemma no_char_indent : forall c j, c <> cSP -> no_char c (indent j).
Proof.
  intros c j H. induction j as [|j IH]; simpl; [easy|]. intros [E|[E|E]]; auto.
Qed.

(* blank padding around a trimmed non-empty string is removed by strip_whitespace_line *)
Definition all_blank (s : str) : Prop := Forall (fun c => is_blank c = true) s.

Lemma drop_blank_all : forall b s, all_blank b -> drop_blank (b ++ s) = drop_blank s.
Proof. induction 1 as [|c b Hc _ IH]; simpl; [reflexivity|]. now rewrite Hc. Qed.

Lemma all_blank_rev : forall b, all_blank b -> all_blank (rev b).
Proof. intros b H. apply Forall_rev. exact H. Qed.

Lemma strip_ws_pad : forall b1 v b2, all_blank b1 -> all_blank b2 -> first_ok v -> first_ok (rev v) ->
  strip_ws (b1 ++ v ++ b2) = v.
Proof.
  intros b1 v b2 H1 H2 Hf Hl. unfold strip_ws.
  rewrite (drop_blank_all _ _ H1).
  assert (E : drop_blank (v ++ b2) = v ++ b2).
  { destruct v as [|c v]; [easy|]. simpl in *. now rewrite Hf. }
  rewrite E, rev_app_distr, (drop_blank_all _ _ (all_blank_rev _ H2)), (drop_blank_first_ok _ Hl).
  apply rev_involutive.
Qed.

Lemma strip_ws_nil : strip_ws [] = []. Proof. reflexivity. Qed.

Lemma all_blank_indent : forall j, all_blank (indent j).
Proof. induction j; simpl; repeat constructor; auto. Qed.

(* what the parser extracts from a line: level j (indentation 2j), key name n, value v *)
Definition line_spec (line : str) (j : nat) (n v : str) : Prop :=
  is_comment_line line = false /\ is_empty_line line = false /\
  is_indented_line (strip_comments line) = 2 * j /\
  read_keyvaluepair (strip_comments line) = Some (n, v).

Lemma colon_not_blank : is_blank cCOLON = false. Proof. reflexivity. Qed.

Lemma first_ok_app : forall s t, first_ok s -> first_ok (s ++ t).
Proof. destruct s; simpl; [easy|auto]. Qed.

Lemma first_ok_nonnil : forall s, first_ok s -> s <> [].
Proof. destruct s; simpl; [easy|discriminate]. Qed.

(* properties of a line  indent j ++ n ++ ":" ++ rest  with a well-formed name *)
Lemma line_head_facts : forall j n rest, wf_name n ->
  let line := indent j ++ n ++ cCOLON :: rest in
  count_blank line = 2 * j /\ is_comment_line line = false /\ is_empty_line line = false.
Proof.
  intros j n rest (Hf & Hl & Hc & Hh & Hn) line. unfold line.
  assert (C : count_blank (indent j ++ n ++ cCOLON :: rest) = 2 * j).
  { rewrite count_blank_indent, (count_blank_first_ok (n ++ _)); [lia|]. now apply first_ok_app. }
  split; [exact C|]. split.
  - unfold is_comment_line. rewrite C, skipn_indent.
    destruct n as [|c n]; [easy|]. simpl.
    apply ceq_false. intro E. subst. apply Hh. now left.
  - unfold is_empty_line. rewrite C. apply Nat.eqb_neq.
    rewrite app_length, length_indent, app_length. simpl.
    destruct n; [easy|]. simpl. lia.
Qed.

Lemma header_line_spec : forall j n, wf_name n -> line_spec (indent j ++ n ++ [cCOLON]) j n [].
Proof.
  intros j n W. pose proof (line_head_facts j n [] W) as (C & H1 & H2).
  destruct W as (Hf & Hl & Hc & Hh & Hn).
  assert (NH : no_char cHASH (indent j ++ n ++ [cCOLON])).
  { apply no_char_app. split; [apply no_char_indent; discriminate|].
    apply no_char_app. split; [assumption|]. intros [E|[]]. discriminate. }
  repeat split; try assumption.
  - rewrite (strip_comments_id _ NH). unfold is_indented_line.
    unfold is_empty_line in H2. rewrite H2. exact C.
  - rewrite (strip_comments_id _ NH). unfold read_keyvaluepair.
    rewrite app_assoc, split_colon_app.
    + rewrite <- (app_nil_r (indent j ++ n)) at 1. rewrite <- app_assoc.
      rewrite (strip_ws_pad (indent j) n []); auto using all_blank_indent. constructor.
    + apply no_char_app. split; [apply no_char_indent; discriminate|assumption].
Qed.

(* value line, plain form and used-values form: tail is "" or " # (...)" *)
Lemma value_line_spec : forall j n v tail, wf_name n -> wf_value v ->
  (tail = [] \/ exists t, tail = cSP :: cHASH :: t) ->
  line_spec (indent j ++ n ++ [cCOLON; cSP] ++ v ++ tail) j n v.
Proof.
  intros j n v tail W V T.
  pose proof (line_head_facts j n (cSP :: v ++ tail) W) as (C & H1 & H2).
  destruct W as (Hf & Hl & Hc & Hh & Hn). destruct V as (Vf & Vl & Vh & Vn).
  assert (NH : no_char cHASH (indent j ++ n ++ [cCOLON; cSP] ++ v)).
  { apply no_char_app. split; [apply no_char_indent; discriminate|].
    apply no_char_app. split; [assumption|]. apply no_char_app. split; [|assumption].
    intros [E|[E|[]]]; discriminate. }
  assert (S : exists b2, all_blank b2 /\
     strip_comments (indent j ++ n ++ [cCOLON; cSP] ++ v ++ tail) = indent j ++ n ++ [cCOLON; cSP] ++ v ++ b2).
  { destruct T as [->|[t ->]].
    - exists []. split; [constructor|]. apply strip_comments_id. now rewrite app_nil_r.
    - exists [cSP]. split; [repeat constructor|].
      replace (indent j ++ n ++ [cCOLON; cSP] ++ v ++ cSP :: cHASH :: t)
        with ((indent j ++ n ++ [cCOLON; cSP] ++ v ++ [cSP]) ++ cHASH :: t)
        by (repeat rewrite <- app_assoc; reflexivity).
      apply strip_comments_cut.
      replace (indent j ++ n ++ [cCOLON; cSP] ++ v ++ [cSP])
        with ((indent j ++ n ++ [cCOLON; cSP] ++ v) ++ [cSP])
        by (repeat rewrite <- app_assoc; reflexivity).
      apply no_char_app. split; [assumption|]. intros [E|[]]. discriminate. }
  destruct S as (b2 & B2 & S).
  repeat split; try assumption.
  - rewrite S. unfold is_indented_line.
    pose proof (line_head_facts j n (cSP :: v ++ b2) (conj Hf (conj Hl (conj Hc (conj Hh Hn))))) as (C' & _ & E').
    unfold is_empty_line in E'.
    change (indent j ++ n ++ [cCOLON; cSP] ++ v ++ b2) with (indent j ++ n ++ cCOLON :: cSP :: v ++ b2).
    rewrite E'. exact C'.
  - rewrite S. unfold read_keyvaluepair.
    replace (indent j ++ n ++ [cCOLON; cSP] ++ v ++ b2) with ((indent j ++ n) ++ cCOLON :: ([cSP] ++ v ++ b2))
      by (repeat rewrite <- app_assoc; reflexivity).
    rewrite split_colon_app.
    + rewrite (strip_ws_pad [cSP] v b2); auto; [|repeat constructor].
      rewrite <- (app_nil_r (indent j ++ n)) at 1. rewrite <- app_assoc.
      rewrite (strip_ws_pad (indent j) n []); auto using all_blank_indent. constructor.
    + apply no_char_app. split; [apply no_char_indent; discriminate|assumption].
Qed.

(* ------------------------------------------------------------------------
   D. the parser on lines at levels 0,1,2,.. with two blanks per level *)
Definition lv (j : nat) : list nat := map (fun i => 2 * S i) (seq 0 j).

Lemma lv_length : forall j, length (lv j) = j.
Proof. intro; unfold lv; now rewrite map_length, seq_length. Qed.

Lemma lv_S : forall j, lv (S j) = lv j ++ [2 * S j].
Proof. intro j. unfold lv. rewrite seq_S, map_app. reflexivity. Qed.

Lemma last_snoc : forall {A} (l : list A) x d, last (l ++ [x]) d = x.
Proof. intros. apply last_last. Qed.

Lemma match_nonnil : forall {A B} (l : list A) (a b : B), l <> [] ->
  match l with [] => a | _ :: _ => b end = b.
Proof. intros A B l a b H. destruct l; [contradiction|reflexivity]. Qed.

Lemma lv_nonnil : forall j, lv (S j) <> [].
Proof. intro j. rewrite lv_S. now destruct (lv j). Qed.

Lemma last_lv : forall j, last (lv (S j)) 0 = 2 * S j.
Proof. intro j. rewrite lv_S. apply last_snoc. Qed.

Lemma removelast_lv : forall j, removelast (lv (S j)) = lv j.
Proof. intro j. rewrite lv_S. apply removelast_last. Qed.

Lemma firstn_removelast : forall {A} j (g : list A), j < length g -> firstn j (removelast g) = firstn j g.
Proof.
  intros A j g H. destruct (exists_last (l := g)) as (g' & x & ->).
  - intro E; subst; simpl in H; lia.
  - rewrite removelast_last. rewrite app_length in H; simpl in H.
    rewrite firstn_app. replace (j - length g') with 0 by lia. simpl. now rewrite app_nil_r.
Qed.

Lemma pop_while_lv : forall t j (g : list str) fuel,
  1 <= j -> j <= t -> length g = t -> t - j < fuel ->
  pop_while fuel (2 * j) (lv t) g = Some (lv j, firstn j g).
Proof.
  induction t as [|t IH]; intros j g fuel Hj Ht Hg Hf; [lia|].
  destruct fuel as [|fuel]; [lia|].
  cbn [pop_while]. rewrite (match_nonnil _ _ _ (lv_nonnil t)), last_lv.
  destruct (Nat.eq_dec j (S t)) as [->|Hne].
  - rewrite Nat.ltb_irrefl. f_equal. f_equal. rewrite <- Hg. symmetry. apply firstn_all.
  - assert (L : (2 * j <? 2 * S t) = true) by (apply Nat.ltb_lt; lia). rewrite L.
    destruct g as [|x g]; [simpl in Hg; lia|].
    rewrite removelast_lv. rewrite IH; try lia.
    + f_equal. f_equal. apply firstn_removelast. simpl in *. lia.
    + destruct (exists_last (l := x :: g)) as (g' & y & E); [discriminate|].
      rewrite E, removelast_last. rewrite E, app_length in Hg. simpl in Hg. lia.
Qed.

Lemma parse_line_spec : forall st line j n v, line_spec line j n v ->
  parse_line st line =
    if 0 <? 2 * j then
      match (match p_levels st with
             | [] => Some ([2 * j], p_groups st)
             | _ => if last (p_levels st) 0 <? 2 * j then Some (p_levels st ++ [2 * j], p_groups st)
                    else pop_while (S (length (p_levels st))) (2 * j) (p_levels st) (p_groups st)
             end) with
      | None => None
      | Some (l, g) =>
        if negb (length l =? length g) then None
        else if is_nil v then Some (mkP (g ++ [n]) l (p_dict st))
        else Some (mkP g l (dict_set (join_key g n) v (p_dict st)))
      end
    else
      if negb (length (p_groups st) =? length (p_levels st)) then None
      else if is_nil v then Some (mkP [n] [] (p_dict st))
      else Some (mkP [] [] (dict_set n v (p_dict st))).
Proof.
  intros st line j n v (H1 & H2 & H3 & H4). unfold parse_line. rewrite H1, H2, H4, H3. reflexivity.
Qed.

(* state after a value line at level |T| *)
Definition st_val (T : list str) (d : dict) : pstate := mkP T (lv (length T)) d.

Lemma step_from_val : forall T d line j n v, line_spec line j n v -> j <= length T ->
  parse_line (st_val T d) line =
    Some (if is_nil v then mkP (firstn j T ++ [n]) (lv j) d
          else mkP (firstn j T) (lv j) (dict_set (join_key (firstn j T) n) v d)).
Proof.
  intros T d line j n v LS Hj. rewrite (parse_line_spec _ _ _ _ _ LS). unfold st_val. cbn [p_levels p_groups p_dict].
  destruct j as [|j].
  - change (2 * 0) with 0. change (0 <? 0) with false. cbv iota.
    rewrite lv_length, Nat.eqb_refl. destruct v; reflexivity.
  - assert (P : (0 <? 2 * S j) = true) by (apply Nat.ltb_lt; lia). rewrite P.
    destruct (length T) as [|t] eqn:ET; [lia|].
    rewrite (match_nonnil _ _ _ (lv_nonnil t)), last_lv.
    assert (L : (2 * S t <? 2 * S j) = false) by (apply Nat.ltb_ge; lia). rewrite L.
    rewrite lv_length.
    rewrite (pop_while_lv (S t) (S j) T); try lia.
    rewrite lv_length, firstn_length, ET, Nat.min_l by lia. rewrite Nat.eqb_refl. destruct v; reflexivity.
Qed.

Lemma step_from_hdr : forall P d line n v, line_spec line (length P) n v -> P <> [] ->
  parse_line (mkP P (lv (length P - 1)) d) line =
    Some (if is_nil v then mkP (P ++ [n]) (lv (length P)) d
          else mkP P (lv (length P)) (dict_set (join_key P n) v d)).
Proof.
  intros P d line n v LS HP. rewrite (parse_line_spec _ _ _ _ _ LS). cbn [p_levels p_groups p_dict].
  destruct (length P) as [|j] eqn:EP; [destruct P; [contradiction|discriminate]|].
  assert (Q : (0 <? 2 * S j) = true) by (apply Nat.ltb_lt; lia). rewrite Q.
  replace (S j - 1) with j by lia.
  destruct j as [|j].
  - cbn [lv seq map]. cbn [length]. rewrite EP. destruct v; reflexivity.
  - rewrite (match_nonnil _ _ _ (lv_nonnil j)), last_lv.
    assert (L : (2 * S j <? 2 * S (S j)) = true) by (apply Nat.ltb_lt; lia). rewrite L.
    rewrite <- lv_S. rewrite lv_length, EP, Nat.eqb_refl. destruct v; reflexivity.
Qed.

(* header lines for the names ns below the groups P, then one value line *)
Lemma headers_then_value_from_hdr : forall ns P d vl name v rest,
  P <> [] -> Forall wf_name ns ->
  line_spec vl (length P + length ns) name v -> v <> [] ->
  parse_lines (mkP P (lv (length P - 1)) d) (headers (length P) ns ++ vl :: rest) =
  parse_lines (st_val (P ++ ns) (dict_set (join_key (P ++ ns) name) v d)) rest.
Proof.
  induction ns as [|n ns IH]; intros P d vl name v rest HP W LS Hv.
  - cbn [headers app length]. rewrite Nat.add_0_r in LS.
    cbn [parse_lines]. rewrite (step_from_hdr _ _ _ _ _ LS HP).
    destruct v; [contradiction|]. cbn [is_nil]. rewrite app_nil_r. reflexivity.
  - cbn [headers]. rewrite <- app_comm_cons. cbn [parse_lines].
    inversion W as [|? ? Wn Wns]; subst.
    rewrite (step_from_hdr P d _ n [] (header_line_spec _ _ Wn) HP). cbn [is_nil].
    specialize (IH (P ++ [n]) d vl name v rest).
    rewrite app_length in IH. cbn [length] in IH.
    replace (length P + 1 - 1) with (length P) in IH by lia.
    replace (length P + 1) with (S (length P)) in IH by lia.
    rewrite <- app_assoc in IH. cbn [app] in IH. apply IH; auto.
    + now destruct P.
    + cbn [length] in LS. replace (S (length P) + length ns) with (length P + S (length ns)) by lia. exact LS.
Qed.

Lemma headers_then_value_from_val : forall ns T i d vl name v rest,
  i <= length T -> Forall wf_name ns ->
  line_spec vl (i + length ns) name v -> v <> [] ->
  parse_lines (st_val T d) (headers i ns ++ vl :: rest) =
  parse_lines (st_val (firstn i T ++ ns) (dict_set (join_key (firstn i T ++ ns) name) v d)) rest.
Proof.
  intros ns T i d vl name v rest Hi W LS Hv.
  destruct ns as [|n ns].
  - cbn [headers app length] in *. rewrite Nat.add_0_r in LS. cbn [parse_lines].
    rewrite (step_from_val _ _ _ _ _ _ LS Hi). destruct v; [contradiction|]. cbn [is_nil].
    rewrite app_nil_r. unfold st_val. rewrite firstn_length, Nat.min_l by lia. reflexivity.
  - cbn [headers]. rewrite <- app_comm_cons. cbn [parse_lines].
    inversion W as [|? ? Wn Wns]; subst.
    rewrite (step_from_val T d _ i n [] (header_line_spec _ _ Wn) Hi). cbn [is_nil].
    pose proof (headers_then_value_from_hdr ns (firstn i T ++ [n]) d vl name v rest) as H.
    rewrite app_length, firstn_length, Nat.min_l in H by lia. cbn [length] in H.
    replace (i + 1 - 1) with i in H by lia. replace (i + 1) with (S i) in H by lia.
    rewrite <- app_assoc in H. cbn [app] in H. apply H; auto.
    + now destruct (firstn i T).
    + cbn [length] in LS. replace (S i + length ns) with (i + S (length ns)) by lia. exact LS.
Qed.

(* ------------------------------------------------------------------------
   E. the printer *)
Definition joinG (g : list str) : str := concat (map (fun x => x ++ [cCOLON]) g).

Lemma join_key_cons : forall x g n, join_key (x :: g) n = x ++ cCOLON :: join_key g n.
Proof. intros. unfold join_key. cbn [map concat]. repeat rewrite <- app_assoc. reflexivity. Qed.

Lemma join_key_app : forall q g n, join_key (q ++ g) n = joinG q ++ join_key g n.
Proof.
  induction q as [|x q IH]; intros g n; [reflexivity|].
  cbn [app]. rewrite join_key_cons, IH. unfold joinG. cbn [map concat]. repeat rewrite <- app_assoc. reflexivity.
Qed.

Lemma split_key_nocolon : forall n, no_char cCOLON n -> split_key n = ([], n).
Proof.
  induction n as [|c n IH]; intro H; [reflexivity|].
  cbn [split_key]. rewrite IH by (intro Hin; apply H; now right).
  destruct (ceq c cCOLON) eqn:E; [|reflexivity].
  apply ceq_true in E. subst. exfalso. apply H. now left.
Qed.

Lemma split_key_comp : forall x rest, no_char cCOLON x ->
  split_key (x ++ cCOLON :: rest) = (x :: fst (split_key rest), snd (split_key rest)).
Proof.
  induction x as [|c x IH]; intros rest H.
  - cbn [app split_key]. destruct (split_key rest). reflexivity.
  - cbn [app split_key]. rewrite IH by (intro Hin; apply H; now right). cbn [fst snd].
    destruct (ceq c cCOLON) eqn:E; [|reflexivity].
    apply ceq_true in E. subst. exfalso. apply H. now left.
Qed.

Lemma split_key_join : forall g n, Forall (no_char cCOLON) g -> no_char cCOLON n ->
  split_key (join_key g n) = (g, n).
Proof.
  induction g as [|x g IH]; intros n Hg Hn.
  - apply split_key_nocolon. exact Hn.
  - inversion Hg; subst. rewrite join_key_cons, split_key_comp by assumption. now rewrite IH.
Qed.

(* colon-free components are determined by the joined key *)
Lemma app_colon_inj : forall x y r1 r2, no_char cCOLON x -> no_char cCOLON y ->
  x ++ cCOLON :: r1 = y ++ cCOLON :: r2 -> x = y /\ r1 = r2.
Proof.
  induction x as [|a x IH]; intros [|b y] r1 r2 Hx Hy E; cbn [app] in E.
  - injection E as ->. auto.
  - injection E as <- _. exfalso. apply Hy. now left.
  - injection E as -> _. exfalso. apply Hx. now left.
  - injection E as -> E. destruct (IH y r1 r2) as [-> ->]; auto.
    + intro Hin; apply Hx; now right.
    + intro Hin; apply Hy; now right.
Qed.

Lemma join_prefix_inv : forall q g n r, Forall (no_char cCOLON) q -> Forall (no_char cCOLON) g -> no_char cCOLON n ->
  join_key g n = joinG q ++ r -> firstn (length q) g = q.
Proof.
  induction q as [|x q IH]; intros g n r Hq Hg Hn E; [reflexivity|].
  inversion Hq; subst.
  assert (E2 : join_key g n = x ++ cCOLON :: (joinG q ++ r)).
  { rewrite E. unfold joinG. cbn [map concat]. repeat rewrite <- app_assoc. reflexivity. }
  clear E. destruct g as [|y g].
  - exfalso. change (join_key [] n) with n in E2. apply Hn. rewrite E2. apply in_or_app. right. now left.
  - inversion Hg; subst. rewrite join_key_cons in E2.
    destruct (app_colon_inj _ _ _ _ H3 H1 E2) as [-> E']. cbn [length firstn]. f_equal. apply (IH g n r); assumption.
Qed.

(* the three pop loops in closed form *)
Lemma erase_to_firstn : forall fuel n k (G : list str), k <= length G -> k <= fuel ->
  erase_to fuel n (firstn k G) = firstn (Nat.min n k) G.
Proof.
  induction fuel as [|fuel IH]; intros n k G Hk Hf.
  - assert (k = 0) by lia. subst. cbn [erase_to firstn]. now rewrite Nat.min_0_r.
  - cbn [erase_to]. rewrite firstn_length, (Nat.min_l k) by lia.
    destruct (n <? k) eqn:E.
    + apply Nat.ltb_lt in E. destruct k as [|k]; [lia|].
      rewrite removelast_firstn by lia. rewrite IH by lia. f_equal. lia.
    + apply Nat.ltb_ge in E. f_equal. lia.
Qed.

Lemma pop_fixed_firstn : forall fuel j n k (G : list str), k <= length G -> n - j <= k -> n - j <= fuel ->
  pop_loop_fixed fuel j n (firstn k G) = firstn (k - (n - j)) G.
Proof.
  induction fuel as [|fuel IH]; intros j n k G Hk Hn Hf.
  - cbn [pop_loop_fixed]. f_equal. lia.
  - cbn [pop_loop_fixed]. destruct (j <? n) eqn:E.
    + apply Nat.ltb_lt in E. destruct k as [|k]; [lia|].
      rewrite removelast_firstn by lia. rewrite IH by lia. f_equal. lia.
    + apply Nat.ltb_ge in E. f_equal. lia.
Qed.

(* the shrinking-bound loop removes some, not necessarily all, of the entries above j *)
Lemma pop_shrinking_firstn : forall fuel j k (G : list str), k <= length G -> k <= fuel ->
  exists m, pop_loop_shrinking fuel j (firstn k G) = firstn m G /\ m <= k /\ (j <= k -> j <= m) /\ (k <= j -> m = k).
Proof.
  induction fuel as [|fuel IH]; intros j k G Hk Hf.
  - exists k. cbn [pop_loop_shrinking]. repeat split; auto; lia.
  - cbn [pop_loop_shrinking]. rewrite firstn_length, (Nat.min_l k) by lia.
    destruct (j <? k) eqn:E.
    + apply Nat.ltb_lt in E. destruct k as [|k]; [lia|].
      rewrite removelast_firstn by lia.
      destruct (IH (S j) k G) as (m & E1 & E2 & E3 & E4); try lia.
      exists m. split; [exact E1|]. lia.
    + apply Nat.ltb_ge in E. exists k. repeat split; auto; lia.
Qed.

Lemma common_spec : forall b (G g : list str), b <= length G -> b <= length g ->
  let i := common b G g in
  i <= b /\ firstn i G = firstn i g /\ (i < b -> nth i G [] <> nth i g []).
Proof.
  induction b as [|b IH]; intros G g HG Hg; cbn zeta.
  - cbn [common]. split; [lia|]. split; [reflexivity|]. lia.
  - destruct G as [|x G]; [simpl in HG; lia|]. destruct g as [|y g]; [simpl in Hg; lia|].
    cbn [common]. destruct (str_eqb x y) eqn:E.
    + apply str_eqb_eq in E. subst. cbn [length] in HG, Hg.
      destruct (IH G g) as (I1 & I2 & I3); try lia.
      split; [lia|]. split; [cbn [firstn]; now f_equal|].
      intro H. cbn [nth]. apply I3. lia.
    + apply str_eqb_neq in E. split; [lia|]. split; [reflexivity|]. intros _. exact E.
Qed.

(* one printer iteration: headers from level i on, value line at level |g| *)
Lemma print_entry_spec : forall used G g n v, Forall (no_char cCOLON) g -> no_char cCOLON n ->
  exists i G',
    print_entry used G (join_key g n, v) =
      (G', headers i (skipn i g) ++ [indent (length g) ++ n ++ [cCOLON; cSP] ++ value_text used (join_key g n) v]) /\
    i <= length g /\ i <= length G /\ firstn i G = firstn i g /\
    (G' = g \/ exists m, G' = firstn m G ++ skipn i g /\ i < m /\ m <= length G /\ i < length g /\ nth i G [] <> nth i g []).
Proof.
  intros used G g n v Hg Hn. unfold print_entry. rewrite (split_key_join g n Hg Hn).
  destruct (length G <? length g) eqn:E.
  - apply Nat.ltb_lt in E.
    destruct (common_spec (length G) G g) as (C1 & C2 & C3); try lia.
    set (i := common (length G) G g) in *.
    destruct (pop_shrinking_firstn (length G) i (length G) G) as (m & P1 & P2 & P3 & P4); try lia.
    rewrite firstn_all in P1. rewrite P1.
    exists i, (firstn m G ++ skipn i g). split; [reflexivity|]. repeat split; try lia; try assumption.
    destruct (Nat.eq_dec m i) as [->|Hne].
    + left. rewrite C2. apply firstn_skipn.
    + right. exists m. specialize (P3 C1). repeat split; try lia. apply C3. lia.
  - apply Nat.ltb_ge in E.
    pose proof (erase_to_firstn (length G) (length g) (length G) G (le_n _) (le_n _)) as R.
    rewrite firstn_all in R. rewrite R, Nat.min_l by lia.
    destruct (common_spec (length g) (firstn (length g) G) g) as (C1 & C2 & C3); try (rewrite firstn_length); try lia.
    set (i := common (length g) (firstn (length g) G) g) in *.
    rewrite pop_fixed_firstn by lia.
    replace (length g - (length g - i)) with i by lia.
    rewrite firstn_firstn, Nat.min_l in C2 by lia.
    exists i, (firstn i G ++ skipn i g). split; [reflexivity|]. repeat split; try lia; try assumption.
    left. rewrite C2. apply firstn_skipn.
Qed.

(* ------------------------------------------------------------------------
   F. parse (print d) = d *)
Definition entry := (list str * str * str)%type.          (* groups, name, value *)
Definition e_groups (e : entry) : list str := fst (fst e).
Definition e_name (e : entry) : str := snd (fst e).
Definition e_val (e : entry) : str := snd e.
Definition e_key (e : entry) : str := join_key (e_groups e) (e_name e).
Definition dict_of (es : list entry) : dict := map (fun e => (e_key e, e_val e)) es.

Definition wf_entry (e : entry) : Prop :=
  Forall wf_name (e_groups e) /\ wf_name (e_name e) /\ wf_value (e_val e).
Definition key_lt (a b : entry) : Prop := str_ltb (e_key a) (e_key b) = true.
(* the content of a std::map whose keys are well-formed: strictly sorted by operator< on the joined key *)
Definition wf_entries (es : list entry) : Prop := Forall wf_entry es /\ StronglySorted key_lt es.

Definition used_val (u : dict) (k : str) : str := match dict_get k u with Some x => x | None => not_used end.
Definition out_val (used : option dict) (e : entry) : str :=
  match used with None => e_val e | Some u => used_val u (e_key e) end.
Definition out_dict (used : option dict) (es : list entry) : dict := map (fun e => (e_key e, out_val used e)) es.

Lemma wf_name_nocolon : forall n, wf_name n -> no_char cCOLON n.
Proof. intros n (_ & _ & H & _). exact H. Qed.

Lemma wf_names_nocolon : forall g, Forall wf_name g -> Forall (no_char cCOLON) g.
Proof. intros g H. eapply Forall_impl; [|exact H]. apply wf_name_nocolon. Qed.

Lemma value_text_tail : forall used e,
  exists tail, value_text used (e_key e) (e_val e) = out_val used e ++ tail /\ (tail = [] \/ exists t, tail = cSP :: cHASH :: t).
Proof.
  intros [u|] e; cbn [value_text out_val].
  - eexists. split; [reflexivity|]. right. unfold used_val. eexists. reflexivity.
  - exists []. split; [now rewrite app_nil_r|now left].
Qed.

Lemma firstn_S_nth : forall i (a b : list str), firstn (S i) a = firstn (S i) b -> i < length a -> nth i a [] = nth i b [].
Proof.
  induction i as [|i IH]; intros [|x a] [|y b] E H; cbn [length] in H; try lia; cbn [firstn] in E; try discriminate.
  - now injection E.
  - injection E as -> E. cbn [nth]. apply IH; [exact E|lia].
Qed.

Lemma firstn_le_eq : forall {A} c i (a b : list A), c <= i -> firstn i a = firstn i b -> firstn c a = firstn c b.
Proof.
  intros A c i a b H E. rewrite <- (Nat.min_l c i H), <- !firstn_firstn. now rewrite E.
Qed.

Lemma In_firstn : forall {A} n (l : list A) x, In x (firstn n l) -> In x l.
Proof. intros A n l x H. rewrite <- (firstn_skipn n l). apply in_or_app. now left. Qed.

Lemma In_skipn : forall {A} n (l : list A) x, In x (skipn n l) -> In x l.
Proof. intros A n l x H. rewrite <- (firstn_skipn n l). apply in_or_app. now right. Qed.

(* any common prefix of the printer's stack G and the groups of a future key is a prefix of the
   true current path T (the groups of the key printed last): stale entries never match again *)
Definition inv (G T : list str) (es : list entry) : Prop :=
  forall e i, In e es -> i <= length G -> i <= length (e_groups e) -> firstn i G = firstn i (e_groups e) ->
    i <= length T /\ firstn i T = firstn i (e_groups e).

Definition prev_groups (prev : option entry) : list str := match prev with Some p => e_groups p | None => [] end.

Lemma inv_step : forall prev e es G G' i,
  (match prev with Some p => Forall (no_char cCOLON) (e_groups p) /\ no_char cCOLON (e_name p) | None => True end) ->
  Forall wf_entry (e :: es) ->
  StronglySorted key_lt (match prev with Some p => p :: e :: es | None => e :: es end) ->
  inv G (prev_groups prev) (e :: es) ->
  i <= length (e_groups e) -> i <= length G -> firstn i G = firstn i (e_groups e) ->
  (G' = e_groups e \/ exists m, G' = firstn m G ++ skipn i (e_groups e) /\ i < m /\ m <= length G /\ i < length (e_groups e) /\
                                nth i G [] <> nth i (e_groups e) []) ->
  inv G' (e_groups e) es.
Proof.
  intros prev e es G G' i Hprev W Srt I Hi HiG Hpre [->|(m & -> & Him & HmG & Hig & Hneq)].
  - intros e2 c _ Hc _ Hf. auto.
  - intros e2 c Hin HcG Hc2 Hf.
    set (g := e_groups e) in *. set (g2 := e_groups e2) in *.
    destruct (Nat.le_gt_cases c i) as [Hci|Hci].
    + split; [lia|].
      rewrite firstn_app, firstn_firstn, (Nat.min_l c m), firstn_length, (Nat.min_l m (length G)) in Hf by lia.
      replace (c - m) with 0 in Hf by lia. cbn [firstn] in Hf. rewrite app_nil_r in Hf.
      rewrite <- Hf. symmetry. apply (firstn_le_eq c i); assumption.
    + exfalso.
      assert (F1 : firstn (S i) G = firstn (S i) g2).
      { apply (firstn_le_eq (S i) c) in Hf; [|lia].
        rewrite firstn_app, firstn_firstn, (Nat.min_l (S i) m), firstn_length, (Nat.min_l m (length G)) in Hf by lia.
        replace (S i - m) with 0 in Hf by lia. cbn [firstn] in Hf. now rewrite app_nil_r in Hf. }
      assert (Hs2 : S i <= length g2) by lia.
      destruct (I e2 (S i)) as [HT FT]; [now right|lia|exact Hs2|exact F1|].
      destruct prev as [p|]; [|cbn [prev_groups length] in HT; lia].
      cbn [prev_groups] in HT, FT. destruct Hprev as [Hp1 Hp2].
      set (Q := firstn (S i) g2) in *.
      assert (LQ : length Q = S i) by (unfold Q; rewrite firstn_length; lia).
      (* keys of p and e2 start with joinG Q *)
      assert (Kp : e_key p = joinG Q ++ join_key (skipn (S i) (e_groups p)) (e_name p)).
      { unfold e_key. rewrite <- (firstn_skipn (S i) (e_groups p)) at 1. rewrite FT. apply join_key_app. }
      assert (K2 : e_key e2 = joinG Q ++ join_key (skipn (S i) g2) (e_name e2)).
      { unfold e_key. fold g2. rewrite <- (firstn_skipn (S i) g2) at 1. apply join_key_app. }
      (* order: p < e < e2 *)
      apply StronglySorted_inv in Srt as [S1 S2]. apply StronglySorted_inv in S1 as [S3 S4].
      assert (L1 : key_lt p e) by (inversion S2; assumption).
      assert (L2 : key_lt e e2) by (rewrite Forall_forall in S4; now apply S4).
      unfold key_lt in L1, L2. rewrite Kp in L1. rewrite K2 in L2.
      destruct (lt_prefix_mid _ _ _ _ L1 L2) as [r Hr].
      assert (We : wf_entry e) by (inversion W; assumption).
      assert (W2 : wf_entry e2) by (rewrite Forall_forall in W; apply W; now right).
      destruct We as (We1 & We2 & _). destruct W2 as (W21 & _ & _).
      assert (F2 : firstn (length Q) g = Q).
      { apply (join_prefix_inv Q g (e_name e) r); auto using wf_names_nocolon, wf_name_nocolon.
        unfold Q. apply wf_names_nocolon. apply Forall_forall. intros x Hx. rewrite Forall_forall in W21. apply W21.
        eapply In_firstn; exact Hx. }
      rewrite LQ in F2. apply Hneq.
      apply firstn_S_nth; [|lia]. rewrite F1. symmetry. exact F2.
Qed.

Lemma wf_value_nonnil : forall v, wf_value v -> v <> [].
Proof. intros v (H & _). now apply first_ok_nonnil. Qed.

Lemma roundtrip_main : forall used es prev G d0,
  Forall wf_entry es -> Forall (fun e => wf_value (out_val used e)) es ->
  (match prev with Some p => Forall (no_char cCOLON) (e_groups p) /\ no_char cCOLON (e_name p) | None => True end) ->
  StronglySorted key_lt (match prev with Some p => p :: es | None => es end) ->
  inv G (prev_groups prev) es ->
  (forall kv e, In kv d0 -> In e es -> str_ltb (fst kv) (e_key e) = true) ->
  exists T', parse_lines (st_val (prev_groups prev) d0) (print_from used G (dict_of es)) =
             Some (st_val T' (d0 ++ out_dict used es)).
Proof.
  intros used es. induction es as [|e es IH]; intros prev G d0 W WV Hprev Srt I Hd.
  - exists (prev_groups prev). cbn. now rewrite app_nil_r.
  - set (g := e_groups e). set (n := e_name e).
    assert (We : wf_entry e) by (inversion W; assumption).
    assert (Wes : Forall wf_entry es) by (inversion W; assumption).
    destruct We as (Wg & Wn & Wv).
    destruct (print_entry_spec used G g n (e_val e) (wf_names_nocolon _ Wg) (wf_name_nocolon _ Wn))
      as (i & G' & PE & Hig & HiG & Hpre & HG').
    change (dict_of (e :: es)) with ((join_key g n, e_val e) :: dict_of es).
    cbn [print_from]. rewrite PE. rewrite <- app_assoc. cbn [app].
    destruct (I e i) as [HiT FT]; [now left|assumption|assumption|assumption|].
    destruct (value_text_tail used e) as (tail & VT & Htail).
    fold g n in VT. change (e_key e) with (join_key g n) in VT. rewrite VT.
    assert (WVe : wf_value (out_val used e)) by (inversion WV; assumption).
    assert (LS : line_spec (indent (length g) ++ n ++ [cCOLON; cSP] ++ out_val used e ++ tail)
                           (i + length (skipn i g)) n (out_val used e)).
    { rewrite skipn_length. replace (i + (length g - i)) with (length g) by lia.
      apply value_line_spec; assumption. }
    rewrite (headers_then_value_from_val (skipn i g) (prev_groups prev) i d0 _ n (out_val used e)); try assumption.
    2:{ apply Forall_forall. intros x Hx. rewrite Forall_forall in Wg. apply Wg. eapply In_skipn; exact Hx. }
    2:{ now apply wf_value_nonnil. }
    rewrite FT, firstn_skipn.
    rewrite dict_set_append.
    2:{ intros kv Hkv. apply (Hd kv e Hkv). now left. }
    destruct (IH (Some e) G' (d0 ++ [(join_key g n, out_val used e)])) as [T' HT'].
    + exact Wes.
    + inversion WV; assumption.
    + split; [apply wf_names_nocolon; exact Wg | apply wf_name_nocolon; exact Wn].
    + destruct prev; [apply StronglySorted_inv in Srt as [S1 _]; exact S1 | exact Srt].
    + cbn [prev_groups]. apply (inv_step prev e es G G' i); assumption.
    + intros kv e2 Hkv He2. apply in_app_or in Hkv as [Hkv|[<-|[]]].
      * apply (Hd kv e2 Hkv). now right.
      * cbn [fst].
        assert (S2 : StronglySorted key_lt (e :: es)) by (destruct prev; [apply StronglySorted_inv in Srt as [S1 _]; exact S1 | exact Srt]).
        apply StronglySorted_inv in S2 as [_ S3]. rewrite Forall_forall in S3. apply (S3 e2 He2).
    + exists T'. cbn [prev_groups] in HT'. rewrite <- app_assoc in HT'. exact HT'.
Qed.

Lemma inv_nil : forall T es, inv [] T es.
Proof.
  intros T es e i _ Hi _ _. cbn [length] in Hi. assert (i = 0) by lia. subst. split; [lia|reflexivity].
Qed.

(* (i) parse (print d) = d for every well-formed dictionary, every nesting depth *)
Theorem parse_print_roundtrip : forall es, wf_entries es -> parse (print (dict_of es)) = Some (dict_of es).
Proof.
  intros es [W S]. unfold parse, print.
  assert (WV : Forall (fun e => wf_value (out_val None e)) es).
  { eapply Forall_impl; [|exact W]. intros e (_ & _ & V). exact V. }
  destruct (roundtrip_main None es None [] [] W WV I S (inv_nil _ _)) as [T' H].
  { intros kv e []. }
  change (mkP [] [] []) with (st_val (prev_groups None) []). rewrite H. reflexivity.
Qed.

(* used-values dump: re-parses to the same keys with the used values *)
Theorem used_values_reparse : forall u es, wf_entries es ->
  Forall (fun e => wf_value (used_val u (e_key e))) es ->
  parse (print_used u (dict_of es)) = Some (used_dict u (dict_of es)).
Proof.
  intros u es [W S] WV. unfold parse, print_used.
  destruct (roundtrip_main (Some u) es None [] [] W WV I S (inv_nil _ _)) as [T' H].
  { intros kv e []. }
  change (mkP [] [] []) with (st_val (prev_groups None) []). rewrite H. cbn [app st_val p_dict].
  f_equal. unfold out_dict, used_dict, dict_of. rewrite map_map. reflexivity.
Qed.

(* text level: getline splitting inverts the '\n'-joined output *)
Lemma getlines_line : forall l rest, no_char cNL l -> getlines (l ++ cNL :: rest) = l :: getlines rest.
Proof.
  induction l as [|c l IH]; intros rest H.
  - reflexivity.
  - cbn [app getlines]. destruct (ceq c cNL) eqn:E.
    + apply ceq_true in E. subst. exfalso. apply H. now left.
    + rewrite IH; [reflexivity|]. intro Hin. apply H. now right.
Qed.

Lemma getlines_unlines : forall ls, Forall (no_char cNL) ls -> getlines (unlines ls) = ls.
Proof.
  induction ls as [|l ls IH]; intro H; [reflexivity|].
  inversion H; subst. unfold unlines. cbn [map concat]. rewrite <- app_assoc. cbn [app].
  rewrite getlines_line by assumption. f_equal. now apply IH.
Qed.

Lemma no_nl_headers : forall ns i, Forall (no_char cNL) ns -> Forall (no_char cNL) (headers i ns).
Proof.
  induction ns as [|n ns IH]; intros i H; cbn [headers]; [constructor|].
  inversion H; subst. constructor; [|now apply IH].
  apply no_char_app. split; [apply no_char_indent; discriminate|].
  apply no_char_app. split; [assumption|]. intros [E|[]]. discriminate.
Qed.

Lemma wf_name_nonl : forall n, wf_name n -> no_char cNL n.
Proof. intros n (_ & _ & _ & _ & H). exact H. Qed.

Lemma print_from_nonl : forall es G, Forall wf_entry es -> Forall (no_char cNL) (print_from None G (dict_of es)).
Proof.
  induction es as [|e es IH]; intros G W; [constructor|].
  inversion W as [|? ? (Wg & Wn & Wv) Wes]; subst.
  destruct (print_entry_spec None G (e_groups e) (e_name e) (e_val e) (wf_names_nocolon _ Wg) (wf_name_nocolon _ Wn))
    as (i & G' & PE & _).
  change (dict_of (e :: es)) with ((join_key (e_groups e) (e_name e), e_val e) :: dict_of es).
  cbn [print_from]. rewrite PE. apply Forall_app. split; [|now apply IH].
  apply Forall_app. split.
  - apply no_nl_headers. apply Forall_forall. intros x Hx. apply wf_name_nonl.
    rewrite Forall_forall in Wg. apply Wg. eapply In_skipn; exact Hx.
  - constructor; [|constructor]. cbn [value_text].
    apply no_char_app. split; [apply no_char_indent; discriminate|].
    apply no_char_app. split; [now apply wf_name_nonl|].
    apply no_char_app. split; [intros [E|[E|[]]]; discriminate|].
    destruct Wv as (_ & _ & _ & H). exact H.
Qed.

Theorem parse_print_roundtrip_text : forall es, wf_entries es ->
  parse_text (print_text (dict_of es)) = Some (dict_of es).
Proof.
  intros es W. unfold parse_text, print_text.
  rewrite getlines_unlines; [now apply parse_print_roundtrip|].
  apply print_from_nonl. apply W.
Qed.

(* the hypotheses are satisfiable; this dictionary makes the printer's pop loop leave a stale
   entry (DESIGN O3): groups a:b:c, then a:d:e:f (one of the two entries b,c is popped only) *)
From Coq Require String.
Import String.StringSyntax.
Definition S_ (s : String.string) : str := String.list_ascii_of_string s.
Definition o3_entries : list entry :=
  [([S_ "a"; S_ "b"; S_ "c"], S_ "x", S_ "1"); ([S_ "a"; S_ "d"; S_ "e"; S_ "f"], S_ "y", S_ "2 kpc");
   ([S_ "a"; S_ "d"; S_ "e"; S_ "f"], S_ "z", S_ "[1 m, 2 m, 3 m]"); ([], S_ "q", S_ "true")]%string.

Ltac solve_wf_str := repeat split; try reflexivity; try (cbv; intuition discriminate).

Example o3_entries_wf : wf_entries o3_entries.
Proof.
  split.
  - repeat constructor; solve_wf_str.
  - repeat constructor.
Qed.

Example o3_stale_stack :
  fst (print_entry None [S_ "a"; S_ "b"; S_ "c"]%string (e_key (nth 1 o3_entries ([], [], [])), []))
  = [S_ "a"; S_ "b"; S_ "d"; S_ "e"; S_ "f"]%string.
Proof. reflexivity. Qed.

Example o3_headers_repeated :
  map String.string_of_list_ascii (print (dict_of o3_entries)) =
  ["a:"; "  b:"; "    c:"; "      x: 1"; "  d:"; "    e:"; "      f:"; "        y: 2 kpc";
   "  d:"; "    e:"; "      f:"; "        z: [1 m, 2 m, 3 m]"; "q: true"]%string.
Proof. reflexivity. Qed.

(* small-scope exhaustive check of the executable model (independent of the proof above):
   all dictionaries with <= 3 keys out of the 30 keys of depth 1..4 over two names *)
Fixpoint paths (names : list str) (depth : nat) : list (list str) :=
  match depth with
  | O => []
  | S d => map (fun n => [n]) names ++ flat_map (fun p => map (fun n => n :: p) names) (paths names d)
  end.
Fixpoint join_path (p : list str) : str :=
  match p with [] => [] | [n] => n | n :: r => n ++ [cCOLON] ++ join_path r end.
Fixpoint insert_sorted (k : str) (l : list str) : list str :=
  match l with [] => [k] | x :: r => if str_ltb k x then k :: l else x :: insert_sorted k r end.
Definition sorted_keys (names : list str) (depth : nat) : list str :=
  fold_right insert_sorted [] (map join_path (paths names depth)).
Definition dict_eqb (a b : dict) : bool :=
  (length a =? length b) && forallb (fun p => str_eqb (fst (fst p)) (fst (snd p)) && str_eqb (snd (fst p)) (snd (snd p))) (combine a b).
Definition rt_ok (ks : list str) : bool :=
  let d := map (fun k => (k, S_ "v"%string)) ks in
  match parse_text (print_text d) with Some d' => dict_eqb d d' | None => false end.
Fixpoint all_sub (l : list str) (n : nat) (pre : list str) : bool :=
  match l with
  | [] => rt_ok (rev pre)
  | x :: r => match n with
              | O => rt_ok (rev pre)
              | S m => all_sub r m (x :: pre) && all_sub r n pre
              end
  end.

Lemma small_scope_roundtrip : all_sub (sorted_keys [S_ "a"; S_ "b!"]%string 4) 3 [] = true.
Proof. vm_compute. reflexivity. Qed.

(* ------------------------------------------------------------------------
   G. unit algebra over R (Unit.hpp operators with exact arithmetic) *)
From Coq Require Import Reals Lra.
Section UnitsR.
Local Open Scope R_scope.

Definition Rumul := umul R Rmult.
Definition Rupow (pinned : bool) := upow R Rmult Rdiv 1 pinned.
Definition Rto_si := to_si_val R Rmult.
Definition Rfrom_si := from_si_val R Rdiv.

Theorem unit_si_roundtrip : forall (u : unit_ R) x, uval u <> 0 ->
  Rfrom_si u (Rto_si u x) = x /\ Rto_si u (Rfrom_si u x) = x.
Proof. intros u x H. unfold Rfrom_si, Rto_si, from_si_val, to_si_val. split; field; exact H. Qed.

Theorem unit_product_converts : forall (u v : unit_ R) x, Rto_si (Rumul u v) x = Rto_si v (Rto_si u x).
Proof. intros. unfold Rto_si, Rumul, to_si_val, umul. cbn [uval]. ring. Qed.

Lemma rep_mul : forall n acc v, rep R Rmult n acc v = acc * v ^ n.
Proof. induction n as [|n IH]; intros; cbn [rep pow]; [ring|]. rewrite IH. ring. Qed.

Lemma rep_div : forall n acc v, v <> 0 -> rep R Rdiv n acc v = acc / v ^ n.
Proof.
  induction n as [|n IH]; intros acc v H; cbn [rep pow]; [field|].
  rewrite IH by assumption. field. split; [apply pow_nonzero|]; assumption.
Qed.

(* value of u^p: the p-th power for p <> 0 in both variants *)
Lemma upow_val : forall pinned (u : unit_ R) p, uval u <> 0 -> p <> 0%Z -> uval (Rupow pinned u p) = powerRZ (uval u) p.
Proof.
  intros pinned u p H Hp. unfold Rupow, upow. cbn [uval].
  assert (E0 : (if pinned then (0 <=? p)%Z else (0 <? p)%Z) = (0 <? p)%Z).
  { destruct pinned; [|reflexivity]. destruct (0 <=? p)%Z eqn:A; destruct (0 <? p)%Z eqn:B; try reflexivity;
    [apply Z.leb_le in A; apply Z.ltb_ge in B; lia | apply Z.leb_gt in A; apply Z.ltb_lt in B; lia]. }
  rewrite E0. destruct (0 <? p)%Z eqn:E.
  - apply Z.ltb_lt in E. rewrite rep_mul.
    destruct p as [|p|p]; try lia. cbn [powerRZ].
    replace (Z.to_nat (Z.pos p - 1)) with (Pos.to_nat p - 1)%nat by lia.
    destruct (Pos.to_nat p) as [|k] eqn:Ek; [lia|]. cbn [pow]. replace (S k - 1)%nat with k by lia. ring.
  - apply Z.ltb_ge in E. rewrite rep_div by assumption.
    destruct p as [|p|p]; try lia. cbn [powerRZ Z.opp].
    replace (Z.to_nat (Z.pos p)) with (Pos.to_nat p) by lia. field. apply pow_nonzero. assumption.
Qed.

(* exponent 0: the pinned code keeps the factor, the repaired code gives 1 *)
Lemma upow_val_zero_pinned : forall (u : unit_ R), uval (Rupow true u 0) = uval u.
Proof. intro u. reflexivity. Qed.

Lemma upow_val_zero_repaired : forall (u : unit_ R), uval (Rupow false u 0) = 1.
Proof. intro u. reflexivity. Qed.

Lemma upow_val_repaired : forall (u : unit_ R) p, uval u <> 0 -> uval (Rupow false u p) = powerRZ (uval u) p.
Proof.
  intros u p H. destruct (Z.eq_dec p 0) as [->|Hp]; [reflexivity|]. now apply upow_val.
Qed.

Lemma zip_add_map : forall (l : list Z) a b,
  zip_with Z.add (map (fun e => (e * a)%Z) l) (map (fun e => (e * b)%Z) l) = map (fun e => (e * (a + b))%Z) l.
Proof. induction l as [|e l IH]; intros; cbn [map zip_with]; [reflexivity|]. rewrite IH. f_equal. ring. Qed.

(* exponents add, away from exponent 0, in both variants *)
Theorem unit_pow_add : forall pinned (u : unit_ R) a b, uval u <> 0 -> a <> 0%Z -> b <> 0%Z -> (a + b <> 0)%Z ->
  Rupow pinned u (a + b) = Rumul (Rupow pinned u a) (Rupow pinned u b).
Proof.
  intros pinned u a b H Ha Hb Hab.
  assert (V : uval (Rupow pinned u (a + b)) = uval (Rupow pinned u a) * uval (Rupow pinned u b)).
  { rewrite !upow_val by assumption. apply powerRZ_add. assumption. }
  unfold Rumul, umul. rewrite <- V. unfold Rupow, upow in *. cbn [uval uexp] in *.
  rewrite zip_add_map. reflexivity.
Qed.

(* repaired code: exponents add for ALL integer exponents, and u^0 is the dimensionless unit with factor 1 *)
Theorem unit_pow_add_repaired : forall (u : unit_ R) a b, uval u <> 0 ->
  Rupow false u (a + b) = Rumul (Rupow false u a) (Rupow false u b).
Proof.
  intros u a b H.
  assert (V : uval (Rupow false u (a + b)) = uval (Rupow false u a) * uval (Rupow false u b)).
  { rewrite !upow_val_repaired by assumption. apply powerRZ_add. assumption. }
  unfold Rumul, umul. rewrite <- V. unfold Rupow, upow in *. cbn [uval uexp] in *.
  rewrite zip_add_map. reflexivity.
Qed.

Theorem unit_pow_zero_dimensionless : forall pinned (u : unit_ R), Forall (fun e => e = 0%Z) (uexp (Rupow pinned u 0)).
Proof.
  intros pinned u. unfold Rupow, upow. cbn [uexp]. apply Forall_forall. intros e He.
  apply in_map_iff in He as (x & <- & _). ring.
Qed.

Theorem unit_pow_zero_repaired : forall (u : unit_ R),
  uval (Rupow false u 0) = 1 /\ Forall (fun e => e = 0%Z) (uexp (Rupow false u 0)).
Proof. intro u. split; [reflexivity|apply unit_pow_zero_dimensionless]. Qed.

(* pinned code: "u^0 = the dimensionless unit with factor 1" is false, witness cm (factor 1/100) *)
Definition cm_R : unit_ R := mkUnit (1 / 100) [1; 0; 0; 0; 0; 0]%Z.
Theorem unit_pow_zero_refuted : exists u : unit_ R, uval u <> 0 /\ uval (Rupow true u 0) <> 1.
Proof. exists cm_R. cbn. split; lra. Qed.

(* consequently exponents do not add through 0: cm^1 * cm^-1 = 1 but cm^(1-1) = cm^0 keeps 1/100 *)
Theorem unit_pow_add_refuted : exists (u : unit_ R) a b, uval u <> 0 /\
  uval (Rupow true u (a + b)) <> uval (Rumul (Rupow true u a) (Rupow true u b)).
Proof.
  exists cm_R, 1%Z, (-1)%Z. split; [cbn; lra|].
  change (uval (Rupow true cm_R (1 + -1))) with (1 / 100).
  unfold Rumul, umul. cbn [uval]. rewrite !upow_val by (cbn; (lra || lia)).
  rewrite <- powerRZ_add by (cbn; lra). cbn. lra.
Qed.

(* compound unit strings: the value of a token list is the product of the values of its parts *)
Lemma zip_add_assoc : forall a b c, zip_with Z.add (zip_with Z.add a b) c = zip_with Z.add a (zip_with Z.add b c).
Proof.
  induction a as [|x a IH]; intros [|y b] [|z c]; cbn [zip_with]; try reflexivity. rewrite IH. f_equal. ring.
Qed.

Lemma Rumul_assoc : forall u v w, Rumul (Rumul u v) w = Rumul u (Rumul v w).
Proof. intros. unfold Rumul, umul. cbn [uval uexp]. rewrite zip_add_assoc. f_equal. ring. Qed.

Section Tokens.
  Variable single : str -> option (unit_ R).
  Variable pinned : bool.
  Local Notation ev_token := (eval_token R Rmult Rdiv 1 single pinned).
  Local Notation ev_rest := (eval_rest R Rmult Rdiv 1 single pinned).
  Local Notation ev := (eval_tokens R Rmult Rdiv 1 single pinned).

  Lemma eval_rest_mul : forall ts a b w, ev_rest b ts = Some w -> ev_rest (Rumul a b) ts = Some (Rumul a w).
  Proof.
    induction ts as [|t ts IH]; intros a b w H; cbn [eval_rest] in *.
    - injection H as <-. reflexivity.
    - destruct (ev_token t) as [u2|]; [|discriminate].
      change (umul R Rmult b u2) with (Rumul b u2) in H.
      change (umul R Rmult (Rumul a b) u2) with (Rumul (Rumul a b) u2).
      rewrite Rumul_assoc. apply IH. exact H.
  Qed.

  Lemma eval_rest_app : forall ts1 ts2 a w, ev_rest a ts1 = Some w -> ev_rest a (ts1 ++ ts2) = ev_rest w ts2.
  Proof.
    induction ts1 as [|t ts1 IH]; intros ts2 a w H; cbn [eval_rest app] in *.
    - now injection H as <-.
    - destruct (ev_token t) as [u2|]; [|discriminate]. apply IH. exact H.
  Qed.

  Theorem unit_compound_product : forall ts1 ts2 u1 u2, ev ts1 = Some u1 -> ev ts2 = Some u2 ->
    ev (ts1 ++ ts2) = Some (Rumul u1 u2).
  Proof.
    intros [|t1 ts1] [|t2 ts2] u1 u2 H1 H2; cbn [eval_tokens app] in *; try discriminate.
    destruct (ev_token t1) as [a|]; [|discriminate].
    rewrite (eval_rest_app ts1 (t2 :: ts2) a u1 H1). cbn [eval_rest].
    destruct (ev_token t2) as [b|]; [|discriminate].
    change (umul R Rmult u1 b) with (Rumul u1 b). apply eval_rest_mul. exact H2.
  Qed.
End Tokens.

(* cross-quantity conversions of try_conversion invert each other: photon energy <-> frequency
   (factor 1/h) and wavelength <-> frequency (factor c, power -1) *)
Theorem photon_energy_frequency_inverse : forall h c (ue uf : unit_ R) x,
  h <> 0 -> uval ue <> 0 -> uval uf <> 0 -> uexp ue = exps_energy -> uexp uf = exps_frequency ->
  exists y, try_conversion R Rmult Rdiv 1 h c x ue uf = Some y /\ try_conversion R Rmult Rdiv 1 h c y uf ue = Some x.
Proof.
  intros h c ue uf x Hh He Hf Ee Ef. unfold try_conversion. rewrite Ee, Ef. cbn.
  eexists. split; [reflexivity|]. f_equal. field. repeat split; assumption.
Qed.

Theorem photon_wavelength_frequency_inverse : forall h c (ul uf : unit_ R) x,
  c <> 0 -> x <> 0 -> uval ul <> 0 -> uval uf <> 0 -> uexp ul = exps_length -> uexp uf = exps_frequency ->
  exists y, try_conversion R Rmult Rdiv 1 h c x ul uf = Some y /\ try_conversion R Rmult Rdiv 1 h c y uf ul = Some x.
Proof.
  intros h c ul uf x Hc Hx Hl Hf El Ef. unfold try_conversion. rewrite El, Ef. cbn.
  eexists. split; [reflexivity|]. f_equal. field. repeat split; assumption.
Qed.
End UnitsR.

(* binary64 instance: the table agrees with itself, and the exponent-0 witness on the float model
   that is run against the real UnitConverter *)
From Coq Require Import Floats.
Lemma unit_table_consistent : table_consistent = true.
Proof. vm_compute. reflexivity. Qed.

Lemma float_pow_zero_witness :
  f_get_unit true (S_ "cm^0"%string) = Some (mkUnit 0x1.47ae147ae147bp-7%float [0; 0; 0; 0; 0; 0]%Z) /\
  f_to_SI true 12 1%float (S_ "m cm^0"%string) = Some 0x1.47ae147ae147bp-7%float.
Proof. split; vm_compute; reflexivity. Qed.

Lemma float_pow_zero_repaired :
  f_get_unit false (S_ "cm^0"%string) = Some (mkUnit 1%float [0; 0; 0; 0; 0; 0]%Z) /\
  f_to_SI false 12 1%float (S_ "m cm^0"%string) = Some 1%float.
Proof. split; vm_compute; reflexivity. Qed.

(* ------------------------------------------------------------------------
   H. snapshot reader: the index of a cell midpoint is the cell's index (over Q) *)
From Coq Require Import QArith Qround Qfield.
Local Open Scope Q_scope.

Lemma Qfloor_unique : forall (x : Q) (z : Z), inject_Z z <= x -> x < inject_Z (z + 1) -> Qfloor x = z.
Proof.
  intros x z H1 H2.
  pose proof (Qfloor_le x) as F1. pose proof (Qlt_floor x) as F2.
  assert (A : (z < Qfloor x + 1)%Z).
  { rewrite Zlt_Qlt. eapply Qle_lt_trans; [exact H1|exact F2]. }
  assert (B : (Qfloor x < z + 1)%Z).
  { rewrite Zlt_Qlt. eapply Qle_lt_trans; [exact F1|exact H2]. }
  lia.
Qed.

Lemma Qtrunc_half : forall i : Z, (0 <= i)%Z -> forall x, x == inject_Z i + (1 # 2) -> Qtrunc x = i.
Proof.
  intros i Hi x E. unfold Qtrunc.
  assert (P : 0 <= x).
  { rewrite E. apply Qle_trans with (inject_Z i); [change 0 with (inject_Z 0); rewrite <- Zle_Qle; exact Hi|].
    rewrite <- (Qplus_0_r (inject_Z i)) at 1. apply Qplus_le_r. discriminate. }
  apply Qle_bool_iff in P. rewrite P.
  apply Qfloor_unique.
  - rewrite E. rewrite <- (Qplus_0_r (inject_Z i)) at 1. apply Qplus_le_r. discriminate.
  - rewrite E. rewrite inject_Z_plus. apply Qplus_lt_r. reflexivity.
Qed.

Theorem snapshot_index_inverse : forall (n i : Z) (anchor side : Q),
  (0 <= i < n)%Z -> ~ side == 0 ->
  snap_lookup_index n anchor side (cell_mid n i anchor side) = i /\
  snap_fill_index n side (cell_mid n i anchor side - anchor) = i.
Proof.
  intros n i anchor side [Hi Hn] Hs.
  assert (Nn : ~ inject_Z n == 0).
  { intro E. unfold Qeq in E. simpl in E. lia. }
  unfold snap_lookup_index, snap_fill_index, cell_mid. split; apply Qtrunc_half; try assumption; field; split; assumption.
Qed.
