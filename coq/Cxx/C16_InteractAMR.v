(* C16 (traversal clauses): proofs about the real-number instance of the model of AMRDensityGrid::interact
   (repaired code: flags fxA = fxB = fxC = true) in Cxx/C16_InteractDefs.v.
   Part M (this section): the march, for ANY cell structure: the cells are abstract ([okcell]); what the march needs
   from the neighbour machinery (set_ngbs pointers + periodic correction + descent into the refined neighbour) is the
   hypothesis [Hnext]: the cell handed back is a cell whose closed box contains the corrected wall position, and no
   cell is handed back exactly at an open box face.  Part N (below) proves [Hnext] for the concrete neighbour
   function of the model on every well-formed tree. *)
From Coq Require Import ZArith List Bool Reals Lra Lia Psatz.
From CMI Require Import Cxx.C02_Defs Cxx.C02_Proofs Cxx.C16_InteractDefs Cxx.C16_InteractCart.
From CMI Require Cxx.C16_Defs.
Import ListNotations.
Local Open Scope R_scope.

Notation Rhalf := (1 / 2).

Definition az (a : axis) : Z := match a with AX => 0%Z | AY => 1%Z | AZ => 2%Z end.
Definition za (z : Z) : axis := match z with 0%Z => AX | 1%Z => AY | _ => AZ end.
Lemma za_az a : za (az a) = a.
Proof. destruct a; reflexivity. Qed.
Lemma vget_za {T} z (v : vec T) : vget z v = vg (za z) v.
Proof. destruct z as [|[p|p|]|p]; reflexivity. Qed.
Lemma vget_az {T} a (v : vec T) : vget (az a) v = vg a v.
Proof. destruct a; reflexivity. Qed.
Lemma bget_za z b : bget z b = bg (za z) b.
Proof. destruct z as [|[p|p|]|p]; reflexivity. Qed.

Definition blo (bb : tbox R) (a : axis) : R := vg a (tb_a bb).
Definition bhi (bb : tbox R) (a : axis) : R := vg a (tb_a bb) + vg a (tb_s bb).
Definition in_tbox (bb : tbox R) (p : vec R) : Prop := forall a, blo bb a <= vg a p <= bhi bb a.

Definition anorm2 (v : vec R) : R := vx v * vx v + vy v * vy v + vz v * vz v.
Lemma norm2_R v : norm2 ROps v = anorm2 v.
Proof. reflexivity. Qed.

(* ---------------------------------------------------------------------------
   one coordinate of get_wall_intersection *)
Lemma awall1_pos d top bot p : 0 < d -> awall1 ROps d top bot p = ((top - p) / d, 1%Z).
Proof. intros H. unfold awall1; rsimp. apply Rltb_true in H. rewrite H. reflexivity. Qed.
Lemma awall1_neg d top bot p : d < 0 -> awall1 ROps d top bot p = ((bot - p) / d, (-1)%Z).
Proof.
  intros H. unfold awall1; rsimp. assert (E : Rltb 0 d = false) by (apply Rltb_false; lra). rewrite E.
  apply Rltb_true in H. rewrite H. reflexivity.
Qed.
Lemma awall1_zero d top bot p : d = 0 -> awall1 ROps d top bot p = (RDBLMAX, 0%Z).
Proof.
  intros H. unfold awall1; rsimp. assert (E : Rltb 0 d = false) by (apply Rltb_false; lra).
  assert (F : Rltb d 0 = false) by (apply Rltb_false; lra). rewrite E, F. reflexivity.
Qed.

Lemma awall1_reach d top bot p : d <> 0 -> bot <= p <= top ->
  let r := awall1 ROps d top bot p in
  0 <= fst r /\ p + d * fst r = (if Rltb 0 d then top else bot) /\ snd r = (if Rltb 0 d then 1 else -1)%Z.
Proof.
  intros Hd Hp r. unfold r. destruct (Rlt_dec 0 d) as [P|N].
  - rewrite awall1_pos by exact P. assert (E : Rltb 0 d = true) by (apply Rltb_true; exact P). rewrite E. cbn [fst snd].
    split. apply Rmult_le_pos. lra. left; apply Rinv_0_lt_compat; exact P. split. field; lra. reflexivity.
  - assert (Q : d < 0) by lra. rewrite awall1_neg by exact Q.
    assert (E : Rltb 0 d = false) by (apply Rltb_false; lra). rewrite E. cbn [fst snd].
    split. replace ((bot - p) / d) with ((p - bot) * / (- d)) by (field; lra).
    apply Rmult_le_pos. lra. left; apply Rinv_0_lt_compat; lra. split. field; lra. reflexivity.
Qed.

(* squared length of the step to a wall *)
Lemma step_norm2 (p d : vec R) l : norm2 ROps (vminus ROps (vplus ROps p (vscale ROps d l)) p) = l * l * anorm2 d.
Proof. unfold norm2, vminus, vplus, vscale, vmap2, anorm2; rsimp. cbn [vx vy vz]. ring. Qed.

(* the selection among the three squared distances picks an axis that attains the minimum *)
Lemma select_min {A} (X Y Z : R) (vX vY vZ : A) :
  let r := if Rltb X Y && Rltb X Z then (0%Z, vX, X)
           else if Rltb Y X && Rltb Y Z then (1%Z, vY, Y)
           else if Rltb Z X && Rltb Z Y then (2%Z, vZ, Z)
           else if Reqb X Y || Reqb X Z then (0%Z, vX, X)
           else (1%Z, vY, Y) in
  (r = (0%Z, vX, X) /\ X <= Y /\ X <= Z) \/ (r = (1%Z, vY, Y) /\ Y <= X /\ Y <= Z) \/ (r = (2%Z, vZ, Z) /\ Z <= X /\ Z <= Y).
Proof.
  cbv zeta.
  destruct (Rltb X Y) eqn:A1; [apply Rltb_true in A1|apply Rltb_false in A1];
  destruct (Rltb X Z) eqn:A2; [apply Rltb_true in A2|apply Rltb_false in A2| apply Rltb_true in A2|apply Rltb_false in A2]; cbn [andb].
  - left. split. reflexivity. lra.
  - destruct (Rltb Y X) eqn:B1; [apply Rltb_true in B1; lra|]. cbn [andb].
    destruct (Rltb Z X) eqn:C1; [apply Rltb_true in C1|apply Rltb_false in C1].
    + destruct (Rltb Z Y) eqn:C2; [apply Rltb_true in C2|apply Rltb_false in C2]; cbn [andb].
      * right; right. split. reflexivity. lra.
      * lra.
    + cbn [andb]. assert (X = Z) by lra. assert (Q : Reqb X Z = true) by (apply Reqb_true; assumption). rewrite Q, orb_true_r.
      left. split. reflexivity. lra.
  - destruct (Rltb Y X) eqn:B1; [apply Rltb_true in B1|apply Rltb_false in B1].
    + destruct (Rltb Y Z) eqn:B2; [apply Rltb_true in B2|apply Rltb_false in B2]; cbn [andb].
      * right; left. split. reflexivity. lra.
      * lra.
    + cbn [andb]. assert (X = Y) by lra.
      destruct (Rltb Z X) eqn:C1; [apply Rltb_true in C1; lra|]. cbn [andb].
      assert (Q : Reqb X Y = true) by (apply Reqb_true; assumption). rewrite Q. cbn [orb].
      left. split. reflexivity. lra.
  - destruct (Rltb Y X) eqn:B1; [apply Rltb_true in B1|apply Rltb_false in B1];
    destruct (Rltb Y Z) eqn:B2; [apply Rltb_true in B2|apply Rltb_false in B2|apply Rltb_true in B2|apply Rltb_false in B2]; cbn [andb].
    + right; left. split. reflexivity. lra.
    + destruct (Rltb Z X) eqn:C1; [apply Rltb_true in C1|apply Rltb_false in C1];
      destruct (Rltb Z Y) eqn:C2; [apply Rltb_true in C2|apply Rltb_false in C2|apply Rltb_true in C2|apply Rltb_false in C2]; cbn [andb].
      * right; right. split. reflexivity. lra.
      * assert (Y = Z) by lra.
        destruct (Reqb X Y) eqn:Q1; [apply Reqb_true in Q1; lra|]. destruct (Reqb X Z) eqn:Q2; [apply Reqb_true in Q2; lra|]. cbn [orb].
        right; left. split. reflexivity. lra.
      * lra.
      * lra.
    + assert (X = Y) by lra. lra.
    + assert (X = Y) by lra.
      destruct (Rltb Z X) eqn:C1; [apply Rltb_true in C1|apply Rltb_false in C1]; cbn [andb].
      * destruct (Rltb Z Y) eqn:C2; [apply Rltb_true in C2|apply Rltb_false in C2].
        -- right; right. split. reflexivity. lra.
        -- lra.
      * assert (Q : Reqb X Y = true) by (apply Reqb_true; assumption). rewrite Q. cbn [orb].
        left. split. reflexivity. lra.
Qed.

(* ---------------------------------------------------------------------------
   get_wall_intersection, geometric part, for a unit direction *)
Section WallSelect.
Variable d : vec R.
Hypothesis Hunit : anorm2 d = 1.

Definition AL (bb : tbox R) (p : vec R) (a : axis) : R := fst (awall1 ROps (vg a d) (bhi bb a) (blo bb a) (vg a p)).
Definition AN (bb : tbox R) (p : vec R) (a : axis) : Z := snd (awall1 ROps (vg a d) (bhi bb a) (blo bb a) (vg a p)).
Definition ANX (bb : tbox R) (p : vec R) (a : axis) : vec R := vplus ROps p (vscale ROps d (AL bb p a)).

Lemma wall_select_eq bb p :
  wall_select ROps d bb p =
  let X := AL bb p AX * AL bb p AX in let Y := AL bb p AY * AL bb p AY in let Z := AL bb p AZ * AL bb p AZ in
  let '(a, nw, dd) :=
    if Rltb X Y && Rltb X Z then (0%Z, (ANX bb p AX, AN bb p AX), X)
    else if Rltb Y X && Rltb Y Z then (1%Z, (ANX bb p AY, AN bb p AY), Y)
    else if Rltb Z X && Rltb Z Y then (2%Z, (ANX bb p AZ, AN bb p AZ), Z)
    else if Reqb X Y || Reqb X Z then (0%Z, (ANX bb p AX, AN bb p AX), X)
    else (1%Z, (ANX bb p AY, AN bb p AY), Y) in
  (a, fst nw, dd, snd nw).
Proof.
  unfold wall_select, ANX, AL, AN, bhi, blo. cbn [vg]. cbv zeta.
  change (vx (vplus ROps (tb_a bb) (tb_s bb))) with (vx (tb_a bb) + vx (tb_s bb)).
  change (vy (vplus ROps (tb_a bb) (tb_s bb))) with (vy (tb_a bb) + vy (tb_s bb)).
  change (vz (vplus ROps (tb_a bb) (tb_s bb))) with (vz (tb_a bb) + vz (tb_s bb)).
  destruct (awall1 ROps (vx d) (vx (tb_a bb) + vx (tb_s bb)) (vx (tb_a bb)) (vx p)) as [lx ndx].
  destruct (awall1 ROps (vy d) (vy (tb_a bb) + vy (tb_s bb)) (vy (tb_a bb)) (vy p)) as [ly ndy].
  destruct (awall1 ROps (vz d) (vz (tb_a bb) + vz (tb_s bb)) (vz (tb_a bb)) (vz p)) as [lz ndz].
  cbn [fst snd]. rewrite !step_norm2, Hunit, !Rmult_1_r. rsimp.
  destruct (Rltb (lx * lx) (ly * ly) && Rltb (lx * lx) (lz * lz)). reflexivity.
  destruct (Rltb (ly * ly) (lx * lx) && Rltb (ly * ly) (lz * lz)). reflexivity.
  destruct (Rltb (lz * lz) (lx * lx) && Rltb (lz * lz) (ly * ly)). reflexivity.
  destruct (Reqb (lx * lx) (ly * ly) || Reqb (lx * lx) (lz * lz)); reflexivity.
Qed.

Lemma AL_facts bb p a : in_tbox bb p ->
  (vg a d <> 0 -> 0 <= AL bb p a /\ vg a p + vg a d * AL bb p a = (if Rltb 0 (vg a d) then bhi bb a else blo bb a) /\
                  AN bb p a = (if Rltb 0 (vg a d) then 1 else -1)%Z) /\
  (vg a d = 0 -> AL bb p a = RDBLMAX).
Proof.
  intros Hin. split.
  - intros Hd. apply (awall1_reach (vg a d) (bhi bb a) (blo bb a) (vg a p) Hd (Hin a)).
  - intros Hd. unfold AL. rewrite awall1_zero by exact Hd. reflexivity.
Qed.

Lemma AL_nonneg bb p a : in_tbox bb p -> 0 <= AL bb p a.
Proof.
  intros Hin. destruct (Req_dec (vg a d) 0) as [Z|NZ].
  - destruct (AL_facts bb p a Hin) as [_ F]. rewrite (F Z). left; exact RDBLMAX_pos.
  - destruct (AL_facts bb p a Hin) as [F _]. apply (F NZ).
Qed.

Lemma wall_select_spec bb p : in_tbox bb p -> (forall a, 0 < vg a (tb_s bb)) ->
  (exists j, vg j d <> 0 /\ vg j (tb_s bb) < RDBLMAX * Rabs (vg j d)) ->
  exists a, let l := AL bb p a in
    wall_select ROps d bb p = (az a, ANX bb p a, l * l, (if Rltb 0 (vg a d) then 1 else -1)%Z) /\
    vg a d <> 0 /\ 0 <= l < RDBLMAX /\
    vg a p + vg a d * l = (if Rltb 0 (vg a d) then bhi bb a else blo bb a) /\
    forall t a', 0 <= t <= l -> blo bb a' <= vg a' p + vg a' d * t <= bhi bb a'.
Proof.
  intros Hin Hs [j [Hj Hg]].
  assert (Lj : AL bb p j < RDBLMAX).
  { destruct (AL_facts bb p j Hin) as [F _]. destruct (F Hj) as [F0 [F1 _]]. pose proof (Hin j) as Hb. unfold bhi, blo in *.
    assert (0 < Rabs (vg j d)) by (apply Rabs_pos_lt; exact Hj).
    assert (AL bb p j * Rabs (vg j d) <= vg j (tb_s bb)).
    { destruct (Rltb 0 (vg j d)) eqn:S; [apply Rltb_true in S; rewrite Rabs_right by lra | apply Rltb_false in S; rewrite Rabs_left by lra]; nra. }
    nra. }
  assert (Sq : forall x y, 0 <= x -> 0 <= y -> x * x <= y * y -> x <= y) by (intros; nra).
  assert (Main : forall a, (forall a', AL bb p a * AL bb p a <= AL bb p a' * AL bb p a') ->
            vg a d <> 0 /\ 0 <= AL bb p a < RDBLMAX /\
            vg a p + vg a d * AL bb p a = (if Rltb 0 (vg a d) then bhi bb a else blo bb a) /\
            AN bb p a = (if Rltb 0 (vg a d) then 1 else -1)%Z /\
            forall t a', 0 <= t <= AL bb p a -> blo bb a' <= vg a' p + vg a' d * t <= bhi bb a').
  { intros a Hmin.
    assert (Le : forall a', AL bb p a <= AL bb p a') by (intros a'; apply Sq; [apply AL_nonneg; exact Hin | apply AL_nonneg; exact Hin | apply Hmin]).
    assert (La : AL bb p a < RDBLMAX) by (pose proof (Le j); lra).
    assert (NZ : vg a d <> 0). { intros Z0. destruct (AL_facts bb p a Hin) as [_ F]. rewrite (F Z0) in La. lra. }
    destruct (AL_facts bb p a Hin) as [F _]. destruct (F NZ) as [F0 [F1 F2]].
    split. exact NZ. split. lra. split. exact F1. split. exact F2.
    intros t a' Ht. pose proof (Hin a') as Hb. destruct (Req_dec (vg a' d) 0) as [Z0|NZ'].
    - rewrite Z0. lra.
    - destruct (AL_facts bb p a' Hin) as [G _]. destruct (G NZ') as [G0 [G1 _]]. pose proof (Le a') as Lea.
      destruct (Rltb 0 (vg a' d)) eqn:S; [apply Rltb_true in S | apply Rltb_false in S]; split; nra. }
  rewrite wall_select_eq. cbv zeta.
  destruct (select_min (AL bb p AX * AL bb p AX) (AL bb p AY * AL bb p AY) (AL bb p AZ * AL bb p AZ)
              (ANX bb p AX, AN bb p AX) (ANX bb p AY, AN bb p AY) (ANX bb p AZ, AN bb p AZ)) as [[E [H1 H2]]|[[E [H1 H2]]|[E [H1 H2]]]];
    cbv zeta in E; rewrite E; cbn [fst snd].
  - assert (Hm : forall a', AL bb p AX * AL bb p AX <= AL bb p a' * AL bb p a') by (intros a'; destruct a'; lra).
    destruct (Main AX Hm) as [M1 [M2 [M3 [M4 M5]]]]. exists AX. cbn [az]. rewrite M4. repeat split; try assumption; try lra. apply M5; assumption. apply M5; assumption.
  - assert (Hm : forall a', AL bb p AY * AL bb p AY <= AL bb p a' * AL bb p a') by (intros a'; destruct a'; lra).
    destruct (Main AY Hm) as [M1 [M2 [M3 [M4 M5]]]]. exists AY. cbn [az]. rewrite M4. repeat split; try assumption; try lra. apply M5; assumption. apply M5; assumption.
  - assert (Hm : forall a', AL bb p AZ * AL bb p AZ <= AL bb p a' * AL bb p a') by (intros a'; destruct a'; lra).
    destruct (Main AZ Hm) as [M1 [M2 [M3 [M4 M5]]]]. exists AZ. cbn [az]. rewrite M4. repeat split; try assumption; try lra. apply M5; assumption. apply M5; assumption.
Qed.

End WallSelect.

(* sums over the visit list (cells are references here) *)
Definition sumlenA (vis : list (cref * R)) : R := fold_right (fun v s => snd v + s) 0 vis.
Definition sumtauA (kap : cref -> R) (vis : list (cref * R)) : R := fold_right (fun v s => kap (fst v) * snd v + s) 0 vis.
Lemma sumlenA_cons v vis : sumlenA (v :: vis) = snd v + sumlenA vis.
Proof. reflexivity. Qed.
Lemma sumtauA_cons kap v vis : sumtauA kap (v :: vis) = kap (fst v) * snd v + sumtauA kap vis.
Proof. reflexivity. Qed.
Lemma sumlenA_app l1 l2 : sumlenA (l1 ++ l2) = sumlenA l1 + sumlenA l2.
Proof. induction l1. change (sumlenA l2 = 0 + sumlenA l2). ring. cbn [app]. rewrite !sumlenA_cons, IHl1. ring. Qed.
Lemma sumlenA_rev l : sumlenA (rev l) = sumlenA l.
Proof. induction l. reflexivity. cbn [rev]. rewrite sumlenA_app, IHl, !sumlenA_cons. change (sumlenA []) with 0. ring. Qed.
Lemma sumtauA_app k l1 l2 : sumtauA k (l1 ++ l2) = sumtauA k l1 + sumtauA k l2.
Proof. induction l1. change (sumtauA k l2 = 0 + sumtauA k l2). ring. cbn [app]. rewrite !sumtauA_cons, IHl1. ring. Qed.
Lemma sumtauA_rev k l : sumtauA k (rev l) = sumtauA k l.
Proof. induction l. reflexivity. cbn [rev]. rewrite sumtauA_app, IHl, !sumtauA_cons. change (sumtauA k []) with 0. ring. Qed.
Lemma sumlenA_nonneg l : Forall (fun v : cref * R => 0 <= snd v) l -> 0 <= sumlenA l.
Proof. induction 1. change (0 <= 0); lra. rewrite sumlenA_cons. lra. Qed.

Definition axeqb (a b : axis) : bool :=
  match a, b with AX, AX | AY, AY | AZ, AZ => true | _, _ => false end.
Lemma axeqb_true a b : axeqb a b = true <-> a = b.
Proof. destruct a, b; split; intros H; try reflexivity; try discriminate. Qed.
Lemma axeqb_refl a : axeqb a a = true.
Proof. destruct a; reflexivity. Qed.
Lemma vg_vunit a a' x : vg a' (vunit ROps (az a) x) = if axeqb a a' then x else 0.
Proof. destruct a, a'; reflexivity. Qed.

(* ---------------------------------------------------------------------------
   the march over abstract cells *)
Section AMarchR.
Variable g : agrid R.
Variable d : vec R.
Variable target : R.
Variable od : cref -> R -> R.
Variable kap : cref -> R.
Variable p0 : vec R.
Variable okcell : cref -> Prop.

Notation boxR := (box_of ROps Rhalf g).
Notation bodyA := (abody ROps sqrt Rhalf true true true g d od).
Notation marchA := (amarch ROps sqrt Rhalf true true true g d od).
Notation anchor := (ag_anchor g).
Notation sides := (ag_sides g).
Notation per := (ag_per g).

Hypothesis Hunit : anorm2 d = 1.
Hypothesis Hsides : forall a, 0 < vg a sides.
Hypothesis Hod : forall c l, od c l = kap c * l.
Hypothesis Hkap : forall c, 0 <= kap c.
Hypothesis Htarget : 0 < target.
Hypothesis Hcellpos : forall r, okcell r -> forall a, 0 < vg a (tb_s (boxR r)).
Hypothesis Hcellin : forall r, okcell r -> forall a,
  vg a anchor <= blo (boxR r) a /\ bhi (boxR r) a <= vg a anchor + vg a sides.
Hypothesis Hbig : exists j, vg j d <> 0 /\ forall r, okcell r -> vg j (tb_s (boxR r)) < RDBLMAX * Rabs (vg j d).
(* what the march needs from the neighbour pointers, the periodic correction and the descent *)
Hypothesis Hnext : forall cur a q, okcell cur -> in_tbox (boxR cur) q -> vg a d <> 0 ->
  vg a q = (if Rltb 0 (vg a d) then bhi (boxR cur) a else blo (boxR cur) a) ->
  let nd := (if Rltb 0 (vg a d) then 1 else -1)%Z in
  let nc := next_cell ROps Rhalf true true g cur (az a) nd (tb_a (boxR cur)) q in
  exists k : Z,
    snd nc = vunit ROps (az a) (IZR k * vg a sides) /\
    (bg a per = false -> k = 0%Z) /\
    match fst nc with
    | Some r' => okcell r' /\ in_tbox (boxR r') (vplus ROps q (vunit ROps (az a) (IZR k * vg a sides)))
    | None => k = 0%Z /\ bg a per = false /\
              vg a q = (if Rltb 0 (vg a d) then vg a anchor + vg a sides else vg a anchor)
    end.

Definition ashift_ok (w : shift) : Prop := forall a, bg a per = false -> w a = 0%Z.
Definition ashifted (p : vec R) (w : shift) : vec R :=
  mkV (vx p + IZR (w AX) * vx sides) (vy p + IZR (w AY) * vy sides) (vz p + IZR (w AZ) * vz sides).
Lemma vg_ashifted a p w : vg a (ashifted p w) = vg a p + IZR (w a) * vg a sides.
Proof. destruct a; reflexivity. Qed.
Definition aray (s : R) : vec R := mkV (vx p0 + s * vx d) (vy p0 + s * vy d) (vz p0 + s * vz d).
Lemma vg_aray a s : vg a (aray s) = vg a p0 + s * vg a d.
Proof. destruct a; reflexivity. Qed.

Record AInv (st : astate R) (W : shift) : Prop := mkAInv {
  ai_cur : match as_cur st with
           | Some cur => okcell cur /\ in_tbox (boxR cur) (as_pos st)
           | None => 0 <= as_tau st /\ exists a, bg a per = false /\
                       ((vg a (as_pos st) = vg a anchor /\ vg a d < 0) \/
                        (vg a (as_pos st) = vg a anchor + vg a sides /\ 0 < vg a d))
           end;
  ai_box : forall a, vg a anchor <= vg a (as_pos st) <= vg a anchor + vg a sides;
  ai_pos : forall a, vg a (as_pos st) = vg a p0 + sumlenA (as_vis st) * vg a d + IZR (W a) * vg a sides;
  ai_W : ashift_ok W;
  ai_len : Forall (fun v => 0 <= snd v) (as_vis st);
  ai_tau : (0 <= as_tau st -> as_tau st = target - sumtauA kap (as_vis st)) /\
           (as_tau st < 0 -> sumtauA kap (as_vis st) = target);
  ai_last : match as_vis st with
            | [] => as_last st = None
            | v :: _ => as_last st = Some (fst v) /\ okcell (fst v) /\
                        exists wl, ashift_ok wl /\ in_tbox (boxR (fst v)) (ashifted (as_pos st) wl) /\
                                   (as_tau st < 0 -> as_cur st = Some (fst v) /\ forall a, wl a = 0%Z)
            end;
  ai_seg : forall k c len, nth_error (rev (as_vis st)) k = Some (c, len) ->
             okcell c /\ exists w, ashift_ok w /\
               let s0 := sumlenA (firstn k (rev (as_vis st))) in
               in_tbox (boxR c) (ashifted (aray s0) w) /\ in_tbox (boxR c) (ashifted (aray (s0 + len)) w)
}.

(* get_wall_intersection for a cell and a position in its closed box *)
Lemma wall_intersection_spec cur p : okcell cur -> in_tbox (boxR cur) p ->
  exists a l k,
    let w := wall_intersection ROps sqrt Rhalf true true g d cur p in
    vg a d <> 0 /\ 0 <= l < RDBLMAX /\
    wi_ds w = l /\ (forall a', vg a' (wi_wall w) = vg a' p + vg a' d * l) /\
    (forall t a', 0 <= t <= l -> blo (boxR cur) a' <= vg a' p + vg a' d * t <= bhi (boxR cur) a') /\
    wi_corr w = vunit ROps (az a) (IZR k * vg a sides) /\ (bg a per = false -> k = 0%Z) /\
    match wi_next w with
    | Some r' => okcell r' /\ in_tbox (boxR r') (vplus ROps (wi_wall w) (wi_corr w))
    | None => k = 0%Z /\ bg a per = false /\
              ((vg a (wi_wall w) = vg a anchor /\ vg a d < 0) \/ (vg a (wi_wall w) = vg a anchor + vg a sides /\ 0 < vg a d))
    end.
Proof.
  intros Hc Hin.
  assert (Hg : exists j, vg j d <> 0 /\ vg j (tb_s (boxR cur)) < RDBLMAX * Rabs (vg j d)).
  { destruct Hbig as [j [Hj Hb]]. exists j. split. exact Hj. apply Hb. exact Hc. }
  destruct (wall_select_spec d Hunit (boxR cur) p Hin (Hcellpos cur Hc) Hg) as [a [E [NZ [Hl [Hface Hstay]]]]]. cbv zeta in *.
  set (l := AL d (boxR cur) p a) in *.
  assert (Hq : in_tbox (boxR cur) (ANX d (boxR cur) p a)).
  { intros a'. unfold ANX. fold l. rewrite vg_vplus, vg_vscale. apply Hstay. lra. }
  assert (Hqa : vg a (ANX d (boxR cur) p a) = (if Rltb 0 (vg a d) then bhi (boxR cur) a else blo (boxR cur) a)).
  { unfold ANX. fold l. rewrite vg_vplus, vg_vscale. exact Hface. }
  destruct (Hnext cur a (ANX d (boxR cur) p a) Hc Hq NZ Hqa) as [k [K1 [K2 K3]]]. cbv zeta in K1, K3.
  exists a, l, k. unfold wall_intersection. rewrite E.
  destruct (next_cell ROps Rhalf true true g cur (az a) (if Rltb 0 (vg a d) then 1%Z else (-1)%Z) (tb_a (boxR cur)) (ANX d (boxR cur) p a)) as [nxt corr] eqn:En.
  cbn [fst snd] in K1, K3. cbn [wi_ds wi_wall wi_corr wi_next].
  split. exact NZ. split. exact Hl. split. apply sqrt_square. lra.
  split. intros a'. unfold ANX. fold l. rewrite vg_vplus, vg_vscale. reflexivity.
  split. exact Hstay. split. exact K1. split. exact K2.
  destruct nxt as [r'|].
  - rewrite K1. exact K3.
  - destruct K3 as [Z0 [P Q]]. split. exact Z0. split. exact P.
    destruct (Rltb 0 (vg a d)) eqn:S; [apply Rltb_true in S; right | apply Rltb_false in S; left]; split; try exact Q; lra.
Qed.

Lemma abody_eq cur st :
  let p := as_pos st in let w := wall_intersection ROps sqrt Rhalf true true g d cur p in
  let ds := wi_ds w in let odp := as_tau st - od cur ds in
  bodyA cur st =
  if Rltb odp 0 then
    mkAS (vplus ROps p (vdivs ROps (vscale ROps (vminus ROps (wi_wall w) p) (ds + ds * odp / od cur ds)) ds))
         (Some cur) odp ((cur, ds + ds * odp / od cur ds) :: as_vis st) (Some cur)
  else mkAS (vplus ROps (wi_wall w) (wi_corr w)) (wi_next w) odp ((cur, ds) :: as_vis st) (Some cur).
Proof. reflexivity. Qed.

Lemma ainv_extend st W cur len pos' cur' tau' (kk : shift) :
  AInv st W -> as_cur st = Some cur -> 0 < as_tau st -> 0 <= len ->
  (forall a, blo (boxR cur) a <= vg a (as_pos st) + vg a d * len <= bhi (boxR cur) a) ->
  ashift_ok kk ->
  (forall a, vg a pos' = vg a (as_pos st) + vg a d * len + IZR (kk a) * vg a sides) ->
  match cur' with
  | Some r' => okcell r' /\ in_tbox (boxR r') pos'
  | None => 0 <= tau' /\ (forall a, kk a = 0%Z) /\ exists a, bg a per = false /\
              ((vg a pos' = vg a anchor /\ vg a d < 0) \/ (vg a pos' = vg a anchor + vg a sides /\ 0 < vg a d))
  end ->
  ((0 <= tau' /\ tau' = as_tau st - kap cur * len) \/
   (tau' < 0 /\ kap cur * len = as_tau st /\ cur' = Some cur /\ forall a, kk a = 0%Z)) ->
  AInv (mkAS pos' cur' tau' ((cur, len) :: as_vis st) (Some cur)) (fun a => (W a + kk a)%Z).
Proof.
  intros I Ec T Hl Hend Hk Hp Hc Ht.
  pose proof (ai_cur st W I) as C0. rewrite Ec in C0. destruct C0 as [Ok Hin].
  constructor; cbn [as_pos as_cur as_tau as_vis as_last].
  - destruct cur' as [r'|]. exact Hc. destruct Hc as [A [_ B]]. split; assumption.
  - intros a. destruct cur' as [r'|].
    + destruct Hc as [Ok' Hin']. specialize (Hin' a). destruct (Hcellin r' Ok' a). unfold blo, bhi in *. lra.
    + destruct Hc as [_ [K0 _]]. rewrite Hp, (K0 a). specialize (Hend a). destruct (Hcellin cur Ok a). unfold blo, bhi in *.
      replace (IZR 0) with 0 by reflexivity. lra.
  - intros a. rewrite Hp, (ai_pos st W I a), sumlenA_cons, plus_IZR. cbn [snd]. ring.
  - intros a P. rewrite (ai_W st W I a P), (Hk a P). reflexivity.
  - constructor. cbn [snd]. exact Hl. apply (ai_len st W I).
  - rewrite sumtauA_cons. cbn [fst snd]. destruct (ai_tau st W I) as [T1 _]. specialize (T1 (Rlt_le _ _ T)).
    destruct Ht as [[A B]|[A [B _]]].
    + split. intros _. rewrite B, T1. ring. intros; lra.
    + split. intros; lra. intros _. rewrite B, T1. ring.
  - cbn [fst]. split. reflexivity. split. exact Ok. exists (fun a => (- kk a)%Z). split.
    intros a P. rewrite (Hk a P). reflexivity. split.
    intros a. rewrite vg_ashifted, Hp, opp_IZR. specialize (Hend a). unfold blo, bhi in *. lra.
    intros X. destruct Ht as [[A _]|[_ [_ [E K0]]]]. lra. split. exact E. intros a. rewrite (K0 a). reflexivity.
  - intros k c0 len0 Hk0. cbn [rev] in Hk0 |- *.
    destruct (Nat.lt_ge_cases k (length (rev (as_vis st)))) as [L|L].
    + destruct (seg_old (rev (as_vis st)) (cur, len) k L) as [E1 E2]. rewrite E1 in Hk0. rewrite E2. apply (ai_seg st W I k c0 len0 Hk0).
    + assert (V : nth_error (rev (as_vis st) ++ [(cur, len)]) k = Some (cur, len)).
      { assert (k = length (rev (as_vis st))).
        { assert (K : (k < length (rev (as_vis st) ++ [(cur, len)]))%nat) by (apply nth_error_Some; congruence).
          rewrite app_length in K. cbn [length] in K. lia. }
        subst k. rewrite nth_error_app2 by lia. rewrite Nat.sub_diag. reflexivity. }
      rewrite V in Hk0. inversion Hk0; subst c0 len0.
      destruct (seg_new (rev (as_vis st)) (cur, len) k V L) as [_ E2]. rewrite E2.
      split. exact Ok. exists W. split. apply (ai_W st W I).
      rewrite sumlenA_rev. cbv zeta. split; intros a; rewrite vg_ashifted, vg_aray.
      * specialize (Hin a). rewrite (ai_pos st W I a) in Hin. unfold blo, bhi in *. lra.
      * specialize (Hend a). rewrite (ai_pos st W I a) in Hend. unfold blo, bhi in *. lra.
Qed.

Definition aabsorbing (cur : cref) (st : astate R) : Prop :=
  as_tau st < kap cur * wi_ds (wall_intersection ROps sqrt Rhalf true true g d cur (as_pos st)).

Lemma abody_step cur st W : AInv st W -> as_cur st = Some cur -> 0 < as_tau st ->
  exists W', AInv (bodyA cur st) W' /\
    (exists len, 0 <= len /\ as_vis (bodyA cur st) = (cur, len) :: as_vis st) /\
    (aabsorbing cur st -> as_tau (bodyA cur st) < 0) /\ (~ aabsorbing cur st -> 0 <= as_tau (bodyA cur st)).
Proof.
  intros I Ec T. pose proof (ai_cur st W I) as C0. rewrite Ec in C0. destruct C0 as [Ok Hin].
  destruct (wall_intersection_spec cur (as_pos st) Ok Hin) as [a [l [k [NZ [Hl [Eds [Ewall [Hstay [Ecorr [Kper Hnx]]]]]]]]]]. cbv zeta in *.
  pose proof (abody_eq cur st) as E. cbv zeta in E. unfold aabsorbing.
  set (w := wall_intersection ROps sqrt Rhalf true true g d cur (as_pos st)) in *.
  rewrite Eds in *. rewrite Hod in E. pose proof (Hkap cur) as K0. set (kc := kap cur) in *.
  set (odp := as_tau st - kc * l) in *.
  destruct (Rlt_dec (as_tau st) (kc * l)) as [A|A].
  - (* the target is reached in this cell *)
    assert (On : odp < 0) by (unfold odp; lra).
    assert (Rt : Rltb odp 0 = true) by (apply Rltb_true; exact On). rewrite Rt in E.
    assert (Kpos : 0 < kc) by nra. assert (Lpos : 0 < l) by nra.
    set (len := l + l * odp / (kc * l)) in *.
    assert (ES : len = as_tau st / kc) by (unfold len, odp; field; lra).
    assert (Hlen : 0 < len <= l).
    { rewrite ES. split. apply Rdiv_lt_0_compat; lra. apply (Rmult_le_reg_r kc). lra. unfold Rdiv. rewrite Rmult_assoc, Rinv_l by lra. lra. }
    exists (fun a0 => (W a0 + 0)%Z). rewrite E. split; [|split; [|split]].
    + apply (ainv_extend st W cur len _ (Some cur) odp (fun _ => 0%Z) I Ec T).
      * lra.
      * intros a'. apply Hstay. lra.
      * intros a' _. reflexivity.
      * intros a'. rewrite vg_vplus, vg_vdivs, vg_vscale, vg_vminus, Ewall. replace (IZR 0) with 0 by reflexivity. field. lra.
      * split. exact Ok. intros a'. rewrite vg_vplus, vg_vdivs, vg_vscale, vg_vminus, Ewall.
        replace (vg a' (as_pos st) + (vg a' (as_pos st) + vg a' d * l - vg a' (as_pos st)) * len / l) with (vg a' (as_pos st) + vg a' d * len) by (field; lra).
        apply Hstay. lra.
      * right. split. exact On. split. rewrite ES. fold kc. field. lra. split. reflexivity. reflexivity.
    + exists len. split. lra. reflexivity.
    + intros _. exact On.
    + intros N. exfalso. apply N. exact A.
  - (* the wall is reached *)
    assert (On : 0 <= odp) by (unfold odp; lra).
    assert (Rt : Rltb odp 0 = false) by (apply Rltb_false; exact On). rewrite Rt in E.
    set (kk := fun a' : axis => if axeqb a a' then k else 0%Z).
    exists (fun a0 => (W a0 + kk a0)%Z). rewrite E. split; [|split; [|split]].
    + apply (ainv_extend st W cur l _ (wi_next w) odp kk I Ec T).
      * lra.
      * intros a'. apply Hstay. lra.
      * intros a' P. unfold kk. destruct (axeqb a a') eqn:Q. apply axeqb_true in Q. subst a'. apply Kper; exact P. reflexivity.
      * intros a'. rewrite vg_vplus, Ewall, Ecorr, vg_vunit. unfold kk. destruct (axeqb a a') eqn:Q.
        apply axeqb_true in Q. subst a'. ring. replace (IZR 0) with 0 by reflexivity. ring.
      * destruct (wi_next w) as [r'|].
        -- exact Hnx.
        -- destruct Hnx as [Z0 [P F]]. split. exact On. split.
           intros a'. unfold kk. destruct (axeqb a a'). exact Z0. reflexivity.
           exists a. split. exact P. rewrite vg_vplus, Ecorr, vg_vunit, axeqb_refl, Z0. replace (IZR 0 * vg a sides) with 0 by (simpl; ring).
           rewrite Rplus_0_r. exact F.
      * left. split. exact On. reflexivity.
    + exists l. split. lra. reflexivity.
    + intros N. exfalso. apply A. exact N.
    + intros _. exact On.
Qed.

(* ---- the loop ---- *)
Definition acond (st : astate R) : bool := match as_cur st with Some _ => Rltb 0 (as_tau st) | None => false end.
Definition astep (st : astate R) : astate R := match as_cur st with Some cur => bodyA cur st | None => st end.
Definition AI (st : astate R) : Prop := exists W, AInv st W.

Lemma amarch_unfold fuel st :
  marchA fuel st = if acond st then match fuel with O => None | S f => marchA f (astep st) end else Some st.
Proof.
  destruct fuel; cbn [amarch]; unfold acond, astep; destruct (as_cur st); rsimp; try reflexivity;
    destruct (Rltb 0 (as_tau st)); reflexivity.
Qed.

Lemma acond_spec st : acond st = true <-> exists cur, as_cur st = Some cur /\ 0 < as_tau st.
Proof.
  unfold acond. destruct (as_cur st) as [cur|].
  - rewrite Rltb_true. split. intros H; exists cur; auto. intros [c [_ H]]; exact H.
  - split. discriminate. intros [c [H _]]; discriminate.
Qed.

Lemma astep_inv st : AI st -> acond st = true -> AI (astep st).
Proof.
  intros [W I] C. apply acond_spec in C. destruct C as [cur [Ec T]]. unfold astep. rewrite Ec.
  destruct (abody_step cur st W I Ec T) as [W' [I' _]]. exists W'. exact I'.
Qed.

Inductive areach (s : astate R) : astate R -> Prop :=
| areach_refl : areach s s
| areach_step x : areach s x -> acond x = true -> areach s (astep x).

Lemma areach_inv s x : AI s -> areach s x -> AI x.
Proof. intros I H. induction H. exact I. apply astep_inv; assumption. Qed.
Lemma areach_head s x : acond s = true -> areach (astep s) x -> areach s x.
Proof.
  intros C H. induction H.
  - apply areach_step. apply areach_refl. exact C.
  - apply areach_step; assumption.
Qed.
Lemma amarch_reach fuel : forall s x, marchA fuel s = Some x -> areach s x /\ acond x = false.
Proof.
  induction fuel; intros s x H; rewrite amarch_unfold in H; destruct (acond s) eqn:C.
  - discriminate.
  - inversion H; subst. split. apply areach_refl. exact C.
  - destruct (IHfuel _ _ H) as [Rx Cx]. split. apply areach_head; assumption. exact Cx.
  - inversion H; subst. split. apply areach_refl. exact C.
Qed.

Lemma astep_vis st : acond st = true -> exists v, as_vis (astep st) = v :: as_vis st.
Proof.
  intros C. apply acond_spec in C. destruct C as [cur [Ec T]]. unfold astep. rewrite Ec.
  pose proof (abody_eq cur st) as E. cbv zeta in E. rewrite E. destruct (Rltb _ 0); eexists; reflexivity.
Qed.

(* facts about a state at which the loop stops *)
Lemma afinal_facts x W : AInv x W -> acond x = false ->
  (forall cur, as_cur x = Some cur -> as_tau x <= 0 /\ sumtauA kap (as_vis x) = target) /\
  (as_cur x = None -> 0 <= as_tau x /\ sumtauA kap (as_vis x) = target - as_tau x).
Proof.
  intros I C. split.
  - intros cur Ec. unfold acond in C. rewrite Ec in C. apply Rltb_false in C. split. exact C.
    destruct (ai_tau x W I) as [T1 T2]. destruct (Rle_lt_or_eq_dec _ _ C) as [Lt|Eq].
    + apply T2; exact Lt.
    + assert (Q : 0 <= as_tau x) by lra. specialize (T1 Q). lra.
  - intros Ec. pose proof (ai_cur x W I) as C0. rewrite Ec in C0. destruct C0 as [T _]. split. exact T.
    destruct (ai_tau x W I) as [T1 _]. rewrite (T1 T). ring.
Qed.

End AMarchR.

(* ===========================================================================
   Part N: the neighbour function of the model (AMRGrid::set_ngbs / AMRGridCell::set_ngbs pointers, periodic
   correction, descent into a refined neighbour) on every well-formed tree *)
Lemma iget_az a b : iget (az a) b = ig a b.
Proof. destruct a; reflexivity. Qed.
Lemma ig_iset a a' v b : ig a' (iset (az a) v b) = if axeqb a a' then v else ig a' b.
Proof. destruct a, a', b; reflexivity. Qed.
Lemma bget_az a b : bget (az a) b = bg a b.
Proof. destruct a; reflexivity. Qed.

(* child numbers: bit of axis a *)
Definition cb (c : Z) (a : axis) : Z := cbit c (az a).
Lemma child_bits c : (0 <= c <= 7)%Z ->
  forall a, (cb c a = 0 \/ cb c a = 1)%Z /\
    ((Z.land c (axbit (az a)) =? axbit (az a))%Z = true <-> cb c a = 1%Z) /\
    (cb c a = 0%Z -> (0 <= c + axbit (az a) <= 7)%Z /\ cb (c + axbit (az a)) a = 1%Z /\
                     forall a', a' <> a -> cb (c + axbit (az a)) a' = cb c a') /\
    (cb c a = 1%Z -> (0 <= c - axbit (az a) <= 7)%Z /\ cb (c - axbit (az a)) a = 0%Z /\
                     forall a', a' <> a -> cb (c - axbit (az a)) a' = cb c a').
Proof.
  intros Hc a.
  assert (c = 0 \/ c = 1 \/ c = 2 \/ c = 3 \/ c = 4 \/ c = 5 \/ c = 6 \/ c = 7)%Z as C by lia.
  destruct C as [C|[C|[C|[C|[C|[C|[C|C]]]]]]]; subst c; destruct a; vm_compute;
    (split; [auto|split; [split; intros H; try reflexivity; try discriminate|
      split; intros H; try discriminate; (split; [split; discriminate|split; [reflexivity|intros a' Ha; destruct a'; try reflexivity; exfalso; apply Ha; reflexivity]])]]).
Qed.

Section Neighbours.
Variable g : agrid R.
Notation boxR := (box_of ROps Rhalf g).
Notation anchor := (ag_anchor g).
Notation sides := (ag_sides g).
Notation per := (ag_per g).
Notation nb := (ag_n g).
Hypothesis Hsides : forall a, 0 < vg a sides.
Hypothesis Hnb : forall a, (1 <= ig a nb)%Z.

Definition bsz (a : axis) : R := vg a sides / IZR (ig a nb).
Lemma bsz_pos a : 0 < bsz a.
Proof. unfold bsz. apply block_axis. apply Hsides. apply Hnb. Qed.
Lemma bsz_n a : IZR (ig a nb) * bsz a = vg a sides.
Proof. unfold bsz. destruct (block_axis (vg a sides) (ig a nb) (Hsides a) (Hnb a)) as [_ [_ H]]. exact H. Qed.

(* side of a cell on level L *)
Definition sz (a : axis) (L : nat) : R := bsz a / 2 ^ L.
Lemma sz_pos a L : 0 < sz a L.
Proof. unfold sz. apply Rdiv_lt_0_compat. apply bsz_pos. apply pow_lt. lra. Qed.
Lemma sz_S a L : sz a (S L) = sz a L / 2.
Proof. unfold sz. cbn [pow]. field. apply pow_nonzero. lra. Qed.
Lemma sz_le a L : sz a L <= bsz a.
Proof.
  induction L. unfold sz. cbn [pow]. lra. rewrite sz_S. pose proof (sz_pos a L). lra.
Qed.
Lemma bsz_le_sides a : bsz a <= vg a sides.
Proof. rewrite <- (bsz_n a). pose proof (bsz_pos a). assert (1 <= IZR (ig a nb)) by (apply (IZR_le 1); apply Hnb). nra. Qed.

(* geometry of block and child boxes *)
Lemma block_box_lo b a : blo (block_box ROps g b) a = vg a anchor + IZR (ig a b) * bsz a.
Proof. destruct a; reflexivity. Qed.
Lemma block_box_s b a : vg a (tb_s (block_box ROps g b)) = bsz a.
Proof. destruct a; reflexivity. Qed.
Lemma child_box_lo bb c a : blo (child_box ROps Rhalf bb c) a = blo bb a + IZR (cb c a) * (vg a (tb_s bb) * Rhalf).
Proof. destruct a; reflexivity. Qed.
Lemma child_box_s bb c a : vg a (tb_s (child_box ROps Rhalf bb c)) = vg a (tb_s bb) * Rhalf.
Proof. destruct a; reflexivity. Qed.

Lemma box_s b rp a : vg a (tb_s (box_of_rpath ROps Rhalf (block_box ROps g b) rp)) = sz a (length rp).
Proof.
  induction rp as [|c r IH]. cbn [box_of_rpath length]. rewrite block_box_s. unfold sz. cbn [pow]. field.
  cbn [box_of_rpath length]. rewrite child_box_s, IH, sz_S. field.
Qed.
Lemma boxR_s r a : vg a (tb_s (boxR r)) = sz a (length (snd r)).
Proof. destruct r as [b rp]. apply box_s. Qed.
Lemma boxR_hi r a : bhi (boxR r) a = blo (boxR r) a + sz a (length (snd r)).
Proof. unfold bhi, blo. rewrite boxR_s. reflexivity. Qed.
Lemma boxR_cons b c rp : boxR (b, c :: rp) = child_box ROps Rhalf (boxR (b, rp)) c.
Proof. reflexivity. Qed.
Lemma boxR_cons_lo b c rp a : blo (boxR (b, c :: rp)) a = blo (boxR (b, rp)) a + IZR (cb c a) * sz a (S (length rp)).
Proof. rewrite boxR_cons, child_box_lo, (boxR_s (b, rp)), sz_S. cbn [snd]. unfold Rdiv. ring. Qed.

(* well-formed references *)
Definition inblocks (b : ivec) : Prop := forall a, (0 <= ig a b < ig a nb)%Z.
Fixpoint okpath (rp : list Z) : Prop := match rp with [] => True | c :: r => (0 <= c <= 7)%Z /\ okpath r end.
Definition valid (r : cref) : Prop := inblocks (fst r) /\ okpath (snd r) /\ cell_of g r <> None.
Definition okleaf (r : cref) : Prop := valid r /\ is_single g r = true.

Lemma cell_of_cons b c rp : cell_of g (b, c :: rp) = match cell_of g (b, rp) with Some s => tpick c s | None => None end.
Proof. reflexivity. Qed.

Lemma valid_parent b c rp : valid (b, c :: rp) ->
  valid (b, rp) /\ (0 <= c <= 7)%Z /\
  exists c0 c1 c2 c3 c4 c5 c6 c7, cell_of g (b, rp) = Some (C16_Defs.Node c0 c1 c2 c3 c4 c5 c6 c7).
Proof.
  intros [V1 [[V2 V3] V4]]. cbn [fst snd] in *. rewrite cell_of_cons in V4.
  destruct (cell_of g (b, rp)) as [s|] eqn:E; [|contradiction].
  destruct s as [|c0 c1 c2 c3 c4 c5 c6 c7]. cbn [tpick] in V4. contradiction.
  split. split. exact V1. split. exact V3. cbn [fst snd]. rewrite E. discriminate.
  split. exact V2. do 8 eexists. reflexivity.
Qed.

(* a cell lies inside the simulation box *)
Lemma box_in_block b rp : okpath rp -> forall a,
  blo (boxR (b, [])) a <= blo (boxR (b, rp)) a /\ bhi (boxR (b, rp)) a <= bhi (boxR (b, [])) a.
Proof.
  induction rp as [|c r IH]; intros Hp a.
  - split; lra.
  - destruct Hp as [Hc Hp]. destruct (IH Hp a) as [I1 I2]. rewrite !boxR_hi in *. cbn [snd length] in *.
    rewrite boxR_cons_lo. rewrite sz_S in *. pose proof (sz_pos a (length r)).
    destruct (child_bits c Hc a) as [[B|B] _]; rewrite B; simpl; lra.
Qed.
Lemma valid_in_box r : valid r -> forall a,
  vg a anchor <= blo (boxR r) a /\ bhi (boxR r) a <= vg a anchor + vg a sides.
Proof.
  intros [V1 [V2 _]] a. destruct r as [b rp]. cbn [fst snd] in *. destruct (box_in_block b rp V2 a) as [I1 I2].
  assert (B1 : blo (boxR (b, [])) a = vg a anchor + IZR (ig a b) * bsz a) by apply block_box_lo.
  assert (B2 : bhi (boxR (b, [])) a = vg a anchor + IZR (ig a b) * bsz a + bsz a).
  { rewrite boxR_hi, B1. cbn [snd length]. unfold sz. cbn [pow]. field. }
  specialize (V1 a). pose proof (bsz_pos a). pose proof (bsz_n a).
  assert (0 <= IZR (ig a b)) by (apply (IZR_le 0); lia).
  assert (IZR (ig a b) + 1 <= IZR (ig a nb)) by (rewrite <- (plus_IZR _ 1); apply IZR_le; lia).
  split; nra.
Qed.

(* what set_ngbs stores in _ngbs[2 a + high] of a cell *)
Definition ngb_spec (r : cref) (a : axis) (high : bool) (res : option cref) : Prop :=
  match res with
  | None => bg a per = false /\
            (if high then bhi (boxR r) a = vg a anchor + vg a sides else blo (boxR r) a = vg a anchor)
  | Some nc =>
      valid nc /\ (length (snd nc) <= length (snd r))%nat /\
      ((length (snd nc) < length (snd r))%nat -> is_single g nc = true) /\
      (exists k : Z, (bg a per = false -> k = 0%Z) /\
         (if high then (k = 0 \/ k = -1)%Z /\ blo (boxR nc) a = bhi (boxR r) a + IZR k * vg a sides
          else (k = 0 \/ k = 1)%Z /\ bhi (boxR nc) a = blo (boxR r) a + IZR k * vg a sides)) /\
      (forall a', a' <> a -> blo (boxR nc) a' <= blo (boxR r) a' /\ bhi (boxR r) a' <= bhi (boxR nc) a')
  end.

Lemma child_geom b c rp a :
  blo (boxR (b, c :: rp)) a = blo (boxR (b, rp)) a + IZR (cb c a) * (sz a (length rp) / 2) /\
  bhi (boxR (b, c :: rp)) a = blo (boxR (b, rp)) a + IZR (cb c a) * (sz a (length rp) / 2) + sz a (length rp) / 2 /\
  bhi (boxR (b, rp)) a = blo (boxR (b, rp)) a + sz a (length rp).
Proof.
  rewrite !boxR_hi. cbn [snd length]. rewrite boxR_cons_lo, sz_S. repeat split; ring.
Qed.

Lemma valid_block b : inblocks b -> valid (b, []).
Proof. intros H. split. exact H. split. exact I. cbn. discriminate. Qed.

Lemma block_ngb_spec b a high : inblocks b ->
  ngb_spec (b, []) a high (match block_ngb g b (az a) high with Some b' => Some (b', []) | None => None end).
Proof.
  intros Hb. unfold block_ngb. rewrite !iget_az, bget_az. pose proof (Hb a) as Hi. pose proof (Hnb a) as Hn0.
  assert (Geo : forall v, (0 <= v < ig a nb)%Z ->
            valid (iset (az a) v b, []) /\ blo (boxR (iset (az a) v b, [])) a = vg a anchor + IZR v * bsz a /\
            forall a', a' <> a -> blo (boxR (iset (az a) v b, [])) a' = blo (boxR (b, [])) a').
  { intros v Hv. split.
    - apply valid_block. intros a'. rewrite ig_iset. destruct (axeqb a a') eqn:Q. apply axeqb_true in Q. subst a'. exact Hv. apply Hb.
    - split.
      + change (boxR (iset (az a) v b, [])) with (block_box ROps g (iset (az a) v b)). rewrite block_box_lo, ig_iset, axeqb_refl. reflexivity.
      + intros a' Ha. change (boxR (iset (az a) v b, [])) with (block_box ROps g (iset (az a) v b)).
        change (boxR (b, [])) with (block_box ROps g b). rewrite !block_box_lo, ig_iset.
        destruct (axeqb a a') eqn:Q. apply axeqb_true in Q. congruence. reflexivity. }
  assert (Lo : blo (boxR (b, [])) a = vg a anchor + IZR (ig a b) * bsz a) by apply block_box_lo.
  assert (Hi' : forall r0 a0, bhi (boxR (r0, [])) a0 = blo (boxR (r0, [])) a0 + bsz a0).
  { intros r0 a0. rewrite boxR_hi. cbn [snd length]. unfold sz. cbn [pow]. field. }
  pose proof (bsz_n a) as Bn.
  assert (Cov : forall v, (forall a', a' <> a -> blo (boxR (iset (az a) v b, [])) a' = blo (boxR (b, [])) a') ->
            forall a', a' <> a -> blo (boxR (iset (az a) v b, [])) a' <= blo (boxR (b, [])) a' /\ bhi (boxR (b, [])) a' <= bhi (boxR (iset (az a) v b, [])) a').
  { intros v H a' Ha. rewrite !Hi', (H a' Ha). lra. }
  destruct high.
  - destruct (ig a b <? ig a nb - 1)%Z eqn:E1.
    + apply Z.ltb_lt in E1. destruct (Geo (ig a b + 1)%Z ltac:(lia)) as [G1 [G2 G3]]. cbn [ngb_spec].
      split. exact G1. split. cbn [snd length]. lia. split. cbn [snd length]. lia.
      split. exists 0%Z. split. intros _; reflexivity. split. left; reflexivity. rewrite G2, Hi', Lo, plus_IZR. simpl. ring.
      apply Cov. exact G3.
    + apply Z.ltb_ge in E1. assert (Ei : ig a b = (ig a nb - 1)%Z) by lia. destruct (bg a per) eqn:P.
      * destruct (Geo 0%Z ltac:(lia)) as [G1 [G2 G3]]. cbn [ngb_spec].
        split. exact G1. split. cbn [snd length]. lia. split. cbn [snd length]. lia.
        split. exists (-1)%Z. split. intros HH; congruence. split. right; reflexivity.
        rewrite G2, Hi', Lo, Ei, minus_IZR, <- Bn. simpl. ring.
        apply Cov. exact G3.
      * cbn [ngb_spec]. split. exact P. rewrite Hi', Lo, Ei, minus_IZR, <- Bn. simpl. ring.
  - destruct (0 <? ig a b)%Z eqn:E1.
    + apply Z.ltb_lt in E1. destruct (Geo (ig a b - 1)%Z ltac:(lia)) as [G1 [G2 G3]]. cbn [ngb_spec].
      split. exact G1. split. cbn [snd length]. lia. split. cbn [snd length]. lia.
      split. exists 0%Z. split. intros _; reflexivity. split. left; reflexivity. rewrite Hi', G2, Lo, minus_IZR. simpl. ring.
      apply Cov. exact G3.
    + apply Z.ltb_ge in E1. assert (Ei : ig a b = 0%Z) by lia. destruct (bg a per) eqn:P.
      * destruct (Geo (ig a nb - 1)%Z ltac:(lia)) as [G1 [G2 G3]]. cbn [ngb_spec].
        split. exact G1. split. cbn [snd length]. lia. split. cbn [snd length]. lia.
        split. exists 1%Z. split. intros HH; congruence. split. right; reflexivity.
        rewrite Hi', G2, Lo, Ei, minus_IZR, <- Bn. simpl. ring.
        apply Cov. exact G3.
      * cbn [ngb_spec]. split. exact P. rewrite Lo, Ei. simpl. ring.
Qed.

Lemma valid_sibling b c c' r : valid (b, c :: r) -> (0 <= c' <= 7)%Z -> valid (b, c' :: r).
Proof.
  intros V Hc'. destruct (valid_parent b c r V) as [[P1 [P2 P3]] [Hc [c0 [c1 [c2 [c3 [c4 [c5 [c6 [c7 E]]]]]]]]]].
  split. exact P1. split. split. exact Hc'. exact P2. cbn [fst snd] in *. rewrite cell_of_cons, E. cbn [tpick]. discriminate.
Qed.

Lemma valid_child nc c' : valid nc -> is_single g nc = false -> (0 <= c' <= 7)%Z -> valid (fst nc, c' :: snd nc).
Proof.
  intros [V1 [V2 V3]] Hs Hc'. destruct nc as [b' r']. cbn [fst snd] in *.
  split. exact V1. split. split. exact Hc'. exact V2. cbn [fst snd]. rewrite cell_of_cons.
  unfold is_single in Hs. destruct (cell_of g (b', r')) as [t|]. 2: contradiction.
  destruct t. discriminate. cbn [tpick]. discriminate.
Qed.

Lemma ngb_rp_spec : forall rp b a high, valid (b, rp) -> ngb_spec (b, rp) a high (ngb_rp g b rp (az a) high).
Proof.
  induction rp as [|c r IH]; intros b a high V.
  - cbn [ngb_rp]. apply block_ngb_spec. apply V.
  - destruct (valid_parent b c r V) as [VP [Hc _]].
    destruct (child_bits c Hc a) as [B01 [Bhas [Bup Bdown]]].
    pose proof (fun a' => child_geom b c r a') as Gr.
    assert (Hsz : forall a', 0 < sz a' (length r)) by (intros; apply sz_pos).
    cbn [ngb_rp]. set (bit := axbit (az a)) in *.
    destruct (Z.land c bit =? bit)%Z eqn:Has.
    + assert (C1 : cb c a = 1%Z) by (apply Bhas; reflexivity). destruct (Bdown C1) as [R1 [R2 R3]]. fold bit in R1, R2, R3.
      destruct high; cbn [andb negb].
      * (* upper child, upper neighbour: the neighbour of the parent *)
        pose proof (IH b a true VP) as S. destruct (ngb_rp g b r (az a) true) as [[b' r']|] eqn:En.
        -- cbn [ngb_spec] in S. destruct S as [V' [L1 [L2 [[k [K0 [Kc Kg]]] Cv]]]]. cbn [fst snd] in L1, L2.
           destruct (Gr a) as [Glo [Ghi GPhi]]. rewrite C1 in Glo, Ghi.
           destruct (is_single g (b', r')) eqn:Sg.
           ++ cbn [ngb_spec]. split. exact V'. split. cbn [snd length]. lia. split. intros _. exact Sg.
              split. exists k. split. exact K0. split. exact Kc. rewrite Kg, Ghi, GPhi. simpl. field.
              intros a' Ha. destruct (Cv a' Ha) as [Q1 Q2]. destruct (Gr a') as [Glo' [Ghi' GPhi']].
              destruct (child_bits c Hc a') as [[B|B] _]; rewrite B in Glo', Ghi'; simpl in Glo', Ghi'; specialize (Hsz a'); split; lra.
           ++ assert (El : length r' = length r).
              { destruct (Nat.eq_dec (length r') (length r)) as [E|E]. exact E. assert (Q : (length r' < length r)%nat) by lia. pose proof (L2 Q) as Q2'; congruence. }
              pose proof (valid_child (b', r') (c - bit) V' Sg R1) as Vn. cbn [fst snd] in Vn.
              pose proof (fun a' => child_geom b' (c - bit) r' a') as Gn.
              cbn [ngb_spec]. split. exact Vn. split. cbn [snd length]. lia. split. cbn [snd length]. lia.
              split. exists k. split. exact K0. split. exact Kc.
              destruct (Gn a) as [Nlo _]. rewrite R2 in Nlo. rewrite Nlo, Kg, Ghi, GPhi. simpl. field.
              intros a' Ha. destruct (Cv a' Ha) as [Q1 Q2]. destruct (Gr a') as [Glo' [Ghi' GPhi']]. destruct (Gn a') as [Nlo' [Nhi' NPhi']].
              rewrite (R3 a' Ha) in Nlo', Nhi'. rewrite El in *. rewrite GPhi', NPhi' in Q2.
              assert (blo (boxR (b', r')) a' = blo (boxR (b, r)) a') by lra. split; lra.
        -- cbn [ngb_spec] in S |- *. destruct S as [P Q]. split. exact P. destruct (Gr a) as [Glo [Ghi GPhi]]. rewrite C1 in Ghi.
           rewrite Ghi, <- Q, GPhi. simpl. field.
      * (* upper child, lower neighbour: the sibling *)
        pose proof (valid_sibling b c (c - bit) r V R1) as Vn. pose proof (fun a' => child_geom b (c - bit) r a') as Gn.
        cbn [ngb_spec]. split. exact Vn. split. cbn [snd length]. lia. split. cbn [snd length]. lia.
        split. exists 0%Z. split. intros _; reflexivity. split. left; reflexivity.
        destruct (Gn a) as [_ [Nhi _]]. destruct (Gr a) as [Glo _]. rewrite R2 in Nhi. rewrite C1 in Glo. rewrite Nhi, Glo. simpl. field.
        intros a' Ha. destruct (Gr a') as [Glo' [Ghi' _]]. destruct (Gn a') as [Nlo' [Nhi' _]]. rewrite (R3 a' Ha) in Nlo', Nhi'. split; lra.
    + assert (C0 : cb c a = 0%Z).
      { destruct B01 as [B|B]. exact B. apply Bhas in B. discriminate B. }
      destruct (Bup C0) as [R1 [R2 R3]]. fold bit in R1, R2, R3.
      destruct high; cbn [andb negb].
      * (* lower child, upper neighbour: the sibling *)
        pose proof (valid_sibling b c (c + bit) r V R1) as Vn. pose proof (fun a' => child_geom b (c + bit) r a') as Gn.
        cbn [ngb_spec]. split. exact Vn. split. cbn [snd length]. lia. split. cbn [snd length]. lia.
        split. exists 0%Z. split. intros _; reflexivity. split. left; reflexivity.
        destruct (Gn a) as [Nlo _]. destruct (Gr a) as [_ [Ghi _]]. rewrite R2 in Nlo. rewrite C0 in Ghi. rewrite Nlo, Ghi. simpl. field.
        intros a' Ha. destruct (Gr a') as [Glo' [Ghi' _]]. destruct (Gn a') as [Nlo' [Nhi' _]]. rewrite (R3 a' Ha) in Nlo', Nhi'. split; lra.
      * (* lower child, lower neighbour: the neighbour of the parent *)
        pose proof (IH b a false VP) as S. destruct (ngb_rp g b r (az a) false) as [[b' r']|] eqn:En.
        -- cbn [ngb_spec] in S. destruct S as [V' [L1 [L2 [[k [K0 [Kc Kg]]] Cv]]]]. cbn [fst snd] in L1, L2.
           destruct (Gr a) as [Glo [Ghi GPhi]]. rewrite C0 in Glo, Ghi.
           destruct (is_single g (b', r')) eqn:Sg.
           ++ cbn [ngb_spec]. split. exact V'. split. cbn [snd length]. lia. split. intros _. exact Sg.
              split. exists k. split. exact K0. split. exact Kc. rewrite Kg, Glo. simpl. field.
              intros a' Ha. destruct (Cv a' Ha) as [Q1 Q2]. destruct (Gr a') as [Glo' [Ghi' GPhi']].
              destruct (child_bits c Hc a') as [[B|B] _]; rewrite B in Glo', Ghi'; simpl in Glo', Ghi'; specialize (Hsz a'); split; lra.
           ++ assert (El : length r' = length r).
              { destruct (Nat.eq_dec (length r') (length r)) as [E|E]. exact E. assert (Q : (length r' < length r)%nat) by lia. pose proof (L2 Q) as Q2'; congruence. }
              pose proof (valid_child (b', r') (c + bit) V' Sg R1) as Vn. cbn [fst snd] in Vn.
              pose proof (fun a' => child_geom b' (c + bit) r' a') as Gn.
              cbn [ngb_spec]. split. exact Vn. split. cbn [snd length]. lia. split. cbn [snd length]. lia.
              split. exists k. split. exact K0. split. exact Kc.
              destruct (Gn a) as [_ [Nhi NPhi]]. rewrite R2 in Nhi. rewrite NPhi in Kg. rewrite El in *. rewrite Nhi, Glo. simpl. lra.
              intros a' Ha. destruct (Cv a' Ha) as [Q1 Q2]. destruct (Gr a') as [Glo' [Ghi' GPhi']]. destruct (Gn a') as [Nlo' [Nhi' NPhi']].
              rewrite (R3 a' Ha) in Nlo', Nhi'. rewrite El in *. rewrite GPhi', NPhi' in Q2.
              assert (blo (boxR (b', r')) a' = blo (boxR (b, r)) a') by lra. split; lra.
        -- cbn [ngb_spec] in S |- *. destruct S as [P Q]. split. exact P. destruct (Gr a) as [Glo _]. rewrite C0 in Glo.
           rewrite Glo, Q. simpl. field.
Qed.

(* AMRGridCell::get_child(position) *)
Lemma child_of_pos_spec bb q : (forall a, 0 < vg a (tb_s bb)) -> in_tbox bb q ->
  let c := child_of_pos ROps Rhalf bb q in
  (0 <= c <= 7)%Z /\ in_tbox (child_box ROps Rhalf bb c) q.
Proof.
  intros Hs Hin c.
  remember (Rltb (vx (tb_a bb) + Rhalf * vx (tb_s bb)) (vx q)) as jx eqn:JX.
  remember (Rltb (vy (tb_a bb) + Rhalf * vy (tb_s bb)) (vy q)) as jy eqn:JY.
  remember (Rltb (vz (tb_a bb) + Rhalf * vz (tb_s bb)) (vz q)) as jz eqn:JZ.
  assert (Ec : c = (4 * b2z jx + 2 * b2z jy + b2z jz)%Z) by (subst jx jy jz; reflexivity).
  assert (Bits : cb c AX = b2z jx /\ cb c AY = b2z jy /\ cb c AZ = b2z jz) by (rewrite Ec; destruct jx, jy, jz; vm_compute; auto).
  destruct Bits as [BX [BY BZ]]. symmetry in JX, JY, JZ.
  split. rewrite Ec. destruct jx, jy, jz; cbn [b2z]; lia.
  intros a.
  assert (Ehi : bhi (child_box ROps Rhalf bb c) a = blo (child_box ROps Rhalf bb c) a + vg a (tb_s bb) * Rhalf)
    by (unfold bhi, blo; rewrite child_box_s; reflexivity).
  rewrite Ehi, child_box_lo. pose proof (Hin a) as Ha. pose proof (Hs a) as Hsa. unfold blo, bhi in *.
  destruct a; cbn [vg] in *.
  - rewrite BX. destruct jx; cbn [b2z]; [apply Rltb_true in JX | apply Rltb_false in JX]; simpl; lra.
  - rewrite BY. destruct jy; cbn [b2z]; [apply Rltb_true in JY | apply Rltb_false in JY]; simpl; lra.
  - rewrite BZ. destruct jz; cbn [b2z]; [apply Rltb_true in JZ | apply Rltb_false in JZ]; simpl; lra.
Qed.

Lemma pick_cases (P : C16_Defs.tree -> Prop) c c0 c1 c2 c3 c4 c5 c6 c7 : (0 <= c <= 7)%Z ->
  P c0 -> P c1 -> P c2 -> P c3 -> P c4 -> P c5 -> P c6 -> P c7 -> P (C16_Defs.pick c c0 c1 c2 c3 c4 c5 c6 c7).
Proof.
  intros Hc. assert (c = 0 \/ c = 1 \/ c = 2 \/ c = 3 \/ c = 4 \/ c = 5 \/ c = 6 \/ c = 7)%Z as C by lia.
  destruct C as [C|[C|[C|[C|[C|[C|[C|C]]]]]]]; subst c; intros; assumption.
Qed.

(* the descent into a refined cell ends in a single cell whose closed box contains the position *)
Lemma descend_spec : forall t b rp q, inblocks b -> okpath rp -> cell_of g (b, rp) = Some t -> in_tbox (boxR (b, rp)) q ->
  okleaf (b, descend ROps Rhalf t (boxR (b, rp)) rp q) /\ in_tbox (boxR (b, descend ROps Rhalf t (boxR (b, rp)) rp q)) q.
Proof.
  induction t as [|c0 IH0 c1 IH1 c2 IH2 c3 IH3 c4 IH4 c5 IH5 c6 IH6 c7 IH7]; intros b rp q Hb Hp Ec Hin.
  - cbn [descend]. split. split. split. exact Hb. split. exact Hp. cbn [fst snd]. rewrite Ec. discriminate.
    unfold is_single. rewrite Ec. reflexivity. exact Hin.
  - cbn [descend].
    assert (Hs : forall a, 0 < vg a (tb_s (boxR (b, rp)))) by (intros a; rewrite boxR_s; apply sz_pos).
    destruct (child_of_pos_spec (boxR (b, rp)) q Hs Hin) as [Hc Hin']. cbv zeta in Hc, Hin'.
    set (c := child_of_pos ROps Rhalf (boxR (b, rp)) q) in *.
    change (child_box ROps Rhalf (boxR (b, rp)) c) with (boxR (b, c :: rp)) in *.
    assert (Ec' : cell_of g (b, c :: rp) = Some (C16_Defs.pick c c0 c1 c2 c3 c4 c5 c6 c7)) by (rewrite cell_of_cons, Ec; reflexivity).
    revert Ec'. apply (pick_cases (fun t => cell_of g (b, c :: rp) = Some t ->
        okleaf (b, descend ROps Rhalf t (boxR (b, c :: rp)) (c :: rp) q) /\
        in_tbox (boxR (b, descend ROps Rhalf t (boxR (b, c :: rp)) (c :: rp) q)) q) c); try exact Hc;
      intros E; [apply IH0|apply IH1|apply IH2|apply IH3|apply IH4|apply IH5|apply IH6|apply IH7]; try assumption; split; assumption.
Qed.

(* periodic_correction of the repaired code *)
Lemma acorr_spec cur nc a (high : bool) k : valid cur -> valid nc ->
  (bg a per = false -> k = 0%Z) ->
  (if high then (k = 0 \/ k = -1)%Z /\ blo (boxR nc) a = bhi (boxR cur) a + IZR k * vg a sides
   else (k = 0 \/ k = 1)%Z /\ bhi (boxR nc) a = blo (boxR cur) a + IZR k * vg a sides) ->
  acorr ROps true g (az a) (if high then 1 else -1)%Z (tb_a (boxR cur)) (tb_a (boxR nc)) = IZR k * vg a sides.
Proof.
  intros Vc Vn K0 Kg. unfold acorr. rewrite bget_az, !vget_az. rsimp.
  fold (blo (boxR cur) a). fold (blo (boxR nc) a).
  pose proof (boxR_hi cur a) as Hc. pose proof (boxR_hi nc a) as Hn'.
  pose proof (sz_pos a (length (snd cur))) as P1. pose proof (sz_pos a (length (snd nc))) as P2.
  pose proof (sz_le a (length (snd cur))) as Q1. pose proof (sz_le a (length (snd nc))) as Q2. pose proof (bsz_le_sides a) as Q3.
  destruct (bg a per) eqn:P.
  - destruct high; destruct Kg as [[Kz|Kz] Kg]; subst k; cbn [Z.ltb Z.compare andb negb].
    + assert (E : Rltb (blo (boxR cur) a) (blo (boxR nc) a) = true) by (apply Rltb_true; simpl in Kg; lra). rewrite E. cbn [negb]. simpl. ring.
    + assert (E : Rltb (blo (boxR cur) a) (blo (boxR nc) a) = false) by (apply Rltb_false; simpl in Kg; lra). rewrite E. cbn [negb]. simpl. ring.
    + assert (E : Rltb (blo (boxR nc) a) (blo (boxR cur) a) = true) by (apply Rltb_true; simpl in Kg; lra). rewrite E. cbn [negb]. simpl. ring.
    + assert (E : Rltb (blo (boxR nc) a) (blo (boxR cur) a) = false) by (apply Rltb_false; simpl in Kg; lra). rewrite E. cbn [negb]. simpl. ring.
  - rewrite (K0 eq_refl). simpl. ring.
Qed.

(* the neighbour part of get_wall_intersection, repaired code: Hnext of part M for okcell := okleaf *)
Lemma next_cell_ok (d : vec R) cur a q : okleaf cur -> in_tbox (boxR cur) q -> vg a d <> 0 ->
  vg a q = (if Rltb 0 (vg a d) then bhi (boxR cur) a else blo (boxR cur) a) ->
  let nd := (if Rltb 0 (vg a d) then 1 else -1)%Z in
  let nc := next_cell ROps Rhalf true true g cur (az a) nd (tb_a (boxR cur)) q in
  exists k : Z,
    snd nc = vunit ROps (az a) (IZR k * vg a sides) /\
    (bg a per = false -> k = 0%Z) /\
    match fst nc with
    | Some r' => okleaf r' /\ in_tbox (boxR r') (vplus ROps q (vunit ROps (az a) (IZR k * vg a sides)))
    | None => k = 0%Z /\ bg a per = false /\
              vg a q = (if Rltb 0 (vg a d) then vg a anchor + vg a sides else vg a anchor)
    end.
Proof.
  intros [Vc Sc] Hin NZ Hq nd nc.
  set (high := Rltb 0 (vg a d)) in *.
  assert (Eh : negb (nd <? 0)%Z = high) by (unfold nd; destruct high; reflexivity).
  unfold nc, next_cell. rewrite Eh. destruct cur as [b rp]. unfold ngb. cbn [fst snd].
  pose proof (ngb_rp_spec rp b a high Vc) as S. destruct (ngb_rp g b rp (az a) high) as [[b' r']|] eqn:En.
  - cbn [ngb_spec] in S. destruct S as [Vn [L1 [L2 [[k [K0 Kg]] Cv]]]].
    assert (Ea : acorr ROps true g (az a) nd (tb_a (boxR (b, rp))) (tb_a (boxR (b', r'))) = IZR k * vg a sides).
    { unfold nd. apply (acorr_spec (b, rp) (b', r') a high k Vc Vn K0 Kg). }
    rewrite Ea. exists k. cbn [fst snd]. split. reflexivity. split. exact K0.
    set (q' := vplus ROps q (vunit ROps (az a) (IZR k * vg a sides))).
    assert (Hq' : in_tbox (boxR (b', r')) q').
    { intros a'. unfold q'. rewrite vg_vplus, vg_vunit. destruct (axeqb a a') eqn:Q.
      - apply axeqb_true in Q. subst a'. pose proof (boxR_hi (b', r') a) as Hh. pose proof (sz_pos a (length (snd (b', r')))) as Hp.
        destruct high; destruct Kg as [_ Kg]; rewrite Hq; lra.
      - assert (Ha : a' <> a) by (intros X; subst a'; rewrite axeqb_refl in Q; discriminate).
        destruct (Cv a' Ha) as [C1 C2]. pose proof (Hin a'). lra. }
    destruct Vn as [Vn1 [Vn2 Vn3]]. cbn [fst snd] in Vn1, Vn2, Vn3.
    destruct (cell_of g (b', r')) as [t|] eqn:Ec; [|contradiction].
    apply (descend_spec t b' r' q' Vn1 Vn2 Ec Hq').
  - cbn [ngb_spec] in S. destruct S as [P F]. exists 0%Z. cbn [fst snd]. split.
    + unfold vunit. destruct (az a) as [|[p|p|]|p]; simpl; repeat f_equal; ring.
    + split. intros _; reflexivity. split. reflexivity. split. exact P. rewrite Hq. destruct high; exact F.
Qed.

End Neighbours.

(* ===========================================================================
   Part L: AMRGrid::get_cell(position) finds a single cell whose closed box contains the position *)
Lemma RtruncZ_nonneg x : 0 <= x -> IZR (RtruncZ x) <= x < IZR (RtruncZ x) + 1 /\ (0 <= RtruncZ x)%Z.
Proof.
  intros H. unfold RtruncZ. destruct (Rle_dec 0 x) as [_|N]; [|contradiction].
  destruct (base_Int_part x) as [B1 B2]. split. lra.
  assert (IZR (-1) < IZR (Int_part x)) by (replace (IZR (-1)) with (-1) by reflexivity; lra). apply lt_IZR in H0. lia.
Qed.

Section Locate.
Variable g : agrid R.
Notation boxR := (box_of ROps Rhalf g).
Notation anchor := (ag_anchor g).
Notation sides := (ag_sides g).
Notation nb := (ag_n g).
Hypothesis Hsides : forall a, 0 < vg a sides.
Hypothesis Hnb : forall a, (1 <= ig a nb)%Z.

Lemma block_index1_spec a x : vg a anchor <= x < vg a anchor + vg a sides ->
  let i := block_index1 ROps (ig a nb) x (vg a anchor) (vg a sides) in
  (0 <= i < ig a nb)%Z /\ vg a anchor + IZR i * bsz g a <= x <= vg a anchor + IZR i * bsz g a + bsz g a.
Proof.
  intros Hx i. pose proof (Hsides a) as Hs. pose proof (Hnb a) as Hn.
  assert (Hnr : 1 <= IZR (ig a nb)) by (apply (IZR_le 1); exact Hn).
  set (t := IZR (ig a nb) * (x - vg a anchor) / vg a sides).
  assert (T0 : 0 <= t) by (unfold t; apply Rmult_le_pos; [apply Rmult_le_pos; lra | left; apply Rinv_0_lt_compat; lra]).
  assert (T1 : t < IZR (ig a nb)).
  { unfold t. apply (Rmult_lt_reg_r (vg a sides)). lra. unfold Rdiv. rewrite Rmult_assoc, Rinv_l by lra. nra. }
  destruct (RtruncZ_nonneg t T0) as [[F1 F2] F3].
  assert (Lt : (RtruncZ t < ig a nb)%Z) by (apply lt_IZR; lra).
  assert (Ei : i = RtruncZ t).
  { unfold i, block_index1; rsimp. fold t. assert (Q : (RtruncZ t <? ig a nb)%Z = true) by (apply Z.ltb_lt; exact Lt). rewrite Q. reflexivity. }
  rewrite Ei. split. lia.
  assert (Et : x = vg a anchor + t * bsz g a). { unfold t, bsz. field. lra. }
  pose proof (bsz_pos g Hsides Hnb a). split; nra.
Qed.

Lemma half_index1_spec x lo s : 0 < s -> lo <= x <= lo + s ->
  let j := half_index1 ROps x lo s in
  (j = 0 \/ j = 1)%Z /\ lo + IZR j * (s * Rhalf) <= x <= lo + IZR j * (s * Rhalf) + s * Rhalf.
Proof.
  intros Hs Hx j. set (t := 2 * (x - lo) / s).
  assert (T0 : 0 <= t) by (unfold t; apply Rmult_le_pos; [lra | left; apply Rinv_0_lt_compat; lra]).
  assert (T2 : t <= 2).
  { unfold t. apply (Rmult_le_reg_r s). lra. unfold Rdiv. rewrite Rmult_assoc, Rinv_l by lra. lra. }
  destruct (RtruncZ_nonneg t T0) as [[F1 F2] F3].
  assert (Et : x = lo + t * (s / 2)) by (unfold t; field; lra).
  assert (Le2 : (RtruncZ t <= 2)%Z) by (apply le_IZR; lra).
  assert (Ej : j = (if (1 <? RtruncZ t)%Z then 1 else RtruncZ t)%Z).
  { unfold j, half_index1; rsimp. replace (IZR 2) with 2 by reflexivity. fold t. reflexivity. }
  destruct (1 <? RtruncZ t)%Z eqn:Q.
  - apply Z.ltb_lt in Q. assert (RtruncZ t = 2%Z) by lia. rewrite H in *. rewrite Ej. split. right; reflexivity.
    replace (IZR 2) with 2 in F1 by reflexivity. assert (t = 2) by lra. simpl. nra.
  - apply Z.ltb_ge in Q. rewrite Ej. assert (RtruncZ t = 0 \/ RtruncZ t = 1)%Z as [E|E] by lia; rewrite E in *.
    + split. left; reflexivity. simpl in *. nra.
    + split. right; reflexivity. simpl in *. nra.
Qed.

Lemma locate_spec : forall t b rp q, inblocks g b -> okpath rp -> cell_of g (b, rp) = Some t -> in_tbox (boxR (b, rp)) q ->
  okleaf g (b, locate ROps Rhalf t (boxR (b, rp)) rp q) /\ in_tbox (boxR (b, locate ROps Rhalf t (boxR (b, rp)) rp q)) q.
Proof.
  induction t as [|c0 IH0 c1 IH1 c2 IH2 c3 IH3 c4 IH4 c5 IH5 c6 IH6 c7 IH7]; intros b rp q Hb Hp Ec Hin.
  - cbn [locate]. split. split. split. exact Hb. split. exact Hp. cbn [fst snd]. rewrite Ec. discriminate.
    unfold is_single. rewrite Ec. reflexivity. exact Hin.
  - cbn [locate].
    assert (Hs : forall a, 0 < vg a (tb_s (boxR (b, rp)))) by (intros a; rewrite (boxR_s g); apply (sz_pos g Hsides Hnb)).
    set (bb := boxR (b, rp)) in *.
    destruct (half_index1_spec (vx q) (vx (tb_a bb)) (vx (tb_s bb)) (Hs AX) (Hin AX)) as [JX GX].
    destruct (half_index1_spec (vy q) (vy (tb_a bb)) (vy (tb_s bb)) (Hs AY) (Hin AY)) as [JY GY].
    destruct (half_index1_spec (vz q) (vz (tb_a bb)) (vz (tb_s bb)) (Hs AZ) (Hin AZ)) as [JZ GZ]. cbv zeta in *.
    set (jx := half_index1 ROps (vx q) (vx (tb_a bb)) (vx (tb_s bb))) in *.
    set (jy := half_index1 ROps (vy q) (vy (tb_a bb)) (vy (tb_s bb))) in *.
    set (jz := half_index1 ROps (vz q) (vz (tb_a bb)) (vz (tb_s bb))) in *.
    set (c := (4 * jx + 2 * jy + jz)%Z).
    assert (Hc : (0 <= c <= 7)%Z) by (unfold c; lia).
    assert (Bits : cb c AX = jx /\ cb c AY = jy /\ cb c AZ = jz).
    { unfold c. destruct JX as [X|X], JY as [Y|Y], JZ as [Z0|Z0]; rewrite X, Y, Z0; vm_compute; auto. }
    destruct Bits as [BX [BY BZ]].
    assert (Hin' : in_tbox (boxR (b, c :: rp)) q).
    { intros a. rewrite (boxR_cons g). fold bb.
      assert (Ehi : bhi (child_box ROps Rhalf bb c) a = blo (child_box ROps Rhalf bb c) a + vg a (tb_s bb) * Rhalf)
        by (unfold bhi, blo; rewrite child_box_s; reflexivity).
      rewrite Ehi, child_box_lo. unfold blo. destruct a; cbn [vg]; [rewrite BX|rewrite BY|rewrite BZ]; assumption. }
    assert (Ec' : cell_of g (b, c :: rp) = Some (C16_Defs.pick c c0 c1 c2 c3 c4 c5 c6 c7)) by (rewrite cell_of_cons, Ec; reflexivity).
    change (child_box ROps Rhalf bb c) with (boxR (b, c :: rp)).
    revert Ec'. apply (pick_cases (fun t => cell_of g (b, c :: rp) = Some t ->
        okleaf g (b, locate ROps Rhalf t (boxR (b, c :: rp)) (c :: rp) q) /\
        in_tbox (boxR (b, locate ROps Rhalf t (boxR (b, c :: rp)) (c :: rp) q)) q) c); try exact Hc;
      intros E; [apply IH0|apply IH1|apply IH2|apply IH3|apply IH4|apply IH5|apply IH6|apply IH7]; try assumption; split; assumption.
Qed.

Lemma amr_locate_spec q : (forall a, vg a anchor <= vg a q < vg a anchor + vg a sides) ->
  okleaf g (amr_locate ROps Rhalf g q) /\ in_tbox (boxR (amr_locate ROps Rhalf g q)) q.
Proof.
  intros Hq. unfold amr_locate.
  set (b := mkI (block_index1 ROps (ix nb) (vx q) (vx anchor) (vx sides)) (block_index1 ROps (iy nb) (vy q) (vy anchor) (vy sides))
                (block_index1 ROps (iz nb) (vz q) (vz anchor) (vz sides))).
  assert (F : forall a, (0 <= ig a b < ig a nb)%Z /\
                        vg a anchor + IZR (ig a b) * bsz g a <= vg a q <= vg a anchor + IZR (ig a b) * bsz g a + bsz g a).
  { intros a. pose proof (block_index1_spec a (vg a q) (Hq a)) as S. cbv zeta in S. destruct a; exact S. }
  assert (Hb : inblocks g b) by (intros a; apply F).
  assert (Hin : in_tbox (boxR (b, [])) q).
  { intros a. destruct (F a) as [_ G]. rewrite (boxR_hi g). cbn [snd length]. change (boxR (b, [])) with (block_box ROps g b).
    rewrite (block_box_lo g). unfold sz. cbn [pow]. lra. }
  apply (locate_spec (blk_of g b) b [] q Hb I). reflexivity. exact Hin.
Qed.

End Locate.

(* ===========================================================================
   the whole call, repaired code, every well-formed grid (every tree = every refinement history) *)
Definition lkappaA (cells : cref -> cellc R) (ph : lphoton R) (c : cref) : R :=
  c_n (cells c) * (lp_sH ph * c_xH (cells c) + lp_sHe ph * c_xHe (cells c)).

Record agood (g : agrid R) (cells : cref -> cellc R) (ph : lphoton R) (target : R) : Prop := mkAGood {
  agd_n : forall a, (1 <= ig a (ag_n g))%Z;
  agd_sides : forall a, 0 < vg a (ag_sides g);
  agd_start : forall a, vg a (ag_anchor g) <= vg a (lp_pos ph) < vg a (ag_anchor g) + vg a (ag_sides g);
  agd_cells : forall c, 0 <= c_n (cells c) /\ 0 <= c_xH (cells c) /\ 0 <= c_xHe (cells c);
  agd_sigma : 0 <= lp_sH ph /\ 0 <= lp_sHe ph;
  agd_tau : 0 < target;
  agd_unit : anorm2 (lp_dir ph) = 1;
  agd_big : exists j, vg j (lp_dir ph) <> 0 /\ bsz g j < RDBLMAX * Rabs (vg j (lp_dir ph))
}.

Definition astart (g : agrid R) (ph : lphoton R) (target : R) : astate R :=
  mkAS (lp_pos ph) (Some (amr_locate ROps Rhalf g (lp_pos ph))) target [] None.

Section AMRTop.
Variables (g : agrid R) (cells : cref -> cellc R) (ph : lphoton R) (target : R).
Hypothesis G : agood g cells ph target.

Let d := lp_dir ph.
Let p0 := lp_pos ph.
Let od := fun c ds => lod ROps ph (cells c) ds.
Let kap := lkappaA cells ph.
Let st0 := astart g ph target.
Notation boxR := (box_of ROps Rhalf g).
Notation ok := (okleaf g).
Notation AInv' := (AInv g d target kap p0 ok).

Let Hs := agd_sides _ _ _ _ G.
Let Hn := agd_n _ _ _ _ G.
Let Hunit := agd_unit _ _ _ _ G.

Lemma atop_Hod : forall c l, od c l = kap c * l.
Proof. intros. unfold od, kap, lod, lkappaA. rsimp. ring. Qed.
Lemma atop_Hkap : forall c, 0 <= kap c.
Proof.
  intros c. unfold kap, lkappaA. destruct (agd_cells _ _ _ _ G c) as [A [B C]]. destruct (agd_sigma _ _ _ _ G) as [S1 S2].
  apply Rmult_le_pos. exact A. apply Rplus_le_le_0_compat; apply Rmult_le_pos; assumption.
Qed.
Lemma atop_cellpos : forall r, ok r -> forall a, 0 < vg a (tb_s (boxR r)).
Proof. intros r _ a. rewrite (boxR_s g). apply (sz_pos g Hs Hn). Qed.
Lemma atop_cellin : forall r, ok r -> forall a,
  vg a (ag_anchor g) <= blo (boxR r) a /\ bhi (boxR r) a <= vg a (ag_anchor g) + vg a (ag_sides g).
Proof. intros r [V _] a. apply (valid_in_box g Hs Hn r V a). Qed.
Lemma atop_big : exists j, vg j d <> 0 /\ forall r, ok r -> vg j (tb_s (boxR r)) < RDBLMAX * Rabs (vg j d).
Proof.
  destruct (agd_big _ _ _ _ G) as [j [Hj Hb]]. exists j. split. exact Hj. intros r _. rewrite (boxR_s g).
  pose proof (sz_le g Hs Hn j (length (snd r))). fold d in Hb. lra.
Qed.
Definition atop_next := next_cell_ok g Hs Hn d.

Lemma astart_inv : AInv' st0 (fun _ => 0%Z).
Proof.
  destruct (amr_locate_spec g Hs Hn p0 (agd_start _ _ _ _ G)) as [L1 L2].
  constructor; unfold st0, astart; cbn [as_pos as_cur as_tau as_vis as_last].
  - split. exact L1. exact L2.
  - intros a. pose proof (agd_start _ _ _ _ G a). lra.
  - intros a. fold p0. cbn [sumlenA fold_right]. simpl. ring.
  - intros a _. reflexivity.
  - constructor.
  - cbn [sumtauA fold_right]. split. intros; ring. pose proof (agd_tau _ _ _ _ G). intros; lra.
  - reflexivity.
  - intros k c len H. cbn [rev] in H. destruct k; discriminate.
Qed.

Lemma amr_result fuel r : amr_interact ROps sqrt Rhalf true true true fuel g cells ph target = AOk r ->
  exists x W, areach g d od st0 x /\ acond x = false /\ AInv' x W /\
    ar_fin r = x /\ ar_pos r = as_pos x /\ ar_vis r = rev (as_vis x) /\
    ar_cell r = (match as_cur x with None => None | Some _ => as_last x end).
Proof.
  intros H. unfold amr_interact in H. fold d od in H.
  change (mkAS (lp_pos ph) (Some (amr_locate ROps Rhalf g (lp_pos ph))) target [] None) with st0 in H.
  destruct (amarch ROps sqrt Rhalf true true true g d od fuel st0) as [x|] eqn:M; [|discriminate].
  destruct (amarch_reach g d od fuel st0 x M) as [Rx Cx].
  pose proof (areach_inv g d target od kap p0 ok Hunit atop_Hod atop_Hkap atop_cellpos atop_cellin atop_big atop_next st0 x
               (ex_intro _ _ astart_inv) Rx) as [W I].
  inversion H; subst r. clear H. cbn [ar_fin ar_pos ar_vis ar_cell].
  exists x, W. split. exact Rx. split. exact Cx. split. exact I. split. reflexivity. split. reflexivity. split; reflexivity.
Qed.

(* (a) lengths are non-negative and sum to the distance travelled; position = start + S d modulo box periods *)
Lemma amr_path_thm fuel r : amr_interact ROps sqrt Rhalf true true true fuel g cells ph target = AOk r ->
  Forall (fun v => 0 <= snd v) (ar_vis r) /\
  exists W, ashift_ok g W /\
    forall a, vg a (ar_pos r) = vg a p0 + sumlenA (ar_vis r) * vg a d + IZR (W a) * vg a (ag_sides g).
Proof.
  intros H. destruct (amr_result fuel r H) as [x [W [Rx [Cx [I [Ef [Ep [Ev Ec]]]]]]]].
  split. rewrite Ev. apply Forall_rev_iff. apply (ai_len _ _ _ _ _ _ _ _ I).
  exists W. split. apply (ai_W _ _ _ _ _ _ _ _ I). intros a. rewrite Ep, Ev, sumlenA_rev. apply (ai_pos _ _ _ _ _ _ _ _ I).
Qed.

(* (a) every visit is a single cell of the grid and is credited the piece of the straight line inside its closed box *)
Lemma amr_segments_thm fuel r k c len : amr_interact ROps sqrt Rhalf true true true fuel g cells ph target = AOk r ->
  nth_error (ar_vis r) k = Some (c, len) ->
  okleaf g c /\ exists w, ashift_ok g w /\
    forall s, sumlenA (firstn k (ar_vis r)) <= s <= sumlenA (firstn k (ar_vis r)) + len ->
              in_tbox (boxR c) (ashifted g (aray d p0 s) w).
Proof.
  intros H Hk. destruct (amr_result fuel r H) as [x [W [Rx [Cx [I [Ef [Ep [Ev Ec]]]]]]]].
  rewrite Ev in Hk |- *. destruct (ai_seg _ _ _ _ _ _ _ _ I k c len Hk) as [Okc [w [J3 J4]]]. cbv zeta in J4.
  destruct J4 as [A B]. split. exact Okc. exists w. split. exact J3.
  intros s Hs0 a. specialize (A a). specialize (B a). unfold blo, bhi in *. rewrite vg_ashifted, vg_aray in *.
  set (s0 := sumlenA (firstn k (rev (as_vis x)))) in *.
  destruct (Rle_dec 0 (vg a d)); split; nra.
Qed.

(* (b) optical depth accounting *)
Lemma amr_tau_thm fuel r : amr_interact ROps sqrt Rhalf true true true fuel g cells ph target = AOk r ->
  sumtauA kap (ar_vis r) <= target /\
  (ar_cell r <> None -> sumtauA kap (ar_vis r) = target) /\
  (ar_cell r = None -> 0 <= as_tau (ar_fin r) /\ sumtauA kap (ar_vis r) = target - as_tau (ar_fin r)).
Proof.
  intros H. destruct (amr_result fuel r H) as [x [W [Rx [Cx [I [Ef [Ep [Ev Ec]]]]]]]].
  destruct (afinal_facts g d target kap p0 ok x W I Cx) as [F1 F2].
  rewrite Ev, sumtauA_rev, Ef. destruct (as_cur x) as [cur|] eqn:Ecur.
  - destruct (F1 cur eq_refl) as [T1 T2]. split. lra. split. intros _; exact T2.
    intros N. rewrite Ec in N. pose proof (ai_last _ _ _ _ _ _ _ _ I) as L. destruct (as_vis x) as [|v vis] eqn:Evis.
    + (* no visit at all: impossible, the start is a cell and the target is positive *)
      exfalso. destruct (ai_tau _ _ _ _ _ _ _ _ I) as [Ta Tb]. rewrite Evis in *. cbn [sumtauA fold_right] in *.
      pose proof (agd_tau _ _ _ _ G). destruct (Rle_dec 0 (as_tau x)) as [Q|Q]. specialize (Ta Q). lra. assert (as_tau x < 0) by lra. specialize (Tb H1). lra.
    + destruct L as [L _]. rewrite L in N. discriminate.
  - destruct (F2 eq_refl) as [T1 T2]. split. lra. split. intros N. rewrite Ec in N. contradiction. intros _. split; assumption.
Qed.

(* (c) absorbed: the returned cell is a single cell of the grid whose closed box contains the final position
   (exactly, when the target was reached before the wall; up to a box period when it was reached on a periodic face) *)
Lemma amr_absorbed_thm fuel r c : amr_interact ROps sqrt Rhalf true true true fuel g cells ph target = AOk r -> ar_cell r = Some c ->
  sumtauA kap (ar_vis r) = target /\ as_tau (ar_fin r) <= 0 /\
  (exists pre len, ar_vis r = pre ++ [(c, len)]) /\ okleaf g c /\
  exists wl, ashift_ok g wl /\ in_tbox (boxR c) (ashifted g (ar_pos r) wl) /\
    (as_tau (ar_fin r) < 0 -> forall a, wl a = 0%Z).
Proof.
  intros H Hc. destruct (amr_result fuel r H) as [x [W [Rx [Cx [I [Ef [Ep [Ev Ec]]]]]]]].
  destruct (afinal_facts g d target kap p0 ok x W I Cx) as [F1 _].
  rewrite Hc in Ec. destruct (as_cur x) as [cur|] eqn:Ecur; [|discriminate].
  destruct (F1 cur eq_refl) as [T1 T2].
  pose proof (ai_last _ _ _ _ _ _ _ _ I) as L. destruct (as_vis x) as [|v vis] eqn:Evis.
  - rewrite L in Ec. discriminate.
  - destruct L as [L1 [Okv [wl [J3 [J4 J5]]]]]. rewrite L1 in Ec. inversion Ec; subst c.
    split. rewrite Ev, sumtauA_rev. exact T2. split. rewrite Ef. exact T1.
    split. exists (rev vis), (snd v). rewrite Ev. cbn [rev]. destruct v; reflexivity.
    split. exact Okv. exists wl. split. exact J3. split. rewrite Ep. exact J4.
    intros Tn. rewrite Ef in Tn. apply J5. exact Tn.
Qed.

(* (c) escaped: on an open face of the box, moving outward, the target not exceeded *)
Lemma amr_escaped_thm fuel r : amr_interact ROps sqrt Rhalf true true true fuel g cells ph target = AOk r -> ar_cell r = None ->
  0 <= as_tau (ar_fin r) /\ sumtauA kap (ar_vis r) = target - as_tau (ar_fin r) /\
  exists a, bg a (ag_per g) = false /\
    ((vg a (ar_pos r) = vg a (ag_anchor g) /\ vg a d < 0) \/
     (vg a (ar_pos r) = vg a (ag_anchor g) + vg a (ag_sides g) /\ 0 < vg a d)).
Proof.
  intros H Hc. destruct (amr_tau_thm fuel r H) as [_ [_ T]]. destruct (T Hc) as [T1 T2].
  destruct (amr_result fuel r H) as [x [W [Rx [Cx [I [Ef [Ep [Ev Ec]]]]]]]].
  split. exact T1. split. exact T2.
  rewrite Hc in Ec. destruct (as_cur x) as [cur|] eqn:Ecur.
  - exfalso. pose proof (ai_last _ _ _ _ _ _ _ _ I) as L. destruct (as_vis x) as [|v vis] eqn:Evis.
    + destruct (afinal_facts g d target kap p0 ok x W I Cx) as [F1 _]. destruct (F1 cur Ecur) as [Q1 Q2]. rewrite Evis in Q2.
      cbn [sumtauA fold_right] in Q2. pose proof (agd_tau _ _ _ _ G). lra.
    + destruct L as [L _]. rewrite L in Ec. discriminate.
  - pose proof (ai_cur _ _ _ _ _ _ _ _ I) as C0. rewrite Ecur in C0. destruct C0 as [_ F]. rewrite Ep. exact F.
Qed.

(* (d) the final position lies in the closed box *)
Lemma amr_in_box_thm fuel r : amr_interact ROps sqrt Rhalf true true true fuel g cells ph target = AOk r ->
  forall a, vg a (ag_anchor g) <= vg a (ar_pos r) <= vg a (ag_anchor g) + vg a (ag_sides g).
Proof.
  intros H. destruct (amr_result fuel r H) as [x [W [Rx [Cx [I [Ef [Ep [Ev Ec]]]]]]]]. rewrite Ep. apply (ai_box _ _ _ _ _ _ _ _ I).
Qed.

End AMRTop.

(* the premises are satisfiable, for every tree: unit box of 2x2x2 blocks refined in any way *)
Example agood_example (blk : Z -> Z -> Z -> C16_Defs.tree) :
  agood (mkAG (mkV 0 0 0) (mkV 1 1 1) (mkI 2 2 2) (mkBV true false true) blk) (fun _ => mkC 1 1 0)
        (mkLP (mkV (1 / 2) (1 / 2) (1 / 2)) (mkV 1 0 0) 1 0 1) (1 / 4).
Proof.
  constructor; cbn [ag_n ag_sides ag_anchor].
  - intros a; destruct a; cbn [ig ix iy iz]; lia.
  - intros a; destruct a; cbn [vg vx vy vz]; lra.
  - intros a; destruct a; cbn [vg vx vy vz lp_pos]; lra.
  - intros c. cbn [c_n c_xH c_xHe]. lra.
  - cbn [lp_sH lp_sHe]. lra.
  - lra.
  - unfold anorm2. cbn [lp_dir vx vy vz]. ring.
  - exists AX. unfold bsz. cbn [vg vx lp_dir ig ix ag_sides ag_n]. split. lra. rewrite Rabs_R1. pose proof RDBLMAX_gt2. simpl. lra.
Qed.
