(* C10: one hydrodynamics step as five phases of operations on a map of cells
     gradient accumulation -> slope limiter -> primitive prediction -> flux exchange -> conserved update (+ primitive update)
   (src/TaskBasedRadiationHydrodynamicsSimulation.cpp execute_task; src/HydroDensitySubGrid.hpp; src/Hydro.hpp).
   The per-face flux operation, the conserved update and the primitive update are C04's (Cxx/C04_FluxDefs.v); this file adds
   Hydro::do_gradient_calculation, do_ghost_gradient_calculation (+ HydroBoundary::get_right_state_gradient_variables),
   apply_slope_limiter and predict_primitive_variables, written once over the scalar record, the step as a composition of
   phases driven by a face list and a cell list, the abstract shape of a phase (accumulate into a commutative store reading only
   fields the phase does not write / rewrite one cell from its own fields), and the declared read/write sets of the operations.
   Hand model; tie = bit-exact correspondence per operation and for whole steps (harness/c04/cellops_harness.cpp,
   harness/c04/step_harness.cpp) + observed read/write sets of the real operations (props/c10.py). *)
From Coq Require Import Bool ZArith List.
From CMI Require Import Common.Scalar Cxx.C05_Defs Cxx.C04_Defs Cxx.C04_FluxDefs.
Import ListNotations.

(* ------------------------------------------------------------------------------------------ *)
(* the abstract shape of a phase *)
Section Phases.
  Variable C : Type.                      (* a cell *)
  Definition cstate := Z -> C.
  Definition cupd (st : cstate) (k : Z) (c : C) : cstate := fun j => if (j =? k)%Z then c else st j.

  (* accumulate phase: operations add increments (type M) to cells; what they add is computed from the view V of the cells,
     and adding does not change the view *)
  Variable M V : Type.
  Variable acc : C -> M -> C.
  Variable view : C -> V.
  Definition aop := (Z -> V) -> list (Z * M).
  Definition apply_incs (st : cstate) (l : list (Z * M)) : cstate :=
    fold_left (fun s km => cupd s (fst km) (acc (s (fst km)) (snd km))) l st.
  Definition apply_aop (st : cstate) (o : aop) : cstate := apply_incs st (o (fun j => view (st j))).
  Definition run_aops (ops : list aop) (st : cstate) : cstate := fold_left apply_aop ops st.

  (* cell-wise phase: every listed cell is rewritten from its own fields *)
  Definition map_phase (h : C -> C) (cells : list Z) (st : cstate) : cstate :=
    fold_left (fun s k => cupd s k (h (s k))) cells st.
End Phases.

(* ------------------------------------------------------------------------------------------ *)
Section Ops.
  Variable F : Type.
  Variable S : SOps F.
  Local Notation "a + b" := (sadd S a b).
  Local Notation "a - b" := (ssub S a b).
  Local Notation "a * b" := (smul S a b).
  Local Notation "a / b" := (sdiv S a b).
  Local Notation "- a" := (sneg S a).
  Local Notation "a <? b" := (sltb S a b).
  Local Notation "a =? b" := (seqb S a b).
  Local Notation "0" := (s0 S).
  Local Notation "1" := (s1 S).
  Local Notation half := (shalf S).
  Local Notation vec := (vec F).
  Local Notation vx := (vx F).
  Local Notation vy := (vy F).
  Local Notation vz := (vz F).
  Local Notation mkv := (mkv F).
  Local Notation cell := (cell F).
  Local Notation v5 := (v5 F).
  Local Notation g5 := (g5 F).
  Local Notation l5 := (l5 F).
  Variable dblmax : F.

  (* ---- Hydro::do_gradient_calculation: dwdx per primitive variable (computed from both cells' primitives) ---- *)
  Definition grad_inc (pL pR : v5) (dxinv : F) : v5 :=
    mk5 F (half * (c0 F pL + c0 F pR) * dxinv) (half * (c1 F pL + c1 F pR) * dxinv) (half * (c2 F pL + c2 F pR) * dxinv)
          (half * (c3 F pL + c3 F pR) * dxinv) (half * (c4 F pL + c4 F pR) * dxinv).

  (* gradients(j)[i] += / -= dw_j ; limiter slots (min, max) updated with the other cell's primitives w *)
  Definition lim_upd (l : F * F) (w : F) : F * F := (smin S (fst l) w, smax S (snd l) w).
  Definition bump_grad (c : cell) (i : Z) (plus : bool) (dw w : v5) : cell :=
    let f (g : vec) (d : F) := vset F i g (if plus then vget F i g + d else vget F i g - d) in
    let g := grad F c in
    let l := lims F c in
    mkCell F (prim F c) (cons F c) (dcons F c)
      (mkg5 F (f (gr0 F g) (c0 F dw)) (f (gr1 F g) (c1 F dw)) (f (gr2 F g) (c2 F dw)) (f (gr3 F g) (c3 F dw)) (f (gr4 F g) (c4 F dw)))
      (grav F c) (eterm F c)
      (mkl5 F (lim_upd (lm0 F l) (c0 F w)) (lim_upd (lm1 F l) (c1 F w)) (lim_upd (lm2 F l) (c2 F w)) (lim_upd (lm3 F l) (c3 F w)) (lim_upd (lm4 F l) (c4 F w))).

  (* HydroBoundary::get_right_state_gradient_variables: kind 0 inflow, 1 outflow, 2 reflective *)
  Definition ghost_prim (kind i : Z) (orient : F) (pL : v5) : v5 :=
    if (kind =? 0)%Z then pL
    else if (kind =? 1)%Z then
      let v := get5 F (1 + i)%Z pL in if (orient * v) <? 0 then set5 F (1 + i)%Z pL (- v) else pL
    else set5 F (1 + i)%Z pL (- get5 F (1 + i)%Z pL).

  (* ---- Hydro::apply_slope_limiter, one primitive variable: returns alpha ---- *)
  Definition slope_alpha (p : F) (g : vec) (lim : F * F) (dx : vec) : F :=
    let e0 := vx g * half * vx dx in
    let e1 := vy g * half * vy dx in
    let e2 := vz g * half * vz dx in
    let dwmax := smax S (p + e0) (p - e0) in
    let dwmin := smin S (p + e0) (p - e0) in
    let dwmax := smax S dwmax (p + e1) in
    let dwmin := smin S dwmin (p + e1) in
    let dwmax := smax S dwmax (p - e1) in
    let dwmin := smin S dwmin (p - e1) in
    let dwmax := smax S dwmax (p + e2) in
    let dwmin := smin S dwmin (p + e2) in
    let dwmax := smax S dwmax (p - e2) in
    let dwmin := smin S dwmin (p - e2) in
    let dwmax := dwmax - p in
    let dwmin := dwmin - p in
    let maxfac := if negb (dwmax =? 0) then (snd lim - p) / dwmax else dblmax in
    let minfac := if negb (dwmin =? 0) then (fst lim - p) / dwmin else dblmax in
    smin S 1 (half * smin S maxfac minfac).

  Definition slope_limit (dx : vec) (c : cell) : cell :=
    let p := prim F c in let g := grad F c in let l := lims F c in
    let sc (v : vec) (a : F) := mkv (vx v * a) (vy v * a) (vz v * a) in
    mkCell F p (cons F c) (dcons F c)
      (mkg5 F (sc (gr0 F g) (slope_alpha (c0 F p) (gr0 F g) (lm0 F l) dx)) (sc (gr1 F g) (slope_alpha (c1 F p) (gr1 F g) (lm1 F l) dx))
              (sc (gr2 F g) (slope_alpha (c2 F p) (gr2 F g) (lm2 F l) dx)) (sc (gr3 F g) (slope_alpha (c3 F p) (gr3 F g) (lm3 F l) dx))
              (sc (gr4 F g) (slope_alpha (c4 F p) (gr4 F g) (lm4 F l) dx)))
      (grav F c) (eterm F c) l.

  (* ---- Hydro::predict_primitive_variables ---- *)
  Definition predict (gamma dt : F) (c : cell) : cell :=
    let p := prim F c in let g := grad F c in
    let rho := c0 F p in
    if rho =? 0 then c
    else
      let rhoinv := 1 / rho in
      if sisinf S rhoinv then c
      else
        let ux := c1 F p in let uy := c2 F p in let uz := c3 F p in let P := c4 F p in
        let a := grav F c in
        let drhodx := vx (gr0 F g) in let drhody := vy (gr0 F g) in let drhodz := vz (gr0 F g) in
        let dvxdx := vx (gr1 F g) in let dvydy := vy (gr2 F g) in let dvzdz := vz (gr3 F g) in
        let dPdx := vx (gr4 F g) in let dPdy := vy (gr4 F g) in let dPdz := vz (gr4 F g) in
        let divv := dvxdx + dvydy + dvzdz in
        let rho_new := rho - dt * (rho * divv + ux * drhodx + uy * drhody + uz * drhodz) in
        let vx_new := ux - dt * (ux * divv + rhoinv * dPdx - vx a) in
        let vy_new := uy - dt * (uy * divv + rhoinv * dPdy - vy a) in
        let vz_new := uz - dt * (uz * divv + rhoinv * dPdz - vz a) in
        let P_new := P - dt * (gamma * P * divv + ux * dPdx + uy * dPdy + uz * dPdz) in
        mkCell F (mk5 F (smax S rho_new 0) vx_new vy_new vz_new (smax S P_new 0)) (cons F c) (dcons F c) g (grav F c) (eterm F c) (lims F c).

  (* ---- the gradient phase on a map of cells ---- *)
  Local Notation state := (state F).
  Definition apply_grad (bkind : Z) (dxinvs : vec) (st : state) (f : face) : state :=
    match f with
    | Interior a l r =>
        let dw := grad_inc (prim F (st l)) (prim F (st r)) (vget F a dxinvs) in
        let wl := prim F (st r) in let wr := prim F (st l) in
        let st1 := upd F st l (bump_grad (st l) a true dw wl) in
        upd F st1 r (bump_grad (st1 r) a false dw wr)
    | Boundary a sgn c =>
        let dxinv := if (sgn <? 0)%Z then - vget F a dxinvs else vget F a dxinvs in
        let pR := ghost_prim bkind a (orientation F S dxinv) (prim F (st c)) in
        let dw := grad_inc (prim F (st c)) pR dxinv in
        upd F st c (bump_grad (st c) a true dw pR)
    end.
  Definition grad_phase (bkind : Z) (dxinvs : vec) (fs : list face) (st : state) : state := fold_left (apply_grad bkind dxinvs) fs st.

  Variable riemann : F -> vec -> F -> F -> vec -> F -> vec -> flux F.

  (* geometry and parameters of a step *)
  Record params := mkParams {
    p_gamma : F; p_bkind : Z; p_dx : vec; p_dxinv : vec; p_A : vec; p_invvol : F; p_dt : F; p_halfdt : F;
    p_maxv : F; p_pcf : F; p_T : F; p_xH : F }.

  (* one step: faces for the gradient sweeps, cells for the two cell-wise phases, faces for the flux sweeps, cells for the updates;
     p_halfdt = 0.5 * timestep as execute_task passes it *)
  Definition step_with (P : params) (fs_grad : list face) (cells_sl cells_pr : list Z) (fs_flux : list face) (cells_uc cells_up : list Z)
                       (st : state) : state :=
    let st := grad_phase (p_bkind P) (p_dxinv P) fs_grad st in
    let st := map_phase cell (slope_limit (p_dx P)) cells_sl st in
    let st := map_phase cell (predict (p_gamma P) (p_halfdt P)) cells_pr st in
    let st := flux_phase F S riemann (p_gamma P) (p_bkind P) (p_dx P) (p_A P) (p_dt P) fs_flux st in
    let st := map_phase cell (fun c => update_conserved F S dblmax c (p_dt P)) cells_uc st in
    map_phase cell (fun c => set_primitive F S (p_gamma P) (p_maxv P) (p_pcf P) (p_T P) (p_xH P) c (p_invvol P)) cells_up st.

  (* the step as the sweeps of layout L execute it sequentially, and the plain sequential sweep on the undivided grid *)
  Definition step_layout (P : params) (L : layout) (st : state) : state :=
    let fs := global_faces L in let cs := range (NX L * NY L * NZ L)%Z in
    step_with P fs cs cs fs cs cs st.
  Definition undivided (L : layout) : layout := mkLayout (NX L) (NY L) (NZ L) 1 1 1 (px L) (py L) (pz L).
End Ops.

(* ------------------------------------------------------------------------------------------ *)
(* declared read/write sets (fields of one cell as the harness numbers them: 0-4 primitives, 5-9 conserved, 10-14 delta,
   15-29 gradients (3 per variable), 30-32 gravity, 33 energy term, 34-43 limiter slots, 44 temperature, 45 neutral fraction).
   "other" = the second cell of a pair operation (same sets apply to it by symmetry). *)
Definition frange (a b : Z) : list Z := map (fun k => (a + k)%Z) (range (b - a + 1)).
Record opdecl := mkDecl { od_name : Z; od_accumulates : bool; od_reads : list Z; od_writes : list Z }.
(* names: 0 gradient pair, 1 gradient boundary, 2 slope limiter, 3 prediction, 4 flux pair, 5 flux boundary, 6 conserved update, 7 primitive update *)
Definition declared : list opdecl :=
  [ mkDecl 0 true (frange 0 4) (frange 15 29 ++ frange 34 43);
    mkDecl 1 true (frange 0 4) (frange 15 29 ++ frange 34 43);
    mkDecl 2 false (frange 0 4 ++ frange 15 29 ++ frange 34 43) (frange 15 29);
    mkDecl 3 false (frange 0 4 ++ frange 15 29 ++ frange 30 32) (frange 0 4);
    mkDecl 4 true (frange 0 9 ++ frange 15 29) (frange 10 14);
    mkDecl 5 true (frange 0 9 ++ frange 15 29) (frange 10 14);
    mkDecl 6 false (frange 5 14 ++ frange 30 33) (frange 5 29 ++ frange 33 43);
    mkDecl 7 false (frange 5 9 ++ frange 44 45) (frange 0 4) ].

(* an accumulating operation must not read what operations of its phase write (it may only add to it); phases: {0,1}, {4,5} *)
Definition disjointb (a b : list Z) : bool := forallb (fun x => negb (existsb (Z.eqb x) b)) a.
Definition declared_ok : bool :=
  forallb (fun d => if od_accumulates d then disjointb (od_reads d) (od_writes d) else true) declared.
