(* C11: proofs over the real-number instance (ROps 0 1: DBL_MIN -> 0, the floor 1.00000001 on gamma -> 1) of the
   model of the exact Riemann solver in Cxx/C11_Defs.v.  Rpower is std::pow. *)
From Coq Require Import Reals Lra Lia Bool ZArith Psatz.
From CMI Require Import Common.Scalar Cxx.C05_Defs Cxx.C11_Defs.
Local Open Scope R_scope.

Definition RS := ROps 0 1.

Definition rconsts (g : R) : xconsts R :=
  mkX R (mkConsts R g (2 / (g - 1)) (1 / 2 * (g + 1) / g) (1 / (g - 1)) (1 / 2 * (g - 1))
                  ((g - 1) / (g + 1)) (2 * g / (g - 1)) (2 / (g + 1)))
      (1 / 2 * (g - 1) / g) (1 / g).

Lemma mk_xconsts_real g : 1 < g -> mk_xconsts R RS g = rconsts g.
Proof.
  intros Hg. unfold mk_xconsts, mk_consts, rconsts, smax.
  cbn [sltb sgamma_floor RS ROps].
  assert (E : Rltb g 1 = false) by (apply Rltb_false; lra).
  rewrite E. cbn [gam]. reflexivity.
Qed.

Ltac rops := cbn [sadd ssub smul sdiv sneg ssqrt spow sabs sltb sleb seqb sisinf s0 s1 s2 shalf squarter RS ROps
                  cb gm1d2g ginv gam tdgm1 gp1d2g odgm1 gm1d2 gm1dgp1 tgdgm1 tdgp1 rconsts].

Definition RH_mass (rhoK uK rhos us S : R) : Prop := rhoK * (uK - S) = rhos * (us - S).
Definition RH_momentum (rhoK uK PK rhos us Pstar S : R) : Prop :=
  rhoK * (uK - S) * (uK - S) + PK = rhos * (us - S) * (us - S) + Pstar.
(* total energy E = P/(g-1) + rho v^2/2 in the frame of the shock; flux (E + P) v *)
Definition RH_energy (g rhoK uK PK rhos us Pstar S : R) : Prop :=
  (PK / (g - 1) + / 2 * rhoK * (uK - S) * (uK - S) + PK) * (uK - S) =
  (Pstar / (g - 1) + / 2 * rhos * (us - S) * (us - S) + Pstar) * (us - S).

(* sgn = 1: right shock (S = u + w), sgn = -1: left shock (S = u - w); w = a sqrt(...) > 0 with
   2 rho w^2 = (g+1) P* + (g-1) P, and u* = u + sgn (P* - P)/(rho w) *)
Lemma rh_algebra g rho u P Ps w sgn :
  1 < g -> 0 < rho -> 0 < P -> P < Ps -> 0 < w -> sgn * sgn = 1 ->
  2 * rho * (w * w) = (g + 1) * Ps + (g - 1) * P ->
  let S := u + sgn * w in
  let rs := rho * (Ps * (1 / P) + (g - 1) / (g + 1)) / ((g - 1) / (g + 1) * (Ps * (1 / P)) + 1) in
  let us := u + sgn * ((Ps - P) * / (rho * w)) in
  RH_mass rho u rs us S /\ RH_momentum rho u P rs us Ps S /\ RH_energy g rho u P rs us Ps S.
Proof.
  intros Hg Hrho HP HPs Pw Hs W. cbv zeta. unfold RH_mass, RH_momentum, RH_energy.
  assert (E : Ps = (2 * rho * (w * w) - (g - 1) * P) / (g + 1)) by (rewrite W; field; lra).
  assert (D3 : 0 < (g - 1) * Ps + (g + 1) * P) by nra.
  assert (Hsg : sgn = 1 \/ sgn = -1) by (assert ((sgn - 1) * (sgn + 1) = 0) by lra; destruct (Rmult_integral _ _ H); [left | right]; lra).
  clear W. subst Ps.
  assert (D4 : (g - 1) * ((2 * rho * (w * w) - (g - 1) * P) / (g + 1)) + (g + 1) * P =
               (2 * (g - 1) * rho * (w * w) + 4 * g * P) / (g + 1)) by (field; lra).
  assert (Q : 0 < rho * (w * w)) by (apply Rmult_lt_0_compat; [lra | apply Rmult_lt_0_compat; lra]).
  assert (Q2 : 0 < (g - 1) * (rho * (w * w))) by (apply Rmult_lt_0_compat; lra).
  assert (Q3 : 0 < g * P) by (apply Rmult_lt_0_compat; lra).
  assert (D5 : 2 * (g - 1) * rho * (w * w) + 4 * g * P <> 0) by lra.
  assert (D6 : 2 * rho * w * w * g - 2 * rho * w * w + 4 * P * g <> 0) by lra.
  destruct Hsg; subst sgn; repeat split; field; repeat split; try lra.
Qed.

Section Shock.
  Variables g rho u P a Ps : R.
  Hypothesis Hg : 1 < g.
  Hypothesis Hrho : 0 < rho.
  Hypothesis HP : 0 < P.
  Hypothesis Ha : 0 < a.
  Hypothesis Ha2 : a * a = g * P / rho.
  Hypothesis HPs : P < Ps.
  Let c := rconsts g.
  Let A := tdgp1 R (cb R c) * (1 / rho).
  Let B := gm1dgp1 R (cb R c) * P.
  Let Pinv := 1 / P.
  Let afac := tdgm1 R (cb R c) * a.

  Lemma fb_shock : fb R RS c P A B Pinv afac Ps = (Ps - P) * sqrt (A / (Ps + B)).
  Proof.
    unfold fb. rops. assert (E : Rltb P Ps = true) by (apply Rltb_true; lra). rewrite E. reflexivity.
  Qed.

  (* the two square roots of the shock formulae and the relation between them *)
  Let s1 := sqrt (1 / 2 * (g + 1) / g * (Ps * (1 / P)) + 1 / 2 * (g - 1) / g).
  Let s2 := sqrt (A / (Ps + B)).

  Lemma s1_sq : s1 * s1 = 1 / 2 * (g + 1) / g * (Ps * (1 / P)) + 1 / 2 * (g - 1) / g.
  Proof.
    unfold s1. apply sqrt_sqrt.
    assert (0 < Ps * (1 / P)) by (apply Rmult_lt_0_compat; [lra | apply Rdiv_lt_0_compat; lra]).
    assert (0 < 1 / 2 * (g + 1) / g) by (apply Rdiv_lt_0_compat; lra).
    assert (0 < 1 / 2 * (g - 1) / g) by (apply Rdiv_lt_0_compat; lra).
    nra.
  Qed.
  Lemma AB_pos : 0 < A / (Ps + B).
  Proof.
    unfold A, B, c. rops.
    assert (0 < (g - 1) / (g + 1)) by (apply Rdiv_lt_0_compat; lra).
    assert (0 < 2 / (g + 1) * (1 / rho)).
    { apply Rmult_lt_0_compat; apply Rdiv_lt_0_compat; lra. }
    apply Rdiv_lt_0_compat; nra.
  Qed.
  Lemma s2_sq : s2 * s2 = A / (Ps + B).
  Proof. unfold s2. apply sqrt_sqrt. left. apply AB_pos. Qed.
  Lemma s1_pos : 0 < s1.
  Proof.
    unfold s1. apply sqrt_lt_R0. rewrite <- s1_sq.
    assert (0 < Ps * (1 / P)) by (apply Rmult_lt_0_compat; [lra | apply Rdiv_lt_0_compat; lra]).
    assert (0 < 1 / 2 * (g + 1) / g) by (apply Rdiv_lt_0_compat; lra).
    assert (0 < 1 / 2 * (g - 1) / g) by (apply Rdiv_lt_0_compat; lra).
    rewrite s1_sq. nra.
  Qed.
  Lemma s2_pos : 0 < s2.
  Proof. unfold s2. apply sqrt_lt_R0. apply AB_pos. Qed.

  (* rho a s1 s2 = 1 : the mass flux through the shock times sqrt(A/(P*+B)) *)
  Lemma shock_key : rho * a * s1 * s2 = 1.
  Proof.
    assert (H1 := s1_sq). assert (H2 := s2_sq). assert (P1 := s1_pos). assert (P2 := s2_pos).
    assert (Hsq : (rho * a * s1 * s2) * (rho * a * s1 * s2) = 1).
    { replace (rho * a * s1 * s2 * (rho * a * s1 * s2)) with (rho * rho * (a * a) * (s1 * s1) * (s2 * s2)) by ring.
      rewrite H1, H2, Ha2. unfold A, B, c. rops. field. repeat split; try lra.
      assert (0 < (g-1)*P + Ps*(g+1)) by nra. lra. }
    assert (0 < rho * a * s1 * s2).
    { repeat apply Rmult_lt_0_compat; assumption. }
    nra.
  Qed.

  Let w := a * s1.
  Lemma w_pos : 0 < w. Proof. apply Rmult_lt_0_compat; [exact Ha | exact s1_pos]. Qed.
  Lemma w_sq : 2 * rho * (w * w) = (g + 1) * Ps + (g - 1) * P.
  Proof.
    unfold w. replace (a * s1 * (a * s1)) with (a * a * (s1 * s1)) by ring.
    rewrite s1_sq, Ha2. field. lra.
  Qed.
  Lemma s2_eq : s2 = / (rho * w).
  Proof.
    assert (K := shock_key). assert (Pw := w_pos). unfold w in *.
    apply Rmult_eq_reg_l with (rho * (a * s1)); [| nra].
    rewrite Rinv_r by nra. rewrite <- K. ring.
  Qed.

  Lemma right_shock_RH :
    let us := u + fb R RS c P A B Pinv afac Ps in
    let S := right_shock_speed R RS c u a Pinv Ps in
    let rs := right_shock_density R RS c rho Pinv Ps in
    RH_mass rho u rs us S /\ RH_momentum rho u P rs us Ps S /\ RH_energy g rho u P rs us Ps S.
  Proof.
    cbv zeta. rewrite fb_shock. fold s2.
    unfold right_shock_speed, right_shock_density, Pinv, c. rops. fold s1. fold w.
    rewrite s2_eq.
    replace (u + w) with (u + 1 * w) by ring.
    replace (u + (Ps - P) * / (rho * w)) with (u + 1 * ((Ps - P) * / (rho * w))) by ring.
    apply rh_algebra; try assumption; try lra. apply w_pos. apply w_sq.
  Qed.

  Lemma left_shock_RH :
    let us := u - fb R RS c P A B Pinv afac Ps in
    let S := left_shock_speed R RS c u a Pinv Ps in
    let rs := left_shock_density R RS c rho Pinv Ps in
    RH_mass rho u rs us S /\ RH_momentum rho u P rs us Ps S /\ RH_energy g rho u P rs us Ps S.
  Proof.
    cbv zeta. rewrite fb_shock. fold s2.
    unfold left_shock_speed, left_shock_density, Pinv, c. rops. fold s1. fold w.
    rewrite s2_eq.
    replace (u - w) with (u + -1 * w) by ring.
    replace (u - (Ps - P) * / (rho * w)) with (u + -1 * ((Ps - P) * / (rho * w))) by ring.
    apply rh_algebra; try assumption; try lra. apply w_pos. apply w_sq.
  Qed.

  (* Lax condition and compression: the shock outruns the sound waves ahead of it, the gas behind is denser *)
  Lemma shock_supersonic : 1 < s1.
  Proof.
    assert (H := s1_sq). assert (Pp := s1_pos).
    assert (1 < s1 * s1); [| nra].
    rewrite H.
    assert (E : 1 / 2 * (g + 1) / g * (Ps * (1 / P)) + 1 / 2 * (g - 1) / g - 1 = (g + 1) / (2 * g) * ((Ps - P) / P)) by (field; lra).
    assert (0 < (g + 1) / (2 * g) * ((Ps - P) / P)); [| lra].
    apply Rmult_lt_0_compat; apply Rdiv_lt_0_compat; lra.
  Qed.
  Lemma right_shock_lax : u + a < right_shock_speed R RS c u a Pinv Ps.
  Proof. unfold right_shock_speed, Pinv, c. rops. fold s1. assert (H := shock_supersonic). nra. Qed.
  Lemma left_shock_lax : left_shock_speed R RS c u a Pinv Ps < u - a.
  Proof. unfold left_shock_speed, Pinv, c. rops. fold s1. assert (H := shock_supersonic). nra. Qed.
  Lemma shock_compresses : rho < right_shock_density R RS c rho Pinv Ps /\ left_shock_density R RS c rho Pinv Ps = right_shock_density R RS c rho Pinv Ps.
  Proof.
    split; [| reflexivity]. unfold right_shock_density, Pinv, c. rops.
    assert (Hm : 0 < (g - 1) / (g + 1) < 1).
    { split; [apply Rdiv_lt_0_compat; lra |]. apply Rmult_lt_reg_r with (g + 1); [lra|]. unfold Rdiv. rewrite Rmult_assoc, Rinv_l by lra. lra. }
    assert (Hp : 1 < Ps * (1 / P)).
    { apply Rmult_lt_reg_r with P; [lra|]. replace (Ps * (1 / P) * P) with Ps by (field; lra). lra. }
    set (m := (g - 1) / (g + 1)) in *. set (p := Ps * (1 / P)) in *.
    assert (D : 0 < m * p + 1) by nra.
    apply Rmult_lt_reg_r with (m * p + 1); [exact D|].
    replace (rho * (p + m) / (m * p + 1) * (m * p + 1)) with (rho * (p + m)) by (field; lra).
    assert (Q : 0 < rho * ((p - 1) * (1 - m))) by (apply Rmult_lt_0_compat; [lra | apply Rmult_lt_0_compat; lra]).
    replace (rho * (p + m)) with (rho * (m * p + 1) + rho * ((p - 1) * (1 - m))) by ring. lra.
  Qed.
End Shock.


Lemma Rpower_base1 y : Rpower 1 y = 1.
Proof. unfold Rpower. rewrite ln_1, Rmult_0_r. apply exp_0. Qed.
Lemma Rpower_pos x y : 0 < Rpower x y.
Proof. unfold Rpower. apply exp_pos. Qed.
Lemma Rpower_sq x : 0 < x -> Rpower x 2 = x * x.
Proof. intros. replace 2 with (1 + 1) by ring. rewrite Rpower_plus, Rpower_1 by assumption. reflexivity. Qed.

Ltac pw_eq := f_equal; field; lra.
Ltac tup := repeat (match goal with |- (_, _) = (_, _) => apply f_equal2 end).

Lemma guard_pos clamp b : 0 < b -> guard R RS clamp b = b.
Proof.
  intros H. unfold guard, smax. destruct clamp; [| reflexivity]. cbn [sltb s0 RS ROps].
  assert (E : Rltb 0 b = true) by (apply Rltb_true; exact H). rewrite E. reflexivity.
Qed.

Section RightRarefaction.
  Variable clamp : bool.
  Variables g rho u P a Ps : R.
  Hypothesis Hg : 1 < g.
  Hypothesis Hrho : 0 < rho.
  Hypothesis HP : 0 < P.
  Hypothesis Ha : 0 < a.
  Hypothesis Ha2 : a * a = g * P / rho.
  Hypothesis HPs0 : 0 < Ps.
  Hypothesis HPs : Ps <= P.
  Let c := rconsts g.
  Let A := tdgp1 R (cb R c) * (1 / rho).
  Let B := gm1dgp1 R (cb R c) * P.
  Let Pinv := 1 / P.
  Let afac := tdgm1 R (cb R c) * a.
  Let pi_ := Ps * (1 / P).
  Let x := Rpower pi_ (1 / 2 * (g - 1) / g).

  Lemma pi_pos : 0 < pi_.
  Proof. unfold pi_. apply Rmult_lt_0_compat; [lra | apply Rdiv_lt_0_compat; lra]. Qed.
  Lemma x_pos : 0 < x. Proof. apply Rpower_pos. Qed.

  Lemma fb_raref : fb R RS c P A B Pinv afac Ps = afac * (x - 1).
  Proof.
    unfold fb. rops. assert (E : Rltb P Ps = false) by (apply Rltb_false; lra). rewrite E. reflexivity.
  Qed.

  (* the star state next to a right rarefaction, as sampled by the code *)
  Let us := u + fb R RS c P A B Pinv afac Ps.
  Let rhos := rho * Rpower pi_ (1 / g).
  Let as_ := a * x.      (* the sound speed the code uses for the tail: aR (P* / PR)^((g-1)/2g) *)

  Lemma rr_star_isentropic : Ps / Rpower rhos g = P / Rpower rho g.
  Proof.
    unfold rhos. assert (Pp := pi_pos).
    rewrite <- Rpower_mult_distr by (try assumption; apply Rpower_pos).
    rewrite Rpower_mult. replace (1 / g * g) with 1 by (field; lra). rewrite Rpower_1 by assumption.
    unfold pi_. assert (0 < Rpower rho g) by apply Rpower_pos. field. split; lra.
  Qed.

  Lemma rr_star_soundspeed : as_ * as_ = g * Ps / rhos.
  Proof.
    unfold as_, rhos. assert (Pp := pi_pos).
    replace (a * x * (a * x)) with (a * a * (x * x)) by ring. rewrite Ha2.
    assert (E : x * x = pi_ * / Rpower pi_ (1 / g)).
    { unfold x. rewrite <- Rpower_plus, <- Rpower_Ropp.
      rewrite <- (Rpower_1 pi_) at 2 by assumption. rewrite <- Rpower_plus. pw_eq. }
    rewrite E. unfold pi_ at 1. assert (0 < Rpower pi_ (1 / g)) by apply Rpower_pos. field. repeat split; lra.
  Qed.

  (* Riemann invariant u - 2a/(g-1) carried across the right rarefaction into the star region *)
  Lemma rr_star_invariant : us - 2 / (g - 1) * as_ = u - 2 / (g - 1) * a.
  Proof. unfold us, as_. rewrite fb_raref. unfold afac, c. rops. field. lra. Qed.

  Lemma rr_tail_speed : right_tail_speed R RS c a Pinv us Ps = us + as_.
  Proof. unfold right_tail_speed, Pinv, as_, x, pi_, c. rops. reflexivity. Qed.

  (* ---- inside the fan ---- *)
  Definition rfan_base (xi : R) : R := 2 / (g + 1) - (g - 1) / (g + 1) * (u - xi) / a.

  Lemma right_fan_eq xi : 0 < rfan_base xi ->
    right_fan R RS c clamp rho u P a xi =
    (rho * Rpower (rfan_base xi) (2 / (g - 1)), 2 / (g + 1) * (- a + 1 / 2 * (g - 1) * u + xi), P * Rpower (rfan_base xi) (2 * g / (g - 1))).
  Proof.
    intros Hb. unfold right_fan, c. rops.
    change (2 / (g + 1) - (g - 1) / (g + 1) * (u - xi) / a) with (rfan_base xi).
    rewrite (guard_pos clamp _ Hb). reflexivity.
  Qed.

  Section InFan.
    Variable xi : R.
    Hypothesis Hb : 0 < rfan_base xi.
    Let b := rfan_base xi.
    Let rhof := fst (fst (right_fan R RS c clamp rho u P a xi)).
    Let uf := snd (fst (right_fan R RS c clamp rho u P a xi)).
    Let Pf := snd (right_fan R RS c clamp rho u P a xi).
    Let af := a * b.

    Lemma rr_fan_isentropic : Pf / Rpower rhof g = P / Rpower rho g.
    Proof.
      unfold Pf, rhof. rewrite right_fan_eq by exact Hb. cbn [fst snd]. fold b.
      rewrite <- Rpower_mult_distr by (try assumption; apply Rpower_pos).
      rewrite Rpower_mult. replace (2 / (g - 1) * g) with (2 * g / (g - 1)) by (field; lra).
      assert (0 < Rpower rho g) by apply Rpower_pos. assert (0 < Rpower b (2 * g / (g - 1))) by apply Rpower_pos.
      field. split; lra.
    Qed.

    Lemma rr_fan_soundspeed : af * af = g * Pf / rhof.
    Proof.
      unfold af, Pf, rhof. rewrite right_fan_eq by exact Hb. cbn [fst snd]. fold b.
      replace (a * b * (a * b)) with (a * a * (b * b)) by ring. rewrite Ha2.
      assert (E : Rpower b (2 * g / (g - 1)) = b * b * Rpower b (2 / (g - 1))).
      { rewrite <- Rpower_sq by assumption. rewrite <- Rpower_plus. pw_eq. }
      rewrite E. assert (0 < Rpower b (2 / (g - 1))) by apply Rpower_pos. field. split; lra.
    Qed.

    (* the fan is made of u + a characteristics: x/t = u + a *)
    Lemma rr_fan_characteristic : uf + af = xi.
    Proof.
      unfold af, uf. rewrite right_fan_eq by exact Hb. cbn [fst snd]. unfold b, rfan_base. field. split; lra.
    Qed.

    Lemma rr_fan_invariant : uf - 2 / (g - 1) * af = u - 2 / (g - 1) * a.
    Proof.
      unfold af, uf. rewrite right_fan_eq by exact Hb. cbn [fst snd]. unfold b, rfan_base. field. repeat split; lra.
    Qed.
  End InFan.

  (* ---- the one-sided expressions coincide at the head and at the tail ---- *)
  Lemma rr_base_head : rfan_base (u + a) = 1.
  Proof. unfold rfan_base. field. split; lra. Qed.

  Lemma rr_fan_head : right_fan R RS c clamp rho u P a (u + a) = (rho, u, P).
  Proof.
    rewrite right_fan_eq by (rewrite rr_base_head; lra). rewrite rr_base_head, !Rpower_base1.
    tup; field; lra.
  Qed.

  Lemma rr_base_tail : rfan_base (us + as_) = x.
  Proof. unfold rfan_base, us, as_. rewrite fb_raref. unfold afac, c. rops. field. repeat split; lra. Qed.

  Lemma rr_fan_tail : right_fan R RS c clamp rho u P a (us + as_) = (rhos, us, Ps).
  Proof.
    assert (Px := x_pos). rewrite right_fan_eq by (rewrite rr_base_tail; exact Px). rewrite rr_base_tail. assert (Pp := pi_pos).
    tup.
    - unfold rhos, x. rewrite Rpower_mult. f_equal. pw_eq.
    - unfold us, as_. rewrite fb_raref. unfold afac, c. rops. field. lra.
    - unfold x. rewrite Rpower_mult. replace (1 / 2 * (g - 1) / g * (2 * g / (g - 1))) with 1 by (field; lra).
      rewrite Rpower_1 by assumption. unfold pi_. field. lra.
  Qed.

  (* between tail and head the base of the powers is positive (and at most 1) *)
  Lemma rr_base_in_fan xi : us + as_ <= xi -> xi <= u + a -> x <= rfan_base xi <= 1.
  Proof.
    intros H1 H2. rewrite <- rr_base_tail, <- rr_base_head. unfold rfan_base.
    assert (K : 0 < (g - 1) / (g + 1) / a) by (apply Rdiv_lt_0_compat; [apply Rdiv_lt_0_compat|]; lra).
    replace ((g - 1) / (g + 1) * (u - (us + as_)) / a) with ((g - 1) / (g + 1) / a * (u - (us + as_))) by (field; lra).
    replace ((g - 1) / (g + 1) * (u - xi) / a) with ((g - 1) / (g + 1) / a * (u - xi)) by (field; lra).
    replace ((g - 1) / (g + 1) * (u - (u + a)) / a) with ((g - 1) / (g + 1) / a * (u - (u + a))) by (field; lra).
    split; nra.
  Qed.

  Lemma x_le_1 : x <= 1.
  Proof.
    unfold x. assert (Pp := pi_pos).
    assert (pi_ <= 1). { unfold pi_. apply Rmult_le_reg_r with P; [lra|]. field_simplify; lra. }
    apply Rle_trans with (Rpower 1 (1 / 2 * (g - 1) / g)); [| rewrite Rpower_base1; lra].
    apply Rle_Rpower_l; [| lra].
    apply Rlt_le. apply Rdiv_lt_0_compat; lra.
  Qed.

  Lemma rr_tail_before_head : us + as_ <= u + a.
  Proof.
    unfold us, as_. rewrite fb_raref. unfold afac, c. rops. assert (H := x_le_1).
    assert (K : 0 < 2 / (g - 1)) by (apply Rdiv_lt_0_compat; lra).
    assert (Q : a * (x - 1) <= 0) by nra.
    assert (Q2 : 2 / (g - 1) * (a * (x - 1)) <= 0) by nra.
    replace (2 / (g - 1) * a * (x - 1)) with (2 / (g - 1) * (a * (x - 1))) by ring. nra.
  Qed.

  (* what the sampler returns, by position *)
  Lemma sample_rr_cases xi :
    sample_right_rarefaction_wave R RS c clamp rho u P a Pinv us Ps xi =
    if Rlt_dec xi (us + as_) then (rhos, us, Ps)
    else if Rlt_dec xi (u + a) then right_fan R RS c clamp rho u P a xi
    else (rho, u, P).
  Proof.
    unfold sample_right_rarefaction_wave. rewrite rr_tail_speed.
    assert (Hord := rr_tail_before_head).
    cbn [sltb sadd RS ROps]. unfold Rltb.
    destruct (Rlt_dec xi (u + a)); destruct (Rlt_dec xi (us + as_)); try reflexivity.
    exfalso. lra.
  Qed.
End RightRarefaction.



Section LeftRarefaction.
  Variable clamp : bool.
  Variables g rho u P a Ps : R.
  Hypothesis Hg : 1 < g.
  Hypothesis Hrho : 0 < rho.
  Hypothesis HP : 0 < P.
  Hypothesis Ha : 0 < a.
  Hypothesis Ha2 : a * a = g * P / rho.
  Hypothesis HPs0 : 0 < Ps.
  Hypothesis HPs : Ps <= P.
  Let c := rconsts g.
  Let A := tdgp1 R (cb R c) * (1 / rho).
  Let B := gm1dgp1 R (cb R c) * P.
  Let Pinv := 1 / P.
  Let afac := tdgm1 R (cb R c) * a.
  Let pi_ := Ps * (1 / P).
  Let x := Rpower pi_ (1 / 2 * (g - 1) / g).

  Lemma lpi_pos : 0 < pi_.
  Proof. unfold pi_. apply Rmult_lt_0_compat; [lra | apply Rdiv_lt_0_compat; lra]. Qed.
  Lemma lx_pos : 0 < x. Proof. apply Rpower_pos. Qed.

  Lemma fb_raref_l : fb R RS c P A B Pinv afac Ps = afac * (x - 1).
  Proof.
    unfold fb. rops. assert (E : Rltb P Ps = false) by (apply Rltb_false; lra). rewrite E. reflexivity.
  Qed.

  (* the star state next to a right rarefaction, as sampled by the code *)
  Let us := u - fb R RS c P A B Pinv afac Ps.
  Let rhos := rho * Rpower pi_ (1 / g).
  Let as_ := a * x.      (* the sound speed the code uses for the tail: aR (P* / PR)^((g-1)/2g) *)

  Lemma lr_star_isentropic : Ps / Rpower rhos g = P / Rpower rho g.
  Proof.
    unfold rhos. assert (Pp := lpi_pos).
    rewrite <- Rpower_mult_distr by (try assumption; apply Rpower_pos).
    rewrite Rpower_mult. replace (1 / g * g) with 1 by (field; lra). rewrite Rpower_1 by assumption.
    unfold pi_. assert (0 < Rpower rho g) by apply Rpower_pos. field. split; lra.
  Qed.

  Lemma lr_star_soundspeed : as_ * as_ = g * Ps / rhos.
  Proof.
    unfold as_, rhos. assert (Pp := lpi_pos).
    replace (a * x * (a * x)) with (a * a * (x * x)) by ring. rewrite Ha2.
    assert (E : x * x = pi_ * / Rpower pi_ (1 / g)).
    { unfold x. rewrite <- Rpower_plus, <- Rpower_Ropp.
      rewrite <- (Rpower_1 pi_) at 2 by assumption. rewrite <- Rpower_plus. pw_eq. }
    rewrite E. unfold pi_ at 1. assert (0 < Rpower pi_ (1 / g)) by apply Rpower_pos. field. repeat split; lra.
  Qed.

  (* Riemann invariant u + 2a/(g-1) carried across the left rarefaction into the star region *)
  Lemma lr_star_invariant : us + 2 / (g - 1) * as_ = u + 2 / (g - 1) * a.
  Proof. unfold us, as_. rewrite fb_raref_l. unfold afac, c. rops. field. lra. Qed.

  Lemma lr_tail_speed : left_tail_speed R RS c a Pinv us Ps = us - as_.
  Proof. unfold left_tail_speed, Pinv, as_, x, pi_, c. rops. reflexivity. Qed.

  (* ---- inside the fan ---- *)
  Definition lfan_base (xi : R) : R := 2 / (g + 1) + (g - 1) / (g + 1) * (u - xi) / a.

  Lemma left_fan_eq xi : 0 < lfan_base xi ->
    left_fan R RS c clamp rho u P a xi =
    (rho * Rpower (lfan_base xi) (2 / (g - 1)), 2 / (g + 1) * (a + 1 / 2 * (g - 1) * u + xi), P * Rpower (lfan_base xi) (2 * g / (g - 1))).
  Proof.
    intros Hb. unfold left_fan, c. rops.
    change (2 / (g + 1) + (g - 1) / (g + 1) * (u - xi) / a) with (lfan_base xi).
    rewrite (guard_pos clamp _ Hb). reflexivity.
  Qed.

  Section InFan.
    Variable xi : R.
    Hypothesis Hb : 0 < lfan_base xi.
    Let b := lfan_base xi.
    Let rhof := fst (fst (left_fan R RS c clamp rho u P a xi)).
    Let uf := snd (fst (left_fan R RS c clamp rho u P a xi)).
    Let Pf := snd (left_fan R RS c clamp rho u P a xi).
    Let af := a * b.

    Lemma lr_fan_isentropic : Pf / Rpower rhof g = P / Rpower rho g.
    Proof.
      unfold Pf, rhof. rewrite left_fan_eq by exact Hb. cbn [fst snd]. fold b.
      rewrite <- Rpower_mult_distr by (try assumption; apply Rpower_pos).
      rewrite Rpower_mult. replace (2 / (g - 1) * g) with (2 * g / (g - 1)) by (field; lra).
      assert (0 < Rpower rho g) by apply Rpower_pos. assert (0 < Rpower b (2 * g / (g - 1))) by apply Rpower_pos.
      field. split; lra.
    Qed.

    Lemma lr_fan_soundspeed : af * af = g * Pf / rhof.
    Proof.
      unfold af, Pf, rhof. rewrite left_fan_eq by exact Hb. cbn [fst snd]. fold b.
      replace (a * b * (a * b)) with (a * a * (b * b)) by ring. rewrite Ha2.
      assert (E : Rpower b (2 * g / (g - 1)) = b * b * Rpower b (2 / (g - 1))).
      { rewrite <- Rpower_sq by assumption. rewrite <- Rpower_plus. pw_eq. }
      rewrite E. assert (0 < Rpower b (2 / (g - 1))) by apply Rpower_pos. field. split; lra.
    Qed.

    (* the fan is made of u - a characteristics: x/t = u - a *)
    Lemma lr_fan_characteristic : uf - af = xi.
    Proof.
      unfold af, uf. rewrite left_fan_eq by exact Hb. cbn [fst snd]. unfold b, lfan_base. field. split; lra.
    Qed.

    Lemma lr_fan_invariant : uf + 2 / (g - 1) * af = u + 2 / (g - 1) * a.
    Proof.
      unfold af, uf. rewrite left_fan_eq by exact Hb. cbn [fst snd]. unfold b, lfan_base. field. repeat split; lra.
    Qed.
  End InFan.

  (* ---- the one-sided expressions coincide at the head and at the tail ---- *)
  Lemma lr_base_head : lfan_base (u - a) = 1.
  Proof. unfold lfan_base. field. split; lra. Qed.

  Lemma lr_fan_head : left_fan R RS c clamp rho u P a (u - a) = (rho, u, P).
  Proof.
    rewrite left_fan_eq by (rewrite lr_base_head; lra). rewrite lr_base_head, !Rpower_base1.
    tup; field; lra.
  Qed.

  Lemma lr_base_tail : lfan_base (us - as_) = x.
  Proof. unfold lfan_base, us, as_. rewrite fb_raref_l. unfold afac, c. rops. field. repeat split; lra. Qed.

  Lemma lr_fan_tail : left_fan R RS c clamp rho u P a (us - as_) = (rhos, us, Ps).
  Proof.
    assert (Px := lx_pos). rewrite left_fan_eq by (rewrite lr_base_tail; exact Px). rewrite lr_base_tail. assert (Pp := lpi_pos).
    tup.
    - unfold rhos, x. rewrite Rpower_mult. f_equal. pw_eq.
    - unfold us, as_. rewrite fb_raref_l. unfold afac, c. rops. field. lra.
    - unfold x. rewrite Rpower_mult. replace (1 / 2 * (g - 1) / g * (2 * g / (g - 1))) with 1 by (field; lra).
      rewrite Rpower_1 by assumption. unfold pi_. field. lra.
  Qed.

  (* between tail and head the base of the powers is positive (and at most 1) *)
  Lemma lr_base_in_fan xi : u - a <= xi -> xi <= us - as_ -> x <= lfan_base xi <= 1.
  Proof.
    intros H1 H2. rewrite <- lr_base_tail, <- lr_base_head. unfold lfan_base.
    assert (K : 0 < (g - 1) / (g + 1) / a) by (apply Rdiv_lt_0_compat; [apply Rdiv_lt_0_compat|]; lra).
    replace ((g - 1) / (g + 1) * (u - (us - as_)) / a) with ((g - 1) / (g + 1) / a * (u - (us - as_))) by (field; lra).
    replace ((g - 1) / (g + 1) * (u - xi) / a) with ((g - 1) / (g + 1) / a * (u - xi)) by (field; lra).
    replace ((g - 1) / (g + 1) * (u - (u - a)) / a) with ((g - 1) / (g + 1) / a * (u - (u - a))) by (field; lra).
    split; nra.
  Qed.

  (* what the sampler returns, by position *)
  Lemma sample_lr_cases xi :
    sample_left_rarefaction_wave R RS c clamp rho u P a Pinv us Ps xi =
    if Rlt_dec (u - a) xi then
      if Rlt_dec xi (us - as_) then left_fan R RS c clamp rho u P a xi else (rhos, us, Ps)
    else (rho, u, P).
  Proof.
    unfold sample_left_rarefaction_wave. rewrite lr_tail_speed.
    cbn [sltb ssub RS ROps]. unfold Rltb.
    destruct (Rlt_dec (u - a) xi); destruct (Rlt_dec xi (us - as_)); reflexivity.
  Qed.

  Lemma lr_tail_after_head : u - a <= us - as_.
  Proof.
    unfold us, as_. rewrite fb_raref_l. unfold afac, c. rops.
    assert (x <= 1).
    { unfold x. assert (Pp := lpi_pos).
      assert (pi_ <= 1). { unfold pi_. apply Rmult_le_reg_r with P; [lra|]. field_simplify; lra. }
      apply Rle_trans with (Rpower 1 (1 / 2 * (g - 1) / g)); [| rewrite Rpower_base1; lra].
      apply Rle_Rpower_l; [| lra].
      apply Rlt_le. apply Rdiv_lt_0_compat; lra. }
    assert (K : 0 < 2 / (g - 1)) by (apply Rdiv_lt_0_compat; lra).
    assert (Q : a * (x - 1) <= 0) by nra.
    assert (Q2 : 2 / (g - 1) * (a * (x - 1)) <= 0) by nra.
    replace (2 / (g - 1) * a * (x - 1)) with (2 / (g - 1) * (a * (x - 1))) by ring. nra.
  Qed.
End LeftRarefaction.


(* ---------------- the vacuum part of this model (clamp = true, the guarded fan bases) IS the model of C05_Defs.v, for every scalar instance ---------------- *)
Lemma solve_novac_is_c05 (F : Type) (S : SOps F) (c : xconsts F) rhoL uL PL rhoR uR PR dxdt :
  solve_novac F S c true rhoL uL PL rhoR uR PR dxdt = exact_solve_novac F S (cb F c) false rhoL uL PL rhoR uR PR dxdt.
Proof.
  unfold solve_novac, exact_solve_novac, solve_vacuum, exact_solve_vacuum,
         sample_right_vacuum, C05_Defs.sample_right_vacuum, sample_left_vacuum, C05_Defs.sample_left_vacuum,
         sample_vacuum_generation, C05_Defs.sample_vacuum_generation, left_fan, right_fan, guard, with_flag, fan_coeff,
         soundspeed, get_soundspeed.
  reflexivity.
Qed.

(* ---------------- (c) vacuum fans ---------------- *)
Section Vacuum.
  Variable clamp : bool.
  Variables g rho u P a : R.
  Hypothesis Hg : 1 < g.
  Hypothesis Ha : 0 < a.
  Let c := rconsts g.

  (* gas on the left, vacuum on the right: between head u - a and front u + 2a/(g-1) the sampler IS the
     left rarefaction fan of the non-vacuum solver *)
  Lemma right_vacuum_cases xi :
    sample_right_vacuum R RS c clamp rho u P a xi =
    if Rlt_dec (u - a) xi then
      if Rlt_dec xi (u + 2 / (g - 1) * a) then with_flag R (-1) (left_fan R RS c clamp rho u P a xi) else (0%Z, 0, 0, 0)
    else ((-1)%Z, rho, u, P).
  Proof.
    unfold sample_right_vacuum, c. rops. unfold Rltb.
    destruct (Rlt_dec (u - a) xi); destruct (Rlt_dec xi (u + 2 / (g - 1) * a)); reflexivity.
  Qed.

  Lemma left_vacuum_cases xi :
    sample_left_vacuum R RS c clamp rho u P a xi =
    if Rlt_dec xi (u + a) then
      if Rlt_dec (u - 2 / (g - 1) * a) xi then with_flag R 1 (right_fan R RS c clamp rho u P a xi) else (0%Z, 0, 0, 0)
    else (1%Z, rho, u, P).
  Proof.
    unfold sample_left_vacuum, c. rops. unfold Rltb.
    destruct (Rlt_dec xi (u + a)); destruct (Rlt_dec (u - 2 / (g - 1) * a) xi); reflexivity.
  Qed.

  (* at the vacuum front the base of the density and pressure powers vanishes, and the gas velocity equals the
     front speed; strictly behind the front the base is positive *)
  Lemma left_fan_front_base : lfan_base g u a (u + 2 / (g - 1) * a) = 0.
  Proof. unfold lfan_base. field. repeat split; lra. Qed.
  Lemma right_fan_front_base : rfan_base g u a (u - 2 / (g - 1) * a) = 0.
  Proof. unfold rfan_base. field. repeat split; lra. Qed.
  Lemma left_fan_front_velocity :
    snd (fst (left_fan R RS c clamp rho u P a (u + 2 / (g - 1) * a))) = u + 2 / (g - 1) * a.
  Proof. unfold left_fan, c. rops. cbn [fst snd]. field. split; lra. Qed.
  Lemma right_fan_front_velocity :
    snd (fst (right_fan R RS c clamp rho u P a (u - 2 / (g - 1) * a))) = u - 2 / (g - 1) * a.
  Proof. unfold right_fan, c. rops. cbn [fst snd]. field. split; lra. Qed.
  Lemma left_fan_base_pos xi : xi < u + 2 / (g - 1) * a -> 0 < lfan_base g u a xi.
  Proof.
    intros H. rewrite <- left_fan_front_base. unfold lfan_base.
    assert (K : 0 < (g - 1) / (g + 1) / a) by (apply Rdiv_lt_0_compat; [apply Rdiv_lt_0_compat|]; lra).
    replace ((g - 1) / (g + 1) * (u - (u + 2 / (g - 1) * a)) / a) with ((g - 1) / (g + 1) / a * (u - (u + 2 / (g - 1) * a))) by (field; lra).
    replace ((g - 1) / (g + 1) * (u - xi) / a) with ((g - 1) / (g + 1) / a * (u - xi)) by (field; lra).
    nra.
  Qed.
  Lemma right_fan_base_pos xi : u - 2 / (g - 1) * a < xi -> 0 < rfan_base g u a xi.
  Proof.
    intros H. rewrite <- right_fan_front_base. unfold rfan_base.
    assert (K : 0 < (g - 1) / (g + 1) / a) by (apply Rdiv_lt_0_compat; [apply Rdiv_lt_0_compat|]; lra).
    replace ((g - 1) / (g + 1) * (u - (u - 2 / (g - 1) * a)) / a) with ((g - 1) / (g + 1) / a * (u - (u - 2 / (g - 1) * a))) by (field; lra).
    replace ((g - 1) / (g + 1) * (u - xi) / a) with ((g - 1) / (g + 1) / a * (u - xi)) by (field; lra).
    nra.
  Qed.
End Vacuum.

Section VacuumGeneration.
  Variable clamp : bool.
  Variables g rhoL uL PL aL rhoR uR PR aR : R.
  Hypothesis Hg : 1 < g.
  Hypothesis HaL : 0 < aL.
  Hypothesis HaR : 0 < aR.
  (* the vacuum generation condition of solve() *)
  Hypothesis Hvac : 2 / (g - 1) * aL + 2 / (g - 1) * aR <= uR - uL.
  Let c := rconsts g.

  Lemma vacuum_generation_cases xi :
    sample_vacuum_generation R RS c clamp rhoL uL PL aL rhoR uR PR aR xi =
    if Rlt_dec xi (uL - aL) then ((-1)%Z, rhoL, uL, PL)
    else if Rle_dec xi (uL + 2 / (g - 1) * aL) then
           (if Rlt_dec (uL - aL) xi then with_flag R (-1) (left_fan R RS c clamp rhoL uL PL aL xi) else ((-1)%Z, rhoL, uL, PL))
    else if Rlt_dec xi (uR - 2 / (g - 1) * aR) then (0%Z, 0, 0, 0)
    else if Rlt_dec xi (uR + aR) then with_flag R 1 (right_fan R RS c clamp rhoR uR PR aR xi)
    else (1%Z, rhoR, uR, PR).
  Proof.
    unfold sample_vacuum_generation, c. rops. unfold Rltb.
    assert (K : 0 < 2 / (g - 1)) by (apply Rdiv_lt_0_compat; lra).
    assert (0 < 2 / (g - 1) * aL) by (apply Rmult_lt_0_compat; lra).
    assert (0 < 2 / (g - 1) * aR) by (apply Rmult_lt_0_compat; lra).
    destruct (Rlt_dec xi (uR - 2 / (g - 1) * aR)); destruct (Rlt_dec (uL + 2 / (g - 1) * aL) xi);
      destruct (Rlt_dec xi (uL - aL)); destruct (Rle_dec xi (uL + 2 / (g - 1) * aL));
      destruct (Rlt_dec xi (uR + aR)); destruct (Rlt_dec (uL - aL) xi); cbn [andb]; try reflexivity; exfalso; lra.
  Qed.
End VacuumGeneration.

(* the tail of a rarefaction approaches the vacuum front as P* -> 0: tail = front -/+ (g+1)/(g-1) a (P*/P)^((g-1)/2g) *)
Lemma left_tail_vs_front g rho u P a Ps : 1 < g -> 0 < P ->
  let c := rconsts g in
  let us := u - fb R RS c P (tdgp1 R (cb R c) * (1 / rho)) (gm1dgp1 R (cb R c) * P) (1 / P) (tdgm1 R (cb R c) * a) Ps in
  Ps <= P ->
  left_tail_speed R RS c a (1 / P) us Ps = (u + 2 / (g - 1) * a) - (g + 1) / (g - 1) * a * Rpower (Ps * (1 / P)) (1 / 2 * (g - 1) / g).
Proof.
  intros Hg HP. cbv zeta. intros HPs. unfold left_tail_speed, fb. rops.
  assert (E : Rltb P Ps = false) by (apply Rltb_false; lra). rewrite E. field. lra.
Qed.
Lemma right_tail_vs_front g rho u P a Ps : 1 < g -> 0 < P ->
  let c := rconsts g in
  let us := u + fb R RS c P (tdgp1 R (cb R c) * (1 / rho)) (gm1dgp1 R (cb R c) * P) (1 / P) (tdgm1 R (cb R c) * a) Ps in
  Ps <= P ->
  right_tail_speed R RS c a (1 / P) us Ps = (u - 2 / (g - 1) * a) + (g + 1) / (g - 1) * a * Rpower (Ps * (1 / P)) (1 / 2 * (g - 1) / g).
Proof.
  intros Hg HP. cbv zeta. intros HPs. unfold right_tail_speed, fb. rops.
  assert (E : Rltb P Ps = false) by (apply Rltb_false; lra). rewrite E. field. lra.
Qed.


(* ---------------- (d) the pressure function is strictly increasing ---------------- *)
Section Monotone.
  Variable g : R.
  Hypothesis Hg : 1 < g.
  Let c := rconsts g.

  Section OneSide.
    Variables P A B afac rhoainv : R.
    Hypothesis HP : 0 < P.
    Hypothesis HA : 0 < A.
    Hypothesis HB : 0 < B.
    Hypothesis Hafac : 0 < afac.
    Hypothesis Hrhoa : 0 < rhoainv.

    Lemma fprimeb_pos Ps : 0 < Ps -> 0 < fprimeb R RS c P A B (1 / P) rhoainv Ps.
    Proof.
      intros HPs. unfold fprimeb, c. rops. unfold Rltb. destruct (Rlt_dec P Ps).
      - apply Rmult_lt_0_compat.
        + assert (E : 1 - 1 / 2 * (Ps - P) * (1 / (Ps + B)) = (Ps + 2 * B + P) / (2 * (Ps + B))) by (field; lra).
          rewrite E. apply Rdiv_lt_0_compat; lra.
        + apply sqrt_lt_R0. apply Rmult_lt_0_compat; [lra | apply Rdiv_lt_0_compat; lra].
      - apply Rmult_lt_0_compat; [apply Rpower_pos | lra].
    Qed.

    Lemma fb_rarefaction_nonpos Ps : 0 < Ps -> Ps <= P -> fb R RS c P A B (1 / P) afac Ps <= 0.
    Proof.
      intros H0 H1. unfold fb, c. rops. assert (E : Rltb P Ps = false) by (apply Rltb_false; lra). rewrite E.
      assert (Rpower (Ps * (1 / P)) (1 / 2 * (g - 1) / g) <= 1); [| nra].
      assert (0 < Ps * (1 / P)) by (apply Rmult_lt_0_compat; [lra | apply Rdiv_lt_0_compat; lra]).
      assert (Ps * (1 / P) <= 1). { apply Rmult_le_reg_r with P; [lra|]. field_simplify; lra. }
      apply Rle_trans with (Rpower 1 (1 / 2 * (g - 1) / g)); [| rewrite Rpower_base1; lra].
      apply Rle_Rpower_l; [| lra]. apply Rlt_le. apply Rdiv_lt_0_compat; lra.
    Qed.

    Lemma fb_shock_pos Ps : P < Ps -> 0 < fb R RS c P A B (1 / P) afac Ps.
    Proof.
      intros H1. unfold fb, c. rops. assert (E : Rltb P Ps = true) by (apply Rltb_true; lra). rewrite E.
      apply Rmult_lt_0_compat; [lra|]. apply sqrt_lt_R0. apply Rdiv_lt_0_compat; lra.
    Qed.

    Lemma fb_increasing p1 p2 : 0 < p1 -> p1 < p2 ->
      fb R RS c P A B (1 / P) afac p1 < fb R RS c P A B (1 / P) afac p2.
    Proof.
      intros H0 H12.
      destruct (Rle_dec p2 P) as [H2 | H2].
      - (* both on the rarefaction branch *)
        unfold fb, c. rops.
        assert (E1 : Rltb P p1 = false) by (apply Rltb_false; lra).
        assert (E2 : Rltb P p2 = false) by (apply Rltb_false; lra). rewrite E1, E2.
        assert (Rpower (p1 * (1 / P)) (1 / 2 * (g - 1) / g) < Rpower (p2 * (1 / P)) (1 / 2 * (g - 1) / g)); [| nra].
        assert (0 < 1 / P) by (apply Rdiv_lt_0_compat; lra).
        apply Rlt_Rpower_l; [apply Rdiv_lt_0_compat; lra |]. split; nra.
      - apply Rnot_le_lt in H2. destruct (Rle_dec p1 P) as [H1 | H1].
        + (* rarefaction below, shock above *)
          apply Rle_lt_trans with 0; [apply fb_rarefaction_nonpos; lra | apply fb_shock_pos; lra].
        + (* both on the shock branch: compare squares *)
          apply Rnot_le_lt in H1. unfold fb, c. rops.
          assert (E1 : Rltb P p1 = true) by (apply Rltb_true; lra).
          assert (E2 : Rltb P p2 = true) by (apply Rltb_true; lra). rewrite E1, E2.
          assert (Q1 : 0 < A / (p1 + B)) by (apply Rdiv_lt_0_compat; lra).
          assert (Q2 : 0 < A / (p2 + B)) by (apply Rdiv_lt_0_compat; lra).
          rewrite <- (sqrt_Rsqr (p1 - P)) by lra. rewrite <- (sqrt_Rsqr (p2 - P)) by lra.
          rewrite <- !sqrt_mult by (try apply Rle_0_sqr; lra).
          apply sqrt_lt_1_alt. split.
          * apply Rmult_le_pos; [apply Rle_0_sqr | lra].
          * unfold Rsqr.
            set (x := p1 - P). set (y := p2 - P). set (K := P + B).
            replace (p1 + B) with (x + K) by (unfold x, K; ring).
            replace (p2 + B) with (y + K) by (unfold y, K; ring).
            assert (0 < x) by (unfold x; lra). assert (x < y) by (unfold x, y; lra). assert (0 < K) by (unfold K; lra).
            assert (Hc : x * x * (y + K) < y * y * (x + K)).
            { assert (0 < x * y * (y - x)) by (apply Rmult_lt_0_compat; [apply Rmult_lt_0_compat|]; lra).
              assert (0 < K * ((y - x) * (y + x))) by (apply Rmult_lt_0_compat; [|apply Rmult_lt_0_compat]; lra).
              nra. }
            apply Rmult_lt_reg_r with ((x + K) * (y + K)); [apply Rmult_lt_0_compat; lra|].
            replace (x * x * (A / (x + K)) * ((x + K) * (y + K))) with (A * (x * x * (y + K))) by (field; lra).
            replace (y * y * (A / (y + K)) * ((x + K) * (y + K))) with (A * (y * y * (x + K))) by (field; lra).
            apply Rmult_lt_compat_l; assumption.
    Qed.
  End OneSide.

  Section Both.
    Variables PL AL BL aLfac PR AR BR aRfac udiff : R.
    Hypothesis HPL : 0 < PL. Hypothesis HAL : 0 < AL. Hypothesis HBL : 0 < BL. Hypothesis HaL : 0 < aLfac.
    Hypothesis HPR : 0 < PR. Hypothesis HAR : 0 < AR. Hypothesis HBR : 0 < BR. Hypothesis HaR : 0 < aRfac.
    Let f := ff R RS c PL AL BL (1 / PL) aLfac PR AR BR (1 / PR) aRfac udiff.

    Lemma ff_increasing p1 p2 : 0 < p1 -> p1 < p2 -> f p1 < f p2.
    Proof.
      intros H0 H12. unfold f, ff. rops.
      assert (H1 := fb_increasing PL AL BL aLfac HPL HAL HBL HaL p1 p2 H0 H12).
      assert (H2 := fb_increasing PR AR BR aRfac HPR HAR HBR HaR p1 p2 H0 H12). lra.
    Qed.

    Lemma ff_root_unique p1 p2 : 0 < p1 -> 0 < p2 -> f p1 = 0 -> f p2 = 0 -> p1 = p2.
    Proof.
      intros H1 H2 E1 E2. destruct (Rtotal_order p1 p2) as [H | [H | H]]; [| assumption |].
      - assert (Q := ff_increasing p1 p2 H1 H). lra.
      - assert (Q := ff_increasing p2 p1 H2 H). lra.
    Qed.

    Lemma fprime_pos rhoLaLinv rhoRaRinv Ps : 0 < rhoLaLinv -> 0 < rhoRaRinv -> 0 < Ps ->
      0 < fprime R RS c PL AL BL (1 / PL) rhoLaLinv PR AR BR (1 / PR) rhoRaRinv Ps.
    Proof.
      intros. unfold fprime. rops.
      assert (Q1 := fprimeb_pos PL AL BL rhoLaLinv HPL HAL HBL H Ps H1).
      assert (Q2 := fprimeb_pos PR AR BR rhoRaRinv HPR HAR HBR H0 Ps H1). lra.
    Qed.

    (* sign of f tells on which side of the root a pressure is: this is what Newton's exit test and
       Brent's bracket rely on *)
    Lemma ff_sign_side p0 p : 0 < p0 -> 0 < p -> f p0 = 0 -> (f p < 0 <-> p < p0) /\ (0 < f p <-> p0 < p).
    Proof.
      intros H0 Hp E. destruct (Rtotal_order p p0) as [H | [H | H]].
      - assert (Q := ff_increasing p p0 Hp H). split; split; intros; lra.
      - subst p. split; split; intros; lra.
      - assert (Q := ff_increasing p0 p H0 H). split; split; intros; lra.
    Qed.
  End Both.
End Monotone.


(* ---------------- (e) Brent's loop, for an arbitrary function f ---------------- *)
(* ---- the loop logic (Brent, Newton, star state) does not depend on what std::pow computes: it is proved for the
   scalar operations of ROps 0 1 with an ARBITRARY pow function pw.  pw := Rpower gives RS; pw := cpow is Rpower
   with the C value pow(0, y) = 0 for y > 0, which is what the pressure function sees at the lower end P = 0 of the
   first Brent bracket (Coq's Rpower 0 y is 1). ---- *)
Definition RSpw (pw : R -> R -> R) : SOps R := {|
  s0 := 0; s1 := 1; s2 := 2; shalf := 1 / 2; squarter := 1 / 4;
  sadd := Rplus; ssub := Rminus; smul := Rmult; sdiv := Rdiv; sneg := Ropp;
  ssqrt := sqrt; spow := pw; sabs := Rabs;
  sltb := Rltb; sleb := Rleb; seqb := Reqb;
  sisinf := fun _ => false;
  sdblmin := 0; sgamma_floor := 1;
  sconst := fun m e => IZR m * Rpower 10 (IZR e);
|}.
Lemma RSpw_Rpower : RSpw Rpower = RS.
Proof. reflexivity. Qed.
Definition cpow (x y : R) : R := if Req_EM_T x 0 then (if Rlt_dec 0 y then 0 else Rpower x y) else Rpower x y.
Lemma cpow_pos x y : 0 < x -> cpow x y = Rpower x y.
Proof. intros H. unfold cpow. destruct (Req_EM_T x 0); [lra | reflexivity]. Qed.
Lemma cpow_0 y : 0 < y -> cpow 0 y = 0.
Proof. intros H. unfold cpow. destruct (Req_EM_T 0 0); [| contradiction]. destruct (Rlt_dec 0 y); [reflexivity | contradiction]. Qed.

Ltac ropsx := cbn [sadd ssub smul sdiv sneg ssqrt spow sabs sltb sleb seqb sisinf s0 s1 s2 shalf squarter RSpw
                   cb gm1d2g ginv gam tdgm1 gp1d2g odgm1 gm1d2 gm1dgp1 tgdgm1 tdgp1 rconsts].

Section AnyPow.
Variable pw : R -> R -> R.

Lemma three_R : three R (RSpw pw) = 3.
Proof. unfold three. cbn [sconst RSpw]. rewrite Rpower_O by lra. lra. Qed.

Section Brent.
  Variable f : R -> R.

  Definition binv (lo hi : R) (st : bstate R) : Prop :=
    lo <= ba R st <= hi /\ lo <= bb R st <= hi /\ bfa R st = f (ba R st) /\ bfb R st = f (bb R st) /\
    bfa R st * bfb R st <= 0 /\ Rabs (bfb R st) <= Rabs (bfa R st).

  Lemma swap_inv lo hi a b c_ d fc m :
    lo <= a <= hi -> lo <= b <= hi -> f a * f b <= 0 ->
    forall a2 b2 fa2 fb2, brent_swap R (RSpw pw) a b (f a) (f b) = (a2, b2, fa2, fb2) ->
    binv lo hi (mkB R a2 b2 c_ d fa2 fb2 fc m).
  Proof.
    intros Ha Hb Hs a2 b2 fa2 fb2. unfold brent_swap. ropsx.
    destruct (Rltb (Rabs (f a)) (Rabs (f b))) eqn:E; intros Q; inversion Q; subst; unfold binv; cbn [ba bb bfa bfb].
    - apply Rltb_true in E. repeat split; try lra.
    - apply Rltb_false in E. repeat split; try lra.
  Qed.

  (* the trial point lies between a and b: either the interpolated value was accepted, which requires it to lie
     strictly between (3a+b)/4 and b, or it is the midpoint *)
  Lemma trial_in_hull a b c_ d s0 m :
    let s := if brent_reject R (RSpw pw) a b c_ d s0 m then shalf (RSpw pw) * (a + b) else s0 in
    Rmin a b <= s <= Rmax a b.
  Proof.
    cbv zeta. destruct (brent_reject R (RSpw pw) a b c_ d s0 m) eqn:E.
    - ropsx. unfold Rmin, Rmax. destruct (Rle_dec a b); lra.
    - unfold brent_reject in E. rewrite three_R in E. revert E. ropsx. intros E.
      repeat (apply orb_false_iff in E; destruct E as [E ?]).
      apply negb_false_iff in E. apply orb_true_iff in E.
      unfold Rmin, Rmax.
      destruct E as [E | E]; apply andb_true_iff in E; destruct E as [E1 E2]; apply Rltb_true in E1; apply Rltb_true in E2;
        destruct (Rle_dec a b); lra.
  Qed.

  Lemma step_inv lo hi st : binv lo hi st -> bfb R st <> 0 -> binv lo hi (brent_step R (RSpw pw) f st).
  Proof.
    destruct st as [a b c_ d fa fb_ fc m]. intros Hi Hnz. unfold binv in Hi. cbn [ba bb bfa bfb] in Hi, Hnz.
    destruct Hi as (Ha & Hb & Efa & Efb & Hs & Habs). subst fa fb_.
    unfold brent_step. ropsx.
    set (s0 := brent_interp R (RSpw pw) a b c_ (f a) (f b) fc).
    assert (Hull := trial_in_hull a b c_ d s0 m). cbv zeta in Hull. cbn [shalf smul sadd RSpw] in Hull.
    set (rej := brent_reject R (RSpw pw) a b c_ d s0 m) in *.
    set (s := if rej then 1 / 2 * (a + b) else s0) in *.
    assert (Hs_in : lo <= s <= hi).
    { revert Hull. unfold Rmin, Rmax. destruct (Rle_dec a b); lra. }
    destruct (Rltb (f a * f s) 0) eqn:E.
    - apply Rltb_true in E.
      destruct (brent_swap R (RSpw pw) a s (f a) (f s)) as [[[a2 b2] fa2] fb2] eqn:Q.
      apply (swap_inv lo hi a s b c_ (f b) rej) in Q; try assumption; try lra.
    - apply Rltb_false in E.
      destruct (brent_swap R (RSpw pw) s b (f s) (f b)) as [[[a2 b2] fa2] fb2] eqn:Q.
      apply (swap_inv lo hi s b b c_ (f b) rej) in Q; try assumption.
      (* f a and f s do not have opposite signs, f a and f b do, and f a <> 0 because |f b| <= |f a|, f b <> 0 *)
      assert (Hfa : f a <> 0).
      { intros Z. rewrite Z, Rabs_R0 in Habs. assert (Q0 := Rabs_pos (f b)).
        assert (Rabs (f b) = 0) by lra. apply Hnz. destruct (Req_dec (f b) 0); [assumption|]. apply Rabs_no_R0 in H0. contradiction. }
      destruct (Rtotal_order (f a) 0) as [N | [N | N]]; [| contradiction |]; nra.
  Qed.

  Lemma cont_true_nz st : brent_cont R (RSpw pw) st = true -> bfb R st <> 0.
  Proof.
    unfold brent_cont. ropsx. intros E. apply andb_true_iff in E. destruct E as [E _].
    apply negb_true_iff in E. apply Reqb_false in E. exact E.
  Qed.

  Lemma cont_false_exit st : brent_cont R (RSpw pw) st = false ->
    bfb R st = 0 \/ Rabs (ba R st - bb R st) <= tol R (RSpw pw) * (ba R st + bb R st).
  Proof.
    unfold brent_cont. ropsx. intros E. apply andb_false_iff in E. destruct E as [E | E].
    - left. apply negb_false_iff in E. apply Reqb_true in E. exact E.
    - right. apply Rltb_false in E. exact E.
  Qed.

  Lemma loop_inv lo hi fuel : forall st n st' n' hit, binv lo hi st ->
    brent_loop R (RSpw pw) f fuel st n = (st', n', hit) ->
    binv lo hi st' /\ (hit = false -> brent_cont R (RSpw pw) st' = false).
  Proof.
    induction fuel as [| k IH]; intros st n st' n' hit Hi; cbn [brent_loop].
    - destruct (brent_cont R (RSpw pw) st) eqn:E; intros Q; inversion Q; subst; split; auto; discriminate.
    - destruct (brent_cont R (RSpw pw) st) eqn:E.
      + intros Q. apply IH in Q; [exact Q|]. apply step_inv; [exact Hi | apply cont_true_nz; exact E].
      + intros Q; inversion Q; subst; split; auto.
  Qed.

  (* solve_brent: every value it can return lies in the initial bracket, the final pair (a, b) still brackets a sign
     change, and unless the iteration bound was hit either f(b) = 0 or |a - b| <= 5e-9 (a + b) *)
  Lemma solve_brent_spec fuel Plow Phigh bs n hit :
    solve_brent R (RSpw pw) f fuel Plow Phigh (f Plow) (f Phigh) = Some (bs, n, hit) ->
    binv (Rmin Plow Phigh) (Rmax Plow Phigh) bs /\
    (hit = false -> bfb R bs = 0 \/ Rabs (ba R bs - bb R bs) <= tol R (RSpw pw) * (ba R bs + bb R bs)).
  Proof.
    unfold solve_brent. ropsx. destruct (Rltb 0 (f Plow * f Phigh)) eqn:E; [discriminate|].
    apply Rltb_false in E. intros Q. inversion Q as [Q']. clear Q.
    assert (Hi : binv (Rmin Plow Phigh) (Rmax Plow Phigh) (brent_init R (RSpw pw) Plow Phigh (f Plow) (f Phigh))).
    { unfold brent_init. destruct (brent_swap R (RSpw pw) Plow Phigh (f Plow) (f Phigh)) as [[[a2 b2] fa2] fb2] eqn:Qs.
      apply (swap_inv (Rmin Plow Phigh) (Rmax Plow Phigh)) with (c_ := a2) (d := big R (RSpw pw)) (fc := fa2) (m := true) in Qs;
        [exact Qs | | | assumption].
      - split; [apply Rmin_l | apply Rmax_l].
      - split; [apply Rmin_r | apply Rmax_r]. }
    destruct (loop_inv _ _ _ _ _ _ _ _ Hi Q') as [I X]. split; [exact I|].
    intros Hh. apply cont_false_exit. apply X. exact Hh.
  Qed.

  (* for a continuous f a root lies between the final a and b, hence within the stated tolerance of the returned value *)
  Lemma bracket_has_root a b : continuity f -> f a * f b <= 0 -> exists z, Rmin a b <= z <= Rmax a b /\ f z = 0.
  Proof.
    intros Hc Hs. unfold Rmin, Rmax. destruct (Rle_dec a b) as [H | H].
    - destruct (IVT_cor f a b Hc H Hs) as [z [Hz Ez]]. exists z. split; assumption.
    - apply Rnot_le_lt in H. assert (Hs' : f b * f a <= 0) by lra.
      destruct (IVT_cor f b a Hc (Rlt_le _ _ H) Hs') as [z [Hz Ez]]. exists z. split; assumption.
  Qed.

  Lemma solve_brent_accuracy fuel Plow Phigh bs n :
    continuity f ->
    solve_brent R (RSpw pw) f fuel Plow Phigh (f Plow) (f Phigh) = Some (bs, n, false) ->
    exists z, f z = 0 /\ Rmin Plow Phigh <= z <= Rmax Plow Phigh /\
              Rabs (z - bb R bs) <= tol R (RSpw pw) * (ba R bs + bb R bs) \/ (f (bb R bs) = 0).
  Proof.
    intros Hc Q. apply solve_brent_spec in Q. destruct Q as [(Ha & Hb & Efa & Efb & Hs & Habs) X].
    destruct (X eq_refl) as [Z | Z].
    - exists (bb R bs). right. rewrite <- Efb. exact Z.
    - rewrite Efa, Efb in Hs. destruct (bracket_has_root _ _ Hc Hs) as [z [Hz Ez]].
      assert (Hz' : ba R bs <= z <= bb R bs \/ bb R bs <= z <= ba R bs).
      { revert Hz. unfold Rmin, Rmax. destruct (Rle_dec (ba R bs) (bb R bs)); intros; [left | right]; lra. }
      exists z. left. split; [exact Ez|]. split.
      + destruct Hz'; lra.
      + eapply Rle_trans; [| exact Z].
        unfold Rabs; destruct (Rcase_abs (z - bb R bs)); destruct (Rcase_abs (ba R bs - bb R bs)); destruct Hz'; lra.
  Qed.
End Brent.


Lemma tol_pos_pw : 0 < tol R (RSpw pw).
Proof. unfold tol. cbn [sconst RSpw]. apply Rmult_lt_0_compat; [lra | apply Rpower_pos]. Qed.

(* ---------------- Newton loop: what holds when it stops ---------------- *)
Section Newton.
  Variables f fp : R -> R.

  Lemma newton_loop_spec fuel : forall Pstar fPstar Pguess fPguess n Ps' fPs' Pg' fPg' n',
    fPstar = f Pstar -> fPguess = f Pguess ->
    newton_loop R (RSpw pw) f fp fuel Pstar fPstar Pguess fPguess n = Some (Ps', fPs', Pg', fPg', n') ->
    fPs' = f Ps' /\ fPg' = f Pg' /\
    (Rabs (Ps' - Pg') <= tol R (RSpw pw) * (Ps' + Pg') \/ 0 <= f Pg').
  Proof.
    induction fuel as [| k IH]; intros Pstar fPstar Pguess fPguess n Ps' fPs' Pg' fPg' n' E1 E2; cbn [newton_loop];
      destruct (newton_cont R (RSpw pw) Pstar Pguess fPguess) eqn:C; try discriminate.
    - intros Q. inversion Q; subst. split; [reflexivity|]. split; [reflexivity|].
      unfold newton_cont in C. revert C. ropsx. intros C. apply andb_false_iff in C. destruct C as [C | C]; apply Rltb_false in C; [left | right]; lra.
    - intros Q. apply IH in Q; [exact Q | exact E2 | reflexivity].
    - intros Q. inversion Q; subst. split; [reflexivity|]. split; [reflexivity|].
      unfold newton_cont in C. revert C. ropsx. intros C. apply andb_false_iff in C. destruct C as [C | C]; apply Rltb_false in C; [left | right]; lra.
  Qed.
End Newton.

(* ---------------- the star state computed by solve() ---------------- *)
Section Star.
  Variables g rhoL uL PL rhoR uR PR : R.
  Let c := rconsts g.
  Let aL := soundspeed R (RSpw pw) c (1 / rhoL) PL.
  Let aR := soundspeed R (RSpw pw) c (1 / rhoR) PR.
  Let fL := fb R (RSpw pw) c PL (tdgp1 R (cb R c) * (1 / rhoL)) (gm1dgp1 R (cb R c) * PL) (1 / PL) (tdgm1 R (cb R c) * aL).
  Let fR := fb R (RSpw pw) c PR (tdgp1 R (cb R c) * (1 / rhoR)) (gm1dgp1 R (cb R c) * PR) (1 / PR) (tdgm1 R (cb R c) * aR).
  (* the pressure function of this Riemann problem *)
  Definition pressure_function_pw (p : R) : R := fL p + fR p + (uR - uL).

  Lemma pressure_function_eq p :
    ff R (RSpw pw) c PL (tdgp1 R (cb R c) * (1 / rhoL)) (gm1dgp1 R (cb R c) * PL) (1 / PL) (tdgm1 R (cb R c) * aL)
              PR (tdgp1 R (cb R c) * (1 / rhoR)) (gm1dgp1 R (cb R c) * PR) (1 / PR) (tdgm1 R (cb R c) * aR) (uR - uL) p
    = pressure_function_pw p.
  Proof. reflexivity. Qed.

  (* the star velocity splits the residual of the pressure equation evenly between the two one-sided values *)
  Lemma ustar_residual p :
    let ustar := 1 / 2 * ((uL + uR) + (fR p - fL p)) in
    ustar - (uL - fL p) = 1 / 2 * pressure_function_pw p /\ (uR + fR p) - ustar = 1 / 2 * pressure_function_pw p.
  Proof. cbv zeta. unfold pressure_function_pw. split; field. Qed.

  Lemma star_state_spec nfuel bfuel :
    let st := star_state R (RSpw pw) c nfuel bfuel rhoL uL PL rhoR uR PR in
    (st_code R st = 2%Z \/ st_code R st = 3%Z) ->
    st_u R st = 1 / 2 * ((uL + uR) + (fR (st_P R st) - fL (st_P R st))) /\
    (st_code R st = 3%Z -> st_brent_bound_hit R st = false ->
     exists a lo hi, lo <= a <= hi /\ lo <= st_P R st <= hi /\
       pressure_function_pw a * pressure_function_pw (st_P R st) <= 0 /\
       Rabs (pressure_function_pw (st_P R st)) <= Rabs (pressure_function_pw a) /\
       (pressure_function_pw (st_P R st) = 0 \/ Rabs (a - st_P R st) <= tol R (RSpw pw) * (a + st_P R st))).
  Proof.
    unfold star_state. cbv zeta.
    fold c. fold aL. fold aR.
    set (f := ff R (RSpw pw) c PL _ _ _ _ PR _ _ _ _ _).
    set (fp := fprime R (RSpw pw) c PL _ _ _ _ PR _ _ _ _).
    destruct (guess_P_b _ _ _ _ _ _ _ _ _ _ _ _) as [Pguess0 gbr].
    match goal with |- context [match ?X with Some _ => _ | None => _ end] => destruct X as [[[[[Pstar1 fPstar1] Pguess1] fPguess1] nn] |] eqn:NW end.
    2: { cbn [st_code]. intros [H | H]; discriminate. }
    assert (Hv : fPstar1 = f Pstar1 /\ fPguess1 = f Pguess1 /\ (Pstar1 = s0 (RSpw pw) \/ True)).
    { revert NW. destruct (sleb (RSpw pw) (s0 (RSpw pw)) (smul (RSpw pw) (f (s0 (RSpw pw))) (f Pguess0))).
      - intros NW. apply newton_loop_spec in NW; try reflexivity. destruct NW as (E1 & E2 & _). repeat split; auto.
      - intros NW. inversion NW; subst. repeat split; auto. }
    destruct Hv as (E1 & E2 & _). subst fPstar1 fPguess1.
    destruct (sltb (RSpw pw) (smul (RSpw pw) (tol R (RSpw pw)) (sadd (RSpw pw) Pstar1 Pguess1)) (sabs (RSpw pw) (ssub (RSpw pw) Pstar1 Pguess1)) && sltb (RSpw pw) (s0 (RSpw pw)) (f Pguess1)) eqn:UseBrent.
    - destruct (solve_brent R (RSpw pw) f bfuel Pstar1 Pguess1 (f Pstar1) (f Pguess1)) as [[[bs nb] hit] |] eqn:SB.
      2: { cbn [st_code]. intros [H | H]; discriminate. }
      cbn [sisinf RSpw orb st_code st_u st_P st_brent_bound_hit]. intros _. split; [reflexivity|].
      intros _ Hh. subst hit.
      apply solve_brent_spec in SB. destruct SB as [(Ha & Hb & Efa & Efb & Hs & Habs) X].
      specialize (X eq_refl). rewrite Efa, Efb in Hs, Habs. rewrite Efb in X.
      exists (ba R bs), (Rmin Pstar1 Pguess1), (Rmax Pstar1 Pguess1).
      split; [exact Ha|]. split; [exact Hb|]. split; [exact Hs|]. split; [exact Habs|]. exact X.
    - cbn [sisinf RSpw orb st_code st_u st_P st_brent_bound_hit]. intros _. split; [reflexivity|]. intros H; discriminate.
  Qed.
End Star.
End AnyPow.

(* the instances for pw := Rpower, under the names used below *)
Definition pressure_function := pressure_function_pw Rpower.
Lemma tol_pos : 0 < tol R RS. Proof. exact (tol_pos_pw Rpower). Qed.



(* ---------------- statements about the samplers as the code calls them ---------------- *)
Lemma soundspeed_real g rho P : 1 < g -> 0 < rho -> 0 < P ->
  let a := soundspeed R RS (rconsts g) (1 / rho) P in 0 < a /\ a * a = g * P / rho.
Proof.
  intros Hg Hr HP. cbv zeta. unfold soundspeed. rops.
  assert (Q : 0 < g * P * (1 / rho)) by (apply Rmult_lt_0_compat; [apply Rmult_lt_0_compat; lra | apply Rdiv_lt_0_compat; lra]).
  split; [apply sqrt_lt_R0; exact Q |]. rewrite sqrt_sqrt by lra. field. lra.
Qed.

Section Wrappers.
  Variable clamp : bool.
  Variables g rho u P Ps : R.
  Hypothesis Hg : 1 < g.
  Hypothesis Hrho : 0 < rho.
  Hypothesis HP : 0 < P.
  Let c := rconsts g.
  Let a := soundspeed R RS c (1 / rho) P.
  Let A := tdgp1 R (cb R c) * (1 / rho).
  Let B := gm1dgp1 R (cb R c) * P.
  Let afac := tdgm1 R (cb R c) * a.
  Let fK := fb R RS c P A B (1 / P) afac Ps.

  Lemma a_pos : 0 < a. Proof. apply (soundspeed_real g rho P Hg Hrho HP). Qed.
  Lemma a_sq : a * a = g * P / rho. Proof. apply (soundspeed_real g rho P Hg Hrho HP). Qed.

  Ltac hyp := first [assumption | lra | apply a_pos | apply a_sq].

  (* (a) shocks *)
  Lemma sample_on_right_shock xi : P < Ps ->
    let S := right_shock_speed R RS c u a (1 / P) Ps in
    let '(r, v, p) := sample_right_shock_wave R RS c rho u P a (1 / P) (u + fK) Ps xi in
    (xi < S -> p = Ps /\ v = u + fK /\ RH_mass rho u r v S /\ RH_momentum rho u P r v p S /\ RH_energy g rho u P r v p S) /\
    (S <= xi -> (r, v, p) = (rho, u, P)) /\ u + a < S /\ rho < right_shock_density R RS c rho (1 / P) Ps.
  Proof.
    intros HPs. cbv zeta. unfold sample_right_shock_wave. cbn [sltb RS ROps]. unfold Rltb.
    assert (RH : let us := u + fK in let S := right_shock_speed R RS c u a (1 / P) Ps in
                 let rs := right_shock_density R RS c rho (1 / P) Ps in
                 RH_mass rho u rs us S /\ RH_momentum rho u P rs us Ps S /\ RH_energy g rho u P rs us Ps S)
      by (apply right_shock_RH; hyp).
    cbv zeta in RH.
    assert (LX : u + a < right_shock_speed R RS c u a (1 / P) Ps) by (apply right_shock_lax; hyp).
    assert (CP : rho < right_shock_density R RS c rho (1 / P) Ps) by (apply shock_compresses; hyp).
    destruct (Rlt_dec xi (right_shock_speed R RS c u a (1 / P) Ps)); (split; [| split; [| split]]);
      try (intros; exfalso; lra); try exact LX; try exact CP; try reflexivity.
    intros _. split; [reflexivity|]. split; [reflexivity|]. exact RH.
  Qed.

  Lemma sample_on_left_shock xi : P < Ps ->
    let S := left_shock_speed R RS c u a (1 / P) Ps in
    let '(r, v, p) := sample_left_shock_wave R RS c rho u P a (1 / P) (u - fK) Ps xi in
    (S < xi -> p = Ps /\ v = u - fK /\ RH_mass rho u r v S /\ RH_momentum rho u P r v p S /\ RH_energy g rho u P r v p S) /\
    (xi <= S -> (r, v, p) = (rho, u, P)) /\ S < u - a /\ rho < left_shock_density R RS c rho (1 / P) Ps.
  Proof.
    intros HPs. cbv zeta. unfold sample_left_shock_wave. cbn [sltb RS ROps]. unfold Rltb.
    assert (RH : let us := u - fK in let S := left_shock_speed R RS c u a (1 / P) Ps in
                 let rs := left_shock_density R RS c rho (1 / P) Ps in
                 RH_mass rho u rs us S /\ RH_momentum rho u P rs us Ps S /\ RH_energy g rho u P rs us Ps S)
      by (apply left_shock_RH; hyp).
    cbv zeta in RH.
    assert (LX : left_shock_speed R RS c u a (1 / P) Ps < u - a) by (apply left_shock_lax; hyp).
    assert (CP : rho < left_shock_density R RS c rho (1 / P) Ps) by (apply shock_compresses; hyp).
    destruct (Rlt_dec (left_shock_speed R RS c u a (1 / P) Ps) xi); (split; [| split; [| split]]);
      try (intros; exfalso; lra); try exact LX; try exact CP; try reflexivity.
    intros _. split; [reflexivity|]. split; [reflexivity|]. exact RH.
  Qed.

  (* (b) rarefactions: at every sampling speed the sampled state has the entropy of the outer state and carries its
     Riemann invariant, with a sound speed al > 0, al^2 = g p / r; inside the fan x/t = v +/- al *)
  Lemma sample_on_right_rarefaction xi : 0 < Ps -> Ps <= P ->
    let us := u + fK in
    let tail := right_tail_speed R RS c a (1 / P) us Ps in
    let '(r, v, p) := sample_right_rarefaction_wave R RS c clamp rho u P a (1 / P) us Ps xi in
    tail <= u + a /\ 0 < r /\ p / Rpower r g = P / Rpower rho g /\
    exists al, 0 < al /\ al * al = g * p / r /\ v - 2 / (g - 1) * al = u - 2 / (g - 1) * a /\
               (tail <= xi < u + a -> v + al = xi) /\ (xi < tail -> v = us /\ p = Ps) /\ (u + a <= xi -> (r, v, p) = (rho, u, P)).
  Proof.
    intros H0 H1. cbv zeta.
    assert (Pa := a_pos). assert (Sa := a_sq).
    set (x := Rpower (Ps * (1 / P)) (1 / 2 * (g - 1) / g)).
    assert (Px : 0 < x) by apply Rpower_pos.
    assert (TS : right_tail_speed R RS c a (1 / P) (u + fK) Ps = u + fK + a * x) by (apply rr_tail_speed).
    rewrite TS.
    assert (Cs : sample_right_rarefaction_wave R RS c clamp rho u P a (1 / P) (u + fK) Ps xi =
                 if Rlt_dec xi (u + fK + a * x) then (rho * Rpower (Ps * (1 / P)) (1 / g), u + fK, Ps)
                 else if Rlt_dec xi (u + a) then right_fan R RS c clamp rho u P a xi else (rho, u, P))
      by (apply sample_rr_cases; hyp).
    rewrite Cs. clear Cs.
    assert (Hord : u + fK + a * x <= u + a) by (apply rr_tail_before_head; hyp).
    destruct (Rlt_dec xi (u + fK + a * x)).
    - (* star region *)
      split; [exact Hord|]. split; [apply Rmult_lt_0_compat; [lra | apply Rpower_pos]|].
      split; [apply rr_star_isentropic; hyp|].
      exists (a * x). split; [apply Rmult_lt_0_compat; lra|].
      split; [apply rr_star_soundspeed; hyp|].
      split; [apply rr_star_invariant; hyp|].
      split; [intros; lra|]. split; [intros; split; reflexivity | intros; exfalso; lra].
    - destruct (Rlt_dec xi (u + a)).
      + (* fan *)
        assert (n' := Rnot_lt_le _ _ n).
        assert (Hb : x <= rfan_base g u a xi <= 1) by (apply (rr_base_in_fan g rho u P a Ps); first [exact n' | hyp]).
        assert (Hb' : 0 < rfan_base g u a xi) by lra.
        change c with (rconsts g).
        set (FS := right_fan R RS (rconsts g) clamp rho u P a xi).
        assert (I : snd FS / Rpower (fst (fst FS)) g = P / Rpower rho g) by (apply rr_fan_isentropic; first [exact Hb' | hyp]).
        assert (S2 : a * rfan_base g u a xi * (a * rfan_base g u a xi) = g * snd FS / fst (fst FS)) by (apply rr_fan_soundspeed; first [exact Hb' | hyp]).
        assert (I2 : snd (fst FS) - 2 / (g - 1) * (a * rfan_base g u a xi) = u - 2 / (g - 1) * a) by (apply rr_fan_invariant; first [exact Hb' | hyp]).
        assert (Ch : snd (fst FS) + a * rfan_base g u a xi = xi) by (apply rr_fan_characteristic; first [exact Hb' | hyp]).
        unfold FS in *. clear FS. rewrite (right_fan_eq clamp g rho u P a xi Hb') in *. cbn [fst snd] in I, S2, I2, Ch.
        split; [exact Hord|]. split; [apply Rmult_lt_0_compat; [lra | apply Rpower_pos]|].
        split; [exact I|].
        exists (a * rfan_base g u a xi). split; [apply Rmult_lt_0_compat; lra|].
        split; [exact S2|]. split; [exact I2|].
        split; [intros; exact Ch|]. split; intros; exfalso; lra.
      + (* undisturbed state *)
        split; [exact Hord|]. split; [exact Hrho|]. split; [reflexivity|].
        exists a. split; [exact Pa|]. split; [rewrite Sa; reflexivity|]. split; [reflexivity|].
        split; [intros; exfalso; lra|]. split; [intros; exfalso; lra | intros; reflexivity].
  Qed.

  Lemma sample_on_left_rarefaction xi : 0 < Ps -> Ps <= P ->
    let us := u - fK in
    let tail := left_tail_speed R RS c a (1 / P) us Ps in
    let '(r, v, p) := sample_left_rarefaction_wave R RS c clamp rho u P a (1 / P) us Ps xi in
    u - a <= tail /\ 0 < r /\ p / Rpower r g = P / Rpower rho g /\
    exists al, 0 < al /\ al * al = g * p / r /\ v + 2 / (g - 1) * al = u + 2 / (g - 1) * a /\
               (u - a < xi < tail -> v - al = xi) /\ (u - a < xi -> tail <= xi -> v = us /\ p = Ps) /\ (xi <= u - a -> (r, v, p) = (rho, u, P)).
  Proof.
    intros H0 H1. cbv zeta.
    assert (Pa := a_pos). assert (Sa := a_sq).
    set (x := Rpower (Ps * (1 / P)) (1 / 2 * (g - 1) / g)).
    assert (Px : 0 < x) by apply Rpower_pos.
    assert (TS : left_tail_speed R RS c a (1 / P) (u - fK) Ps = u - fK - a * x) by (apply lr_tail_speed).
    rewrite TS.
    assert (Cs : sample_left_rarefaction_wave R RS c clamp rho u P a (1 / P) (u - fK) Ps xi =
                 if Rlt_dec (u - a) xi then
                   if Rlt_dec xi (u - fK - a * x) then left_fan R RS c clamp rho u P a xi else (rho * Rpower (Ps * (1 / P)) (1 / g), u - fK, Ps)
                 else (rho, u, P))
      by (apply sample_lr_cases; hyp).
    rewrite Cs. clear Cs.
    assert (Hord : u - a <= u - fK - a * x) by (apply lr_tail_after_head; hyp).
    destruct (Rlt_dec (u - a) xi).
    - destruct (Rlt_dec xi (u - fK - a * x)).
      + (* fan *)
        assert (r0' := Rlt_le _ _ r0).
        assert (Hb : x <= lfan_base g u a xi <= 1) by (apply (lr_base_in_fan g rho u P a Ps); first [exact r0' | hyp]).
        assert (Hb' : 0 < lfan_base g u a xi) by lra.
        change c with (rconsts g).
        set (FS := left_fan R RS (rconsts g) clamp rho u P a xi).
        assert (I : snd FS / Rpower (fst (fst FS)) g = P / Rpower rho g) by (apply lr_fan_isentropic; first [exact Hb' | hyp]).
        assert (S2 : a * lfan_base g u a xi * (a * lfan_base g u a xi) = g * snd FS / fst (fst FS)) by (apply lr_fan_soundspeed; first [exact Hb' | hyp]).
        assert (I2 : snd (fst FS) + 2 / (g - 1) * (a * lfan_base g u a xi) = u + 2 / (g - 1) * a) by (apply lr_fan_invariant; first [exact Hb' | hyp]).
        assert (Ch : snd (fst FS) - a * lfan_base g u a xi = xi) by (apply lr_fan_characteristic; first [exact Hb' | hyp]).
        unfold FS in *. clear FS. rewrite (left_fan_eq clamp g rho u P a xi Hb') in *. cbn [fst snd] in I, S2, I2, Ch.
        split; [exact Hord|]. split; [apply Rmult_lt_0_compat; [lra | apply Rpower_pos]|].
        split; [exact I|].
        exists (a * lfan_base g u a xi). split; [apply Rmult_lt_0_compat; lra|].
        split; [exact S2|]. split; [exact I2|].
        split; [intros; exact Ch|]. split; intros; exfalso; lra.
      + (* star region *)
        split; [exact Hord|]. split; [apply Rmult_lt_0_compat; [lra | apply Rpower_pos]|].
        split; [apply lr_star_isentropic; hyp|].
        exists (a * x). split; [apply Rmult_lt_0_compat; lra|].
        split; [apply lr_star_soundspeed; hyp|].
        split; [apply lr_star_invariant; hyp|].
        split; [intros; lra|]. split; [intros; split; reflexivity | intros; exfalso; lra].
    - (* undisturbed state *)
      split; [exact Hord|]. split; [exact Hrho|]. split; [reflexivity|].
      exists a. split; [exact Pa|]. split; [rewrite Sa; reflexivity|]. split; [reflexivity|].
      split; [intros; exfalso; lra|]. split; [intros; exfalso; lra | intros; reflexivity].
  Qed.

  (* continuity in the sampling speed: the expressions used on either side of the fan head and of the fan tail coincide there *)
  Lemma right_rarefaction_continuous : 0 < Ps -> Ps <= P ->
    let us := u + fK in
    let tail := right_tail_speed R RS c a (1 / P) us Ps in
    right_fan R RS c clamp rho u P a (u + a) = (rho, u, P) /\
    right_fan R RS c clamp rho u P a tail = (rho * Rpower (Ps * (1 / P)) (ginv R c), us, Ps).
  Proof.
    intros H0 H1. cbv zeta. assert (Pa := a_pos).
    split; [apply rr_fan_head; hyp|].
    assert (TS : right_tail_speed R RS c a (1 / P) (u + fK) Ps = u + fK + a * Rpower (Ps * (1 / P)) (1 / 2 * (g - 1) / g)) by (apply rr_tail_speed).
    rewrite TS. apply (rr_fan_tail clamp g rho u P a Ps); hyp.
  Qed.

  Lemma left_rarefaction_continuous : 0 < Ps -> Ps <= P ->
    let us := u - fK in
    let tail := left_tail_speed R RS c a (1 / P) us Ps in
    left_fan R RS c clamp rho u P a (u - a) = (rho, u, P) /\
    left_fan R RS c clamp rho u P a tail = (rho * Rpower (Ps * (1 / P)) (ginv R c), us, Ps).
  Proof.
    intros H0 H1. cbv zeta. assert (Pa := a_pos).
    split; [apply lr_fan_head; hyp|].
    assert (TS : left_tail_speed R RS c a (1 / P) (u - fK) Ps = u - fK - a * Rpower (Ps * (1 / P)) (1 / 2 * (g - 1) / g)) by (apply lr_tail_speed).
    rewrite TS. apply (lr_fan_tail clamp g rho u P a Ps); hyp.
  Qed.

  (* (c) vacuum: the samplers next to vacuum are the same fan expressions; they start at the undisturbed state and
     end, at the front, with a vanishing base of the density/pressure powers and the gas moving with the front *)
  Lemma vacuum_joins_fan :
    (forall xi, sample_right_vacuum R RS c clamp rho u P a xi =
       if Rlt_dec (u - a) xi then
         if Rlt_dec xi (u + 2 / (g - 1) * a) then with_flag R (-1) (left_fan R RS c clamp rho u P a xi) else (0%Z, 0, 0, 0)
       else ((-1)%Z, rho, u, P)) /\
    (forall xi, sample_left_vacuum R RS c clamp rho u P a xi =
       if Rlt_dec xi (u + a) then
         if Rlt_dec (u - 2 / (g - 1) * a) xi then with_flag R 1 (right_fan R RS c clamp rho u P a xi) else (0%Z, 0, 0, 0)
       else (1%Z, rho, u, P)) /\
    left_fan R RS c clamp rho u P a (u - a) = (rho, u, P) /\ right_fan R RS c clamp rho u P a (u + a) = (rho, u, P) /\
    (forall xi, 0 < lfan_base g u a xi -> left_fan R RS c clamp rho u P a xi =
       (rho * Rpower (lfan_base g u a xi) (2 / (g - 1)), 2 / (g + 1) * (a + 1 / 2 * (g - 1) * u + xi), P * Rpower (lfan_base g u a xi) (2 * g / (g - 1)))) /\
    (forall xi, 0 < rfan_base g u a xi -> right_fan R RS c clamp rho u P a xi =
       (rho * Rpower (rfan_base g u a xi) (2 / (g - 1)), 2 / (g + 1) * (- a + 1 / 2 * (g - 1) * u + xi), P * Rpower (rfan_base g u a xi) (2 * g / (g - 1)))) /\
    lfan_base g u a (u + 2 / (g - 1) * a) = 0 /\ rfan_base g u a (u - 2 / (g - 1) * a) = 0 /\
    (forall xi, xi < u + 2 / (g - 1) * a -> 0 < lfan_base g u a xi) /\ (forall xi, u - 2 / (g - 1) * a < xi -> 0 < rfan_base g u a xi) /\
    snd (fst (left_fan R RS c clamp rho u P a (u + 2 / (g - 1) * a))) = u + 2 / (g - 1) * a /\
    snd (fst (right_fan R RS c clamp rho u P a (u - 2 / (g - 1) * a))) = u - 2 / (g - 1) * a.
  Proof.
    assert (Pa := a_pos).
    split; [intros; apply right_vacuum_cases|]. split; [intros; apply left_vacuum_cases|].
    split; [apply lr_fan_head; hyp|]. split; [apply rr_fan_head; hyp|].
    split; [intros; apply left_fan_eq; assumption|]. split; [intros; apply right_fan_eq; assumption|].
    split; [apply left_fan_front_base; hyp|]. split; [apply right_fan_front_base; hyp|].
    split; [intros; apply left_fan_base_pos; hyp|]. split; [intros; apply right_fan_base_pos; hyp|].
    split; [apply left_fan_front_velocity; hyp | apply right_fan_front_velocity; hyp].
  Qed.
End Wrappers.

(* ---------------- solve(): which sampler answers, for non-vacuum input ---------------- *)
Section Solve.
  Variable clamp : bool.
  Variables g rhoL uL PL rhoR uR PR : R.
  Hypothesis Hg : 1 < g.
  Hypothesis HrhoL : 0 < rhoL. Hypothesis HPL : 0 < PL.
  Hypothesis HrhoR : 0 < rhoR. Hypothesis HPR : 0 < PR.
  Let c := rconsts g.
  Let aL := soundspeed R RS c (1 / rhoL) PL.
  Let aR := soundspeed R RS c (1 / rhoR) PR.

  Lemma solve_nonvacuum nf bf xi :
    uR - uL < 2 / (g - 1) * aL + 2 / (g - 1) * aR ->
    let st := star_state R RS c nf bf rhoL uL PL rhoR uR PR in
    solve R RS c clamp nf bf rhoL uL PL rhoR uR PR xi = (sample_star R RS c clamp st rhoL uL PL rhoR uR PR xi, Some st).
  Proof.
    intros Hv. cbv zeta. unfold solve, solve_novac, is_vacuum.
    cbn [seqb sisinf s0 RS ROps orb].
    assert (E1 : Reqb rhoL 0 = false) by (apply Reqb_false; lra).
    assert (E2 : Reqb PL 0 = false) by (apply Reqb_false; lra).
    assert (E3 : Reqb rhoR 0 = false) by (apply Reqb_false; lra).
    assert (E4 : Reqb PR 0 = false) by (apply Reqb_false; lra).
    rewrite E1, E2, E3, E4. cbn [orb].
    change (soundspeed R RS c (sdiv RS (s1 RS) rhoL) PL) with aL.
    change (soundspeed R RS c (sdiv RS (s1 RS) rhoR) PR) with aR.
    cbn [sleb sadd smul ssub RS ROps tdgm1 cb c rconsts].
    assert (E5 : Rleb (2 / (g - 1) * aL + 2 / (g - 1) * aR) (uR - uL) = false) by (apply Rleb_false; lra).
    rewrite E5. reflexivity.
  Qed.

  Lemma solve_vacuum_generation nf bf xi :
    2 / (g - 1) * aL + 2 / (g - 1) * aR <= uR - uL ->
    solve R RS c clamp nf bf rhoL uL PL rhoR uR PR xi =
    (sample_vacuum_generation R RS c clamp rhoL uL PL aL rhoR uR PR aR xi, None).
  Proof.
    intros Hv. unfold solve, solve_novac, is_vacuum.
    cbn [seqb sisinf s0 RS ROps orb].
    assert (E1 : Reqb rhoL 0 = false) by (apply Reqb_false; lra).
    assert (E2 : Reqb PL 0 = false) by (apply Reqb_false; lra).
    assert (E3 : Reqb rhoR 0 = false) by (apply Reqb_false; lra).
    assert (E4 : Reqb PR 0 = false) by (apply Reqb_false; lra).
    rewrite E1, E2, E3, E4. cbn [orb].
    change (soundspeed R RS c (sdiv RS (s1 RS) rhoL) PL) with aL.
    change (soundspeed R RS c (sdiv RS (s1 RS) rhoR) PR) with aR.
    cbn [sleb sadd smul ssub RS ROps tdgm1 cb c rconsts].
    assert (E5 : Rleb (2 / (g - 1) * aL + 2 / (g - 1) * aR) (uR - uL) = true) by (apply Rleb_true; lra).
    rewrite E5. unfold solve_vacuum. cbn [andb]. reflexivity.
  Qed.

  Lemma sample_star_dispatch st xi :
    (st_code R st = 2%Z \/ st_code R st = 3%Z) ->
    sample_star R RS c clamp st rhoL uL PL rhoR uR PR xi =
    if Rlt_dec (st_u R st) xi then
      with_flag R 1 (if Rlt_dec PR (st_P R st)
                   then sample_right_shock_wave R RS c rhoR uR PR aR (1 / PR) (st_u R st) (st_P R st) xi
                   else sample_right_rarefaction_wave R RS c clamp rhoR uR PR aR (1 / PR) (st_u R st) (st_P R st) xi)
    else
      with_flag R (-1) (if Rlt_dec PL (st_P R st)
                      then sample_left_shock_wave R RS c rhoL uL PL aL (1 / PL) (st_u R st) (st_P R st) xi
                      else sample_left_rarefaction_wave R RS c clamp rhoL uL PL aL (1 / PL) (st_u R st) (st_P R st) xi).
  Proof.
    intros Hc. unfold sample_star, sample_right_state, sample_left_state, with_flag.
    assert (E1 : (st_code R st =? 4)%Z = false) by (destruct Hc as [H | H]; rewrite H; reflexivity).
    assert (E2 : (st_code R st =? 98)%Z = false) by (destruct Hc as [H | H]; rewrite H; reflexivity).
    assert (E3 : (st_code R st =? 99)%Z = false) by (destruct Hc as [H | H]; rewrite H; reflexivity).
    rewrite E1, E2, E3. cbn [orb sltb sdiv s1 RS ROps]. unfold Rltb. fold aL aR.
    destruct (Rlt_dec (st_u R st) xi); [destruct (Rlt_dec PR (st_P R st)) | destruct (Rlt_dec PL (st_P R st))]; reflexivity.
  Qed.
End Solve.

(* Brent with non-negative bracket ends (pressures): a root of a continuous f lies within tol (a + b) of the returned b *)
Lemma solve_brent_root_close pw (f : R -> R) fuel Plow Phigh bs n :
  continuity f -> 0 <= Plow -> 0 <= Phigh ->
  solve_brent R (RSpw pw) f fuel Plow Phigh (f Plow) (f Phigh) = Some (bs, n, false) ->
  exists z, f z = 0 /\ Rmin Plow Phigh <= z <= Rmax Plow Phigh /\ Rmin Plow Phigh <= bb R bs <= Rmax Plow Phigh /\
            Rabs (z - bb R bs) <= tol R (RSpw pw) * (ba R bs + bb R bs).
Proof.
  intros Hc H1 H2 Q. assert (Q' := Q). apply solve_brent_spec in Q'. destruct Q' as [(Ha & Hb & Efa & Efb & Hs & Habs) X].
  destruct (solve_brent_accuracy pw f fuel Plow Phigh bs n Hc Q) as [z [(E & Hz & D) | E]].
  - exists z. repeat split; try assumption; try apply Hz; try apply Hb.
  - exists (bb R bs). split; [exact E|]. split; [exact Hb|]. split; [exact Hb|].
    replace (bb R bs - bb R bs) with 0 by ring. rewrite Rabs_R0.
    assert (0 <= Rmin Plow Phigh) by (apply Rmin_glb; assumption).
    assert (T := tol_pos_pw pw). apply Rmult_le_pos; lra.
Qed.

(* ---------------- the pressure function with the C value of pow at 0 ---------------- *)
Section CPow.
  Variables g rhoL uL PL rhoR uR PR : R.
  Hypothesis Hg : 1 < g.
  Hypothesis HPL : 0 < PL. Hypothesis HPR : 0 < PR.
  Let c := rconsts g.
  Let aL := soundspeed R RS c (1 / rhoL) PL.
  Let aR := soundspeed R RS c (1 / rhoR) PR.

  (* at P = 0 it is the (negated) vacuum-generation margin: the first Brent bracket [0, guess] has f(0) < 0 exactly
     when solve() did not take the vacuum-generation branch *)
  Lemma pressure_function_cpow_at_0 :
    pressure_function_pw cpow g rhoL uL PL rhoR uR PR 0 = (uR - uL) - (2 / (g - 1) * aL + 2 / (g - 1) * aR).
  Proof.
    unfold pressure_function_pw, fb. ropsx.
    assert (E1 : Rltb PL 0 = false) by (apply Rltb_false; lra).
    assert (E2 : Rltb PR 0 = false) by (apply Rltb_false; lra).
    rewrite E1, E2. rewrite !Rmult_0_l.
    assert (He : 0 < 1 / 2 * (g - 1) / g) by (apply Rdiv_lt_0_compat; lra).
    rewrite !cpow_0 by exact He.
    change (soundspeed R (RSpw cpow) (rconsts g) (1 / rhoL) PL) with aL.
    change (soundspeed R (RSpw cpow) (rconsts g) (1 / rhoR) PR) with aR.
    ring.
  Qed.

  (* for positive pressures it is the function the wave and monotonicity theorems are about *)
  Lemma pressure_function_cpow_pos p : 0 < p ->
    pressure_function_pw cpow g rhoL uL PL rhoR uR PR p = pressure_function g rhoL uL PL rhoR uR PR p.
  Proof.
    intros Hp. unfold pressure_function, pressure_function_pw, fb. ropsx.
    assert (Q1 : 0 < p * (1 / PL)) by (apply Rmult_lt_0_compat; [lra | apply Rdiv_lt_0_compat; lra]).
    assert (Q2 : 0 < p * (1 / PR)) by (apply Rmult_lt_0_compat; [lra | apply Rdiv_lt_0_compat; lra]).
    rewrite !cpow_pos by assumption. reflexivity.
  Qed.
End CPow.
