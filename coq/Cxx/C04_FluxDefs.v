(* C04 / C10 shared model, the numerical part, written once over the scalar record of Common/Scalar.v:
     Hydro::limit, Hydro::do_flux_calculation, Hydro::do_ghost_flux_calculation (src/Hydro.hpp) with the Riemann
     solver as a section parameter [riemann] (theorems hold for ANY function; the binary64 instance is instantiated
     with C05's model of HLLCRiemannSolver::solve_for_flux), the three boundary kinds of src/HydroBoundary.hpp,
     HydroDensitySubGrid::update_conserved_variables (per cell) and Hydro::set_primitive_variables.
   Literal transcription: the order of the floating-point operations is the order of the C++ expressions
   (left-associative); FLUX_LIMITER = 2., SAFE_HYDRO_VARIABLES defined (as in the pinned Hydro.hpp).
   Then the flux phase of a step as a fold of per-face updates over a face list (C04_Defs.face) on a map of cells.
   Hand model; tie = bit-exact correspondence with the real Hydro / HydroDensitySubGrid (harness/c04/cellops_harness.cpp). *)
From Coq Require Import Bool ZArith List.
From CMI Require Import Common.Scalar Cxx.C05_Defs Cxx.C04_Defs.
Import ListNotations.

Section Flux.
  Variable F : Type.
  Variable S : SOps F.
  Local Notation "a + b" := (sadd S a b).
  Local Notation "a - b" := (ssub S a b).
  Local Notation "a * b" := (smul S a b).
  Local Notation "a / b" := (sdiv S a b).
  Local Notation "- a" := (sneg S a).
  Local Notation "a <? b" := (sltb S a b).
  Local Notation "a =? b" := (seqb S a b).
  Local Notation "0" := (s0 S).
  Local Notation "1" := (s1 S).
  Local Notation "2" := (s2 S).
  Local Notation half := (shalf S).
  Local Notation quarter := (squarter S).
  Local Notation eps := (sdblmin S).
  Local Notation mtwo := (sneg S (s2 S)).     (* -FLUX_LIMITER *)
  Local Notation vec := (vec F).
  Local Notation vx := (vx F).
  Local Notation vy := (vy F).
  Local Notation vz := (vz F).
  Local Notation mkv := (mkv F).
  Local Notation vzero := (vzero F S).
  Local Notation vdot := (vdot F S).
  Local Notation vnorm2 := (vnorm2 F S).
  Local Notation vscale := (vscale F S).

  Variable dblmax : F.    (* DBL_MAX *)

  Definition vget (i : Z) (v : vec) : F := if (i =? 0)%Z then vx v else if (i =? 1)%Z then vy v else vz v.
  Definition vset (i : Z) (v : vec) (x : F) : vec :=
    if (i =? 0)%Z then mkv x (vy v) (vz v) else if (i =? 1)%Z then mkv (vx v) x (vz v) else mkv (vx v) (vy v) x.

  (* double[5] *)
  Record v5 := mk5 { c0 : F; c1 : F; c2 : F; c3 : F; c4 : F }.
  Definition get5 (j : Z) (w : v5) : F :=
    if (j =? 0)%Z then c0 w else if (j =? 1)%Z then c1 w else if (j =? 2)%Z then c2 w else if (j =? 3)%Z then c3 w else c4 w.
  Definition set5 (j : Z) (w : v5) (x : F) : v5 :=
    if (j =? 0)%Z then mk5 x (c1 w) (c2 w) (c3 w) (c4 w) else if (j =? 1)%Z then mk5 (c0 w) x (c2 w) (c3 w) (c4 w)
    else if (j =? 2)%Z then mk5 (c0 w) (c1 w) x (c3 w) (c4 w) else if (j =? 3)%Z then mk5 (c0 w) (c1 w) (c2 w) x (c4 w)
    else mk5 (c0 w) (c1 w) (c2 w) (c3 w) x.
  Definition zero5 : v5 := mk5 0 0 0 0 0.
  Definition add5 (a b : v5) : v5 := mk5 (c0 a + c0 b) (c1 a + c1 b) (c2 a + c2 b) (c3 a + c3 b) (c4 a + c4 b).
  Definition sub5 (a b : v5) : v5 := mk5 (c0 a - c0 b) (c1 a - c1 b) (c2 a - c2 b) (c3 a - c3 b) (c4 a - c4 b).

  (* CoordinateVector<> [5] *)
  Record g5 := mkg5 { gr0 : vec; gr1 : vec; gr2 : vec; gr3 : vec; gr4 : vec }.
  Definition gget (j : Z) (g : g5) : vec :=
    if (j =? 0)%Z then gr0 g else if (j =? 1)%Z then gr1 g else if (j =? 2)%Z then gr2 g else if (j =? 3)%Z then gr3 g else gr4 g.
  Definition gset (j : Z) (g : g5) (x : vec) : g5 :=
    if (j =? 0)%Z then mkg5 x (gr1 g) (gr2 g) (gr3 g) (gr4 g) else if (j =? 1)%Z then mkg5 (gr0 g) x (gr2 g) (gr3 g) (gr4 g)
    else if (j =? 2)%Z then mkg5 (gr0 g) (gr1 g) x (gr3 g) (gr4 g) else if (j =? 3)%Z then mkg5 (gr0 g) (gr1 g) (gr2 g) x (gr4 g)
    else mkg5 (gr0 g) (gr1 g) (gr2 g) (gr3 g) x.
  Definition gmap (h : vec -> vec) (g : g5) : g5 := mkg5 (h (gr0 g)) (h (gr1 g)) (h (gr2 g)) (h (gr3 g)) (h (gr4 g)).
  Definition zerog5 : g5 := mkg5 vzero vzero vzero vzero vzero.

  (* the slope-limiter bounds of one cell: (min, max) per primitive variable (_primitive_variable_limiters[10 i ..]) *)
  Record l5 := mkl5 { lm0 : F * F; lm1 : F * F; lm2 : F * F; lm3 : F * F; lm4 : F * F }.
  Definition lims_reset : l5 := let r := (dblmax, - dblmax) in mkl5 r r r r r.

  (* HydroVariables (+ the limiter slots of the cell) *)
  Record cell := mkCell {
    prim : v5;      (* density, velocity, pressure *)
    cons : v5;      (* mass, momentum, total energy *)
    dcons : v5;     (* delta_conserved *)
    grad : g5;      (* primitive_gradients *)
    grav : vec;     (* gravitational acceleration *)
    eterm : F;      (* energy term *)
    lims : l5 }.

  (* ---- Hydro::limit ---- *)
  Definition limit (phimid0 phiL phiR dnrm_over_r : F) : F :=
    let delta1 := half * sabs S (phiL - phiR) in
    let delta2 := quarter * sabs S (phiL - phiR) in
    let phimin := smin S phiL phiR in
    let phimax := smax S phiL phiR in
    let phibar := phiL + dnrm_over_r * (phiR - phiL) in
    let phiplus := if 0 <? (phimax + delta1) * phimax then phimax + delta1
                   else let a := sabs S phimax in phimax * a / (a + delta1 + eps) in
    let phiminus := if 0 <? (phimin - delta1) * phimin then phimin - delta1
                    else let a := sabs S phimin in phimin * a / (a + delta1 + eps) in
    if phiL =? phiR then phiL
    else if phiL <? phiR then smax S phiminus (smin S (phibar + delta2) phimid0)
    else smin S phiplus (smax S (phibar - delta2) phimid0).

  (* ---- face states: reconstruction to the face, per-face limiter, positivity clamp (identical text in
          do_flux_calculation and do_ghost_flux_calculation) ---- *)
  Definition face_states (i : Z) (pL : v5) (gL : g5) (pR : v5) (gR : g5) (dx : F) : F * vec * F * F * vec * F :=
    let halfdx := half * dx in
    let rhoL := c0 pL + halfdx * vget i (gr0 gL) in
    let vL := mkv (c1 pL + halfdx * vget i (gr1 gL)) (c2 pL + halfdx * vget i (gr2 gL)) (c3 pL + halfdx * vget i (gr3 gL)) in
    let PL := c4 pL + halfdx * vget i (gr4 gL) in
    let rhoR := c0 pR - halfdx * vget i (gr0 gR) in
    let vR := mkv (c1 pR - halfdx * vget i (gr1 gR)) (c2 pR - halfdx * vget i (gr2 gR)) (c3 pR - halfdx * vget i (gr3 gR)) in
    let PR := c4 pR - halfdx * vget i (gr4 gR) in
    let rhoL := limit rhoL (c0 pL) (c0 pR) half in
    let vL := mkv (limit (vx vL) (c1 pL) (c1 pR) half) (limit (vy vL) (c2 pL) (c2 pR) half) (limit (vz vL) (c3 pL) (c3 pR) half) in
    let PL := limit PL (c4 pL) (c4 pR) half in
    let rhoR := limit rhoR (c0 pR) (c0 pL) half in
    let vR := mkv (limit (vx vR) (c1 pR) (c1 pL) half) (limit (vy vR) (c2 pR) (c2 pL) half) (limit (vz vR) (c3 pR) (c3 pL) half) in
    let PR := limit PR (c4 pR) (c4 pL) half in
    (smax S rhoL 0, vL, smax S PL 0, smax S rhoR 0, vR, smax S PR 0).

  Variable riemann : F -> vec -> F -> F -> vec -> F -> vec -> flux F.   (* rhoL uL PL rhoR uR PR normal -> (m, p, E) *)

  Definition four : F := 2 * 2.       (* FLUX_LIMITER * FLUX_LIMITER *)
  Definition mom (w : v5) : vec := mkv (c1 w) (c2 w) (c3 w).

  (* ---- the common flux-limiter factor of do_flux_calculation; (m, p, e) already scaled by the area ---- *)
  Definition pair_fluxfac (gamma : F) (L R : cell) (m : F) (p : vec) (e : F) (dt : F) : F :=
    let ff := 1 in
    let absm := m * dt in
    let ff := if (2 * c0 (cons L)) <? absm then 2 * c0 (cons L) / absm else ff in
    let ff := if (2 * c0 (cons R)) <? (- absm) then smin S ff (mtwo * c0 (cons R) / absm) else ff in
    let ff := if 1 <? gamma then
                let absE := e * dt in
                let ff := if (2 * c4 (cons L)) <? absE then smin S ff (2 * c4 (cons L) / absE) else ff in
                if (2 * c4 (cons R)) <? (- absE) then smin S ff (mtwo * c4 (cons R) / absE) else ff
              else ff in
    let p2 := vnorm2 (mom (cons L)) in
    let m2 := c0 (cons L) * c0 (cons L) in
    let ff := if (gamma * m2 * c4 (prim L)) <? (p2 * c0 (prim L)) then
                let pflux2 := vnorm2 p * dt * dt in
                if (four * p2) <? pflux2 then smin S ff (ssqrt S (four * p2 / pflux2)) else ff
              else ff in
    let pn2 := vnorm2 (mom (cons R)) in
    let mn2 := c0 (cons R) * c0 (cons R) in
    (* Hydro.hpp:514 tests p2 (the LEFT cell's momentum) against the right cell's thermal momentum *)
    let ff := if (gamma * mn2 * c4 (prim R)) <? (p2 * c0 (prim R)) then
                let pflux2 := vnorm2 p * dt * dt in
                if (four * pn2) <? pflux2 then smin S ff (ssqrt S (four * pn2 / pflux2)) else ff
              else ff in
    ff.

  Definition scale_flux (fl : flux F) (s : F) : flux F :=
    let '(m, p, e) := fl in (m * s, mkv (vx p * s) (vy p * s) (vz p * s), e * s).
  Definition flux5 (fl : flux F) : v5 := let '(m, p, e) := fl in mk5 m (vx p) (vy p) (vz p) e.

  (* the limited flux through the face, the quantity subtracted from the left and added to the right cell
     (second component: the limiter factor, reported by the correspondence driver as a coverage tag) *)
  Definition pair_flux_ff (gamma : F) (i : Z) (L R : cell) (dx A dt : F) : v5 * F :=
    let '(rhoL, vL, PL, rhoR, vR, PR) := face_states i (prim L) (grad L) (prim R) (grad R) dx in
    let normal := vset i vzero 1 in
    let '(m, p, e) := scale_flux (riemann rhoL vL PL rhoR vR PR normal) A in
    let ff := pair_fluxfac gamma L R m p e dt in
    (flux5 (scale_flux (m, p, e) ff), ff).
  Definition pair_flux (gamma : F) (i : Z) (L R : cell) (dx A dt : F) : v5 := fst (pair_flux_ff gamma i L R dx A dt).

  (* ---- boundary conditions: HydroBoundary::get_right_state_flux_variables; kind 0 inflow, 1 outflow, 2 reflective ---- *)
  Definition ghost_state (kind i : Z) (orient : F) (pL : v5) (gL : g5) : v5 * g5 :=
    if (kind =? 0)%Z then (pL, gL)
    else if (kind =? 1)%Z then
      let v := get5 (1 + i)%Z pL in
      if (orient * v) <? 0 then (set5 (1 + i)%Z pL (- v), gset (1 + i)%Z gL vzero) else (pL, gL)
    else
      let pr := set5 (1 + i)%Z pL (- get5 (1 + i)%Z pL) in
      let g := gmap (fun v => vset i v (- vget i v)) gL in
      let w := gget (1 + i)%Z g in
      (pr, gset (1 + i)%Z g (vset i w (- vget i w))).

  Definition ghost_fluxfac (gamma : F) (L : cell) (m : F) (p : vec) (e : F) (dt : F) : F :=
    let ff := 1 in
    let absm := m * dt in
    let ff := if (2 * c0 (cons L)) <? absm then 2 * c0 (cons L) / absm else ff in
    let ff := if 1 <? gamma then
                let absE := e * dt in
                if (2 * c4 (cons L)) <? absE then smin S ff (2 * c4 (cons L) / absE) else ff
              else ff in
    let p2 := vnorm2 (mom (cons L)) in
    let m2 := c0 (cons L) * c0 (cons L) in
    if (gamma * m2 * c4 (prim L)) <? (p2 * c0 (prim L)) then
      let pflux2 := vnorm2 p * dt in          (* Hydro.hpp:679: one factor dt (the pair version has dt * dt) *)
      if (four * p2) <? pflux2 then smin S ff (ssqrt S (four * p2 / pflux2)) else ff
    else ff.

  (* orientation = 1 - 2 * signbit(dx); modelled as dx < 0 (differs only for dx = -0. or NaN, which no sweep passes) *)
  Definition orientation (dx : F) : F := if dx <? 0 then sneg S (s1 S) else 1.

  Definition ghost_input (kind i : Z) (L : cell) (dx : F) : F * vec * F * F * vec * F :=
    let '(pR, gR) := ghost_state kind i (orientation dx) (prim L) (grad L) in
    face_states i (prim L) (grad L) pR gR dx.

  Definition ghost_flux_ff (gamma : F) (kind i : Z) (L : cell) (dx A dt : F) : v5 * F :=
    let '(rhoL, vL, PL, rhoR, vR, PR) := ghost_input kind i L dx in
    let normal := vset i vzero (orientation dx) in
    let '(m, p, e) := scale_flux (riemann rhoL vL PL rhoR vR PR normal) A in
    let ff := ghost_fluxfac gamma L m p e dt in
    (flux5 (scale_flux (m, p, e) ff), ff).
  Definition ghost_flux (gamma : F) (kind i : Z) (L : cell) (dx A dt : F) : v5 := fst (ghost_flux_ff gamma kind i L dx A dt).

  (* delta_conserved -= f  /  += f *)
  Definition bump (c : cell) (plus : bool) (f : v5) : cell :=
    mkCell (prim c) (cons c) (if plus then add5 (dcons c) f else sub5 (dcons c) f) (grad c) (grav c) (eterm c) (lims c).

  (* ---- HydroDensitySubGrid::update_conserved_variables, one cell ---- *)
  Definition update_conserved (c : cell) (dt : F) : cell :=
    let a := grav c in
    let p := mom (cons c) in
    let mdt := c0 (cons c) * dt in
    let q1 := c1 (cons c) + mdt * vx a in
    let q2 := c2 (cons c) + mdt * vy a in
    let q3 := c3 (cons c) + mdt * vz a in
    let q4 := c4 (cons c) + dt * vdot p a in
    let q4 := q4 + eterm c in
    let q0 := c0 (cons c) + c0 (dcons c) * dt in
    let q1 := q1 + c1 (dcons c) * dt in
    let q2 := q2 + c2 (dcons c) * dt in
    let q3 := q3 + c3 (dcons c) * dt in
    let q4 := q4 + c4 (dcons c) * dt in
    mkCell (prim c) (mk5 (smax S q0 0) q1 q2 q3 (smax S q4 0)) zero5 zerog5 (grav c) 0 lims_reset.

  (* ---- Hydro::set_primitive_variables; maxv = _max_velocity, pcf = _pressure_conversion_factor,
          T, xH = temperature and neutral fraction of the cell (only used for gamma <= 1) ---- *)
  Definition set_primitive (gamma maxv pcf T xH : F) (c : cell) (invvol : F) : cell :=
    let mass := c0 (cons c) in
    let '(density, velocity, pressure) :=
      if 0 <? mass then
        let inverse_mass := 1 / mass in
        if negb (sisinf S inverse_mass) then
          let density := mass * invvol in
          let velocity := vscale inverse_mass (mom (cons c)) in
          let pressure :=
            if 1 <? gamma then (gamma - 1) * invvol * (c4 (cons c) - half * vdot velocity (mom (cons c)))
            else let mmm := half * (1 + xH) in pcf * density * T / mmm in
          let vnrm := ssqrt S (vnorm2 velocity) in
          let velocity := if maxv <? vnrm then vscale (maxv / vnrm) velocity else velocity in
          let pressure :=
            if 0 <? density then
              let inverse_density := 1 / density in
              if negb (sisinf S inverse_density) then
                let cs := ssqrt S (gamma * pressure * inverse_density) in
                if maxv <? cs then let factor := maxv / cs in pressure * (factor * factor) else pressure
              else pressure
            else pressure in
          (smax S density 0, velocity, smax S pressure 0)
        else (0, vzero, 0)
      else (0, vzero, 0) in
    mkCell (mk5 density (vx velocity) (vy velocity) (vz velocity) pressure) (cons c) (dcons c) (grad c) (grav c) (eterm c) (lims c).

  (* ---- the flux phase on a map of cells (global cell id -> cell) ---- *)
  Definition state := Z -> cell.
  Definition upd (st : state) (k : Z) (c : cell) : state := fun j => if (j =? k)%Z then c else st j.

  (* geometry: cell size and face area per axis *)
  Definition apply_face (gamma : F) (bkind : Z) (dxs As : vec) (dt : F) (st : state) (f : face) : state :=
    match f with
    | Interior a l r =>
        let fl := pair_flux gamma a (st l) (st r) (vget a dxs) (vget a As) dt in
        let st1 := upd st l (bump (st l) false fl) in
        upd st1 r (bump (st1 r) true fl)
    | Boundary a sgn c =>
        let dx := if (sgn <? 0)%Z then - vget a dxs else vget a dxs in
        let fl := ghost_flux gamma bkind a (st c) dx (vget a As) dt in
        upd st c (bump (st c) false fl)
    end.

  Definition flux_phase (gamma : F) (bkind : Z) (dxs As : vec) (dt : F) (fs : list face) (st : state) : state :=
    fold_left (apply_face gamma bkind dxs As dt) fs st.

  Definition update_phase (dt : F) (st : state) : state := fun j => update_conserved (st j) dt.

  (* sum of one component over a list of cells *)
  Definition total (proj : cell -> F) (cells : list Z) (st : state) : F :=
    fold_right (fun k acc => proj (st k) + acc) 0 cells.
End Flux.
