(* C18 proofs, part D: Utilities::locate and the inverse-CDF samplers. *)
From Coq Require Import Reals ZArith List Bool Lra Lia Psatz Arith.
From CMI Require Import Cxx.C18_Dec Cxx.C18_Gen Cxx.C18_Defs Cxx.C18_ProofsA.
Import ListNotations.

(* ---------------------------------------------------------------------------
   bisection on an arbitrary comparison: terminates within the fuel and keeps
   "(jl = 0 or gt jl) and (ju = n or not gt ju)" -- no monotonicity needed *)
Section Locate.
Variable gt : nat -> bool.

Lemma div2_mid : forall jl ju, (jl + 2 <= ju -> jl < Nat.div2 (ju + jl) < ju)%nat.
Proof. intros. rewrite Nat.div2_div. split; [apply Nat.div_le_lower_bound | apply Nat.div_lt_upper_bound]; lia. Qed.

Lemma locate_loop_spec : forall fuel jl ju n, (jl < ju)%nat -> (ju - jl < fuel)%nat -> (ju <= n)%nat ->
  (jl = 0%nat \/ gt jl = true) -> (ju = n \/ gt ju = false) ->
  exists j, locate_loop gt fuel jl ju = Some j /\ (jl <= j < ju)%nat /\
            (j = 0%nat \/ gt j = true) /\ (S j = n \/ gt (S j) = false).
Proof.
  induction fuel as [|f IH]; intros jl ju n Hlt Hf Hn Hl Hu; [lia|].
  cbn [locate_loop]. destruct (1 <? ju - jl)%nat eqn:E.
  - apply Nat.ltb_lt in E. pose proof (div2_mid jl ju ltac:(lia)) as Hm.
    set (jm := Nat.div2 (ju + jl)) in *.
    destruct (gt jm) eqn:G.
    + destruct (IH jm ju n ltac:(lia) ltac:(lia) Hn (or_intror G) Hu) as [j [Hj [Hr [H1 H2]]]].
      exists j. repeat split; try assumption; lia.
    + destruct (IH jl jm n ltac:(lia) ltac:(lia) ltac:(lia) Hl (or_intror G)) as [j [Hj [Hr [H1 H2]]]].
      exists j. repeat split; try assumption; lia.
  - apply Nat.ltb_ge in E. assert (ju = S jl) by lia. subst ju.
    exists jl. repeat split; try assumption; lia.
Qed.

(* "always returns a value in the range [0, length-2]", for ANY array and ANY x *)
Lemma locate_total : forall n, (2 <= n)%nat -> exists j, locate gt n = Some j /\ (S j < n)%nat.
Proof.
  intros n Hn. unfold locate.
  destruct (locate_loop_spec (S n) 0 n n ltac:(lia) ltac:(lia) ltac:(lia) (or_introl eq_refl) (or_introl eq_refl))
    as [j [Hj [Hr _]]].
  rewrite Hj. destruct (j =? n - 1)%nat eqn:E.
  - apply Nat.eqb_eq in E. exists (j - 1)%nat. split; [reflexivity | lia].
  - apply Nat.eqb_neq in E. exists j. split; [reflexivity | lia].
Qed.

(* the returned index brackets x when x is not above the last element *)
Lemma locate_spec : forall n, (2 <= n)%nat -> gt (n - 1) = false ->
  exists j, locate gt n = Some j /\ (S j < n)%nat /\ (j = 0%nat \/ gt j = true) /\ gt (S j) = false.
Proof.
  intros n Hn Hlast. unfold locate.
  destruct (locate_loop_spec (S n) 0 n n ltac:(lia) ltac:(lia) ltac:(lia) (or_introl eq_refl) (or_introl eq_refl))
    as [j [Hj [Hr [H1 H2]]]].
  rewrite Hj. destruct (j =? n - 1)%nat eqn:E.
  - apply Nat.eqb_eq in E. subst j. destruct H1 as [H1 | H1]; [lia | congruence].
  - apply Nat.eqb_neq in E. exists j. repeat split; try assumption; try lia.
    destruct H2 as [H2 | H2]; [lia | assumption].
Qed.

(* with a monotone comparison (sorted array) the bracketing index is unique *)
Lemma bracket_unique : (forall a b, (a <= b)%nat -> gt b = true -> gt a = true) ->
  forall j j', gt j = true -> gt (S j) = false -> gt j' = true -> gt (S j') = false -> j = j'.
Proof.
  intros Hm j j' A B A' B'.
  destruct (Nat.lt_trichotomy j j') as [H | [H | H]]; [|assumption|].
  - assert (gt (S j) = true) by (apply (Hm (S j) j'); [lia | assumption]). congruence.
  - assert (gt (S j') = true) by (apply (Hm (S j') j); [lia | assumption]). congruence.
Qed.
End Locate.

Local Open Scope R_scope.

Lemma at_R : forall l i, at_ Rops l i = nth i l 0.
Proof. intros. unfold at_. rewrite zero_R. reflexivity. Qed.

Definition Rsorted (l : list R) : Prop := forall i j, (i <= j < length l)%nat -> nth i l 0 <= nth j l 0.
Definition Rstrict (l : list R) : Prop := forall i j, (i < j < length l)%nat -> nth i l 0 < nth j l 0.

(* soundness of the executable order checks (the same generic code is extracted and run on the real tables) *)
Lemma adj_sorted : forall l, (forall i, (S i < length l)%nat -> nth i l 0 <= nth (S i) l 0) -> Rsorted l.
Proof.
  intros l H i j [Hij Hj]. induction j as [|j IH].
  - replace i with 0%nat by lia. lra.
  - destruct (Nat.eq_dec i (S j)) as [->|]; [lra|].
    eapply Rle_trans; [apply IH; lia | apply H; lia].
Qed.
Lemma adj_strict : forall l, (forall i, (S i < length l)%nat -> nth i l 0 < nth (S i) l 0) -> Rstrict l.
Proof.
  intros l H i j [Hij Hj]. induction j as [|j IH]; [lia|].
  destruct (Nat.eq_dec i j) as [->|]; [apply H; lia|].
  eapply Rlt_trans; [apply IH; lia | apply H; lia].
Qed.

Lemma weakly_increasing_sound : forall l, weakly_increasing Rops l = true -> Rsorted l.
Proof.
  intros l H. apply adj_sorted. revert H. induction l as [|a [|b r] IH]; intros H i Hi; cbn [length] in Hi; try lia.
  cbn [weakly_increasing] in H. apply andb_prop in H as [H1 H2]. cbn [o_le Rops] in H1. apply Rleb_true in H1.
  destruct i as [|i]; [exact H1|]. apply (IH H2 i). cbn [length]. lia.
Qed.
Lemma strictly_increasing_sound : forall l, strictly_increasing Rops l = true -> Rstrict l.
Proof.
  intros l H. apply adj_strict. revert H. induction l as [|a [|b r] IH]; intros H i Hi; cbn [length] in Hi; try lia.
  cbn [strictly_increasing] in H. apply andb_prop in H as [H1 H2]. cbn [o_lt Rops] in H1. apply Rltb_true in H1.
  destruct i as [|i]; [exact H1|]. apply (IH H2 i). cbn [length]. lia.
Qed.

Lemma Rstrict_sorted : forall l, Rstrict l -> Rsorted l.
Proof. intros l H i j Hij. destruct (Nat.eq_dec i j) as [->|]; [lra|]. left; apply H; lia. Qed.

(* locate on a table of reals *)
Lemma locate_in_total : forall x tab, (2 <= length tab)%nat -> exists j, locate_in Rops x tab = Some j /\ (S j < length tab)%nat.
Proof. intros. unfold locate_in. apply locate_total; assumption. Qed.

Lemma locate_in_spec : forall x tab, (2 <= length tab)%nat -> x <= nth (length tab - 1) tab 0 ->
  exists j, locate_in Rops x tab = Some j /\ (S j < length tab)%nat /\ (j = 0%nat \/ nth j tab 0 < x) /\ x <= nth (S j) tab 0.
Proof.
  intros x tab Hn Hx. unfold locate_in.
  destruct (locate_spec (fun j => o_lt Rops (at_ Rops tab j) x) (length tab) Hn) as [j [Hj [Hr [H1 H2]]]].
  - cbn [o_lt Rops]. rewrite at_R. apply Rltb_false. exact Hx.
  - exists j. split; [exact Hj|]. split; [exact Hr|]. cbn [o_lt Rops] in H1, H2. rewrite at_R in H1, H2. split.
    + destruct H1 as [H1 | H1]; [left; assumption | right; apply Rltb_true; assumption].
    + apply Rltb_false; assumption.
Qed.

(* the index grows with x on a sorted table *)
Lemma bracket_monotone : forall tab x x' j j', Rsorted tab -> (S j < length tab)%nat -> (S j' < length tab)%nat ->
  nth j tab 0 < x -> x <= nth (S j) tab 0 -> nth j' tab 0 < x' -> x' <= nth (S j') tab 0 -> x <= x' -> (j <= j')%nat.
Proof.
  intros tab x x' j j' Hs Hj Hj' A B A' B' Hxx.
  destruct (le_lt_dec j j') as [H | H]; [assumption|].
  pose proof (Hs (S j') j ltac:(lia)). lra.
Qed.

(* ---------------------------------------------------------------------------
   linear inverse-CDF interpolation (HeliumTwoPhotonContinuumSpectrum) *)
Definition lin (f0 f1 c0 c1 x : R) : R := f0 + (f1 - f0) * (x - c0) / (c1 - c0).

Lemma lin_range : forall f0 f1 c0 c1 x, f0 <= f1 -> c0 < x <= c1 -> f0 <= lin f0 f1 c0 c1 x <= f1.
Proof.
  intros f0 f1 c0 c1 x Hf [H1 H2]. unfold lin.
  assert (Hd : 0 < c1 - c0) by lra.
  assert (Hr : 0 <= (x - c0) / (c1 - c0) <= 1).
  { split; [apply Rmult_le_pos; [lra | left; apply Rinv_0_lt_compat; assumption]|].
    apply Rmult_le_reg_r with (c1 - c0); [assumption|]. unfold Rdiv. rewrite Rmult_assoc, Rinv_l by lra. lra. }
  set (r := (x - c0) / (c1 - c0)) in *.
  replace ((f1 - f0) * (x - c0) / (c1 - c0)) with ((f1 - f0) * r) by (unfold r, Rdiv; ring). nra.
Qed.

Lemma lin_monotone : forall f0 f1 c0 c1 x x', f0 <= f1 -> c0 < c1 -> x <= x' -> lin f0 f1 c0 c1 x <= lin f0 f1 c0 c1 x'.
Proof.
  intros f0 f1 c0 c1 x x' Hf Hc Hx. unfold lin, Rdiv.
  assert (0 < / (c1 - c0)) by (apply Rinv_0_lt_compat; lra).
  assert ((f1 - f0) * (x - c0) <= (f1 - f0) * (x' - c0)) by nra. nra.
Qed.

Lemma sample_linear_eq : forall freq cdf x j, locate_in Rops x cdf = Some j ->
  sample_linear Rops freq cdf x = Some (lin (nth j freq 0) (nth (S j) freq 0) (nth j cdf 0) (nth (S j) cdf 0) x).
Proof.
  intros. unfold sample_linear. rewrite H. cbn [o_add o_sub o_mul o_div Rops]. rewrite !at_R. reflexivity.
Qed.

Lemma sample_linear_range_lemma : forall freq cdf x, length freq = length cdf -> (2 <= length cdf)%nat ->
  Rsorted freq -> nth 0 cdf 0 < x <= nth (length cdf - 1) cdf 0 ->
  exists j v, sample_linear Rops freq cdf x = Some v /\ (S j < length cdf)%nat /\
    nth j cdf 0 < x <= nth (S j) cdf 0 /\
    nth j freq 0 <= v <= nth (S j) freq 0 /\
    nth 0 freq 0 <= v <= nth (length freq - 1) freq 0.
Proof.
  intros freq cdf x Hlen Hn Hs [Hx0 Hx1].
  destruct (locate_in_spec x cdf Hn Hx1) as [j [Hj [Hr [H1 H2]]]].
  assert (Hb : nth j cdf 0 < x) by (destruct H1 as [-> | H1]; assumption).
  exists j. eexists. split; [apply sample_linear_eq; exact Hj|]. split; [exact Hr|]. split; [split; assumption|].
  pose proof (lin_range (nth j freq 0) (nth (S j) freq 0) (nth j cdf 0) (nth (S j) cdf 0) x
                (Hs j (S j) ltac:(lia)) (conj Hb H2)) as [L1 L2].
  split; [split; assumption|].
  pose proof (Hs 0%nat j ltac:(lia)). pose proof (Hs (S j) (length freq - 1)%nat ltac:(lia)). lra.
Qed.

Lemma sample_linear_monotone_lemma : forall freq cdf x x' v v', length freq = length cdf -> (2 <= length cdf)%nat ->
  Rsorted freq -> Rsorted cdf ->
  nth 0 cdf 0 < x -> x <= x' -> x' <= nth (length cdf - 1) cdf 0 ->
  sample_linear Rops freq cdf x = Some v -> sample_linear Rops freq cdf x' = Some v' -> v <= v'.
Proof.
  intros freq cdf x x' v v' Hlen Hn Hsf Hsc Hx0 Hxx Hx1 Hv Hv'.
  destruct (locate_in_spec x cdf Hn ltac:(lra)) as [j [Hj [Hr [H1 H2]]]].
  destruct (locate_in_spec x' cdf Hn Hx1) as [j' [Hj' [Hr' [H1' H2']]]].
  assert (Hb : nth j cdf 0 < x) by (destruct H1 as [-> | H1]; assumption).
  assert (Hb' : nth j' cdf 0 < x') by (destruct H1' as [-> | H1']; [lra | assumption]).
  rewrite (sample_linear_eq _ _ _ _ Hj) in Hv. rewrite (sample_linear_eq _ _ _ _ Hj') in Hv'.
  inversion Hv; inversion Hv'; subst v v'. clear Hv Hv'.
  pose proof (bracket_monotone cdf x x' j j' Hsc Hr Hr' Hb H2 Hb' H2' Hxx) as Hjj.
  destruct (Nat.eq_dec j j') as [<- | Hne].
  - apply lin_monotone; [apply Hsf; lia | lra | assumption].
  - pose proof (lin_range (nth j freq 0) (nth (S j) freq 0) (nth j cdf 0) (nth (S j) cdf 0) x (Hsf j (S j) ltac:(lia)) (conj Hb H2)) as [_ L].
    pose proof (lin_range (nth j' freq 0) (nth (S j') freq 0) (nth j' cdf 0) (nth (S j') cdf 0) x' (Hsf j' (S j') ltac:(lia)) (conj Hb' H2')) as [L' _].
    pose proof (Hsf (S j) j' ltac:(lia)). lra.
Qed.

(* ---------------------------------------------------------------------------
   Planck: interpolation in log10(cdf) -> log10(frequency), then 10^. *)
Definition log10R (x : R) : R := ln x / ln 10.
Definition planck_lrf (lf0 lf1 lc0 lc1 L : R) : R := (L - lc0) / (lc1 - lc0) * (lf1 - lf0) + lf0.

Lemma planck_lrf_range : forall lf0 lf1 lc0 lc1 L, lf0 <= lf1 -> lc0 < lc1 -> lc0 <= L <= lc1 ->
  lf0 <= planck_lrf lf0 lf1 lc0 lc1 L <= lf1.
Proof.
  intros lf0 lf1 lc0 lc1 L Hf Hc [H1 H2]. unfold planck_lrf.
  assert (Hr : 0 <= (L - lc0) / (lc1 - lc0) <= 1).
  { split; [apply Rmult_le_pos; [lra | left; apply Rinv_0_lt_compat; lra]|].
    apply Rmult_le_reg_r with (lc1 - lc0); [lra|]. unfold Rdiv. rewrite Rmult_assoc, Rinv_l by lra. lra. }
  set (r := (L - lc0) / (lc1 - lc0)) in *. nra.
Qed.

Lemma ln10_pos : 0 < ln 10.
Proof. rewrite <- ln_1. apply ln_increasing; lra. Qed.

Lemma log10R_le : forall a b, 0 < a -> a <= b -> log10R a <= log10R b.
Proof.
  intros a b Ha Hab. unfold log10R. pose proof ln10_pos.
  apply Rmult_le_compat_r; [left; apply Rinv_0_lt_compat; assumption|].
  destruct Hab as [Hab | ->]; [left; apply ln_increasing; assumption | lra].
Qed.
Lemma log10R_lt : forall a b, 0 < a -> a < b -> log10R a < log10R b.
Proof.
  intros a b Ha Hab. unfold log10R. pose proof ln10_pos.
  apply Rmult_lt_compat_r; [apply Rinv_0_lt_compat; assumption|]. apply ln_increasing; assumption.
Qed.
Lemma log10R_floor : log10R (1 / 10 ^ 10) = -10.
Proof.
  unfold log10R. replace (1 / 10 ^ 10) with (/ 10 ^ 10) by lra. rewrite ln_Rinv by lra.
  rewrite ln_pow by lra. pose proof ln10_pos. cbn [INR]. field. lra.
Qed.

(* the log table of the constructor is consistent with the cdf at every bin a random number >= 1e-10 can fall in *)
Definition planck_tables (cdf logcdf : list R) : Prop :=
  length logcdf = length cdf /\ nth 0 logcdf 0 = -10 /\ 1 / 10 ^ 10 < nth 1 cdf 0 /\
  (forall j, (1 <= j < length cdf)%nat -> 0 < nth j cdf 0 /\ nth j logcdf 0 = log10R (nth j cdf 0)).

Lemma planck_bin : forall cdf logcdf x j, planck_tables cdf logcdf -> 1 / 10 ^ 10 <= x -> (S j < length cdf)%nat ->
  nth j cdf 0 < x <= nth (S j) cdf 0 ->
  nth j logcdf 0 < nth (S j) logcdf 0 /\ nth j logcdf 0 <= log10R x <= nth (S j) logcdf 0.
Proof.
  intros cdf logcdf x j [Hl [H0 [H1 Hj]]] Hx Hr [Hb1 Hb2].
  assert (Hx0 : 0 < x) by (assert (0 < 1 / 10 ^ 10) by (apply Rdiv_lt_0_compat; [lra | apply pow_lt; lra]); lra).
  destruct (Hj (S j) ltac:(lia)) as [P1 E1]. rewrite E1.
  destruct j as [|j].
  - rewrite H0. rewrite <- log10R_floor. split; [apply log10R_lt; [|assumption] | split; apply log10R_le; try assumption; try lra];
      apply Rdiv_lt_0_compat; [lra | apply pow_lt; lra].
  - destruct (Hj (S j) ltac:(lia)) as [P0 E0]. rewrite E0.
    split; [apply log10R_lt; lra | split; apply log10R_le; lra].
Qed.

Lemma sample_planck_eq : forall cdf logcdf logfreq x j, locate_in Rops x cdf = Some j ->
  sample_planck Rops cdf logcdf logfreq x =
  Some (Rpower 10 (planck_lrf (nth j logfreq 0) (nth (S j) logfreq 0) (nth j logcdf 0) (nth (S j) logcdf 0) (log10R x)) * 3288465385000000).
Proof.
  intros. unfold sample_planck. rewrite H. cbn [o_add o_sub o_mul o_div o_log10 o_pow Rops]. rewrite !at_R.
  unfold k; cbn [o_dec Rops]. dec_norm. unfold planck_lrf, log10R. f_equal. f_equal; [f_equal; lra | lra].
Qed.

Lemma sample_planck_range_lemma : forall cdf logcdf logfreq x, planck_tables cdf logcdf ->
  length logfreq = length cdf -> (2 <= length cdf)%nat -> Rsorted logfreq ->
  1 / 10 ^ 10 <= x -> nth 0 cdf 0 < x <= nth (length cdf - 1) cdf 0 ->
  exists j v, sample_planck Rops cdf logcdf logfreq x = Some v /\ (S j < length cdf)%nat /\
    nth j cdf 0 < x <= nth (S j) cdf 0 /\
    Rpower 10 (nth j logfreq 0) * 3288465385000000 <= v <= Rpower 10 (nth (S j) logfreq 0) * 3288465385000000 /\
    Rpower 10 (nth 0 logfreq 0) * 3288465385000000 <= v <= Rpower 10 (nth (length logfreq - 1) logfreq 0) * 3288465385000000.
Proof.
  intros cdf logcdf logfreq x Ht Hlen Hn Hs Hx [Hx0 Hx1].
  destruct (locate_in_spec x cdf Hn Hx1) as [j [Hj [Hr [H1 H2]]]].
  assert (Hb : nth j cdf 0 < x) by (destruct H1 as [-> | H1]; assumption).
  destruct (planck_bin cdf logcdf x j Ht Hx Hr (conj Hb H2)) as [Q1 Q2].
  exists j. eexists. split; [apply sample_planck_eq; exact Hj|]. split; [exact Hr|]. split; [split; assumption|].
  pose proof (planck_lrf_range (nth j logfreq 0) (nth (S j) logfreq 0) (nth j logcdf 0) (nth (S j) logcdf 0) (log10R x)
                (Hs j (S j) ltac:(lia)) Q1 Q2) as [L1 L2].
  set (lrf := planck_lrf _ _ _ _ _) in *.
  assert (M : forall a b, a <= b -> Rpower 10 a * 3288465385000000 <= Rpower 10 b * 3288465385000000).
  { intros a b Hab. apply Rmult_le_compat_r; [lra|]. apply Rle_Rpower; lra. }
  pose proof (Hs 0%nat j ltac:(lia)). pose proof (Hs (S j) (length logfreq - 1)%nat ltac:(lia)).
  repeat split; apply M; lra.
Qed.

(* ---------------------------------------------------------------------------
   H / He Lyman continuum: node frequencies of two temperature tables, interpolated in T *)
Definition lyman_mix (f1 f2 T0 T1 T : R) : R := f1 + (T - T0) * (f2 - f1) / (T1 - T0).

Lemma lyman_mix_range : forall f1 f2 T0 T1 T, T0 < T1 -> T0 <= T <= T1 ->
  Rmin f1 f2 <= lyman_mix f1 f2 T0 T1 T <= Rmax f1 f2.
Proof.
  intros f1 f2 T0 T1 T HT [H1 H2]. unfold lyman_mix.
  assert (Hr : 0 <= (T - T0) / (T1 - T0) <= 1).
  { split; [apply Rmult_le_pos; [lra | left; apply Rinv_0_lt_compat; lra]|].
    apply Rmult_le_reg_r with (T1 - T0); [lra|]. unfold Rdiv. rewrite Rmult_assoc, Rinv_l by lra. lra. }
  set (w := (T - T0) / (T1 - T0)) in *.
  replace ((T - T0) * (f2 - f1) / (T1 - T0)) with (w * (f2 - f1)) by (unfold w, Rdiv; ring).
  unfold Rmin, Rmax. destruct (Rle_dec f1 f2); nra.
Qed.

Lemma clamp_bounds' : forall lo hi t, lo <= hi -> lo <= Rmin (Rmax t lo) hi <= hi.
Proof. intros. unfold Rmin, Rmax. destruct (Rle_dec t lo); destruct (Rle_dec _ hi); lra. Qed.

Definition lyman_tables (freq temp : list R) (cdfs : list (list R)) : Prop :=
  (2 <= length freq)%nat /\ (2 <= length temp)%nat /\ length cdfs = length temp /\
  Rsorted freq /\ Rstrict temp /\ (forall r, In r cdfs -> length r = length freq).

Lemma lyman_core_range : forall freq temp cdfs T x, lyman_tables freq temp cdfs ->
  nth 0 temp 0 <= T <= nth (length temp - 1) temp 0 ->
  exists v, lyman_core Rops freq temp cdfs T x = Some v /\ nth 0 freq 0 <= v <= nth (length freq - 1) freq 0.
Proof.
  intros freq temp cdfs T x [Hnf [Hnt [Hlc [Hsf [Hst Hrows]]]]] [HT0 HT1].
  destruct (locate_in_spec T temp Hnt HT1) as [kT [Hk [Hkr [Hk1 Hk2]]]].
  assert (HkT : nth kT temp 0 <= T) by (destruct Hk1 as [-> | Hk1]; lra).
  assert (R1 : length (nth kT cdfs []) = length freq) by (apply Hrows, nth_In; lia).
  assert (R2 : length (nth (S kT) cdfs []) = length freq) by (apply Hrows, nth_In; lia).
  destruct (locate_in_total x (nth kT cdfs []) ltac:(lia)) as [i1 [Hi1 Hr1]].
  destruct (locate_in_total x (nth (S kT) cdfs []) ltac:(lia)) as [i2 [Hi2 Hr2]].
  unfold lyman_core. rewrite Hk, Hi1, Hi2. eexists. split; [reflexivity|].
  cbn [o_add o_sub o_mul o_div Rops]. rewrite !at_R.
  pose proof (lyman_mix_range (nth i1 freq 0) (nth i2 freq 0) (nth kT temp 0) (nth (S kT) temp 0) T
                (Hst kT (S kT) ltac:(lia)) (conj HkT Hk2)) as [L1 L2].
  unfold lyman_mix in L1, L2.
  pose proof (Hsf 0%nat i1 ltac:(lia)). pose proof (Hsf 0%nat i2 ltac:(lia)).
  pose proof (Hsf i1 (length freq - 1)%nat ltac:(lia)). pose proof (Hsf i2 (length freq - 1)%nat ltac:(lia)).
  unfold Rmin, Rmax in *. destruct (Rle_dec (nth i1 freq 0) (nth i2 freq 0)); lra.
Qed.

(* the code as shipped (no clamp): in range provided T is inside the temperature table *)
Lemma sample_lyman_range_lemma : forall freq temp cdfs T x, lyman_tables freq temp cdfs ->
  nth 0 temp 0 <= T <= nth (length temp - 1) temp 0 ->
  exists v, sample_lyman Rops false freq temp cdfs T x = Some v /\ nth 0 freq 0 <= v <= nth (length freq - 1) freq 0.
Proof. intros. unfold sample_lyman. apply lyman_core_range; assumption. Qed.

(* with the temperature clamped to the table first: in range for EVERY temperature *)
Lemma sample_lyman_clamped_range_lemma : forall freq temp cdfs T x, lyman_tables freq temp cdfs ->
  exists v, sample_lyman Rops true freq temp cdfs T x = Some v /\ nth 0 freq 0 <= v <= nth (length freq - 1) freq 0.
Proof.
  intros freq temp cdfs T x Ht. unfold sample_lyman. apply lyman_core_range; [assumption|].
  rewrite fmin_R, fmax_R, !at_R. destruct Ht as [_ [Hnt [_ [_ [Hst _]]]]].
  apply clamp_bounds'. left. apply Hst. lia.
Qed.

(* D7: without "T inside the temperature table" the statement is false.  Witness: a 3-node frequency
   table, two temperatures, two valid cumulative distributions; T = 500 K is below the table and the
   weight (T - T_0)/(T_1 - T_0) = -1.5 extrapolates below the lowest tabulated frequency. *)
Definition w_freq : list R := [1; 2; 3].
Definition w_temp : list R := [2000; 3000].
Definition w_cdfs : list (list R) := [[0; 9 / 10; 1]; [0; 1 / 2; 1]].

Ltac rlt_decide :=
  repeat match goal with
  | |- context [Rltb ?a ?b] =>
      first [ replace (Rltb a b) with true by (symmetry; apply Rltb_true; lra)
            | replace (Rltb a b) with false by (symmetry; apply Rltb_false; lra) ]
  end.

Lemma w_tables : lyman_tables w_freq w_temp w_cdfs.
Proof.
  unfold lyman_tables, w_freq, w_temp, w_cdfs. cbn [length]. repeat split; try lia.
  - apply adj_sorted. cbn [length]. intros [|[|i]] Hi; cbn [nth]; try lia; lra.
  - apply adj_strict. cbn [length]. intros [|i] Hi; cbn [nth]; try lia; lra.
  - intros r [<- | [<- | []]]; reflexivity.
Qed.

Ltac locate_step :=
  cbn [locate_loop length Nat.ltb Nat.leb Nat.sub Nat.add Nat.div2 Nat.eqb];
  cbn [o_lt Rops]; rewrite ?at_R; cbn [nth]; rlt_decide.

Lemma w_loc_T : locate_in Rops 500 w_temp = Some 0%nat.
Proof. unfold locate_in, locate, w_temp. do 3 locate_step. reflexivity. Qed.
Lemma w_loc_1 : locate_in Rops (7 / 10) [0; 9 / 10; 1] = Some 0%nat.
Proof. unfold locate_in, locate. do 4 locate_step. reflexivity. Qed.
Lemma w_loc_2 : locate_in Rops (7 / 10) [0; 1 / 2; 1] = Some 1%nat.
Proof. unfold locate_in, locate. do 4 locate_step. reflexivity. Qed.

Lemma sample_lyman_witness : sample_lyman Rops false w_freq w_temp w_cdfs 500 (7 / 10) = Some (1 + (500 - 2000) * (2 - 1) / (3000 - 2000)).
Proof.
  unfold sample_lyman, lyman_core. rewrite w_loc_T. unfold w_cdfs. cbn [nth]. rewrite w_loc_1, w_loc_2.
  cbn [o_add o_sub o_mul o_div Rops]. rewrite !at_R. unfold w_freq, w_temp. cbn [nth]. reflexivity.
Qed.

Lemma sample_lyman_refuted_lemma : exists freq temp cdfs T x v, lyman_tables freq temp cdfs /\
  10 <= T <= 1000000000 /\ 1 / 10 ^ 10 <= x < 1 /\
  sample_lyman Rops false freq temp cdfs T x = Some v /\ v < nth 0 freq 0.
Proof.
  exists w_freq, w_temp, w_cdfs, 500, (7 / 10). eexists. split; [exact w_tables|].
  split; [lra|]. split; [split; [|lra]|].
  - apply Rmult_le_reg_r with (10 ^ 10); [apply pow_lt; lra|]. unfold Rdiv. rewrite Rmult_assoc, Rinv_l by (apply pow_nonzero; lra). lra.
  - split; [exact sample_lyman_witness|]. unfold w_freq; cbn [nth]. lra.
Qed.

(* ---------------------------------------------------------------------------
   MaskedPhotonSourceSpectrum: the cumulative table the constructor builds starts at 0, ends at 1 and is
   non-decreasing, so every random number in (0, 1] is sampled inside the frequency bins *)
Lemma mr_length : forall w acc, length (masked_running Rops acc w) = length w.
Proof. induction w as [|x r IH]; intros acc; cbn [masked_running length]; [reflexivity | rewrite IH; reflexivity]. Qed.

Lemma mr_adj : forall w acc i, (S i < length w)%nat ->
  nth (S i) (masked_running Rops acc w) 0 = nth i (masked_running Rops acc w) 0 + nth i w 0.
Proof.
  induction w as [|x r IH]; intros acc i Hi; cbn [length] in Hi; [lia|].
  destruct i as [|i].
  - destruct r as [|y r']; cbn [length] in Hi; [lia|]. cbn [masked_running nth o_add Rops]. reflexivity.
  - cbn [masked_running nth]. rewrite IH by lia. reflexivity.
Qed.

Lemma mr_first : forall w acc, (1 <= length w)%nat -> nth 0 (masked_running Rops acc w) 0 = acc.
Proof. intros [|x r] acc H; cbn [length] in H; [lia|]. reflexivity. Qed.

Lemma nth_map_R : forall (f : R -> R) l i, (i < length l)%nat -> nth i (map f l) 0 = f (nth i l 0).
Proof. intros f l i Hi. rewrite (nth_indep (map f l) 0 (f 0)) by (rewrite map_length; exact Hi). apply map_nth. Qed.

Lemma sample_masked_range_lemma : forall freq w x, length freq = length w -> (2 <= length w)%nat ->
  Rsorted freq -> (forall i, (i < length w)%nat -> 0 <= nth i w 0) ->
  0 < nth (length w - 1) (masked_running Rops 0 w) 0 -> 0 < x <= 1 ->
  nth 0 (masked_cdf Rops w) 0 = 0 /\ nth (length w - 1) (masked_cdf Rops w) 0 = 1 /\ Rsorted (masked_cdf Rops w) /\
  exists v, sample_linear Rops freq (masked_cdf Rops w) x = Some v /\ nth 0 freq 0 <= v <= nth (length freq - 1) freq 0.
Proof.
  intros freq w x Hlen Hn Hs Hw HT [Hx0 Hx1].
  unfold masked_cdf. rewrite zero_R, one_R, at_R, mr_length.
  set (c := masked_running Rops 0 w) in *. set (T := nth (length w - 1) c 0) in *.
  cbn [o_div o_mul Rops].
  assert (Hc : length c = length w) by apply mr_length.
  assert (Hni : 0 < 1 / T) by (apply Rdiv_lt_0_compat; lra).
  assert (H0 : nth 0 (map (fun v => v * (1 / T)) c) 0 = 0).
  { rewrite nth_map_R by lia. unfold c. rewrite mr_first by lia. lra. }
  assert (H1 : nth (length w - 1) (map (fun v => v * (1 / T)) c) 0 = 1).
  { rewrite nth_map_R by lia. fold T. field. lra. }
  assert (Hsort : Rsorted (map (fun v => v * (1 / T)) c)).
  { apply adj_sorted. rewrite map_length, Hc. intros i Hi. rewrite !nth_map_R by lia.
    unfold c. rewrite mr_adj by lia. pose proof (Hw i ltac:(lia)).
    apply Rmult_le_compat_r; lra. }
  split; [exact H0|]. split; [exact H1|]. split; [exact Hsort|].
  destruct (sample_linear_range_lemma freq (map (fun v => v * (1 / T)) c) x) as [j [v [Hv [_ [_ [_ Hr]]]]]].
  - rewrite map_length, Hc. exact Hlen.
  - rewrite map_length, Hc. exact Hn.
  - exact Hs.
  - rewrite map_length, Hc, H0, H1. lra.
  - exists v. split; assumption.
Qed.

(* the construction of the pinned commit: the first entry is the (positive) weight of the first bin, and a random
   number below it is extrapolated to a frequency below the first bin *)
Lemma mw_cdf : masked_cdf_incl Rops [1; 1; 0] = [1 / 2; 1; 1].
Proof.
  unfold masked_cdf_incl. cbn [masked_running_incl length Nat.sub]. rewrite at_R. cbn [nth map o_add o_mul o_div Rops].
  rewrite zero_R, one_R. f_equal; [field | f_equal; [field | f_equal; field]].
Qed.
Lemma mw_loc : locate_in Rops (1 / 4) [1 / 2; 1; 1] = Some 0%nat.
Proof. unfold locate_in, locate. do 4 locate_step. reflexivity. Qed.
Lemma sample_masked_incl_refuted_lemma : exists freq w x v, length freq = length w /\ (2 <= length w)%nat /\
  Rsorted freq /\ (forall i, (i < length w)%nat -> 0 <= nth i w 0) /\ 0 < x <= 1 /\
  sample_linear Rops freq (masked_cdf_incl Rops w) x = Some v /\ v < nth 0 freq 0.
Proof.
  exists [1; 2; 3], [1; 1; 0], (1 / 4). eexists. split; [reflexivity|]. split; [cbn [length]; lia|].
  split; [apply adj_sorted; cbn [length]; intros [|[|i]] Hi; cbn [nth]; try lia; lra|].
  split; [cbn [length]; intros [|[|[|i]]] Hi; cbn [nth]; try lia; lra|].
  split; [lra|]. rewrite mw_cdf. split; [apply sample_linear_eq; exact mw_loc|].
  unfold lin. cbn [nth]. lra.
Qed.
