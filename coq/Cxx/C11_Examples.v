(* C11: the binary64 instance of the model runs (satisfiability of the hypotheses, and a smoke test that the model
   computes).  PrimFloat has no pow: for gamma = 2 every exponent the solver uses is a multiple of 1/4, so a pow
   restricted to those exponents can be written with sqrt (used ONLY for these Examples; the correspondence run uses
   the C library's pow on both sides). *)
From Coq Require Import ZArith Floats Bool.
Set Warnings "-inexact-float".

From CMI Require Import Common.Scalar Cxx.C05_Defs Cxx.C11_Defs.
Local Open Scope float_scope.

Definition pow_quarters (x y : float) : float :=
  let r := PrimFloat.sqrt x in
  let q := PrimFloat.sqrt r in
  if y =? 0.25 then q
  else if y =? 0.5 then r
  else if y =? -0.25 then 1 / q
  else if y =? -0.75 then 1 / (r * q)
  else if y =? 2 then x * x
  else if y =? 4 then (x * x) * (x * x)
  else nan.

Definition cst_ex (m e : Z) : float :=
  match m, e with
  | 5%Z, (-9)%Z => 5e-9
  | 1%Z, 230%Z => 1e230
  | 125%Z, (-3)%Z => 0.125
  | 3%Z, 0%Z => 3
  | _, _ => nan
  end.

Definition FS := FOps pow_quarters cst_ex.
Definition c2 := mk_xconsts float FS 2.

(* Sod's tube with gamma = 2: left rarefaction, right shock *)
Definition sod := star_state float FS c2 100 100 1 0 1 0.125 0 0.1.

Example sod_star_found : (st_code float sod =? 2)%Z || (st_code float sod =? 3)%Z = true.
Proof. vm_compute. reflexivity. Qed.

Example sod_star_pressure_between : (0.1 <? st_P float sod) && (st_P float sod <? 1) && (0 <? st_u float sod) = true.
Proof. vm_compute. reflexivity. Qed.

(* residual of the pressure equation at the returned star pressure is at round-off level *)
Example sod_residual_small :
  let c := c2 in
  let aL := soundspeed float FS c 1 1 in
  let aR := soundspeed float FS c (1 / 0.125) 0.1 in
  let f := ff float FS c 1 (tdgp1 float (cb float c) * 1) (gm1dgp1 float (cb float c) * 1) 1 (tdgm1 float (cb float c) * aL)
              0.1 (tdgp1 float (cb float c) * (1 / 0.125)) (gm1dgp1 float (cb float c) * 0.1) (1 / 0.1) (tdgm1 float (cb float c) * aR) (0 - 0) in
  PrimFloat.abs (f (st_P float sod)) <? 1e-7 = true.
Proof. vm_compute. reflexivity. Qed.

(* sampling: left of everything the left state, right of everything the right state, in between the star pressure *)
Example sod_samples : forall cl : bool,
  let s x := fst (solve float FS c2 cl 100 100 1 0 1 0.125 0 0.1 x) in
  s (-5) = ((-1)%Z, 1, 0, 1) /\ s 5 = (1%Z, 0.125, 0, 0.1) /\
  snd (s 0) = st_P float sod /\ snd (s (st_u float sod + 0.01)) = st_P float sod.
Proof. intros [|]; vm_compute; repeat split; reflexivity. Qed.

(* vacuum generation: receding states *)
Example vacuum_generated : forall cl : bool,
  fst (solve float FS c2 cl 100 100 1 (-10) 1 1 10 1 0) = (0%Z, 0, 0, 0).
Proof. intros [|]; vm_compute; reflexivity. Qed.

(* the checks above as one boolean (stated in Props/Properties_C11.v without float notations) *)
Definition sod_checks (cl : bool) : bool :=
  ((st_code float sod =? 2)%Z || (st_code float sod =? 3)%Z) &&
  (0.1 <? st_P float sod) && (st_P float sod <? 1) && (0 <? st_u float sod) &&
  (let s x := fst (solve float FS c2 cl 100 100 1 0 1 0.125 0 0.1 x) in
   match s (-5), s 5, s 0 with
   | (fl, r1, u1, p1), (fr, r2, u2, p2), (_, _, _, p0) =>
     (fl =? -1)%Z && (r1 =? 1) && (p1 =? 1) && (fr =? 1)%Z && (r2 =? 0.125) && (p2 =? 0.1) && (p0 =? st_P float sod)
   end).
Example sod_checks_true : sod_checks true = true /\ sod_checks false = true.
Proof. split; vm_compute; reflexivity. Qed.
