(* C04: proofs over the real-number instance of the flux-exchange model (Cxx/C04_FluxDefs.v):
   antisymmetry of the per-face update for ANY Riemann function, invariance of the totals of the five delta
   accumulators under a flux phase over any list of interior faces, conservation by the conserved update when no
   positivity clamp fires, odd symmetry of the per-face slope limiter, reflecting walls (mirror ghost state),
   non-negativity after the update (R) and of the clamp on binary64 (Coq.Floats specification). *)
From Coq Require Import Reals Lra Lia Bool ZArith List Psatz Floats Permutation.
From CMI Require Import Common.Scalar Cxx.C05_Defs Cxx.C04_Defs Cxx.C04_FluxDefs.
Import ListNotations.
Local Open Scope R_scope.

Section RInst.
  Variable eps gfloor dblmax : R.
  Let RS := ROps eps gfloor.
  Notation rvec := (vec R).
  Notation rcell := (cell R).
  Notation rstate := (state R).
  Variable riemann : R -> rvec -> R -> R -> rvec -> R -> rvec -> flux R.

  (* ---------------- small algebra on v5 ---------------- *)
  Lemma get5_sub5 k a b : get5 R k (sub5 R RS a b) = get5 R k a - get5 R k b.
  Proof. unfold get5, sub5. cbn [c0 c1 c2 c3 c4]. repeat destruct (_ =? _)%Z; reflexivity. Qed.
  Lemma get5_add5 k a b : get5 R k (add5 R RS a b) = get5 R k a + get5 R k b.
  Proof. unfold get5, add5. cbn [c0 c1 c2 c3 c4]. repeat destruct (_ =? _)%Z; reflexivity. Qed.
  Lemma get5_zero5 k : get5 R k (zero5 R RS) = 0.
  Proof. unfold get5, zero5. cbn [c0 c1 c2 c3 c4]. repeat destruct (_ =? _)%Z; reflexivity. Qed.

  (* ---------------- bump only touches delta_conserved ---------------- *)
  Lemma bump_dcons c plus f k :
    get5 R k (dcons R (bump R RS c plus f)) = if plus then get5 R k (dcons R c) + get5 R k f else get5 R k (dcons R c) - get5 R k f.
  Proof. unfold bump. cbn [dcons]. destruct plus; [apply get5_add5|apply get5_sub5]. Qed.

  Definition same_but_delta (c c' : rcell) : Prop :=
    prim R c' = prim R c /\ cons R c' = cons R c /\ grad R c' = grad R c /\ grav R c' = grav R c /\ eterm R c' = eterm R c /\ lims R c' = lims R c.
  Lemma same_but_delta_refl c : same_but_delta c c.
  Proof. unfold same_but_delta; repeat split. Qed.
  Lemma same_but_delta_trans a b c : same_but_delta a b -> same_but_delta b c -> same_but_delta a c.
  Proof. unfold same_but_delta. intros (?&?&?&?&?&?) (?&?&?&?&?&?). repeat split; congruence. Qed.
  Lemma bump_same c plus f : same_but_delta c (bump R RS c plus f).
  Proof. unfold same_but_delta, bump; cbn. repeat split. Qed.

  (* ---------------- one face ---------------- *)
  Variable gamma : R.
  Variable bkind : Z.
  Variables dxs As : rvec.
  Variable dt : R.
  Notation face_step := (apply_face R RS riemann gamma bkind dxs As dt).

  Lemma upd_same (st : rstate) k c : upd R st k c k = c.
  Proof. unfold upd. rewrite Z.eqb_refl. reflexivity. Qed.
  Lemma upd_other (st : rstate) k c j : j <> k -> upd R st k c j = st j.
  Proof. intros H. unfold upd. destruct (Z.eqb_spec j k); [contradiction|reflexivity]. Qed.

  (* the flux the face exchanges, a function of the state BEFORE the update *)
  Definition face_flux (st : rstate) (f : face) : v5 R :=
    match f with
    | Interior a l r => pair_flux R RS riemann gamma a (st l) (st r) (vget R a dxs) (vget R a As) dt
    | Boundary a sgn c => ghost_flux R RS riemann gamma bkind a (st c) (if (sgn <? 0)%Z then sneg RS (vget R a dxs) else vget R a dxs) (vget R a As) dt
    end.

  (* C04 face_update_antisymmetric: for ANY Riemann function and whatever the limiter factor is, the changes written to
     the delta accumulators of the two cells of a face are opposite, component by component; nothing else changes *)
  Lemma face_update_antisymmetric (st : rstate) a l r : l <> r ->
    let st' := face_step st (Interior a l r) in
    (forall k, get5 R k (dcons R (st' l)) - get5 R k (dcons R (st l)) = - (get5 R k (dcons R (st' r)) - get5 R k (dcons R (st r))))
    /\ (forall k, get5 R k (dcons R (st' l)) = get5 R k (dcons R (st l)) - get5 R k (face_flux st (Interior a l r)))
    /\ same_but_delta (st l) (st' l) /\ same_but_delta (st r) (st' r)
    /\ (forall j, j <> l -> j <> r -> st' j = st j).
  Proof.
    intros Hlr st'. unfold st', apply_face.
    set (fl := pair_flux R RS riemann gamma a (st l) (st r) (vget R a dxs) (vget R a As) dt).
    assert (Hl : upd R (upd R st l (bump R RS (st l) false fl)) r
                   (bump R RS (upd R st l (bump R RS (st l) false fl) r) true fl) l = bump R RS (st l) false fl).
    { rewrite upd_other by exact Hlr. apply upd_same. }
    assert (Hr : upd R (upd R st l (bump R RS (st l) false fl)) r
                   (bump R RS (upd R st l (bump R RS (st l) false fl) r) true fl) r = bump R RS (st r) true fl).
    { rewrite upd_same. rewrite upd_other by (intro; apply Hlr; congruence). reflexivity. }
    rewrite Hl, Hr. split; [|split; [|split; [|split]]].
    - intros k. rewrite !bump_dcons. ring.
    - intros k. rewrite bump_dcons. reflexivity.
    - apply bump_same.
    - apply bump_same.
    - intros j Hjl Hjr. rewrite upd_other by exact Hjr. apply upd_other. exact Hjl.
  Qed.

  (* ---------------- totals over a finite set of cells ---------------- *)
  Lemma total_upd_notin proj cells (st : rstate) k c :
    ~ In k cells -> total R RS proj cells (upd R st k c) = total R RS proj cells st.
  Proof.
    induction cells as [|x xs IH]; intros H; [reflexivity|].
    cbn [total fold_right]. fold (total R RS proj xs (upd R st k c)). fold (total R RS proj xs st).
    rewrite IH by (intro; apply H; right; assumption).
    rewrite upd_other by (intro; apply H; left; congruence). reflexivity.
  Qed.

  Lemma total_upd_in proj cells (st : rstate) k c :
    NoDup cells -> In k cells -> total R RS proj cells (upd R st k c) = total R RS proj cells st - proj (st k) + proj c.
  Proof.
    induction cells as [|x xs IH]; intros Hnd Hin; [destruct Hin|].
    inversion Hnd as [|? ? Hx Hxs]; subst.
    cbn [total fold_right]. fold (total R RS proj xs (upd R st k c)). fold (total R RS proj xs st).
    destruct (Z.eq_dec x k) as [->|Hne].
    - rewrite upd_same. rewrite total_upd_notin by exact Hx. cbn. ring.
    - destruct Hin as [->|Hin]; [contradiction|].
      rewrite upd_other by exact Hne. rewrite IH by assumption. cbn. ring.
  Qed.

  Definition dproj (k : Z) (c : rcell) : R := get5 R k (dcons R c).
  Definition cproj (k : Z) (c : rcell) : R := get5 R k (cons R c).

  (* an interior face whose two cells belong to the cell set leaves the total of every delta accumulator unchanged
     (also when both sides are the same cell: a periodic axis one cell wide) *)
  Lemma face_step_total_interior k cells (st : rstate) a l r :
    NoDup cells -> In l cells -> In r cells ->
    total R RS (dproj k) cells (face_step st (Interior a l r)) = total R RS (dproj k) cells st.
  Proof.
    intros Hnd Hl Hr. unfold apply_face.
    set (fl := pair_flux R RS riemann gamma a (st l) (st r) (vget R a dxs) (vget R a As) dt).
    set (st1 := upd R st l (bump R RS (st l) false fl)).
    rewrite total_upd_in by assumption. unfold st1 at 1. rewrite total_upd_in by assumption.
    unfold dproj. rewrite !bump_dcons. ring.
  Qed.

  (* a boundary face takes its flux out of the one cell it touches *)
  Lemma face_step_total_boundary k cells (st : rstate) a sgn c :
    NoDup cells -> In c cells ->
    total R RS (dproj k) cells (face_step st (Boundary a sgn c)) =
    total R RS (dproj k) cells st - get5 R k (face_flux st (Boundary a sgn c)).
  Proof.
    intros Hnd Hc. unfold apply_face, face_flux. rewrite total_upd_in by assumption.
    unfold dproj. rewrite bump_dcons. ring.
  Qed.

  Lemma upd_bump_same (st : rstate) k plus f j : same_but_delta (st j) (upd R st k (bump R RS (st k) plus f) j).
  Proof.
    destruct (Z.eq_dec j k) as [->|Hne].
    - rewrite upd_same. apply bump_same.
    - rewrite upd_other by exact Hne. apply same_but_delta_refl.
  Qed.

  (* a face only writes delta accumulators *)
  Lemma face_step_same (st : rstate) f j : same_but_delta (st j) (face_step st f j).
  Proof.
    destruct f as [a l r|a sgn c]; unfold apply_face.
    - eapply same_but_delta_trans; [|apply upd_bump_same]. apply upd_bump_same.
    - apply upd_bump_same.
  Qed.

  Notation phase := (flux_phase R RS riemann gamma bkind dxs As dt).

  Lemma flux_phase_same fs : forall (st : rstate) j, same_but_delta (st j) (phase fs st j).
  Proof.
    induction fs as [|f fs IH]; intros st j; [apply same_but_delta_refl|].
    unfold flux_phase. cbn [fold_left]. eapply same_but_delta_trans; [apply face_step_same|]. apply IH.
  Qed.

  Definition interior_in (cells : list Z) (f : face) : Prop :=
    match f with Interior _ l r => In l cells /\ In r cells | Boundary _ _ _ => False end.

  (* the flux phase over ANY list of interior faces of the cell set keeps the totals of the five delta accumulators *)
  Lemma flux_phase_total k cells fs :
    NoDup cells -> Forall (interior_in cells) fs ->
    forall st : rstate, total R RS (dproj k) cells (phase fs st) = total R RS (dproj k) cells st.
  Proof.
    intros Hnd. induction fs as [|f fs IH]; intros HF st; [reflexivity|].
    inversion HF as [|? ? Hf Hfs]; subst.
    unfold flux_phase. cbn [fold_left]. fold (phase fs (face_step st f)).
    rewrite IH by exact Hfs.
    destruct f as [a l r|a sgn c]; [|destruct Hf].
    destruct Hf. apply face_step_total_interior; assumption.
  Qed.

  (* ---------------- conserved update ---------------- *)
  Lemma smax0_nonneg x : 0 <= smax RS x 0.
  Proof. unfold smax. cbn. destruct (Rltb x 0) eqn:E; [lra|]. apply Rltb_false in E. exact E. Qed.
  Lemma smax0_id x : 0 <= x -> smax RS x 0 = x.
  Proof. intros H. unfold smax. cbn. destruct (Rltb x 0) eqn:E; [|reflexivity]. apply Rltb_true in E. lra. Qed.

  Definition no_clamp (c : rcell) : Prop :=
    0 <= c0 R (cons R c) + c0 R (dcons R c) * dt /\ 0 <= c4 R (cons R c) + c4 R (dcons R c) * dt.
  Definition no_source (c : rcell) : Prop := grav R c = vzero R RS /\ eterm R c = 0.

  Lemma update_conserved_cons k c :
    no_source c -> no_clamp c ->
    cproj k (update_conserved R RS dblmax c dt) = cproj k c + dproj k c * dt.
  Proof.
    intros [Hg He] [H0 H4]. unfold cproj, dproj, update_conserved. rewrite Hg, He. cbn [cons].
    unfold vzero, mkv, vx, vy, vz, vdot, mom. cbn [fst snd].
    replace (smax RS (sadd RS (c0 R (cons R c)) (smul RS (c0 R (dcons R c)) dt)) (s0 RS))
      with (c0 R (cons R c) + c0 R (dcons R c) * dt) by (symmetry; apply smax0_id; exact H0).
    match goal with |- context [smax RS ?x (s0 RS)] =>
      replace (smax RS x (s0 RS)) with (c4 R (cons R c) + c4 R (dcons R c) * dt)
        by (symmetry; transitivity (smax RS (c4 R (cons R c) + c4 R (dcons R c) * dt) 0);
            [apply smax0_id; exact H4 | f_equal; cbn; ring]) end.
    unfold get5. cbn. repeat destruct (_ =? _)%Z; ring.
  Qed.

  (* after the update mass and energy are non-negative, whatever the input *)
  Lemma update_conserved_nonneg c : 0 <= c0 R (cons R (update_conserved R RS dblmax c dt)) /\ 0 <= c4 R (cons R (update_conserved R RS dblmax c dt)).
  Proof. unfold update_conserved. cbn [cons c0 c4]. split; apply smax0_nonneg. Qed.

  Lemma update_phase_total k cells (st : rstate) :
    (forall j, In j cells -> no_source (st j) /\ no_clamp (st j)) ->
    total R RS (cproj k) cells (update_phase R RS dblmax dt st) = total R RS (cproj k) cells st + dt * total R RS (dproj k) cells st.
  Proof.
    induction cells as [|x xs IH]; intros H; [cbn; ring|].
    cbn [total fold_right].
    fold (total R RS (cproj k) xs (update_phase R RS dblmax dt st)). fold (total R RS (cproj k) xs st). fold (total R RS (dproj k) xs st).
    rewrite IH by (intros j Hj; apply H; right; exact Hj).
    unfold update_phase at 1. destruct (H x (or_introl eq_refl)) as [Hs Hc].
    rewrite update_conserved_cons by assumption. cbn. ring.
  Qed.

  Lemma total_all_zero proj cells (st : rstate) : (forall j, In j cells -> proj (st j) = 0) -> total R RS proj cells st = 0.
  Proof.
    induction cells as [|x xs IH]; intros H; [reflexivity|].
    cbn [total fold_right]. fold (total R RS proj xs st). rewrite IH by (intros j Hj; apply H; right; exact Hj).
    rewrite (H x (or_introl eq_refl)). cbn. ring.
  Qed.

  Lemma total_ext proj cells (st st' : rstate) : (forall j, In j cells -> proj (st j) = proj (st' j)) -> total R RS proj cells st = total R RS proj cells st'.
  Proof.
    induction cells as [|x xs IH]; intros H; [reflexivity|].
    cbn [total fold_right]. fold (total R RS proj xs st). fold (total R RS proj xs st').
    rewrite IH by (intros j Hj; apply H; right; exact Hj). rewrite (H x (or_introl eq_refl)). reflexivity.
  Qed.

  (* C04 periodic_step_conserves, stated over an abstract finite cell set and ANY list of interior faces of it:
     deltas start at zero, no source terms, no clamp fires => the totals of the five conserved variables are unchanged
     by flux phase + conserved update *)
  Theorem step_conserves_generic k cells fs (st : rstate) :
    NoDup cells -> Forall (interior_in cells) fs ->
    (forall j, In j cells -> dcons R (st j) = zero5 R RS /\ no_source (st j)) ->
    (forall j, In j cells -> no_clamp (phase fs st j)) ->
    total R RS (cproj k) cells (update_phase R RS dblmax dt (phase fs st)) = total R RS (cproj k) cells st.
  Proof.
    intros Hnd HF H0 Hnc.
    rewrite update_phase_total.
    - rewrite flux_phase_total by assumption.
      rewrite (total_all_zero (dproj k)).
      + rewrite Rmult_0_r, Rplus_0_r. apply total_ext. intros j Hj.
        destruct (flux_phase_same fs st j) as (_ & Hc & _). unfold cproj. rewrite Hc. reflexivity.
      + intros j Hj. unfold dproj. destruct (H0 j Hj) as [Hz _]. rewrite Hz. apply get5_zero5.
    - intros j Hj. split; [|apply Hnc; exact Hj].
      destruct (flux_phase_same fs st j) as (_ & _ & _ & Hg & He & _). destruct (H0 j Hj) as [_ [Hg0 He0]].
      unfold no_source. rewrite Hg, He. split; assumption.
  Qed.
End RInst.
