(* C04: proofs over the real-number instance of the flux-exchange model (Cxx/C04_FluxDefs.v):
   antisymmetry of the per-face update for ANY Riemann function, invariance of the totals of the five delta
   accumulators under a flux phase over any list of interior faces, conservation by the conserved update when no
   positivity clamp fires, odd symmetry of the per-face slope limiter, reflecting walls (mirror ghost state),
   non-negativity after the update (R) and of the clamp on binary64 (Coq.Floats specification). *)
From Coq Require Import Reals Lra Lia Bool ZArith List Psatz Floats Permutation.
From CMI Require Import Common.Scalar Cxx.C05_Defs Cxx.C05_Proofs Cxx.C04_Defs Cxx.C04_FluxDefs Cxx.C04_Faces.
Import ListNotations.
Local Open Scope R_scope.

Ltac tup := repeat (match goal with |- (_, _) = (_, _) => apply f_equal2 end).

Section RInst.
  Variable eps gfloor dblmax : R.
  Let RS := ROps eps gfloor.
  Notation rvec := (vec R).
  Notation rcell := (cell R).
  Notation rstate := (state R).
  Variable riemann : R -> rvec -> R -> R -> rvec -> R -> rvec -> flux R.

  (* ---------------- small algebra on v5 ---------------- *)
  Lemma get5_sub5 k a b : get5 R k (sub5 R RS a b) = get5 R k a - get5 R k b.
  Proof. unfold get5, sub5. cbn [c0 c1 c2 c3 c4]. repeat destruct (_ =? _)%Z; reflexivity. Qed.
  Lemma get5_add5 k a b : get5 R k (add5 R RS a b) = get5 R k a + get5 R k b.
  Proof. unfold get5, add5. cbn [c0 c1 c2 c3 c4]. repeat destruct (_ =? _)%Z; reflexivity. Qed.
  Lemma get5_zero5 k : get5 R k (zero5 R RS) = 0.
  Proof. unfold get5, zero5. cbn [c0 c1 c2 c3 c4]. repeat destruct (_ =? _)%Z; reflexivity. Qed.

  (* ---------------- bump only touches delta_conserved ---------------- *)
  Lemma bump_dcons c plus f k :
    get5 R k (dcons R (bump R RS c plus f)) = if plus then get5 R k (dcons R c) + get5 R k f else get5 R k (dcons R c) - get5 R k f.
  Proof. unfold bump. cbn [dcons]. destruct plus; [apply get5_add5|apply get5_sub5]. Qed.

  Definition same_but_delta (c c' : rcell) : Prop :=
    prim R c' = prim R c /\ cons R c' = cons R c /\ grad R c' = grad R c /\ grav R c' = grav R c /\ eterm R c' = eterm R c /\ lims R c' = lims R c.
  Lemma same_but_delta_refl c : same_but_delta c c.
  Proof. unfold same_but_delta; repeat split. Qed.
  Lemma same_but_delta_trans a b c : same_but_delta a b -> same_but_delta b c -> same_but_delta a c.
  Proof. unfold same_but_delta. intros (?&?&?&?&?&?) (?&?&?&?&?&?). repeat split; congruence. Qed.
  Lemma bump_same c plus f : same_but_delta c (bump R RS c plus f).
  Proof. unfold same_but_delta, bump; cbn. repeat split. Qed.

  (* ---------------- one face ---------------- *)
  Variable gamma : R.
  Variable bkind : Z.
  Variables dxs As : rvec.
  Variable dt : R.
  Notation face_step := (apply_face R RS riemann gamma bkind dxs As dt).

  Lemma upd_same (st : rstate) k c : upd R st k c k = c.
  Proof. unfold upd. rewrite Z.eqb_refl. reflexivity. Qed.
  Lemma upd_other (st : rstate) k c j : j <> k -> upd R st k c j = st j.
  Proof. intros H. unfold upd. destruct (Z.eqb_spec j k); [contradiction|reflexivity]. Qed.

  (* the flux the face exchanges, a function of the state BEFORE the update *)
  Definition face_flux (st : rstate) (f : face) : v5 R :=
    match f with
    | Interior a l r => pair_flux R RS riemann gamma a (st l) (st r) (vget R a dxs) (vget R a As) dt
    | Boundary a sgn c => ghost_flux R RS riemann gamma bkind a (st c) (if (sgn <? 0)%Z then sneg RS (vget R a dxs) else vget R a dxs) (vget R a As) dt
    end.

  (* C04 face_update_antisymmetric: for ANY Riemann function and whatever the limiter factor is, the changes written to
     the delta accumulators of the two cells of a face are opposite, component by component; nothing else changes *)
  Lemma face_update_antisymmetric (st : rstate) a l r : l <> r ->
    let st' := face_step st (Interior a l r) in
    (forall k, get5 R k (dcons R (st' l)) - get5 R k (dcons R (st l)) = - (get5 R k (dcons R (st' r)) - get5 R k (dcons R (st r))))
    /\ (forall k, get5 R k (dcons R (st' l)) = get5 R k (dcons R (st l)) - get5 R k (face_flux st (Interior a l r)))
    /\ same_but_delta (st l) (st' l) /\ same_but_delta (st r) (st' r)
    /\ (forall j, j <> l -> j <> r -> st' j = st j).
  Proof.
    intros Hlr st'. unfold st', apply_face.
    set (fl := pair_flux R RS riemann gamma a (st l) (st r) (vget R a dxs) (vget R a As) dt).
    assert (Hl : upd R (upd R st l (bump R RS (st l) false fl)) r
                   (bump R RS (upd R st l (bump R RS (st l) false fl) r) true fl) l = bump R RS (st l) false fl).
    { rewrite upd_other by exact Hlr. apply upd_same. }
    assert (Hr : upd R (upd R st l (bump R RS (st l) false fl)) r
                   (bump R RS (upd R st l (bump R RS (st l) false fl) r) true fl) r = bump R RS (st r) true fl).
    { rewrite upd_same. rewrite upd_other by (intro; apply Hlr; congruence). reflexivity. }
    rewrite Hl, Hr. split; [|split; [|split; [|split]]].
    - intros k. rewrite !bump_dcons. ring.
    - intros k. rewrite bump_dcons. reflexivity.
    - apply bump_same.
    - apply bump_same.
    - intros j Hjl Hjr. rewrite upd_other by exact Hjr. apply upd_other. exact Hjl.
  Qed.

  (* ---------------- totals over a finite set of cells ---------------- *)
  Lemma total_upd_notin proj cells (st : rstate) k c :
    ~ In k cells -> total R RS proj cells (upd R st k c) = total R RS proj cells st.
  Proof.
    induction cells as [|x xs IH]; intros H; [reflexivity|].
    cbn [total fold_right]. fold (total R RS proj xs (upd R st k c)). fold (total R RS proj xs st).
    rewrite IH by (intro; apply H; right; assumption).
    rewrite upd_other by (intro; apply H; left; congruence). reflexivity.
  Qed.

  Lemma total_upd_in proj cells (st : rstate) k c :
    NoDup cells -> In k cells -> total R RS proj cells (upd R st k c) = total R RS proj cells st - proj (st k) + proj c.
  Proof.
    induction cells as [|x xs IH]; intros Hnd Hin; [destruct Hin|].
    inversion Hnd as [|? ? Hx Hxs]; subst.
    cbn [total fold_right]. fold (total R RS proj xs (upd R st k c)). fold (total R RS proj xs st).
    destruct (Z.eq_dec x k) as [->|Hne].
    - rewrite upd_same. rewrite total_upd_notin by exact Hx. cbn. ring.
    - destruct Hin as [->|Hin]; [contradiction|].
      rewrite upd_other by exact Hne. rewrite IH by assumption. cbn. ring.
  Qed.

  Definition dproj (k : Z) (c : rcell) : R := get5 R k (dcons R c).
  Definition cproj (k : Z) (c : rcell) : R := get5 R k (cons R c).

  (* an interior face whose two cells belong to the cell set leaves the total of every delta accumulator unchanged
     (also when both sides are the same cell: a periodic axis one cell wide) *)
  Lemma face_step_total_interior k cells (st : rstate) a l r :
    NoDup cells -> In l cells -> In r cells ->
    total R RS (dproj k) cells (face_step st (Interior a l r)) = total R RS (dproj k) cells st.
  Proof.
    intros Hnd Hl Hr. unfold apply_face.
    set (fl := pair_flux R RS riemann gamma a (st l) (st r) (vget R a dxs) (vget R a As) dt).
    set (st1 := upd R st l (bump R RS (st l) false fl)).
    rewrite total_upd_in by assumption. unfold st1 at 1. rewrite total_upd_in by assumption.
    unfold dproj. rewrite !bump_dcons. ring.
  Qed.

  (* a boundary face takes its flux out of the one cell it touches *)
  Lemma face_step_total_boundary k cells (st : rstate) a sgn c :
    NoDup cells -> In c cells ->
    total R RS (dproj k) cells (face_step st (Boundary a sgn c)) =
    total R RS (dproj k) cells st - get5 R k (face_flux st (Boundary a sgn c)).
  Proof.
    intros Hnd Hc. unfold apply_face, face_flux. rewrite total_upd_in by assumption.
    unfold dproj. rewrite bump_dcons. ring.
  Qed.

  Lemma upd_bump_same (st : rstate) k plus f j : same_but_delta (st j) (upd R st k (bump R RS (st k) plus f) j).
  Proof.
    destruct (Z.eq_dec j k) as [->|Hne].
    - rewrite upd_same. apply bump_same.
    - rewrite upd_other by exact Hne. apply same_but_delta_refl.
  Qed.

  (* a face only writes delta accumulators *)
  Lemma face_step_same (st : rstate) f j : same_but_delta (st j) (face_step st f j).
  Proof.
    destruct f as [a l r|a sgn c]; unfold apply_face.
    - eapply same_but_delta_trans; [|apply upd_bump_same]. apply upd_bump_same.
    - apply upd_bump_same.
  Qed.

  Notation phase := (flux_phase R RS riemann gamma bkind dxs As dt).

  Lemma flux_phase_same fs : forall (st : rstate) j, same_but_delta (st j) (phase fs st j).
  Proof.
    induction fs as [|f fs IH]; intros st j; [apply same_but_delta_refl|].
    unfold flux_phase. cbn [fold_left]. eapply same_but_delta_trans; [apply face_step_same|]. apply IH.
  Qed.

  Definition interior_in (cells : list Z) (f : face) : Prop :=
    match f with Interior _ l r => In l cells /\ In r cells | Boundary _ _ _ => False end.

  (* the flux phase over ANY list of interior faces of the cell set keeps the totals of the five delta accumulators *)
  Lemma flux_phase_total k cells fs :
    NoDup cells -> Forall (interior_in cells) fs ->
    forall st : rstate, total R RS (dproj k) cells (phase fs st) = total R RS (dproj k) cells st.
  Proof.
    intros Hnd. induction fs as [|f fs IH]; intros HF st; [reflexivity|].
    inversion HF as [|? ? Hf Hfs]; subst.
    unfold flux_phase. cbn [fold_left]. fold (phase fs (face_step st f)).
    rewrite IH by exact Hfs.
    destruct f as [a l r|a sgn c]; [|destruct Hf].
    destruct Hf. apply face_step_total_interior; assumption.
  Qed.

  (* ---------------- conserved update ---------------- *)
  Lemma smax0_nonneg x : 0 <= smax RS x 0.
  Proof. unfold smax. cbn. destruct (Rltb x 0) eqn:E; [lra|]. apply Rltb_false in E. exact E. Qed.
  Lemma smax0_id x : 0 <= x -> smax RS x 0 = x.
  Proof. intros H. unfold smax. cbn. destruct (Rltb x 0) eqn:E; [|reflexivity]. apply Rltb_true in E. lra. Qed.

  Definition no_clamp (c : rcell) : Prop :=
    0 <= c0 R (cons R c) + c0 R (dcons R c) * dt /\ 0 <= c4 R (cons R c) + c4 R (dcons R c) * dt.
  Definition no_source (c : rcell) : Prop := grav R c = vzero R RS /\ eterm R c = 0.

  Lemma update_conserved_components c :
    no_source c ->
    let c' := update_conserved R RS dblmax c dt in
    c0 R (cons R c') = smax RS (c0 R (cons R c) + c0 R (dcons R c) * dt) 0
    /\ c1 R (cons R c') = c1 R (cons R c) + c1 R (dcons R c) * dt
    /\ c2 R (cons R c') = c2 R (cons R c) + c2 R (dcons R c) * dt
    /\ c3 R (cons R c') = c3 R (cons R c) + c3 R (dcons R c) * dt
    /\ c4 R (cons R c') = smax RS (c4 R (cons R c) + c4 R (dcons R c) * dt) 0.
  Proof.
    intros [Hg He]. unfold update_conserved. rewrite Hg, He. cbn [cons c0 c1 c2 c3 c4].
    unfold vzero, mkv, vx, vy, vz, vdot, mom. cbn [fst snd].
    repeat split; try reflexivity; try (cbn; ring).
    f_equal. cbn. ring.
  Qed.

  Lemma update_conserved_cons k c :
    no_source c -> no_clamp c ->
    cproj k (update_conserved R RS dblmax c dt) = cproj k c + dproj k c * dt.
  Proof.
    intros Hs [H0 H4]. destruct (update_conserved_components c Hs) as (E0 & E1 & E2 & E3 & E4).
    rewrite smax0_id in E0 by exact H0. rewrite smax0_id in E4 by exact H4.
    unfold cproj, dproj, get5. repeat destruct (_ =? _)%Z; assumption.
  Qed.

  (* after the update mass and energy are non-negative, whatever the input *)
  Lemma update_conserved_nonneg c : 0 <= c0 R (cons R (update_conserved R RS dblmax c dt)) /\ 0 <= c4 R (cons R (update_conserved R RS dblmax c dt)).
  Proof. unfold update_conserved. cbn [cons c0 c4]. split; apply smax0_nonneg. Qed.

  Lemma update_phase_total k cells (st : rstate) :
    (forall j, In j cells -> no_source (st j) /\ no_clamp (st j)) ->
    total R RS (cproj k) cells (update_phase R RS dblmax dt st) = total R RS (cproj k) cells st + dt * total R RS (dproj k) cells st.
  Proof.
    induction cells as [|x xs IH]; intros H; [cbn; ring|].
    cbn [total fold_right].
    fold (total R RS (cproj k) xs (update_phase R RS dblmax dt st)). fold (total R RS (cproj k) xs st). fold (total R RS (dproj k) xs st).
    rewrite IH by (intros j Hj; apply H; right; exact Hj).
    unfold update_phase at 1. destruct (H x (or_introl eq_refl)) as [Hs Hc].
    rewrite update_conserved_cons by assumption. cbn. ring.
  Qed.

  Lemma total_all_zero proj cells (st : rstate) : (forall j, In j cells -> proj (st j) = 0) -> total R RS proj cells st = 0.
  Proof.
    induction cells as [|x xs IH]; intros H; [reflexivity|].
    cbn [total fold_right]. fold (total R RS proj xs st). rewrite IH by (intros j Hj; apply H; right; exact Hj).
    rewrite (H x (or_introl eq_refl)). cbn. ring.
  Qed.

  Lemma total_ext proj cells (st st' : rstate) : (forall j, In j cells -> proj (st j) = proj (st' j)) -> total R RS proj cells st = total R RS proj cells st'.
  Proof.
    induction cells as [|x xs IH]; intros H; [reflexivity|].
    cbn [total fold_right]. fold (total R RS proj xs st). fold (total R RS proj xs st').
    rewrite IH by (intros j Hj; apply H; right; exact Hj). rewrite (H x (or_introl eq_refl)). reflexivity.
  Qed.

  (* C04 periodic_step_conserves, stated over an abstract finite cell set and ANY list of interior faces of it:
     deltas start at zero, no source terms, no clamp fires => the totals of the five conserved variables are unchanged
     by flux phase + conserved update *)
  Theorem step_conserves_generic k cells fs (st : rstate) :
    NoDup cells -> Forall (interior_in cells) fs ->
    (forall j, In j cells -> dcons R (st j) = zero5 R RS /\ no_source (st j)) ->
    (forall j, In j cells -> no_clamp (phase fs st j)) ->
    total R RS (cproj k) cells (update_phase R RS dblmax dt (phase fs st)) = total R RS (cproj k) cells st.
  Proof.
    intros Hnd HF H0 Hnc.
    rewrite update_phase_total.
    - rewrite flux_phase_total by assumption.
      rewrite (total_all_zero (dproj k)).
      + rewrite Rmult_0_r, Rplus_0_r. apply total_ext. intros j Hj.
        destruct (flux_phase_same fs st j) as (_ & Hc & _). unfold cproj. rewrite Hc. reflexivity.
      + intros j Hj. unfold dproj. destruct (H0 j Hj) as [Hz _]. rewrite Hz. apply get5_zero5.
    - intros j Hj. split; [|apply Hnc; exact Hj].
      destruct (flux_phase_same fs st j) as (_ & _ & _ & Hg & He & _). destruct (H0 j Hj) as [_ [Hg0 He0]].
      unfold no_source. rewrite Hg, He. split; assumption.
  Qed.

  (* ---------------- primitive update: density and pressure are non-negative, whatever the input ---------------- *)
  Lemma set_primitive_nonneg g maxv pcf T xH c invvol :
    let c' := set_primitive R RS g maxv pcf T xH c invvol in
    0 <= c0 R (prim R c') /\ 0 <= c4 R (prim R c').
  Proof.
    unfold set_primitive.
    destruct (sltb RS (s0 RS) (c0 R (cons R c))); [|cbn; split; lra].
    destruct (negb (sisinf RS (sdiv RS (s1 RS) (c0 R (cons R c))))); [|cbn; split; lra].
    cbn [prim c0 c4]. split; apply smax0_nonneg.
  Qed.

  (* ---------------- Hydro::limit is odd ---------------- *)
  Lemma smin_opp a b : smin RS (- a) (- b) = - smax RS a b.
  Proof.
    unfold smin, smax; cbn. destruct (Rltb (- b) (- a)) eqn:E1, (Rltb a b) eqn:E2; try reflexivity.
    - apply Rltb_true in E1; apply Rltb_false in E2; lra.
    - apply Rltb_false in E1; apply Rltb_true in E2; lra.
  Qed.
  Lemma smax_opp a b : smax RS (- a) (- b) = - smin RS a b.
  Proof.
    unfold smin, smax; cbn. destruct (Rltb (- a) (- b)) eqn:E1, (Rltb b a) eqn:E2; try reflexivity.
    - apply Rltb_true in E1; apply Rltb_false in E2; lra.
    - apply Rltb_false in E1; apply Rltb_true in E2; lra.
  Qed.

  Definition plus_bound (pmax d1 : R) : R :=
    if Rltb 0 ((pmax + d1) * pmax) then pmax + d1 else pmax * Rabs pmax / (Rabs pmax + d1 + eps).
  Definition minus_bound (pmin d1 : R) : R :=
    if Rltb 0 ((pmin - d1) * pmin) then pmin - d1 else pmin * Rabs pmin / (Rabs pmin + d1 + eps).

  Lemma limit_unfold m a b d :
    limit R RS m a b d =
    if Reqb a b then a
    else if Rltb a b then smax RS (minus_bound (smin RS a b) (/ 2 * Rabs (a - b))) (smin RS (a + d * (b - a) + / 4 * Rabs (a - b)) m)
    else smin RS (plus_bound (smax RS a b) (/ 2 * Rabs (a - b))) (smax RS (a + d * (b - a) - / 4 * Rabs (a - b)) m).
  Proof.
    unfold limit, plus_bound, minus_bound. cbn [shalf squarter sabs sadd ssub smul sdiv sltb seqb s0 sdblmin RS ROps].
    replace (1 / 2) with (/ 2) by lra. replace (1 / 4) with (/ 4) by lra. reflexivity.
  Qed.

  Lemma plus_bound_opp x d1 : plus_bound (- x) d1 = - minus_bound x d1.
  Proof.
    unfold plus_bound, minus_bound. replace ((- x + d1) * - x) with ((x - d1) * x) by ring. rewrite Rabs_Ropp.
    destruct (Rltb 0 ((x - d1) * x)); [ring|]. unfold Rdiv. ring.
  Qed.
  Lemma minus_bound_opp x d1 : minus_bound (- x) d1 = - plus_bound x d1.
  Proof.
    unfold plus_bound, minus_bound. replace ((- x - d1) * - x) with ((x + d1) * x) by ring. rewrite Rabs_Ropp.
    destruct (Rltb 0 ((x + d1) * x)); [ring|]. unfold Rdiv. ring.
  Qed.

  Lemma limit_odd m a b d : limit R RS (- m) (- a) (- b) d = - limit R RS m a b d.
  Proof.
    rewrite !limit_unfold.
    replace (- a - - b) with (- (a - b)) by ring. rewrite Rabs_Ropp.
    destruct (Reqb (- a) (- b)) eqn:E1, (Reqb a b) eqn:E2; try reflexivity.
    - apply Reqb_true in E1. apply Reqb_false in E2. exfalso. apply E2. lra.
    - apply Reqb_false in E1. apply Reqb_true in E2. exfalso. apply E1. lra.
    - apply Reqb_false in E2.
      destruct (Rltb (- a) (- b)) eqn:E3, (Rltb a b) eqn:E4.
      + apply Rltb_true in E3; apply Rltb_true in E4; lra.
      + rewrite smin_opp, minus_bound_opp.
        replace (- a + d * (- b - - a) + / 4 * Rabs (a - b)) with (- (a + d * (b - a) - / 4 * Rabs (a - b))) by ring.
        rewrite smin_opp, smax_opp. reflexivity.
      + rewrite smax_opp, plus_bound_opp.
        replace (- a + d * (- b - - a) - / 4 * Rabs (a - b)) with (- (a + d * (b - a) + / 4 * Rabs (a - b))) by ring.
        rewrite smax_opp, smin_opp. reflexivity.
      + apply Rltb_false in E3; apply Rltb_false in E4. exfalso. apply E2. lra.
  Qed.

  Lemma limit_same m a d : limit R RS m a a d = a.
  Proof. rewrite limit_unfold. destruct (Reqb a a) eqn:E; [reflexivity|]. apply Reqb_false in E. contradiction. Qed.

  (* ---------------- reflecting wall: the ghost state is the mirror image of the cell's face state ---------------- *)
  Definition mirror_vec (i : Z) (v : rvec) : rvec := vset R i v (- vget R i v).

  Lemma reflective_ghost_input i (L : rcell) dx : (0 <= i <= 2)%Z ->
    exists vL, ghost_input R RS 2 i L dx =
      (smax RS (c0 R (prim R L)) 0, vL, smax RS (c4 R (prim R L)) 0,
       smax RS (c0 R (prim R L)) 0, mirror_vec i vL, smax RS (c4 R (prim R L)) 0).
  Proof.
    intros Hi. assert (Hc : i = 0%Z \/ i = 1%Z \/ i = 2%Z) by lia.
    destruct L as [[p0 p1 p2 p3 p4] cs ds [[[a0 b0] e0] [[a1 b1] e1] [[a2 b2] e2] [[a3 b3] e3] [[a4 b4] e4]] gv et lm].
    unfold ghost_input, ghost_state, face_states, mirror_vec.
    destruct Hc as [ -> | [ -> | -> ] ];
      cbn [prim grad Z.eqb Z.add Pos.eqb Pos.add Pos.succ gmap gget gset get5 set5 vget vset c0 c1 c2 c3 c4 gr0 gr1 gr2 gr3 gr4
           vx vy vz mkv fst snd];
      rewrite !limit_same; eexists; tup; try reflexivity;
      cbn [vx vy vz mkv fst snd]; tup; try reflexivity;
      rewrite <- limit_odd; cbn; f_equal;
      match goal with |- limit R RS ?x ?a ?b ?d = limit R RS ?x' ?a' ?b' ?d' =>
        replace x with x' by ring; replace b' with b by ring; reflexivity end.
  Qed.

  (* ---------------- reflecting walls: no mass and no energy through a boundary face ---------------- *)
  Section Reflective.
    (* which wall states the Riemann function treats as a mirror problem without mass/energy exchange; for HLLC this is
       C05_hllc_mirror_no_mass_energy_flux: gas not running into the wall faster than 1.5 sound speeds *)
    Variable wall_ok : Z -> R -> rvec -> R -> rvec -> Prop.      (* axis, rho, v, P, outward normal *)
    Hypothesis riemann_mirror : forall i rho v P n, (0 <= i <= 2)%Z -> wall_ok i rho v P n ->
      let Fl := riemann rho v P rho (mirror_vec i v) P n in fst (fst Fl) = 0 /\ snd Fl = 0.
    Hypothesis Hreflective : bkind = 2%Z.

    Definition wall_dx (a sgn : Z) : R := if (sgn <? 0)%Z then sneg RS (vget R a dxs) else vget R a dxs.
    Definition wall_admissible (c : rcell) (a sgn : Z) : Prop :=
      let '(rho, v, P, _, _, _) := ghost_input R RS 2 a c (wall_dx a sgn) in
      wall_ok a rho v P (vset R a (vzero R RS) (orientation R RS (wall_dx a sgn))).

    Lemma reflective_face_no_mass_energy (st : rstate) a sgn c :
      (0 <= a <= 2)%Z -> wall_admissible (st c) a sgn ->
      get5 R 0 (face_flux st (Boundary a sgn c)) = 0 /\ get5 R 4 (face_flux st (Boundary a sgn c)) = 0.
    Proof.
      intros Ha Hw. unfold face_flux, ghost_flux, ghost_flux_ff. rewrite Hreflective. fold (wall_dx a sgn).
      unfold wall_admissible in Hw.
      destruct (reflective_ghost_input a (st c) (wall_dx a sgn) Ha) as [vL E]. rewrite E in *.
      pose proof (riemann_mirror a _ _ _ _ Ha Hw) as Hm. cbv zeta in Hm.
      destruct (riemann (smax RS (c0 R (prim R (st c))) 0) vL (smax RS (c4 R (prim R (st c))) 0)
                        (smax RS (c0 R (prim R (st c))) 0) (mirror_vec a vL) (smax RS (c4 R (prim R (st c))) 0)
                        (vset R a (vzero R RS) (orientation R RS (wall_dx a sgn)))) as [[m p] e].
      cbn [fst snd] in Hm. destruct Hm as [-> ->].
      unfold scale_flux, flux5, get5. cbn. split; ring.
    Qed.

    Lemma wall_admissible_same c c' a sgn : same_but_delta c c' -> wall_admissible c a sgn -> wall_admissible c' a sgn.
    Proof. intros (Hp & _ & Hg & _). unfold wall_admissible, ghost_input. rewrite Hp, Hg. exact (fun x => x). Qed.

    Definition face_ok (cells : list Z) (st0 : rstate) (f : face) : Prop :=
      match f with
      | Interior _ l r => In l cells /\ In r cells
      | Boundary a sgn c => In c cells /\ (0 <= a <= 2)%Z /\ wall_admissible (st0 c) a sgn
      end.

    Lemma reflective_phase_total k cells fs (st0 : rstate) :
      (k = 0 \/ k = 4)%Z -> NoDup cells -> Forall (face_ok cells st0) fs ->
      forall st : rstate, (forall j, same_but_delta (st0 j) (st j)) ->
      total R RS (dproj k) cells (phase fs st) = total R RS (dproj k) cells st.
    Proof.
      intros Hk Hnd. induction fs as [|f fs IH]; intros HF st Hs; [reflexivity|].
      pose proof (Forall_inv HF) as Hf. pose proof (Forall_inv_tail HF) as Hfs.
      unfold flux_phase. cbn [fold_left]. fold (phase fs (face_step st f)).
      rewrite IH; [|exact Hfs|intros j; eapply same_but_delta_trans; [apply Hs|apply face_step_same]].
      destruct f as [a l r|a sgn c].
      - destruct Hf. apply face_step_total_interior; assumption.
      - destruct Hf as (Hc & Ha & Hw). rewrite face_step_total_boundary by assumption.
        destruct (reflective_face_no_mass_energy st a sgn c Ha (wall_admissible_same _ _ a sgn (Hs c) Hw)) as [E0 E4].
        destruct Hk as [-> | ->]; [rewrite E0|rewrite E4]; ring.
    Qed.

    (* C04 reflective_step_conserves_mass_energy: interior faces and reflecting boundary faces whose wall state the Riemann
       function treats as a mirror problem; no source terms, no clamp => total mass (k = 0) and energy (k = 4) unchanged *)
    Theorem reflective_step_conserves_generic k cells fs (st : rstate) :
      (k = 0 \/ k = 4)%Z -> NoDup cells -> Forall (face_ok cells st) fs ->
      (forall j, In j cells -> dcons R (st j) = zero5 R RS /\ no_source (st j)) ->
      (forall j, In j cells -> no_clamp (phase fs st j)) ->
      total R RS (cproj k) cells (update_phase R RS dblmax dt (phase fs st)) = total R RS (cproj k) cells st.
    Proof.
      intros Hk Hnd HF H0 Hnc.
      rewrite update_phase_total.
      - rewrite (reflective_phase_total k cells fs st Hk Hnd HF st (fun j => same_but_delta_refl (st j))).
        rewrite (total_all_zero (dproj k)).
        + rewrite Rmult_0_r, Rplus_0_r. apply total_ext. intros j Hj.
          destruct (flux_phase_same fs st j) as (_ & Hc & _). unfold cproj. rewrite Hc. reflexivity.
        + intros j Hj. unfold dproj. destruct (H0 j Hj) as [Hz _]. rewrite Hz. apply get5_zero5.
      - intros j Hj. split; [|apply Hnc; exact Hj].
        destruct (flux_phase_same fs st j) as (_ & _ & _ & Hg & He & _). destruct (H0 j Hj) as [_ [Hg0 He0]].
        unfold no_source. rewrite Hg, He. split; assumption.
    Qed.
  End Reflective.
End RInst.

(* ---------------- binary64: what the positivity clamp std::max(x, 0.) guarantees ---------------- *)
Section FloatClamp.
  Variable pw : float -> float -> float.
  Variable cst : Z -> Z -> float.
  Let FS := FOps pw cst.

  Lemma f_not_lt_zero_ge (x : float) : PrimFloat.ltb x 0 = false -> PrimFloat.is_nan x = false -> PrimFloat.leb 0 x = true.
  Proof.
    intros E Hn. rewrite ltb_spec in E. rewrite leb_spec. unfold PrimFloat.is_nan in Hn. rewrite eqb_spec in Hn.
    replace (Prim2SF 0%float) with (S754_zero false) in * by reflexivity.
    destruct (Prim2SF x) as [s|s| |s m e].
    - reflexivity.
    - destruct s; [discriminate E|reflexivity].
    - discriminate Hn.
    - destruct s; [discriminate E|reflexivity].
  Qed.

  (* for every non-NaN argument the clamp returns a value >= 0 (finiteness is NOT claimed: +infinity passes) *)
  Lemma f_clamp_nonneg (x : float) : PrimFloat.is_nan x = false -> PrimFloat.leb 0 (smax FS x 0%float) = true.
  Proof.
    intros Hn. unfold smax. cbn [sltb FS FOps].
    destruct (PrimFloat.ltb x 0) eqn:E; [reflexivity|]. apply f_not_lt_zero_ge; assumption.
  Qed.

  (* ... and a NaN goes through the clamp: (NaN < 0.) is false, so std::max(NaN, 0.) is NaN *)
  Lemma f_clamp_nan : PrimFloat.is_nan (smax FS nan 0%float) = true.
  Proof. reflexivity. Qed.

  (* whatever goes in: what comes out of the clamp is >= 0 unless it is NaN *)
  Lemma f_clamp_nonneg_or_nan (x : float) :
    PrimFloat.is_nan (smax FS x 0%float) = false -> PrimFloat.leb 0 (smax FS x 0%float) = true.
  Proof.
    unfold smax. cbn [sltb FS FOps]. destruct (PrimFloat.ltb x 0) eqn:E; [reflexivity|].
    intros H. apply f_not_lt_zero_ge; assumption.
  Qed.

  (* after update_conserved_variables the mass and the energy of a cell are >= 0 unless they are NaN;
     after set_primitive_variables the same for density and pressure *)
  Lemma f_update_nonneg_or_nan (dblmax : float) (c : cell float) (dt : float) :
    let c' := update_conserved float FS dblmax c dt in
    (PrimFloat.is_nan (c0 float (cons float c')) = false -> PrimFloat.leb 0 (c0 float (cons float c')) = true)
    /\ (PrimFloat.is_nan (c4 float (cons float c')) = false -> PrimFloat.leb 0 (c4 float (cons float c')) = true).
  Proof. unfold update_conserved. cbn [cons c0 c4]. split; apply f_clamp_nonneg_or_nan. Qed.

  Lemma f_set_primitive_nonneg_or_nan g maxv pcf T xH (c : cell float) invvol :
    let c' := set_primitive float FS g maxv pcf T xH c invvol in
    (PrimFloat.is_nan (c0 float (prim float c')) = false -> PrimFloat.leb 0 (c0 float (prim float c')) = true)
    /\ (PrimFloat.is_nan (c4 float (prim float c')) = false -> PrimFloat.leb 0 (c4 float (prim float c')) = true).
  Proof.
    unfold set_primitive.
    destruct (sltb FS (s0 FS) (c0 float (cons float c))); [|cbn [prim c0 c4]; split; reflexivity].
    destruct (negb (sisinf FS (sdiv FS (s1 FS) (c0 float (cons float c))))); [|cbn [prim c0 c4]; split; reflexivity].
    cbn [prim c0 c4]. split; apply f_clamp_nonneg_or_nan.
  Qed.
End FloatClamp.

(* ---------------- composition with faces_once: the sweeps of ANY layout ---------------- *)
Section Layouts.
  Variable eps gfloor dblmax : R.
  Let RS := ROps eps gfloor.
  Variable riemann : R -> vec R -> R -> R -> vec R -> R -> vec R -> flux R.
  Variable gamma : R.
  Variables dxs As : vec R.
  Variable dt : R.

  Definition all_cells (L : layout) : list Z := range (NX L * NY L * NZ L).

  Lemma in_global_faces_canonical L f : wf_layout L -> In f (global_faces L) -> In f (canonical_faces L).
  Proof. intros Hwf H. eapply Permutation_in; [apply faces_once; exact Hwf|exact H]. Qed.

  (* in a fully periodic box every visit of the sweeps is an interior face between two cells of the box *)
  Lemma periodic_faces_interior L :
    wf_layout L -> px L = true -> py L = true -> pz L = true -> Forall (interior_in (all_cells L)) (global_faces L).
  Proof.
    intros Hwf Hx Hy Hz. apply Forall_forall. intros f Hf. apply in_global_faces_canonical in Hf; [|exact Hwf].
    pose proof (canonical_faces_cells_in_range L Hwf f Hf) as Hr.
    destruct f as [a l r|a sgn c].
    - unfold interior_in, all_cells. rewrite !in_range. exact Hr.
    - exfalso. exact (canonical_periodic_no_boundary L Hx Hy Hz a sgn c Hf).
  Qed.

  (* C04 periodic_step_conserves: in a periodic box without source terms, on ANY subgrid layout, the flux phase driven by
     the sweeps' face lists followed by the conserved update leaves the totals of the five conserved variables unchanged
     as long as no positivity clamp fires; for ANY Riemann function *)
  Theorem periodic_step_conserves L bkind k (st : state R) :
    wf_layout L -> px L = true -> py L = true -> pz L = true ->
    (forall j, In j (all_cells L) -> dcons R (st j) = zero5 R RS /\ no_source eps gfloor (st j)) ->
    (forall j, In j (all_cells L) -> no_clamp dt (flux_phase R RS riemann gamma bkind dxs As dt (global_faces L) st j)) ->
    total R RS (cproj k) (all_cells L) (update_phase R RS dblmax dt (flux_phase R RS riemann gamma bkind dxs As dt (global_faces L) st))
    = total R RS (cproj k) (all_cells L) st.
  Proof.
    intros Hwf Hx Hy Hz H0 Hnc.
    apply step_conserves_generic; try assumption.
    - apply NoDup_range.
    - apply periodic_faces_interior; assumption.
  Qed.

  (* the same with reflecting walls on the non-periodic box faces, for mass (k = 0) and energy (k = 4), given a Riemann
     function that exchanges no mass and no energy between mirror states admitted by [wall_ok] *)
  Theorem reflective_step_conserves_mass_energy (wall_ok : Z -> R -> vec R -> R -> vec R -> Prop) L k (st : state R) :
    (forall i rho v P n, (0 <= i <= 2)%Z -> wall_ok i rho v P n ->
       let Fl := riemann rho v P rho (mirror_vec i v) P n in fst (fst Fl) = 0 /\ snd Fl = 0) ->
    wf_layout L -> (k = 0 \/ k = 4)%Z ->
    (forall a sgn c, In (Boundary a sgn c) (canonical_faces L) -> wall_admissible eps gfloor dxs wall_ok (st c) a sgn) ->
    (forall j, In j (all_cells L) -> dcons R (st j) = zero5 R RS /\ no_source eps gfloor (st j)) ->
    (forall j, In j (all_cells L) -> no_clamp dt (flux_phase R RS riemann gamma 2 dxs As dt (global_faces L) st j)) ->
    total R RS (cproj k) (all_cells L) (update_phase R RS dblmax dt (flux_phase R RS riemann gamma 2 dxs As dt (global_faces L) st))
    = total R RS (cproj k) (all_cells L) st.
  Proof.
    intros Hm Hwf Hk Hw H0 Hnc.
    apply (reflective_step_conserves_generic eps gfloor dblmax riemann gamma 2 dxs As dt wall_ok Hm eq_refl); try assumption.
    - apply NoDup_range.
    - apply Forall_forall. intros f Hf. apply in_global_faces_canonical in Hf; [|exact Hwf].
      pose proof (canonical_faces_cells_in_range L Hwf f Hf) as Hr.
      destruct f as [a l r|a sgn c]; unfold face_ok, all_cells.
      + rewrite !in_range. exact Hr.
      + rewrite in_range. split; [exact Hr|]. split; [|apply Hw; exact Hf].
        apply (canonical_faces_spec_boundary L Hwf) in Hf. destruct Hf as (X & Y & W & _ & _ & _ & _ & [H|[H|H]]); lia.
  Qed.
End Layouts.

(* ---------------- the mirror hypothesis holds for the model of the HLLC solver (C05) ---------------- *)
Local Open Scope R_scope.
Section HLLCWall.
  Variable gfloor gamma : R.
  Let RS := ROps 0 gfloor.
  Let c := mk_consts R RS gamma.

  (* the Riemann function Hydro uses: HLLCRiemannSolver::solve_for_flux(..., normal) with the face at rest *)
  Definition hllc_riemann (rhoL : R) (uL : vec R) (PL rhoR : R) (uR : vec R) (PR : R) (n : vec R) : flux R :=
    hllc_flux R RS c false false rhoL uL PL rhoR uR PR n (vzero R RS).

  (* wall state admitted: positive density and pressure, outward unit normal along axis i, normal velocity vn towards the
     wall below 1.5 sound speeds and not receding fast enough to open a vacuum *)
  Definition hllc_wall_ok (i : Z) (rho : R) (v : vec R) (P : R) (n : vec R) : Prop :=
    0 < rho /\ 0 < P /\ (exists o, (o = 1 \/ o = -1) /\ n = vset R i (vzero R RS) o) /\
    let a := R_sqrt.sqrt (gamma * P / rho) in let vn := vdot R RS v n in
    - (2 / (gamma - 1) * a) < vn < 3 / 2 * a.

  Lemma hllc_wall_mirror : 1 < gamma -> gfloor <= gamma ->
    forall i rho v P n, (0 <= i <= 2)%Z -> hllc_wall_ok i rho v P n ->
    let Fl := hllc_riemann rho v P rho (mirror_vec i v) P n in fst (fst Fl) = 0 /\ snd Fl = 0.
  Proof.
    intros Hg Hfl i rho v P n Hi (Hrho & HP & (o & Ho & Hn) & Hv). cbv zeta in Hv |- *.
    destruct (mk_consts_spec gfloor gamma Hfl ltac:(lra)) as (Kg & Kq & Kt & _). fold RS in Kg, Kq, Kt. fold c in Kg, Kq, Kt.
    assert (Hquot : 0 < gamma * P / rho) by (apply Rdiv_lt_0_compat; [nra|lra]).
    set (a := R_sqrt.sqrt (gamma * P / rho)) in *.
    assert (Ha : 0 < a) by (apply sqrt_lt_R0; exact Hquot).
    assert (Haa : a * a = gamma * P / rho) by (apply sqrt_sqrt; lra).
    set (vn := vdot R RS v n) in *.
    unfold hllc_riemann, hllc_flux, hllc_flux_b.
    cbn [sdiv sadd s1 sdblmin RS ROps].
    replace (1 / (rho + 0)) with (/ rho) by (field; lra). replace (1 / (P + 0)) with (/ P) by (field; lra).
    assert (Hvac : is_vacuum R RS rho P (/ rho) (/ P) = false).
    { unfold is_vacuum. cbn [seqb sisinf s0 RS ROps]. 
      destruct (Reqb rho 0) eqn:E1; [apply Reqb_true in E1; lra|].
      destruct (Reqb P 0) eqn:E2; [apply Reqb_true in E2; lra|]. reflexivity. }
    rewrite Hvac. cbn [andb orb].
    assert (HaL : ssqrt RS (smul RS (smul RS (gam R c) P) (/ rho)) = a).
    { cbn [ssqrt smul RS ROps]. rewrite Kg. unfold a. f_equal. }
    rewrite HaL.
    assert (HvL : vdot R RS (vsub R RS v (vzero R RS)) n = vn).
    { unfold vn. destruct v as [[v1 v2] v3], n as [[n1 n2] n3]. unfold vdot, vsub, vzero, mkv, vx, vy, vz. cbn. ring. }
    assert (HvR : vdot R RS (vsub R RS (mirror_vec i v) (vzero R RS)) n = - vn).
    { unfold vn. rewrite Hn. destruct v as [[v1 v2] v3]. assert (Hc : i = 0%Z \/ i = 1%Z \/ i = 2%Z) by lia.
      destruct Hc as [ -> | [ -> | -> ] ]; unfold mirror_vec, vdot, vsub, vzero, vset, vget, mkv, vx, vy, vz; cbn; ring. }
    rewrite HvL, HvR.
    assert (Hbr : sleb RS (smul RS (tdgm1 R c) (a + a)) (ssub RS (- vn) vn) = false).
    { cbn [sleb smul ssub RS ROps]. apply Rleb_false. rewrite Kt. lra. }
    rewrite Hbr.
    pose proof (hllc_mirror gfloor c rho (vsub R RS v (vzero R RS)) (vsub R RS (mirror_vec i v) (vzero R RS)) P vn a n gamma
                  Hrho HP Ha Haa Hg Kq ltac:(lra)) as Hm. cbv zeta in Hm. fold RS in Hm.
    cbn [fst].
    destruct (fst (hllc_star R RS c false rho (vsub R RS v (vzero R RS)) P vn a (/ rho) (/ P) rho
                    (vsub R RS (mirror_vec i v) (vzero R RS)) P (- vn) a (/ rho) (/ P) n)) as [[m p] e].
    cbn [fst snd] in Hm. destruct Hm as [-> ->].
    unfold deboost. cbn [fst snd]. split; [reflexivity|].
    destruct p as [[p1 p2] p3]. unfold vdot, vnorm2, vzero, mkv, vx, vy, vz. cbn. ring.
  Qed.
End HLLCWall.

(* ---------------- the hypotheses of the theorems are satisfiable ---------------- *)
Section Satisfiable.
  (* a wall state the HLLC hypothesis admits: unit gas at rest next to the +x wall, gamma = 2 *)
  Example hllc_wall_ok_satisfiable : hllc_wall_ok 1 2 0 1 (0, 0, 0) 1 (vset R 0 (vzero R (ROps 0 1)) 1).
  Proof.
    unfold hllc_wall_ok. split; [lra|]. split; [lra|]. split; [exists 1; split; [left; reflexivity|reflexivity]|].
    cbv zeta. assert (H : 0 < R_sqrt.sqrt (2 * 1 / 1)) by (apply sqrt_lt_R0; lra).
    unfold vdot, vset, vzero, mkv, vx, vy, vz. cbn. split; lra.
  Qed.

  (* the premises of periodic_step_conserves hold e.g. for any Riemann function, any periodic layout, any state with non-negative
     mass and energy, zeroed accumulators, no sources, and a zero time step (and by continuity for small ones) *)
  Example periodic_hypotheses_satisfiable eps gfloor riemann gamma dxs As L bkind (st : state R) :
    wf_layout L ->
    (forall j, dcons R (st j) = zero5 R (ROps eps gfloor) /\ no_source eps gfloor (st j) /\ 0 <= c0 R (cons R (st j)) /\ 0 <= c4 R (cons R (st j))) ->
    (forall j, In j (all_cells L) -> dcons R (st j) = zero5 R (ROps eps gfloor) /\ no_source eps gfloor (st j))
    /\ (forall j, In j (all_cells L) -> no_clamp 0 (flux_phase R (ROps eps gfloor) riemann gamma bkind dxs As 0 (global_faces L) st j)).
  Proof.
    intros _ H. split.
    - intros j _. destruct (H j) as (A & B & _). split; assumption.
    - intros j _. destruct (H j) as (_ & _ & A & B).
      destruct (flux_phase_same eps gfloor riemann gamma bkind dxs As 0 (global_faces L) st j) as (_ & Hc & _).
      unfold no_clamp. rewrite Hc. split; lra.
  Qed.
End Satisfiable.
