(* C13: lemmas about the model of src/RandomGenerator.hpp (Cxx/C13_Defs.v). *)
From Coq Require Import ZArith List Bool Lia.
From CMI Require Import Cxx.C13_Defs.
Import ListNotations.
Local Open Scope Z_scope.

(* ------------------------------------------------------------------ lists *)
Lemma length_upd_nat : forall l n v, length (upd_nat l n v) = length l.
Proof. induction l as [|a l IH]; intros [|n] v; cbn [upd_nat length]; auto. Qed.

Lemma length_upd : forall l i v, length (upd l i v) = length l.
Proof. intros. apply length_upd_nat. Qed.

Lemma nth_upd_nat_same : forall l n v, (n < length l)%nat -> nth n (upd_nat l n v) 0 = v.
Proof.
  induction l as [|a l IH]; intros [|n] v H; cbn [upd_nat nth length] in *; try lia; auto.
  apply IH. lia.
Qed.

Lemma nth_upd_nat_other : forall l n m v, n <> m -> nth m (upd_nat l n v) 0 = nth m l 0.
Proof.
  induction l as [|a l IH]; intros [|n] [|m] v H; cbn [upd_nat nth]; auto; try congruence.
Qed.

Lemma zn_upd_same : forall l i v, 0 <= i < Z.of_nat (length l) -> zn (upd l i v) i = v.
Proof. intros. unfold zn, upd. apply nth_upd_nat_same. lia. Qed.

Lemma zn_upd_other : forall l i j v, 0 <= i -> 0 <= j -> i <> j -> zn (upd l i v) j = zn l j.
Proof. intros. unfold zn, upd. apply nth_upd_nat_other. lia. Qed.

Lemma Forall_upd_nat : forall (P : Z -> Prop) l n v, Forall P l -> P v -> Forall P (upd_nat l n v).
Proof.
  induction l as [|a l IH]; intros n v Hl Hv; destruct n; cbn [upd_nat]; auto.
  - inversion Hl; subst. constructor; auto.
  - inversion Hl; subst. constructor; auto.
Qed.

Lemma Forall_zn : forall (P : Z -> Prop) l i, Forall P l -> 0 <= i < Z.of_nat (length l) -> P (zn l i).
Proof.
  intros P l i Hl Hi. unfold zn. rewrite Forall_forall in Hl. apply Hl. apply nth_In. lia.
Qed.

Lemma iter_S_r : forall (A : Type) n (f : A -> A) a, iter (S n) f a = f (iter n f a).
Proof. induction n; intros; cbn [iter] in *; auto. Qed.

Lemma iter_add : forall (A : Type) n m (f : A -> A) a, iter (n + m) f a = iter m f (iter n f a).
Proof. induction n; intros; cbn [iter Nat.add]; auto. Qed.

Lemma iter_mul : forall (A : Type) n m (f : A -> A) a, iter (n * m) f a = iter n (iter m f) a.
Proof.
  induction n; intros; cbn [iter Nat.mul]; auto. rewrite iter_add. apply IHn.
Qed.

Lemma iter_inv : forall (A : Type) (P : A -> Prop) (f : A -> A), (forall a, P a -> P (f a)) ->
  forall n a, P a -> P (iter n f a).
Proof. induction n; intros; cbn [iter]; auto. Qed.

(* ------------------------------------------------------------------ the loop body *)
Definition locwf (l : loc) : Prop :=
  length (lx l) = 12%nat /\ Forall word_ok (lx l) /\ (lc l = 0 \/ lc l = 1) /\ 0 <= lir l < 12 /\ 0 <= ljr l < 12.

(* raw difference the next step will normalise *)
Definition pend (l : loc) : Z := zn (lx l) (ljr l) - zn (lx l) (lir l) - lc l.

Lemma pend_bounds : forall l, locwf l -> - W <= pend l < W.
Proof.
  intros l (Hlen & Hx & Hc & Hi & Hj). unfold pend.
  assert (word_ok (zn (lx l) (ljr l))) by (apply Forall_zn; auto; lia).
  assert (word_ok (zn (lx l) (lir l))) by (apply Forall_zn; auto; lia).
  unfold word_ok in *. lia.
Qed.

Definition norm (d : Z) : Z * Z := if d <? 0 then (d + W, 1) else (d, 0).

Lemma body_eq : forall l, body l =
  mkLoc (upd (lx l) (lir l) (fst (norm (pend l)))) (snd (norm (pend l))) ((lir l + 1) mod 12) ((ljr l + 1) mod 12).
Proof. intros. unfold body, norm, pend. destruct (_ <? 0); reflexivity. Qed.

Lemma norm_ok : forall d, - W <= d < W -> word_ok (fst (norm d)) /\ (snd (norm d) = 0 \/ snd (norm d) = 1).
Proof.
  intros d H. unfold norm, word_ok. destruct (d <? 0) eqn:E; cbn [fst snd].
  - apply Z.ltb_lt in E. lia.
  - apply Z.ltb_ge in E. lia.
Qed.

Lemma body_wf : forall l, locwf l -> locwf (body l).
Proof.
  intros l Hl. pose proof (pend_bounds l Hl) as Hp. destruct (norm_ok _ Hp) as [Hv Hc].
  destruct Hl as (Hlen & Hx & _ & Hi & Hj). rewrite body_eq. unfold locwf. cbn [lx lc lir ljr].
  rewrite length_upd. repeat split; auto; try (apply Z.mod_pos_bound; lia).
  apply Forall_upd_nat; auto.
Qed.

Lemma lir_body : forall l, lir (body l) = (lir l + 1) mod 12.
Proof. intros. rewrite body_eq. reflexivity. Qed.
Lemma ljr_body : forall l, ljr (body l) = (ljr l + 1) mod 12.
Proof. intros. rewrite body_eq. reflexivity. Qed.

(* ------------------------------------------------------------------ RANLUX_STEP is one body, software pipelined *)
Lemma rs_body : forall l i i1 i2, locwf l -> lir l = i -> i2 = (i + 1) mod 12 -> i1 = (ljr l + 1) mod 12 -> i1 <> i ->
  ranlux_step (lx l) (pend l) i1 i2 i = (lx (body l), pend (body l), fst (norm (pend l))).
Proof.
  intros l i i1 i2 Hl Hi H2 H1 Hne. destruct Hl as (Hlen & Hx & Hc & Hir & Hjr).
  assert (0 <= i1 < 12) by (subst i1; apply Z.mod_pos_bound; lia).
  assert (0 <= i2 < 12) by (subst i2; apply Z.mod_pos_bound; lia).
  assert (i2 <> i). { rewrite H2. intro E. assert (i = 11 \/ i < 11) as [E1|E1] by lia.
    - rewrite E1 in E. vm_compute in E. discriminate.
    - rewrite Z.mod_small in E by lia. lia. }
  unfold pend at 2. rewrite body_eq. cbn [lx lc lir ljr]. rewrite <- H1, Hi, <- H2.
  rewrite !zn_upd_other by lia.
  unfold ranlux_step, norm. destruct (pend l <? 0); cbn [fst snd]; f_equal; f_equal; lia.
Qed.

(* the last statement group of the unrolled block is the 12th body *)
Lemma body_last : forall l, lir l = 11 -> ljr l = 6 ->
  (let '(y3, c) := if pend l <? 0 then (pend l + W, 1) else (pend l, 0) in mkLoc (upd (lx l) 11 y3) c 0 7) = body l.
Proof.
  intros l E1 E2. rewrite (body_eq l), E1, E2. unfold norm.
  destruct (pend l <? 0).
  - reflexivity.
  - reflexivity.
Qed.

Lemma block_eq : forall l, locwf l -> lir l = 0 -> ljr l = 7 -> block l = iter 12 body l.
Proof.
  intros l Hl Hi Hj.
  assert (iterS : forall n a, iter (S n) body a = iter n body (body a)) by reflexivity.
  assert (iterO : forall a, iter O body a = a) by reflexivity.
  rewrite !iterS, iterO. clear iterS iterO.
  remember (body l) as l1 eqn:B1.
  remember (body l1) as l2 eqn:B2.
  remember (body l2) as l3 eqn:B3.
  remember (body l3) as l4 eqn:B4.
  remember (body l4) as l5 eqn:B5.
  remember (body l5) as l6 eqn:B6.
  remember (body l6) as l7 eqn:B7.
  remember (body l7) as l8 eqn:B8.
  remember (body l8) as l9 eqn:B9.
  remember (body l9) as l10 eqn:B10.
  remember (body l10) as l11 eqn:B11.
  assert (W1 : locwf l1) by (rewrite B1; apply body_wf; auto).
  assert (W2 : locwf l2) by (rewrite B2; apply body_wf; auto).
  assert (W3 : locwf l3) by (rewrite B3; apply body_wf; auto).
  assert (W4 : locwf l4) by (rewrite B4; apply body_wf; auto).
  assert (W5 : locwf l5) by (rewrite B5; apply body_wf; auto).
  assert (W6 : locwf l6) by (rewrite B6; apply body_wf; auto).
  assert (W7 : locwf l7) by (rewrite B7; apply body_wf; auto).
  assert (W8 : locwf l8) by (rewrite B8; apply body_wf; auto).
  assert (W9 : locwf l9) by (rewrite B9; apply body_wf; auto).
  assert (W10 : locwf l10) by (rewrite B10; apply body_wf; auto).
  assert (W11 : locwf l11) by (rewrite B11; apply body_wf; auto).
  assert (I1 : lir l1 = 1 /\ ljr l1 = 8) by (rewrite B1, lir_body, ljr_body, Hi, Hj; split; reflexivity).
  assert (I2 : lir l2 = 2 /\ ljr l2 = 9) by (destruct I1 as [E1 E2]; rewrite B2, lir_body, ljr_body, E1, E2; split; reflexivity).
  assert (I3 : lir l3 = 3 /\ ljr l3 = 10) by (destruct I2 as [E1 E2]; rewrite B3, lir_body, ljr_body, E1, E2; split; reflexivity).
  assert (I4 : lir l4 = 4 /\ ljr l4 = 11) by (destruct I3 as [E1 E2]; rewrite B4, lir_body, ljr_body, E1, E2; split; reflexivity).
  assert (I5 : lir l5 = 5 /\ ljr l5 = 0) by (destruct I4 as [E1 E2]; rewrite B5, lir_body, ljr_body, E1, E2; split; reflexivity).
  assert (I6 : lir l6 = 6 /\ ljr l6 = 1) by (destruct I5 as [E1 E2]; rewrite B6, lir_body, ljr_body, E1, E2; split; reflexivity).
  assert (I7 : lir l7 = 7 /\ ljr l7 = 2) by (destruct I6 as [E1 E2]; rewrite B7, lir_body, ljr_body, E1, E2; split; reflexivity).
  assert (I8 : lir l8 = 8 /\ ljr l8 = 3) by (destruct I7 as [E1 E2]; rewrite B8, lir_body, ljr_body, E1, E2; split; reflexivity).
  assert (I9 : lir l9 = 9 /\ ljr l9 = 4) by (destruct I8 as [E1 E2]; rewrite B9, lir_body, ljr_body, E1, E2; split; reflexivity).
  assert (I10 : lir l10 = 10 /\ ljr l10 = 5) by (destruct I9 as [E1 E2]; rewrite B10, lir_body, ljr_body, E1, E2; split; reflexivity).
  assert (I11 : lir l11 = 11 /\ ljr l11 = 6) by (destruct I10 as [E1 E2]; rewrite B11, lir_body, ljr_body, E1, E2; split; reflexivity).
  unfold block.
  replace (zn (lx l) 7 - zn (lx l) 0 - lc l) with (pend l) by (unfold pend; rewrite Hi, Hj; reflexivity).
  rewrite (rs_body l 0 8 1 Hl Hi) by (try rewrite Hj; try reflexivity; lia). rewrite <- B1.
  rewrite (rs_body l1 1 9 2 W1) by (destruct I1 as [E1 E2]; try rewrite E1; try rewrite E2; try reflexivity; lia). rewrite <- B2.
  rewrite (rs_body l2 2 10 3 W2) by (destruct I2 as [E1 E2]; try rewrite E1; try rewrite E2; try reflexivity; lia). rewrite <- B3.
  rewrite (rs_body l3 3 11 4 W3) by (destruct I3 as [E1 E2]; try rewrite E1; try rewrite E2; try reflexivity; lia). rewrite <- B4.
  rewrite (rs_body l4 4 0 5 W4) by (destruct I4 as [E1 E2]; try rewrite E1; try rewrite E2; try reflexivity; lia). rewrite <- B5.
  rewrite (rs_body l5 5 1 6 W5) by (destruct I5 as [E1 E2]; try rewrite E1; try rewrite E2; try reflexivity; lia). rewrite <- B6.
  rewrite (rs_body l6 6 2 7 W6) by (destruct I6 as [E1 E2]; try rewrite E1; try rewrite E2; try reflexivity; lia). rewrite <- B7.
  rewrite (rs_body l7 7 3 8 W7) by (destruct I7 as [E1 E2]; try rewrite E1; try rewrite E2; try reflexivity; lia). rewrite <- B8.
  rewrite (rs_body l8 8 4 9 W8) by (destruct I8 as [E1 E2]; try rewrite E1; try rewrite E2; try reflexivity; lia). rewrite <- B9.
  rewrite (rs_body l9 9 5 10 W9) by (destruct I9 as [E1 E2]; try rewrite E1; try rewrite E2; try reflexivity; lia). rewrite <- B10.
  rewrite (rs_body l10 10 6 11 W10) by (destruct I10 as [E1 E2]; try rewrite E1; try rewrite E2; try reflexivity; lia). rewrite <- B11.
  destruct I11 as [E1 E2]. rewrite Hi, Hj. apply body_last; assumption.
Qed.

(* ------------------------------------------------------------------ the three loops *)
Lemma loop1_count : forall (m : nat) fuel k l, (m <= fuel)%nat ->
  (0 < lir l < 12 /\ lir l + Z.of_nat m = 12) \/ (m = O /\ lir l = 0) ->
  loop1 fuel k l = (k + Z.of_nat m, iter m body l).
Proof.
  induction m as [|m IH]; intros fuel k l Hf H.
  - assert (lir l = 0) as E by lia.
    destruct fuel; cbn [loop1 iter]; rewrite ?E; cbn [Z.ltb Z.compare]; f_equal; lia.
  - destruct H as [[Hp Hs]|[? _]]; [|discriminate].
    destruct fuel as [|f]; [lia|]. cbn [loop1 iter].
    destruct (0 <? lir l) eqn:E; [|apply Z.ltb_ge in E; lia].
    rewrite IH.
    + f_equal. lia.
    + lia.
    + rewrite lir_body. destruct m as [|m'].
      * right. split; auto. replace (lir l) with 11 by lia. reflexivity.
      * left. rewrite Z.mod_small by lia. lia.
Qed.

Lemma loop2_count : forall (n : nat) fuel kmax k l, (n <= fuel)%nat ->
  k + 12 * Z.of_nat n > kmax -> (n <> O -> k + 12 * (Z.of_nat n - 1) <= kmax) ->
  loop2 fuel kmax k l = (k + 12 * Z.of_nat n, iter n block l).
Proof.
  induction n as [|n IH]; intros fuel kmax k l Hf Hhi Hlo.
  - destruct fuel; cbn [loop2 iter]; [f_equal; lia|].
    destruct (k <=? kmax) eqn:E; [apply Z.leb_le in E; lia|]. f_equal. lia.
  - destruct fuel as [|f]; [lia|]. cbn [loop2 iter].
    destruct (k <=? kmax) eqn:E; [|apply Z.leb_gt in E; lia].
    rewrite IH; try lia. f_equal. lia.
Qed.

Lemma loop3_count : forall (n : nat) fuel kmax k l, (n <= fuel)%nat ->
  k + Z.of_nat n >= kmax -> (n <> O -> k + Z.of_nat n = kmax) ->
  loop3 fuel kmax k l = (k + Z.of_nat n, iter n body l).
Proof.
  induction n as [|n IH]; intros fuel kmax k l Hf Hhi Hlo.
  - destruct fuel; cbn [loop3 iter]; [f_equal; lia|].
    destruct (k <? kmax) eqn:E; [apply Z.ltb_lt in E; lia|]. f_equal. lia.
  - destruct fuel as [|f]; [lia|]. cbn [loop3 iter].
    destruct (k <? kmax) eqn:E; [|apply Z.ltb_ge in E; lia].
    rewrite IH; try lia. f_equal. lia.
Qed.

(* position invariant jr = ir + 7 (mod 12) *)
Definition lagged (l : loc) : Prop := ljr l = (lir l + 7) mod 12.

Lemma body_lagged : forall l, 0 <= lir l < 12 -> lagged l -> lagged (body l).
Proof.
  unfold lagged. intros l Hi H. rewrite lir_body, ljr_body, H.
  rewrite Zplus_mod_idemp_l, Zplus_mod_idemp_l. f_equal. lia.
Qed.

Definition locinv (l : loc) : Prop := locwf l /\ lagged l.

Lemma body_inv : forall l, locinv l -> locinv (body l).
Proof. intros l [H1 H2]. split; [apply body_wf; auto|apply body_lagged; auto; apply H1]. Qed.

Lemma iter_body_inv : forall n l, locinv l -> locinv (iter n body l).
Proof. intros. apply iter_inv; auto using body_inv. Qed.

Lemma iter_body_lir : forall n l, 0 <= lir l < 12 -> lir (iter n body l) = (lir l + Z.of_nat n) mod 12.
Proof.
  induction n as [|n IH]; intros l H.
  - cbn [iter]. rewrite Z.add_0_r, Z.mod_small; auto.
  - cbn [iter]. rewrite IH by (rewrite lir_body; apply Z.mod_pos_bound; lia).
    rewrite lir_body, Zplus_mod_idemp_l. f_equal. lia.
Qed.

Lemma lagged_at_0 : forall l, lagged l -> lir l = 0 -> ljr l = 7.
Proof. unfold lagged. intros l H E. rewrite H, E. reflexivity. Qed.

Lemma iter_block : forall n l, locinv l -> lir l = 0 -> iter n block l = iter (n * 12) body l.
Proof.
  induction n as [|n IH]; intros l Hl Hi; [reflexivity|].
  cbn [iter Nat.mul]. rewrite iter_add.
  rewrite block_eq; [|apply Hl|auto|apply lagged_at_0; [apply Hl|auto]].
  apply IH.
  - apply iter_body_inv; auto.
  - rewrite iter_body_lir, Hi by lia. reflexivity.
Qed.

(* ------------------------------------------------------------------ increment_state = _pr plain steps *)
Definition loc_of (s : rg) : loc := mkLoc (xdbl s) (carry s) (ir s) (jr s).
Definition rg_of (l : loc) (p : Z) : rg := mkRg (lx l) (lc l) (lir l) (ljr l) (lir l) p.

Lemma wf_locinv : forall s, wf s -> ir s = ir_old s -> locinv (loc_of s).
Proof.
  intros s (Hlen & Hx & Hc & Hi & Ho & Hj & Hp) E. unfold locinv, locwf, lagged, loc_of. cbn [lx lc lir ljr].
  rewrite Hj, E. repeat split; auto; try lia; apply Z.mod_pos_bound; lia.
Qed.

Lemma increment_refines : forall s, wf s -> ir s = ir_old s ->
  increment_state s = rg_of (iter (Z.to_nat (pr s)) body (loc_of s)) (pr s).
Proof.
  intros s Hwf E. pose proof (wf_locinv s Hwf E) as Hinv.
  destruct Hwf as (_ & _ & _ & Hi & _ & _ & Hp).
  unfold increment_state. fold (loc_of s). set (l0 := loc_of s) in *.
  assert (Hl0 : lir l0 = ir s) by reflexivity.
  set (k1 := (12 - ir s) mod 12).
  assert (Hk1 : 0 <= k1 < 12) by (apply Z.mod_pos_bound; lia).
  rewrite (loop1_count (Z.to_nat k1) 12 0 l0).
  2:{ lia. }
  2:{ rewrite Hl0. assert (ir s = 0 \/ 0 < ir s) as [Z0|Z0] by lia.
      - right. unfold k1. rewrite Z0. split; reflexivity.
      - left. unfold k1. rewrite Z.mod_small by lia. lia. }
  cbv beta iota zeta. rewrite Z2Nat.id by lia. rewrite Z.add_0_l.
  set (l1 := iter (Z.to_nat k1) body l0).
  assert (Hinv1 : locinv l1) by (apply iter_body_inv; auto).
  assert (Hl1 : lir l1 = 0).
  { unfold l1. rewrite iter_body_lir by (rewrite Hl0; lia). rewrite Hl0, Z2Nat.id by lia. unfold k1.
    assert (ir s = 0 \/ 0 < ir s) as [Z0|Z0] by lia.
    - rewrite Z0. reflexivity.
    - rewrite (Z.mod_small (12 - ir s)) by lia. replace (ir s + (12 - ir s)) with 12 by lia. reflexivity. }
  set (n2 := if k1 <=? pr s - 12 then (pr s - 12 - k1) / 12 + 1 else 0).
  assert (Hn2 : 0 <= n2 <= pr s /\ k1 + 12 * n2 > pr s - 12 /\ k1 + 12 * n2 <= pr s /\ (n2 <> 0 -> k1 + 12 * (n2 - 1) <= pr s - 12)).
  { unfold n2. destruct (k1 <=? pr s - 12) eqn:C.
    - apply Z.leb_le in C. pose proof (Z.mul_succ_div_gt (pr s - 12 - k1) 12 ltac:(lia)).
      pose proof (Z.mul_div_le (pr s - 12 - k1) 12 ltac:(lia)).
      assert (0 <= (pr s - 12 - k1) / 12) by (apply Z.div_pos; lia). lia.
    - apply Z.leb_gt in C. lia. }
  destruct Hn2 as (Hn2a & Hn2b & Hn2c & Hn2d).
  rewrite (loop2_count (Z.to_nat n2) (Z.to_nat (pr s)) (pr s - 12) k1 l1); try lia.
  cbv beta iota zeta. rewrite Z2Nat.id by lia.
  rewrite iter_block by auto.
  set (l2 := iter (Z.to_nat n2 * 12) body l1).
  set (n3 := pr s - (k1 + 12 * n2)).
  rewrite (loop3_count (Z.to_nat n3) 12 (pr s) (k1 + 12 * n2) l2); try (unfold n3; lia).
  cbv beta iota zeta.
  unfold l2, l1. rewrite <- !iter_add.
  replace (Z.to_nat k1 + (Z.to_nat n2 * 12 + Z.to_nat n3))%nat with (Z.to_nat (pr s)) by (unfold n3; lia).
  reflexivity.
Qed.

(* ------------------------------------------------------------------ circular buffer read from position i *)
Definition rotn (n : nat) (l : list Z) : list Z := skipn n l ++ firstn n l.

Lemma rot_rotn : forall l i, rot l i = rotn (Z.to_nat i) l.
Proof. reflexivity. Qed.

Lemma nth_skipn' : forall n (l : list Z) k, nth k (skipn n l) 0 = nth (n + k) l 0.
Proof.
  induction n as [|n IH]; intros l k; [reflexivity|].
  destruct l as [|a l]; cbn [skipn Nat.add nth]; [destruct k; reflexivity|apply IH].
Qed.

Lemma nth_firstn' : forall n (l : list Z) k, (k < n)%nat -> nth k (firstn n l) 0 = nth k l 0.
Proof.
  induction n as [|n IH]; intros l k H; [lia|].
  destruct l as [|a l]; cbn [firstn nth]; [reflexivity|]. destruct k; [reflexivity|]. apply IH. lia.
Qed.

Lemma nth_rotn : forall n (l : list Z) k, (n < length l)%nat -> (k < length l)%nat ->
  nth k (rotn n l) 0 = nth (if (n + k <? length l)%nat then n + k else n + k - length l)%nat l 0.
Proof.
  intros n l k Hn Hk. unfold rotn.
  destruct (n + k <? length l)%nat eqn:E.
  - apply Nat.ltb_lt in E. rewrite app_nth1 by (rewrite skipn_length; lia). apply nth_skipn'.
  - apply Nat.ltb_ge in E. rewrite app_nth2 by (rewrite skipn_length; lia). rewrite skipn_length.
    rewrite nth_firstn' by lia. f_equal. lia.
Qed.

Lemma length_rotn : forall n (l : list Z), length (rotn n l) = length l.
Proof.
  intros. unfold rotn. rewrite app_length, Nat.add_comm, <- app_length, firstn_skipn. reflexivity.
Qed.

Lemma upd_nat_app : forall (a : list Z) x b v, upd_nat (a ++ x :: b) (length a) v = a ++ v :: b.
Proof. induction a as [|y a IH]; intros; cbn [app length upd_nat]; [reflexivity|]. rewrite IH. reflexivity. Qed.

Lemma skipn_app_len : forall (a b : list Z), skipn (length a) (a ++ b) = b.
Proof. induction a; intros; cbn [length skipn app]; auto. Qed.

Lemma firstn_app_len : forall (a b : list Z), firstn (length a) (a ++ b) = a.
Proof. induction a; intros; cbn [length firstn app]; [reflexivity|]. rewrite IHa. reflexivity. Qed.

Lemma rotn_upd : forall (l : list Z) n v, (n < length l)%nat ->
  rotn (if (S n <? length l)%nat then S n else O) (upd_nat l n v) = tl (rotn n l) ++ [v].
Proof.
  intros l n v Hn.
  assert (exists a x b, l = a ++ x :: b /\ length a = n) as (a & x & b & -> & <-).
  { exists (firstn n l). destruct (skipn n l) as [|x b] eqn:E.
    - apply (f_equal (@length Z)) in E. rewrite skipn_length in E. cbn [length] in E. lia.
    - exists x, b. split; [rewrite <- E; symmetry; apply firstn_skipn|]. rewrite firstn_length. lia. }
  rewrite upd_nat_app. unfold rotn at 2. rewrite skipn_app_len, firstn_app_len. cbn [app tl].
  rewrite app_length.
  destruct b as [|y b]; simpl length;
    match goal with |- context [(?p <? ?q)%nat] => destruct (Nat.ltb_spec p q) end; try lia.
  - unfold rotn. cbn [skipn firstn]. rewrite app_nil_r. reflexivity.
  - unfold rotn. replace (S (length a)) with (length (a ++ [v])) by (rewrite app_length; simpl length; lia).
    replace (a ++ v :: y :: b) with ((a ++ [v]) ++ y :: b) by (rewrite <- app_assoc; reflexivity).
    rewrite skipn_app_len, firstn_app_len. rewrite app_assoc. reflexivity.
Qed.

(* Z-index versions for a buffer of length len *)
Lemma zn_rot : forall l i k, 0 <= i < Z.of_nat (length l) -> 0 <= k < Z.of_nat (length l) ->
  zn (rot l i) k = zn l ((i + k) mod Z.of_nat (length l)).
Proof.
  intros l i k Hi Hk. unfold zn. rewrite rot_rotn, nth_rotn by lia. f_equal.
  destruct (Z.to_nat i + Z.to_nat k <? length l)%nat eqn:E.
  - apply Nat.ltb_lt in E. rewrite Z.mod_small by lia. lia.
  - apply Nat.ltb_ge in E.
    replace ((i + k) mod Z.of_nat (length l)) with (i + k - Z.of_nat (length l)); [lia|].
    apply Z.mod_unique with 1; lia.
Qed.

Lemma rot_upd : forall l i v, 0 <= i < Z.of_nat (length l) ->
  rot (upd l i v) ((i + 1) mod Z.of_nat (length l)) = tl (rot l i) ++ [v].
Proof.
  intros l i v Hi. rewrite !rot_rotn. unfold upd. rewrite <- rotn_upd by lia. f_equal.
  destruct (S (Z.to_nat i) <? length l)%nat eqn:E.
  - apply Nat.ltb_lt in E. rewrite Z.mod_small by lia. lia.
  - apply Nat.ltb_ge in E. replace (i + 1) with (Z.of_nat (length l)) by lia.
    rewrite Z.mod_same by lia. reflexivity.
Qed.

Lemma length_rot : forall l i, length (rot l i) = length l.
Proof. intros. rewrite rot_rotn. apply length_rotn. Qed.

Lemma Forall_rot : forall (P : Z -> Prop) l i, Forall P l -> Forall P (rot l i).
Proof.
  intros P l i H. unfold rot. apply Forall_app. split.
  - rewrite <- (firstn_skipn (Z.to_nat i) l) in H. apply Forall_app in H. tauto.
  - rewrite <- (firstn_skipn (Z.to_nat i) l) in H. apply Forall_app in H. tauto.
Qed.

(* ------------------------------------------------------------------ body = one subtract-with-borrow step *)
Lemma norm_mod : forall d, - W <= d < W -> norm d = (d mod W, if d <? 0 then 1 else 0).
Proof.
  intros d H. unfold norm. destruct (d <? 0) eqn:E; f_equal.
  - apply Z.ltb_lt in E. apply Z.mod_unique with (-1); unfold W in *; lia.
  - apply Z.ltb_ge in E. symmetry. apply Z.mod_small. lia.
Qed.

Definition window (l : loc) : list Z * Z := (rot (lx l) (lir l), lc l).

Lemma body_swb : forall l, locinv l -> window (body l) = swb (window l).
Proof.
  intros l [Hwf Hlag]. pose proof (pend_bounds l Hwf) as Hp.
  destruct Hwf as (Hlen & Hx & Hc & Hi & Hj). unfold window, swb.
  rewrite !zn_rot by (rewrite Hlen; cbn; lia). rewrite Hlen. change (Z.of_nat 12) with 12.
  rewrite <- Hlag, Z.add_0_r, (Z.mod_small (lir l)) by lia. fold (pend l).
  rewrite body_eq. cbn [lx lc lir]. rewrite norm_mod by auto. cbn [fst snd].
  f_equal. replace 12 with (Z.of_nat (length (lx l))) by (rewrite Hlen; reflexivity).
  apply rot_upd. rewrite Hlen. cbn. lia.
Qed.

Lemma iter_body_swb : forall n l, locinv l -> window (iter n body l) = iter n swb (window l).
Proof.
  induction n as [|n IH]; intros l H; [reflexivity|]. cbn [iter]. rewrite IH by (apply body_inv; auto).
  rewrite body_swb by auto. reflexivity.
Qed.

(* ------------------------------------------------------------------ invariant of the class and the luxury stream *)
Lemma rg_of_wf : forall l p, locinv l -> 12 <= p -> wf (rg_of l p).
Proof.
  intros l p [(Hlen & Hx & Hc & Hi & Hj) Hlag] Hp. unfold wf, rg_of. cbn [xdbl carry ir jr ir_old pr].
  repeat split; auto; try lia.
Qed.

Definition next_ir (s : rg) : rg := mkRg (xdbl s) (carry s) ((ir s + 1) mod 12) (jr s) (ir_old s) (pr s).

Lemma mod12_cases : forall a, 0 <= a < 12 ->
  a = 0 \/ a = 1 \/ a = 2 \/ a = 3 \/ a = 4 \/ a = 5 \/ a = 6 \/ a = 7 \/ a = 8 \/ a = 9 \/ a = 10 \/ a = 11.
Proof. intros. lia. Qed.

Lemma next_sim : forall s, wf s ->
  wf (snd (next s)) /\ pr (snd (next s)) = pr s /\
  fst (next s) = fst (lux_next (Z.to_nat (pr s)) (abs s)) /\
  abs (snd (next s)) = snd (lux_next (Z.to_nat (pr s)) (abs s)).
Proof.
  intros s Hwf. pose proof Hwf as (Hlen & Hx & Hc & Hi & Ho & Hj & Hp).
  unfold next. fold (next_ir s). cbn [ir ir_old next_ir].
  assert (Hi' : 0 <= (ir s + 1) mod 12 < 12) by (apply Z.mod_pos_bound; lia).
  assert (Hu : (ir s - ir_old s) mod 12 + 1 = 12 <-> (ir s + 1) mod 12 = ir_old s).
  { destruct (mod12_cases _ Hi) as [E|[E|[E|[E|[E|[E|[E|[E|[E|[E|[E|E]]]]]]]]]]];
    destruct (mod12_cases _ Ho) as [F|[F|[F|[F|[F|[F|[F|[F|[F|[F|[F|F]]]]]]]]]]]; rewrite E, F; vm_compute; split; congruence. }
  assert (Hub : 0 <= (ir s - ir_old s) mod 12 < 12) by (apply Z.mod_pos_bound; lia).
  assert (Ug : used (abs s) = (ir s - ir_old s) mod 12 + 1) by reflexivity.
  assert (Hg : hist (abs s) = rot (xdbl s) (ir_old s)) by reflexivity.
  assert (Bg : bor (abs s) = carry s) by reflexivity.
  unfold lux_next. rewrite Ug, Hg, Bg. clear Ug Hg Bg.
  destruct ((ir s + 1) mod 12 =? ir_old s) eqn:C.
  - (* refill *)
    apply Z.eqb_eq in C. assert (Hu12 : (ir s - ir_old s) mod 12 + 1 = 12) by (apply Hu; auto).
    rewrite Hu12. change (12 <? 12) with false. cbv iota.
    assert (Hwf1 : wf (next_ir s)) by (unfold wf, next_ir; cbn [xdbl carry ir jr ir_old pr]; repeat split; auto; lia).
    rewrite increment_refines by (auto; unfold next_ir; cbn [ir ir_old]; auto).
    assert (Hinv : locinv (loc_of (next_ir s))) by (apply wf_locinv; auto; unfold next_ir; cbn [ir ir_old]; auto).
    change (pr (next_ir s)) with (pr s).
    set (l' := iter (Z.to_nat (pr s)) body (loc_of (next_ir s))).
    assert (Hinv' : locinv l') by (apply iter_body_inv; auto).
    pose proof (iter_body_swb (Z.to_nat (pr s)) _ Hinv) as Hw. fold l' in Hw.
    change (window (loc_of (next_ir s))) with (rot (xdbl s) ((ir s + 1) mod 12), carry s) in Hw. unfold window in Hw. rewrite C in Hw.
    rewrite <- Hw. cbn [fst snd]. split; [apply rg_of_wf; auto|]. split; [reflexivity|].
    destruct Hinv' as [(Hlen' & Hx' & Hc' & Hi2 & Hj') Hlag'].
    split.
    + unfold rg_of. cbn [xdbl ir]. rewrite zn_rot by (rewrite Hlen'; cbn; lia).
      rewrite Z.add_0_r, Hlen'. change (Z.of_nat 12) with 12. rewrite Z.mod_small by lia. reflexivity.
    + unfold abs, rg_of. cbn [xdbl carry ir ir_old]. rewrite Z.sub_diag. reflexivity.
  - (* hand out the next of the current twelve *)
    apply Z.eqb_neq in C. assert (Hu12 : (ir s - ir_old s) mod 12 + 1 < 12) by (assert ((ir s - ir_old s) mod 12 + 1 <> 12) by (rewrite Hu; auto); lia).
    destruct ((ir s - ir_old s) mod 12 + 1 <? 12) eqn:D; [|apply Z.ltb_ge in D; lia].
    cbn [fst snd]. split; [unfold wf, next_ir; cbn [xdbl carry ir jr ir_old pr]; repeat split; auto; lia|]. split; [reflexivity|].
    assert (Hidx : (ir_old s + ((ir s - ir_old s) mod 12 + 1)) mod 12 = (ir s + 1) mod 12 /\
                   ((ir s + 1) mod 12 - ir_old s) mod 12 + 1 = (ir s - ir_old s) mod 12 + 1 + 1).
    { clear - Hi Ho C. destruct (mod12_cases _ Hi) as [E|[E|[E|[E|[E|[E|[E|[E|[E|[E|[E|E]]]]]]]]]]];
      destruct (mod12_cases _ Ho) as [F|[F|[F|[F|[F|[F|[F|[F|[F|[F|[F|F]]]]]]]]]]]; rewrite E, F in *; vm_compute in C |- *; try (split; reflexivity); congruence. }
    destruct Hidx as [Hidx1 Hidx2].
    split.
    + unfold next_ir. cbn [xdbl ir]. rewrite zn_rot by (rewrite Hlen; cbn; lia).
      rewrite Hlen. change (Z.of_nat 12) with 12. rewrite Hidx1. reflexivity.
    + unfold abs, next_ir. cbn [xdbl carry ir ir_old]. rewrite Hidx2. reflexivity.
Qed.

(* ------------------------------------------------------------------ seeding: the shift register *)
Definition bit (b : Z) : Prop := b = 0 \/ b = 1.
Definition bits01 (l : list Z) : Prop := Forall bit l.
Definition shift (reg : list Z) : list Z := tl reg ++ [(zn reg 0 + zn reg 18) mod 2].
Definition reginv (r : list Z) : Prop := length r = 31%nat /\ bits01 r.

Lemma lfsr_S : forall n reg, lfsr (S n) reg = zn reg 0 :: lfsr n (shift reg).
Proof. reflexivity. Qed.

Lemma mod2_bit : forall a, bit (a mod 2).
Proof. intros. unfold bit. pose proof (Z.mod_pos_bound a 2 ltac:(lia)). lia. Qed.

Lemma shift_inv : forall r, reginv r -> reginv (shift r).
Proof.
  intros r [Hl Hb]. unfold reginv, shift. destruct r as [|a r]; [discriminate|]. cbn [tl]. split.
  - rewrite app_length. cbn [length] in *. lia.
  - apply Forall_app. split; [inversion Hb; auto|]. constructor; [apply mod2_bit|constructor].
Qed.

Lemma iter_shift_inv : forall n r, reginv r -> reginv (iter n shift r).
Proof. intros. apply iter_inv; auto using shift_inv. Qed.

Lemma length_lfsr : forall n reg, length (lfsr n reg) = n.
Proof. induction n; intros; [reflexivity|]. rewrite lfsr_S. cbn [length]. rewrite IHn. reflexivity. Qed.

Lemma lfsr_add : forall a b reg, lfsr (a + b) reg = lfsr a reg ++ lfsr b (iter a shift reg).
Proof.
  induction a as [|a IH]; intros b reg; [reflexivity|].
  change (S a + b)%nat with (S (a + b)). rewrite !lfsr_S, IH. reflexivity.
Qed.

Lemma lfsr_bits : forall n r, reginv r -> bits01 (lfsr n r).
Proof.
  induction n as [|n IH]; intros r H; [constructor|]. rewrite lfsr_S. constructor.
  - destruct H as [Hl Hb]. apply (Forall_zn bit); auto. rewrite Hl. cbn. lia.
  - apply IH. apply shift_inv. auto.
Qed.

Lemma zn_shift_lt : forall r i, reginv r -> 0 <= i < 30 -> zn (shift r) i = zn r (i + 1).
Proof.
  intros r i [Hl _] Hi. destruct r as [|a r]; [discriminate|]. unfold shift, zn. cbn [tl].
  cbn [length] in Hl. rewrite app_nth1 by lia. replace (Z.to_nat (i + 1)) with (S (Z.to_nat i)) by lia. reflexivity.
Qed.

Lemma zn_shift_last : forall r, reginv r -> zn (shift r) 30 = (zn r 0 + zn r 18) mod 2.
Proof.
  intros r [Hl _]. destruct r as [|a r]; [discriminate|]. unfold shift. cbn [tl]. cbn [length] in Hl.
  unfold zn at 1. rewrite app_nth2 by (cbn; lia). replace (Z.to_nat 30 - length r)%nat with O by (cbn; lia). reflexivity.
Qed.

Lemma zn_iter_shift : forall j r i, reginv r -> 0 <= i -> i + Z.of_nat j < 31 ->
  zn (iter j shift r) i = zn r (i + Z.of_nat j).
Proof.
  induction j as [|j IH]; intros r i H Hi Hj; cbn [iter].
  - f_equal. lia.
  - rewrite IH by (auto using shift_inv; lia). rewrite zn_shift_lt by (auto; lia). f_equal. lia.
Qed.

Lemma nth_lfsr : forall j n r, (j < n)%nat -> nth j (lfsr n r) 0 = zn (iter j shift r) 0.
Proof.
  induction j as [|j IH]; intros n r H; (destruct n as [|n]; [lia|]); rewrite lfsr_S; cbn [nth iter]; [reflexivity|].
  apply IH. lia.
Qed.

(* the recurrence b_{n+31} = b_n xor b_{n+18} seen inside one 48-bit word *)
Lemma iter_S_l : forall (A : Type) n (f : A -> A) a, iter (S n) f a = iter n f (f a).
Proof. reflexivity. Qed.

Lemma lfsr_out0 : forall r, nth 0 (lfsr 48 r) 0 = zn r 0.
Proof. intros. rewrite nth_lfsr by lia. reflexivity. Qed.

Lemma lfsr_out18 : forall r, reginv r -> nth 18 (lfsr 48 r) 0 = zn r 18.
Proof. intros. rewrite nth_lfsr by lia. rewrite zn_iter_shift; auto; try reflexivity; lia. Qed.

Lemma lfsr_out31 : forall r, reginv r -> nth 31 (lfsr 48 r) 0 = (zn r 0 + zn r 18) mod 2.
Proof.
  intros. rewrite nth_lfsr by lia. rewrite (iter_S_l _ 30 shift r).
  rewrite zn_iter_shift; auto using shift_inv; try lia. apply zn_shift_last; auto.
Qed.

Lemma lfsr_prefix : forall n reg, (n <= length reg)%nat -> lfsr n reg = firstn n reg.
Proof.
  induction n as [|n IH]; intros reg H; [reflexivity|]. rewrite lfsr_S.
  destruct reg as [|a reg]; [cbn in H; lia|]. cbn [length] in H.
  rewrite IH by (unfold shift; cbn [tl]; rewrite app_length; cbn [length]; lia).
  unfold shift. cbn [tl firstn]. rewrite firstn_app. replace (n - length reg)%nat with O by lia.
  cbn [firstn]. rewrite app_nil_r. reflexivity.
Qed.

(* ------------------------------------------------------------------ words from bits *)
Definition wacc (a b : Z) : Z := 2 * a + (1 - b).

Lemma fold_acc : forall bs x, bits01 bs ->
  x * 2 ^ Z.of_nat (length bs) <= fold_left wacc bs x < (x + 1) * 2 ^ Z.of_nat (length bs).
Proof.
  induction bs as [|b bs IH]; intros x H.
  - cbn [fold_left length]. change (2 ^ Z.of_nat 0) with 1. lia.
  - inversion H as [|? ? Hb Hbs]; subst. cbn [fold_left length]. specialize (IH (wacc x b) Hbs).
    rewrite Nat2Z.inj_succ, Z.pow_succ_r by lia.
    assert (0 < 2 ^ Z.of_nat (length bs)) by (apply Z.pow_pos_nonneg; lia).
    unfold wacc in *. destruct Hb; subst b; nia.
Qed.

Lemma wob_range : forall bs, bits01 bs -> 0 <= word_of_bits bs < 2 ^ Z.of_nat (length bs).
Proof. intros bs H. pose proof (fold_acc bs 0 H). unfold word_of_bits. fold wacc. lia. Qed.

Lemma fold_inj : forall a b x y, length a = length b -> bits01 a -> bits01 b ->
  fold_left wacc a x = fold_left wacc b y -> x = y /\ a = b.
Proof.
  induction a as [|p a IH]; intros b x y Hl Ha Hb E; destruct b as [|q b]; try discriminate.
  - cbn in E. auto.
  - assert (x = y).
    { pose proof (fold_acc (p :: a) x Ha). pose proof (fold_acc (q :: b) y Hb). rewrite E, Hl in *.
      assert (0 < 2 ^ Z.of_nat (length (q :: b))) by (apply Z.pow_pos_nonneg; lia). nia. }
    subst y. inversion Ha; subst. inversion Hb; subst. cbn [fold_left] in E. cbn [length] in Hl.
    destruct (IH b (wacc x p) (wacc x q)) as [E1 E2]; auto. subst b. unfold wacc in E1.
    split; auto. f_equal. lia.
Qed.

Lemma fold_low : forall bs x, bits01 bs -> fold_left wacc bs x = x * 2 ^ Z.of_nat (length bs) -> Forall (fun b => b = 1) bs.
Proof.
  induction bs as [|b bs IH]; intros x H E; [constructor|].
  inversion H as [|? ? Hb Hbs]; subst. cbn [fold_left length] in E.
  rewrite Nat2Z.inj_succ, Z.pow_succ_r in E by lia.
  pose proof (fold_acc bs (wacc x b) Hbs) as B. rewrite E in B.
  assert (0 < 2 ^ Z.of_nat (length bs)) by (apply Z.pow_pos_nonneg; lia).
  assert (b = 1) by (unfold wacc in B; destruct Hb; subst b; nia). subst b.
  constructor; auto. apply (IH (wacc x 1)); auto. rewrite E. unfold wacc. ring.
Qed.

Lemma wob_zero : forall bs, bits01 bs -> word_of_bits bs = 0 -> Forall (fun b => b = 1) bs.
Proof. intros bs H E. apply (fold_low bs 0); auto. Qed.

(* no 48-bit word drawn from the register is zero *)
Lemma word_nonzero : forall r, reginv r -> word_of_bits (lfsr 48 r) <> 0.
Proof.
  intros r H E. apply wob_zero in E; [|apply lfsr_bits; auto].
  rewrite Forall_forall in E.
  assert (A0 : nth 0 (lfsr 48 r) 0 = 1) by (apply E, nth_In; rewrite length_lfsr; lia).
  assert (A18 : nth 18 (lfsr 48 r) 0 = 1) by (apply E, nth_In; rewrite length_lfsr; lia).
  assert (A31 : nth 31 (lfsr 48 r) 0 = 1) by (apply E, nth_In; rewrite length_lfsr; lia).
  rewrite lfsr_out0 in A0. rewrite lfsr_out18 in A18 by auto. rewrite lfsr_out31 in A31 by auto.
  rewrite A0, A18 in A31. vm_compute in A31. discriminate.
Qed.

Lemma word_range : forall r, reginv r -> word_ok (word_of_bits (lfsr 48 r)).
Proof.
  intros r H. pose proof (wob_range (lfsr 48 r) (lfsr_bits 48 r H)) as B. rewrite length_lfsr in B. exact B.
Qed.

(* ------------------------------------------------------------------ set_seed's loops = the shift register spec *)
Definition bufinv (xbit : list Z) (ibit : Z) : Prop := reginv xbit /\ 0 <= ibit < 31.

Lemma rot_inv : forall xbit ibit, bufinv xbit ibit -> reginv (rot xbit ibit).
Proof. intros xbit ibit [[Hl Hb] Hi]. split; [rewrite length_rot; auto|apply Forall_rot; auto]. Qed.

Lemma bitstep_rot : forall xbit ibit x, bufinv xbit ibit ->
  exists xbit' ibit', bitstep (xbit, ibit, (ibit + 18) mod 31, x) = (xbit', ibit', (ibit' + 18) mod 31, wacc x (zn (rot xbit ibit) 0))
    /\ bufinv xbit' ibit' /\ rot xbit' ibit' = shift (rot xbit ibit).
Proof.
  intros xbit ibit x [[Hl Hb] Hi].
  exists (upd xbit ibit ((zn xbit ibit + zn xbit ((ibit + 18) mod 31)) mod 2)), ((ibit + 1) mod 31).
  assert (Hz0 : zn (rot xbit ibit) 0 = zn xbit ibit).
  { rewrite zn_rot by (rewrite Hl; cbn; lia). rewrite Hl, Z.add_0_r. apply f_equal, Z.mod_small. cbn. lia. }
  assert (Hz18 : zn (rot xbit ibit) 18 = zn xbit ((ibit + 18) mod 31)).
  { rewrite zn_rot by (rewrite Hl; cbn; lia). rewrite Hl. reflexivity. }
  split; [|split].
  - unfold bitstep. f_equal; [f_equal|].
    + rewrite !Zplus_mod_idemp_l. f_equal. lia.
    + rewrite Hz0. unfold wacc.
      assert (bit (zn xbit ibit)) as [E|E] by (apply (Forall_zn bit); auto; rewrite Hl; cbn; lia); rewrite E;
        change ((0 + 1) mod 2) with 1; change ((1 + 1) mod 2) with 0; lia.
  - split; [split|apply Z.mod_pos_bound; lia].
    + rewrite length_upd. auto.
    + apply Forall_upd_nat; auto. apply mod2_bit.
  - unfold shift. rewrite Hz0, Hz18.
    replace 31 with (Z.of_nat (length xbit)) at 2 by (rewrite Hl; reflexivity).
    apply rot_upd. rewrite Hl. cbn. lia.
Qed.

Lemma bits_iter : forall m xbit ibit x, bufinv xbit ibit ->
  exists xbit' ibit', iter m bitstep (xbit, ibit, (ibit + 18) mod 31, x) =
                      (xbit', ibit', (ibit' + 18) mod 31, fold_left wacc (lfsr m (rot xbit ibit)) x)
    /\ bufinv xbit' ibit' /\ rot xbit' ibit' = iter m shift (rot xbit ibit).
Proof.
  induction m as [|m IH]; intros xbit ibit x H.
  - exists xbit, ibit. cbn [iter lfsr fold_left]. repeat split; auto; apply H.
  - destruct (bitstep_rot xbit ibit x H) as (xb1 & ib1 & E1 & H1 & R1).
    destruct (IH xb1 ib1 (wacc x (zn (rot xbit ibit) 0)) H1) as (xb2 & ib2 & E2 & H2 & R2).
    exists xb2, ib2. rewrite iter_S_l, E1, E2, lfsr_S. cbn [fold_left]. rewrite R2, R1, iter_S_l. repeat split; auto; apply H2.
Qed.

Fixpoint regs (n : nat) (reg : list Z) : list (list Z) :=
  match n with O => [] | S n' => reg :: regs n' (iter 48 shift reg) end.

Lemma firstn_app_exact : forall n (a b : list Z), length a = n -> firstn n (a ++ b) = a.
Proof. intros n a b <-. apply firstn_app_len. Qed.
Lemma skipn_app_exact : forall n (a b : list Z), length a = n -> skipn n (a ++ b) = b.
Proof. intros n a b <-. apply skipn_app_len. Qed.

Lemma chunks_lfsr : forall n reg, chunks n (lfsr (n * 48) reg) = map (lfsr 48) (regs n reg).
Proof.
  induction n as [|n IH]; intros reg; [reflexivity|].
  rewrite Nat.mul_succ_l, Nat.add_comm, lfsr_add. cbn [chunks regs map].
  rewrite firstn_app_exact, skipn_app_exact by apply length_lfsr. rewrite IH. reflexivity.
Qed.

Lemma regs_inv : forall n reg, reginv reg -> Forall reginv (regs n reg).
Proof.
  induction n as [|n IH]; intros reg H; cbn [regs]; constructor; auto. apply IH, iter_shift_inv. auto.
Qed.

Lemma wob_fold : forall bs, word_of_bits bs = fold_left wacc bs 0.
Proof. reflexivity. Qed.

Lemma seed_words_gen : forall n xbit ibit, bufinv xbit ibit ->
  seed_words n xbit ibit ((ibit + 18) mod 31) = map word_of_bits (map (lfsr 48) (regs n (rot xbit ibit))).
Proof.
  induction n as [|n IH]; intros xbit ibit H; [reflexivity|].
  cbn [seed_words regs map].
  destruct (bits_iter 48 xbit ibit 0 H) as (xb & ib & E & H' & R). rewrite E. cbv beta iota. rewrite IH, R by auto. rewrite wob_fold. reflexivity.
Qed.

Lemma seed_bits_length : forall n i, length (seed_bits n i) = n.
Proof. induction n; intros; cbn [seed_bits length]; auto. Qed.

Lemma seed_bits_bits : forall n i, bits01 (seed_bits n i).
Proof. induction n; intros; cbn [seed_bits]; constructor; [apply mod2_bit|apply IHn]. Qed.

Lemma seed_bits_inv : forall i, reginv (seed_bits 31 i).
Proof. intros. split; [apply seed_bits_length|apply seed_bits_bits]. Qed.

Lemma rot_0 : forall l, rot l 0 = l.
Proof. intros. unfold rot. cbn [Z.to_nat skipn firstn]. apply app_nil_r. Qed.

Lemma set_seed_words : forall seed,
  xdbl (set_seed seed) = map word_of_bits (map (lfsr 48) (regs 12 (seed_bits 31 (seed_index seed)))).
Proof.
  intros. unfold set_seed. cbn [xdbl]. change 18 with ((0 + 18) mod 31).
  rewrite seed_words_gen by (split; [apply seed_bits_inv|lia]). rewrite rot_0. reflexivity.
Qed.

Lemma seed_words_spec_eq : forall i, seed_words_spec i = map word_of_bits (map (lfsr 48) (regs 12 (seed_bits 31 i))).
Proof. intros. unfold seed_words_spec. change 576%nat with (12 * 48)%nat. rewrite chunks_lfsr. reflexivity. Qed.

Lemma seed_index_mod : forall seed, seed_index seed = (if seed =? 0 then 1 else seed) mod 2147483648.
Proof. intros. unfold seed_index. change 2147483647 with (Z.ones 31). rewrite Z.land_ones by lia. reflexivity. Qed.

Lemma set_seed_spec : forall seed, abs (set_seed seed) = lux_init seed.
Proof.
  intros. unfold abs, lux_init. rewrite seed_words_spec_eq, <- seed_index_mod, <- set_seed_words.
  unfold set_seed. cbn [xdbl carry ir ir_old]. rewrite rot_0. reflexivity.
Qed.

Lemma map_map_Forall : forall (Q : Z -> Prop) rs, (forall r, reginv r -> Q (word_of_bits (lfsr 48 r))) ->
  Forall reginv rs -> Forall Q (map word_of_bits (map (lfsr 48) rs)).
Proof. intros Q rs HQ H. induction H; cbn [map]; constructor; auto. Qed.

Lemma set_seed_wf : forall seed, wf (set_seed seed).
Proof.
  intros. unfold wf. rewrite set_seed_words. unfold set_seed. cbn [carry ir jr ir_old pr].
  split; [rewrite !map_length; reflexivity|].
  split; [apply map_map_Forall; [apply word_range|apply regs_inv, seed_bits_inv]|].
  repeat split; try lia; auto.
Qed.

Lemma set_seed_nonzero : forall seed, Forall (fun w => w <> 0) (xdbl (set_seed seed)).
Proof. intros. rewrite set_seed_words. apply map_map_Forall; [apply word_nonzero|apply regs_inv, seed_bits_inv]. Qed.

(* ------------------------------------------------------------------ streams *)
Lemma next_wf : forall s, wf s -> wf (snd (next s)).
Proof. intros s H. apply (next_sim s H). Qed.

Lemma next_pr : forall s, wf s -> pr (snd (next s)) = pr s.
Proof. intros s H. apply (next_sim s H). Qed.

Lemma after_wf : forall n s, wf s -> wf (after n s).
Proof. induction n; intros; cbn [after]; auto. apply IHn, next_wf. auto. Qed.

Lemma next_range : forall s, wf s -> word_ok (fst (next s)).
Proof.
  intros s H. pose proof (next_wf s H) as (Hlen & Hx & _ & Hi & _).
  change (fst (next s)) with (zn (xdbl (snd (next s))) (ir (snd (next s)))).
  apply Forall_zn; auto. rewrite Hlen. change (Z.of_nat 12) with 12. lia.
Qed.

Lemma range_thm : forall seed n, 0 <= nth_output seed n < W.
Proof. intros. unfold nth_output. apply next_range, after_wf, set_seed_wf. Qed.

Lemma integer_range : forall s, wf s -> 0 <= fst (next_integer s) < 2147483648.
Proof.
  intros s H. pose proof (next_range s H) as R. unfold next_integer. destruct (next s) as [n s']. cbn [fst] in *.
  unfold word_ok, W in R. split; [apply Z.div_pos; lia|apply Z.div_lt_upper_bound; lia].
Qed.

Lemma stream_lux : forall n s p, wf s -> pr s = Z.of_nat p -> stream n s = lux_stream p n (abs s).
Proof.
  induction n as [|n IH]; intros s p H Hp; [reflexivity|].
  cbn [stream lux_stream]. destruct (next_sim s H) as (H1 & H2 & H3 & H4).
  rewrite Hp, Nat2Z.id in H3, H4.
  destruct (next s) as [v s']. destruct (lux_next p (abs s)) as [v' g']. cbn [fst snd] in *.
  subst v' g'. f_equal. apply IH; auto. congruence.
Qed.

Lemma stream_spec : forall n seed, stream n (set_seed seed) = lux_stream 397 n (lux_init seed).
Proof. intros. rewrite <- set_seed_spec. apply stream_lux; [apply set_seed_wf|reflexivity]. Qed.

Lemma stream_nth : forall n s k, (k < n)%nat -> nth k (stream n s) 0 = fst (next (after k s)).
Proof.
  induction n as [|n IH]; intros s k H; [lia|]. cbn [stream].
  destruct k as [|k]; cbn [after]; destruct (next s) as [v s'] eqn:E; cbn [nth fst snd]; [reflexivity|].
  apply IH. lia.
Qed.

(* ------------------------------------------------------------------ seeds *)
Lemma seed_zero_is_one : set_seed 0 = set_seed 1.
Proof. reflexivity. Qed.

Lemma seed_mod : forall s1 s2, s1 <> 0 -> s2 <> 0 -> s1 mod 2147483648 = s2 mod 2147483648 -> set_seed s1 = set_seed s2.
Proof.
  intros s1 s2 H1 H2 E. unfold set_seed. rewrite !seed_index_mod.
  destruct (s1 =? 0) eqn:E1; [apply Z.eqb_eq in E1; contradiction|].
  destruct (s2 =? 0) eqn:E2; [apply Z.eqb_eq in E2; contradiction|]. rewrite E. reflexivity.
Qed.

Fixpoint bval (l : list Z) : Z := match l with [] => 0 | b :: t => b + 2 * bval t end.

Lemma bval_seed_bits : forall n i, bval (seed_bits n i) = i mod 2 ^ Z.of_nat n.
Proof.
  induction n as [|n IH]; intros i.
  - cbn [seed_bits bval]. change (2 ^ Z.of_nat 0) with 1. rewrite Z.mod_1_r. reflexivity.
  - cbn [seed_bits bval]. rewrite IH, Nat2Z.inj_succ, Z.pow_succ_r by lia.
    rewrite Z.rem_mul_r; [reflexivity|lia|apply Z.pow_pos_nonneg; lia].
Qed.

Lemma seed_bits_inj : forall i j, 0 <= i < 2147483648 -> 0 <= j < 2147483648 -> seed_bits 31 i = seed_bits 31 j -> i = j.
Proof.
  intros i j Hi Hj E. apply (f_equal bval) in E. rewrite !bval_seed_bits in E.
  change (2 ^ Z.of_nat 31) with 2147483648 in E. rewrite !Z.mod_small in E by lia. exact E.
Qed.

Lemma first_word_inj : forall r1 r2, reginv r1 -> reginv r2 ->
  word_of_bits (lfsr 48 r1) = word_of_bits (lfsr 48 r2) -> r1 = r2.
Proof.
  intros r1 r2 H1 H2 E. rewrite !wob_fold in E.
  change 48%nat with (31 + 17)%nat in E. rewrite !lfsr_add, !fold_left_app in E.
  rewrite (lfsr_prefix 31 r1), (lfsr_prefix 31 r2) in E by (destruct H1 as [L _], H2 as [L' _]; lia).
  destruct H1 as [L1 B1]. destruct H2 as [L2 B2].
  rewrite !firstn_all2 in E by lia.
  assert (E' : fold_left wacc r1 0 = fold_left wacc r2 0 /\ lfsr 17 (iter 31 shift r1) = lfsr 17 (iter 31 shift r2)).
  { apply fold_inj; [rewrite !length_lfsr; reflexivity|apply lfsr_bits, iter_shift_inv; split; auto|apply lfsr_bits, iter_shift_inv; split; auto|exact E]. }
  destruct E' as [E' _].
  assert (E'' : 0 = 0 /\ r1 = r2) by (apply fold_inj; auto; congruence).
  tauto.
Qed.

Lemma hd_map_map : forall (f : list Z -> Z) (g : list Z -> list Z) r l, hd 0 (map f (map g (r :: l))) = f (g r).
Proof. reflexivity. Qed.

Lemma regs_S : forall n r, regs (S n) r = r :: regs n (iter 48 shift r).
Proof. reflexivity. Qed.

Lemma seed_words_inj : forall i j, 0 <= i < 2147483648 -> 0 <= j < 2147483648 ->
  seed_words_spec i = seed_words_spec j -> i = j.
Proof.
  intros i j Hi Hj E. apply (f_equal (hd 0)) in E.
  rewrite !seed_words_spec_eq, !(regs_S 11%nat), !hd_map_map in E.
  apply first_word_inj in E; auto using seed_bits_inv. apply seed_bits_inj; auto.
Qed.

Lemma seeding_injective : forall s1 s2, 1 <= s1 < 2147483648 -> 1 <= s2 < 2147483648 ->
  xdbl (set_seed s1) = xdbl (set_seed s2) -> s1 = s2.
Proof.
  intros s1 s2 H1 H2 E. rewrite !set_seed_words, <- !seed_words_spec_eq, !seed_index_mod in E.
  destruct (s1 =? 0) eqn:E1; [apply Z.eqb_eq in E1; lia|].
  destruct (s2 =? 0) eqn:E2; [apply Z.eqb_eq in E2; lia|].
  rewrite !Z.mod_small in E by lia. apply seed_words_inj; auto; lia.
Qed.

(* ------------------------------------------------------------------ Marsaglia-Zaman: swb is multiplication by W^-1 mod MODULUS *)
Definition hwf (st : list Z * Z) : Prop :=
  length (fst st) = 12%nat /\ Forall word_ok (fst st) /\ (snd st = 0 \/ snd st = 1).

Ltac list12 h H :=
  destruct h as [|?a0 [|?a1 [|?a2 [|?a3 [|?a4 [|?a5 [|?a6 [|?a7 [|?a8 [|?a9 [|?a10 [|?a11 [|? ?]]]]]]]]]]]]]; try discriminate H.

Lemma swb_wf : forall st, hwf st -> hwf (swb st).
Proof.
  intros [h c] (Hl & Hx & Hc). cbn [fst snd] in *. unfold swb, hwf. cbn [fst snd].
  destruct h as [|a h]; [discriminate|]. cbn [tl length] in *. split; [|split].
  - rewrite app_length. cbn [length]. lia.
  - apply Forall_app. split; [inversion Hx; auto|]. constructor; [|constructor].
    unfold word_ok. apply Z.mod_pos_bound. reflexivity.
  - destruct (_ <? 0); auto.
Qed.

Lemma iter_swb_wf : forall n st, hwf st -> hwf (iter n swb st).
Proof. intros. apply iter_inv; auto using swb_wf. Qed.

Lemma mznum_swb : forall st, hwf st ->
  W * mznum (swb st) = mznum st + MODULUS * zn (fst (swb st)) 11.
Proof.
  intros [h c] (Hl & Hx & Hc). cbn [fst snd] in *. list12 h Hl. clear Hl.
  assert (Hb : forall k, 0 <= k < 12 -> word_ok (zn [a0; a1; a2; a3; a4; a5; a6; a7; a8; a9; a10; a11] k))
    by (intros; apply Forall_zn; auto).
  pose proof (Hb 0 ltac:(lia)) as B0. pose proof (Hb 7 ltac:(lia)) as B7. clear Hb Hx.
  unfold swb. cbn [fst]. change (zn [a0; a1; a2; a3; a4; a5; a6; a7; a8; a9; a10; a11] 7) with a7 in *.
  change (zn [a0; a1; a2; a3; a4; a5; a6; a7; a8; a9; a10; a11] 0) with a0 in *.
  cbn [tl app]. set (d := a7 - a0 - c).
  change (zn [a1; a2; a3; a4; a5; a6; a7; a8; a9; a10; a11; d mod W] 11) with (d mod W).
  assert (Hd : - W <= d < W) by (unfold word_ok in *; unfold d; lia).
  pose proof (norm_mod d Hd) as Hn. unfold norm in Hn.
  set (c' := if d <? 0 then 1 else 0) in *.
  assert (Hv : d mod W = d + c' * W).
  { apply (f_equal fst) in Hn. unfold c'. destruct (d <? 0); cbn [fst] in Hn; lia. }
  rewrite Hv. unfold mznum. cbn [poly skipn]. unfold MODULUS, d. ring.
Qed.

Lemma mz_iter : forall n st, hwf st ->
  (W ^ Z.of_nat n * mznum (iter n swb st)) mod MODULUS = mznum st mod MODULUS.
Proof.
  induction n as [|n IH]; intros st H.
  - cbn [iter]. change (W ^ Z.of_nat 0) with 1. rewrite Z.mul_1_l. reflexivity.
  - cbn [iter]. rewrite Nat2Z.inj_succ, Z.pow_succ_r by lia.
    rewrite <- Z.mul_assoc.
    rewrite <- Zmult_mod_idemp_r, IH by (apply swb_wf; auto). rewrite Zmult_mod_idemp_r.
    rewrite mznum_swb by auto. rewrite Z.mul_comm with (n := MODULUS). apply Z_mod_plus_full.
Qed.

(* ------------------------------------------------------------------ digits *)
Definition small (u : Z) : Prop := - W < u < W.

Lemma W_pos : 0 < W.
Proof. reflexivity. Qed.

Lemma poly_zero : forall l, Forall small l -> poly l = 0 -> Forall (fun u => u = 0) l.
Proof.
  induction l as [|a l IH]; intros H E; [constructor|]. inversion H as [|? ? Ha Hl]; subst. cbn [poly] in E.
  unfold small in Ha. pose proof W_pos.
  assert (poly l = 0) by nia. assert (a = 0) by nia. constructor; auto.
Qed.

Lemma poly_bound : forall l, Forall small l -> - W ^ Z.of_nat (length l) < poly l < W ^ Z.of_nat (length l).
Proof.
  induction l as [|a l IH]; intros H.
  - cbn [poly length]. change (W ^ Z.of_nat 0) with 1. lia.
  - inversion H as [|? ? Ha Hl]; subst. specialize (IH Hl). cbn [poly length].
    rewrite Nat2Z.inj_succ, Z.pow_succ_r by lia. unfold small in Ha. pose proof W_pos.
    assert (0 < W ^ Z.of_nat (length l)) by (apply Z.pow_pos_nonneg; lia). nia.
Qed.

Lemma poly_sub : forall a b, length a = length b -> poly (map (fun p => fst p - snd p) (combine a b)) = poly a - poly b.
Proof.
  induction a as [|x a IH]; intros [|y b] H; try discriminate; [reflexivity|].
  cbn [combine map poly fst snd]. rewrite IH by (cbn in H; lia). ring.
Qed.

Lemma poly_word_bound : forall l, Forall word_ok l -> 0 <= poly l <= W ^ Z.of_nat (length l) - 1.
Proof.
  induction l as [|a l IH]; intros H.
  - cbn [poly length]. change (W ^ Z.of_nat 0) with 1. lia.
  - inversion H as [|? ? Ha Hl]; subst. specialize (IH Hl). cbn [poly length].
    rewrite Nat2Z.inj_succ, Z.pow_succ_r by lia. unfold word_ok in Ha. pose proof W_pos.
    assert (0 < W ^ Z.of_nat (length l)) by (apply Z.pow_pos_nonneg; lia). nia.
Qed.

Lemma Forall_skipn' : forall (P : Z -> Prop) n l, Forall P l -> Forall P (skipn n l).
Proof. intros P n l H. rewrite <- (firstn_skipn n l) in H. apply Forall_app in H. tauto. Qed.
Lemma Forall_firstn' : forall (P : Z -> Prop) n l, Forall P l -> Forall P (firstn n l).
Proof. intros P n l H. rewrite <- (firstn_skipn n l) in H. apply Forall_app in H. tauto. Qed.

Ltac numW :=
  let w5 := eval vm_compute in (W ^ 5) in let w7 := eval vm_compute in (W ^ 7) in
  let w11 := eval vm_compute in (W ^ 11) in let w12 := eval vm_compute in (W ^ 12) in
  let m := eval vm_compute in MODULUS in let w := eval vm_compute in W in
  change (W ^ 5) with w5 in *; change (W ^ 7) with w7 in *; change (W ^ 11) with w11 in *;
  change (W ^ 12) with w12 in *; change MODULUS with m in *; change W with w in *.

(* two zero-carry histories of non-zero words with the same number modulo MODULUS are equal *)
Lemma mz_inj : forall h h', hwf (h, 0) -> hwf (h', 0) ->
  Forall (fun w => w <> 0) h -> Forall (fun w => w <> 0) h' ->
  mznum (h, 0) mod MODULUS = mznum (h', 0) mod MODULUS -> h = h'.
Proof.
  intros h h' (Hl & Hx & _) (Hl' & Hx' & _) Hn Hn' E. cbn [fst snd] in *.
  list12 h Hl. list12 h' Hl'. clear Hl Hl'.
  (* upper bound of the first, lower bound of the second number, both ways *)
  assert (UB : forall l, Forall word_ok l -> length l = 12%nat -> mznum (l, 0) <= W ^ 12 - 1).
  { intros l Hw Hlen. list12 l Hlen. unfold mznum.
    pose proof (poly_word_bound _ Hw) as P1. cbn [length] in P1. change (Z.of_nat 12) with 12 in P1.
    assert (Hw5 : Forall word_ok (skipn 7 [a24; a25; a26; a27; a28; a29; a30; a31; a32; a33; a34; a35]))
      by (apply Forall_skipn'; auto).
    pose proof (poly_word_bound _ Hw5) as P2. lia. }
  assert (LB : forall l, Forall word_ok l -> length l = 12%nat -> zn l 11 <> 0 -> W ^ 11 - W ^ 5 + 1 <= mznum (l, 0)).
  { intros l Hw Hlen Hnz. list12 l Hlen. change (zn [a24; a25; a26; a27; a28; a29; a30; a31; a32; a33; a34; a35] 11) with a35 in Hnz.
    unfold mznum.
    assert (Hw5 : Forall word_ok (skipn 7 [a24; a25; a26; a27; a28; a29; a30; a31; a32; a33; a34; a35]) /\
                  Forall word_ok [a24; a25; a26; a27; a28; a29; a30; a31; a32; a33; a34] /\ word_ok a35)
      by (split; [apply Forall_skipn'; auto|split; [apply (Forall_firstn' word_ok 11 _ Hw)|apply (Forall_zn word_ok _ 11 Hw); cbn; lia]]).
    destruct Hw5 as (Hw5 & Hw11 & Hw35).
    pose proof (poly_word_bound _ Hw5) as P2. pose proof (poly_word_bound _ Hw11) as P3.
    cbn [length skipn] in P2, P3. change (Z.of_nat 5) with 5 in P2. change (Z.of_nat 11) with 11 in P3.
    assert (Hs : poly [a24; a25; a26; a27; a28; a29; a30; a31; a32; a33; a34; a35] =
                 poly [a24; a25; a26; a27; a28; a29; a30; a31; a32; a33; a34] + W ^ 11 * a35) by (cbn [poly]; ring).
    rewrite Hs. cbn [skipn]. unfold word_ok in Hw35. numW. nia. }
  assert (Hq : exists q, mznum ([a0; a1; a2; a3; a4; a5; a6; a7; a8; a9; a10; a11], 0) -
                         mznum ([a12; a13; a14; a15; a16; a17; a18; a19; a20; a21; a22; a23], 0) = q * MODULUS).
  { assert (Hz : (mznum ([a0; a1; a2; a3; a4; a5; a6; a7; a8; a9; a10; a11], 0) -
                  mznum ([a12; a13; a14; a15; a16; a17; a18; a19; a20; a21; a22; a23], 0)) mod MODULUS = 0)
      by (rewrite Zminus_mod, E, Z.sub_diag; reflexivity).
    apply Z.mod_divide in Hz; [|discriminate]. destruct Hz as [q Hq]. exists q. exact Hq. }
  destruct Hq as [q Hq].
  pose proof (UB _ Hx eq_refl) as U1. pose proof (UB _ Hx' eq_refl) as U2.
  assert (N11 : zn [a0; a1; a2; a3; a4; a5; a6; a7; a8; a9; a10; a11] 11 <> 0 /\
                zn [a12; a13; a14; a15; a16; a17; a18; a19; a20; a21; a22; a23] 11 <> 0).
  { rewrite Forall_forall in Hn, Hn'. split; [apply Hn|apply Hn']; unfold zn; apply nth_In; cbn; lia. }
  pose proof (LB _ Hx eq_refl (proj1 N11)) as L1. pose proof (LB _ Hx' eq_refl (proj2 N11)) as L2.
  assert (q = 0) by (clear - Hq U1 U2 L1 L2; numW; nia).
  subst q. clear U1 U2 L1 L2 UB LB N11 E.
  assert (NZ5 : a5 <> 0) by (apply (Forall_zn (fun w => w <> 0) _ 5 Hn); cbn; lia).
  assert (NZ17 : a17 <> 0) by (apply (Forall_zn (fun w => w <> 0) _ 5 Hn'); cbn; lia).
  clear Hn Hn'.
  repeat match goal with H : Forall _ (_ :: _) |- _ => inversion H; clear H; subst end.
  repeat match goal with H : Forall _ [] |- _ => clear H end.
  unfold word_ok in *.
  set (u0 := a0 - a12). set (u1 := a1 - a13). set (u2 := a2 - a14). set (u3 := a3 - a15).
  set (u4 := a4 - a16). set (u5 := a5 - a17). set (u6 := a6 - a18). set (u7 := a7 - a19).
  set (u8 := a8 - a20). set (u9 := a9 - a21). set (u10 := a10 - a22). set (u11 := a11 - a23).
  assert (S0 : small u0 /\ small u1 /\ small u2 /\ small u3 /\ small u4 /\ small u5 /\ small u6 /\ small u7 /\
               small u8 /\ small u9 /\ small u10 /\ small u11).
  { unfold small, u0, u1, u2, u3, u4, u5, u6, u7, u8, u9, u10, u11. clear Hq. numW. repeat split; lia. }
  assert (D : mznum ([a0; a1; a2; a3; a4; a5; a6; a7; a8; a9; a10; a11], 0) - mznum ([a12; a13; a14; a15; a16; a17; a18; a19; a20; a21; a22; a23], 0)
              = (poly [u0; u1; u2; u3; u4] - poly [u7; u8; u9; u10; u11]) + W ^ 5 * (u5 + W * poly [u6; u7; u8; u9; u10; u11])).
  { unfold mznum. cbn [poly skipn]. unfold u0, u1, u2, u3, u4, u5, u6, u7, u8, u9, u10, u11. ring. }
  rewrite Hq in D. clear Hq.
  destruct S0 as (S0 & S1 & S2 & S3 & S4 & S5 & S6 & S7 & S8 & S9 & S10 & S11).
  assert (FA : Forall small [u0; u1; u2; u3; u4]) by (repeat (apply Forall_cons; [assumption|]); apply Forall_nil).
  assert (FB : Forall small [u7; u8; u9; u10; u11]) by (repeat (apply Forall_cons; [assumption|]); apply Forall_nil).
  assert (FT : Forall small [u6; u7; u8; u9; u10; u11]) by (repeat (apply Forall_cons; [assumption|]); apply Forall_nil).
  pose proof (poly_bound _ FA) as BA. pose proof (poly_bound _ FB) as BB. pose proof (poly_bound _ FT) as BT.
  cbn [length] in BA, BB, BT. change (Z.of_nat 5) with 5 in *. change (Z.of_nat 6) with 6 in *.
  set (A := poly [u0; u1; u2; u3; u4]) in *. set (B := poly [u7; u8; u9; u10; u11]) in *.
  set (T' := poly [u6; u7; u8; u9; u10; u11]) in *.
  assert (HT : u5 + W * T' = 0 \/ u5 + W * T' = 1 \/ u5 + W * T' = -1).
  { clear - D BA BB. numW. nia. }
  assert (HT' : T' = 0).
  { unfold small in S5. destruct HT as [HT|[HT|HT]].
    - clear - HT S5. numW. nia.
    - assert (T' = 0 \/ T' = 1) as [|Z1] by (clear - HT S5; numW; nia); auto.
      exfalso. assert (u5 = 1 - W) by (clear - HT Z1; nia). unfold u5 in *. numW. lia.
    - assert (T' = 0 \/ T' = -1) as [|Z1] by (clear - HT S5; numW; nia); auto.
      exfalso. assert (u5 = W - 1) by (clear - HT Z1; nia). unfold u5 in *. numW. lia. }
  pose proof (poly_zero _ FT HT') as ZT.
  assert (Z6 : u6 = 0) by (apply (Forall_zn (fun u => u = 0) _ 0 ZT); cbn; lia).
  assert (Z7 : u7 = 0) by (apply (Forall_zn (fun u => u = 0) _ 1 ZT); cbn; lia).
  assert (Z8 : u8 = 0) by (apply (Forall_zn (fun u => u = 0) _ 2 ZT); cbn; lia).
  assert (Z9 : u9 = 0) by (apply (Forall_zn (fun u => u = 0) _ 3 ZT); cbn; lia).
  assert (Z10 : u10 = 0) by (apply (Forall_zn (fun u => u = 0) _ 4 ZT); cbn; lia).
  assert (Z11 : u11 = 0) by (apply (Forall_zn (fun u => u = 0) _ 5 ZT); cbn; lia).
  assert (HB : B = 0) by (unfold B; rewrite Z7, Z8, Z9, Z10, Z11; reflexivity).
  assert (Z5 : u5 = 0) by (clear - D HT HT' HB BA; rewrite HT', HB in *; numW; nia).
  assert (HA : A = 0) by (clear - D HT' HB Z5; rewrite HT', HB, Z5 in D; numW; lia).
  pose proof (poly_zero _ FA HA) as ZA.
  assert (Z0 : u0 = 0) by (apply (Forall_zn (fun u => u = 0) _ 0 ZA); cbn; lia).
  assert (Z1 : u1 = 0) by (apply (Forall_zn (fun u => u = 0) _ 1 ZA); cbn; lia).
  assert (Z2 : u2 = 0) by (apply (Forall_zn (fun u => u = 0) _ 2 ZA); cbn; lia).
  assert (Z3 : u3 = 0) by (apply (Forall_zn (fun u => u = 0) _ 3 ZA); cbn; lia).
  assert (Z4 : u4 = 0) by (apply (Forall_zn (fun u => u = 0) _ 4 ZA); cbn; lia).
  clear - Z0 Z1 Z2 Z3 Z4 Z5 Z6 Z7 Z8 Z9 Z10 Z11.
  unfold u0, u1, u2, u3, u4, u5, u6, u7, u8, u9, u10, u11 in *.
  replace a0 with a12 by lia. replace a1 with a13 by lia. replace a2 with a14 by lia. replace a3 with a15 by lia.
  replace a4 with a16 by lia. replace a5 with a17 by lia. replace a6 with a18 by lia. replace a7 with a19 by lia.
  replace a8 with a20 by lia. replace a9 with a21 by lia. replace a10 with a22 by lia. replace a11 with a23 by lia.
  reflexivity.
Qed.

(* ------------------------------------------------------------------ the first 24 values are two complete histories *)
Fixpoint lux_after (p n : nat) (g : lux) : lux :=
  match n with O => g | S n' => lux_after p n' (snd (lux_next p g)) end.

Lemma lux_stream_add : forall p a b g, lux_stream p (a + b) g = lux_stream p a g ++ lux_stream p b (lux_after p a g).
Proof.
  induction a as [|a IH]; intros b g; [reflexivity|].
  cbn [Nat.add lux_stream lux_after]. destruct (lux_next p g) as [v g']. cbn [snd app]. rewrite IH. reflexivity.
Qed.

Fixpoint zrange (u : Z) (k : nat) : list Z := match k with O => [] | S k' => u :: zrange (u + 1) k' end.

Lemma lux_take : forall p k h c u, u + Z.of_nat k <= 12 ->
  lux_stream p k (mkLux h c u) = map (zn h) (zrange u k) /\ lux_after p k (mkLux h c u) = mkLux h c (u + Z.of_nat k).
Proof.
  induction k as [|k IH]; intros h c u H.
  - cbn [lux_stream lux_after zrange map]. rewrite Z.add_0_r. auto.
  - cbn [lux_stream lux_after zrange map]. unfold lux_next. cbn [used hist bor].
    destruct (u <? 12) eqn:E; [|apply Z.ltb_ge in E; lia]. cbn [snd].
    destruct (IH h c (u + 1) ltac:(lia)) as [E1 E2]. rewrite E1, E2. split; [reflexivity|]. f_equal. lia.
Qed.

Lemma lux_next_refill : forall p h c h' c', iter p swb (h, c) = (h', c') ->
  lux_next p (mkLux h c 12) = (zn h' 0, mkLux h' c' 1).
Proof. intros p h c h' c' E. unfold lux_next. cbn [used hist bor]. change (12 <? 12) with false. cbv iota. rewrite E. reflexivity. Qed.

Lemma lux_after_add : forall p a b g, lux_after p (a + b) g = lux_after p b (lux_after p a g).
Proof. induction a as [|a IH]; intros b g; [reflexivity|]. cbn [Nat.add lux_after]. apply IH. Qed.

Lemma lux_stream_1 : forall p g, lux_stream p 1 g = [fst (lux_next p g)].
Proof. intros. cbn [lux_stream]. destruct (lux_next p g). reflexivity. Qed.

Lemma lux_after_1 : forall p g, lux_after p 1 g = snd (lux_next p g).
Proof. reflexivity. Qed.

Lemma lux_batch : forall p h c h' c', iter p swb (h, c) = (h', c') -> length h' = 12%nat ->
  lux_stream p 12 (mkLux h c 12) = h' /\ lux_after p 12 (mkLux h c 12) = mkLux h' c' 12.
Proof.
  intros p h c h' c' E Hl.
  change 12%nat with (1 + 11)%nat at 1 2. rewrite lux_stream_add, lux_after_add, lux_stream_1, lux_after_1.
  rewrite (lux_next_refill p h c h' c' E). cbn [fst snd].
  destruct (lux_take p 11 h' c' 1 ltac:(cbn; lia)) as [E1 E2]. rewrite E1, E2. split; [|reflexivity].
  list12 h' Hl. reflexivity.
Qed.

Lemma app_inj_len : forall (a a' b b' : list Z), length a = length a' -> a ++ b = a' ++ b' -> a = a' /\ b = b'.
Proof.
  induction a as [|x a IH]; intros [|y a'] b b' Hl E; try discriminate; [auto|].
  cbn [app] in E. injection E as -> E. cbn [length] in Hl. destruct (IH a' b b' ltac:(lia) E) as [-> ->]. auto.
Qed.

Lemma hwf_len : forall n st, hwf st -> length (fst (iter n swb st)) = 12%nat.
Proof. intros n st H. apply (iter_swb_wf n st H). Qed.

(* what the two borrows can be when both histories agree *)
Lemma borrow_cong : forall K p2 c2 c2' p1 c1 c1',
  (K * (p2 + c2)) mod MODULUS = (p1 + c1) mod MODULUS ->
  (K * (p2 + c2')) mod MODULUS = (p1 + c1') mod MODULUS ->
  (K * (c2 - c2')) mod MODULUS = (c1 - c1') mod MODULUS.
Proof.
  intros K p2 c2 c2' p1 c1 c1' E1 E2.
  replace (K * (c2 - c2')) with (K * (p2 + c2) - K * (p2 + c2')) by ring.
  replace (c1 - c1') with ((p1 + c1) - (p1 + c1')) by ring.
  rewrite Zminus_mod, E1, E2, <- Zminus_mod. reflexivity.
Qed.

Lemma W397_not_unit :
  (W ^ 397) mod MODULUS <> 0 /\ (W ^ 397) mod MODULUS <> 1 /\ (W ^ 397) mod MODULUS <> MODULUS - 1.
Proof. vm_compute. repeat split; discriminate. Qed.

Lemma MODULUS_big : 2 < MODULUS.
Proof. reflexivity. Qed.

Lemma borrow_cases_gen : forall a M c1 c1' c2 c2', 2 < M -> a mod M <> 0 -> a mod M <> 1 -> a mod M <> M - 1 ->
  (c1 = 0 \/ c1 = 1) -> (c1' = 0 \/ c1' = 1) -> (c2 = 0 \/ c2 = 1) -> (c2' = 0 \/ c2' = 1) ->
  (a * (c2 - c2')) mod M = (c1 - c1') mod M -> c1 = c1'.
Proof.
  intros a M c1 c1' c2 c2' HM K0 K1 K2 H1 H1' H2 H2' E.
  set (K := a mod M) in *.
  assert (R0 : 0 mod M = 0) by apply Zmod_0_l.
  assert (R1 : 1 mod M = 1) by (apply Z.mod_small; lia).
  assert (Rm : (-1) mod M = M - 1) by (change (-1) with (- (1)); rewrite Z_mod_nz_opp_full; lia).
  assert (L0 : (a * 0) mod M = 0) by (rewrite Z.mul_0_r; apply Zmod_0_l).
  assert (L1 : (a * 1) mod M = K) by (rewrite Z.mul_1_r; reflexivity).
  assert (Lm : (a * -1) mod M = M - K).
  { replace (a * -1) with (- a) by ring. rewrite Z_mod_nz_opp_full; [reflexivity|exact K0]. }
  destruct H1 as [-> | ->]; destruct H1' as [-> | ->]; try reflexivity; exfalso;
    destruct H2 as [-> | ->]; destruct H2' as [-> | ->];
    change (0 - 0) with 0 in E; change (1 - 1) with 0 in E; change (1 - 0) with 1 in E; change (0 - 1) with (-1) in E;
    rewrite ?L0, ?L1, ?Lm, ?R0, ?R1, ?Rm in E; lia.
Qed.

Lemma borrow_cases : forall c1 c1' c2 c2', (c1 = 0 \/ c1 = 1) -> (c1' = 0 \/ c1' = 1) -> (c2 = 0 \/ c2 = 1) -> (c2' = 0 \/ c2' = 1) ->
  (W ^ 397 * (c2 - c2')) mod MODULUS = (c1 - c1') mod MODULUS -> c1 = c1'.
Proof.
  intros c1 c1' c2 c2'. destruct W397_not_unit as (K0 & K1 & K2).
  apply borrow_cases_gen; auto. exact MODULUS_big.
Qed.

Lemma length_regs : forall n r, length (regs n r) = n.
Proof. induction n; intros; cbn [regs length]; auto. Qed.

Lemma spec_facts : forall i, hwf (seed_words_spec i, 0) /\ Forall (fun w => w <> 0) (seed_words_spec i).
Proof.
  intros i. rewrite seed_words_spec_eq. unfold hwf. cbn [fst snd]. split; [split; [|split]|].
  - rewrite !map_length. apply length_regs.
  - apply map_map_Forall; [apply word_range|apply regs_inv, seed_bits_inv].
  - auto.
  - apply map_map_Forall; [apply word_nonzero|apply regs_inv, seed_bits_inv].
Qed.

(* the first 24 values of the luxury stream, as the two histories they are *)
Lemma lux_first24 : forall h0 h1 c1 h2 c2, hwf (h0, 0) ->
  iter 397 swb (h0, 0) = (h1, c1) -> iter 397 swb (h1, c1) = (h2, c2) ->
  lux_stream 397 24 (mkLux h0 0 12) = h1 ++ h2.
Proof.
  intros h0 h1 c1 h2 c2 H0 E1 E2.
  assert (W1 : hwf (h1, c1)) by (rewrite <- E1; apply iter_swb_wf; auto).
  assert (W2 : hwf (h2, c2)) by (rewrite <- E2; apply iter_swb_wf; auto).
  rewrite (lux_stream_add 397 12 12 (mkLux h0 0 12) : lux_stream 397 24 _ = _).
  destruct (lux_batch 397 h0 0 h1 c1 E1 (proj1 W1)) as [A1 A2]. rewrite A1, A2.
  destruct (lux_batch 397 h1 c1 h2 c2 E2 (proj1 W2)) as [B1 _]. rewrite B1. reflexivity.
Qed.

Lemma histories_determine_start : forall h0 h0' h1 c1 c1' h2 c2 c2',
  hwf (h0, 0) -> hwf (h0', 0) ->
  iter 397 swb (h0, 0) = (h1, c1) -> iter 397 swb (h1, c1) = (h2, c2) ->
  iter 397 swb (h0', 0) = (h1, c1') -> iter 397 swb (h1, c1') = (h2, c2') ->
  mznum (h0, 0) mod MODULUS = mznum (h0', 0) mod MODULUS.
Proof.
  intros h0 h0' h1 c1 c1' h2 c2 c2' H0 H0' E1 E2 E1' E2'.
  assert (W1 : hwf (h1, c1)) by (rewrite <- E1; apply iter_swb_wf; auto).
  assert (W2 : hwf (h2, c2)) by (rewrite <- E2; apply iter_swb_wf; auto).
  assert (W1' : hwf (h1, c1')) by (rewrite <- E1'; apply iter_swb_wf; auto).
  assert (W2' : hwf (h2, c2')) by (rewrite <- E2'; apply iter_swb_wf; auto).
  pose proof (mz_iter 397 _ W1) as M1. rewrite E2 in M1.
  pose proof (mz_iter 397 _ W1') as M1'. rewrite E2' in M1'.
  change (Z.of_nat 397) with 397 in *.
  assert (C : c1 = c1').
  { unfold mznum in M1, M1'. pose proof (borrow_cong _ _ _ _ _ _ _ M1 M1') as BC.
    destruct W1 as (_ & _ & Hc1). destruct W1' as (_ & _ & Hc1'). destruct W2 as (_ & _ & Hc2). destruct W2' as (_ & _ & Hc2').
    cbn [snd] in *. apply (borrow_cases c1 c1' c2 c2'); auto. }
  subst c1'.
  pose proof (mz_iter 397 _ H0) as M0. rewrite E1 in M0.
  pose proof (mz_iter 397 _ H0') as M0'. rewrite E1' in M0'. congruence.
Qed.

Theorem streams_differ : forall s1 s2, 1 <= s1 < 2147483648 -> 1 <= s2 < 2147483648 ->
  stream 24 (set_seed s1) = stream 24 (set_seed s2) -> s1 = s2.
Proof.
  intros s1 s2 R1 R2 E. rewrite !stream_spec in E. unfold lux_init in E.
  destruct (s1 =? 0) eqn:Z1; [apply Z.eqb_eq in Z1; lia|].
  destruct (s2 =? 0) eqn:Z2; [apply Z.eqb_eq in Z2; lia|].
  rewrite !Z.mod_small in E by lia.
  destruct (spec_facts s1) as [F1 N1]. destruct (spec_facts s2) as [F2 N2].
  set (h0 := seed_words_spec s1) in *. set (h0' := seed_words_spec s2) in *.
  destruct (iter 397 swb (h0, 0)) as [h1 c1] eqn:E1. destruct (iter 397 swb (h1, c1)) as [h2 c2] eqn:E2.
  destruct (iter 397 swb (h0', 0)) as [h1' c1'] eqn:E1'. destruct (iter 397 swb (h1', c1')) as [h2' c2'] eqn:E2'.
  rewrite (lux_first24 h0 h1 c1 h2 c2 F1 E1 E2), (lux_first24 h0' h1' c1' h2' c2' F2 E1' E2') in E.
  assert (L1 : length h1 = 12%nat) by (pose proof (hwf_len 397 _ F1) as L; rewrite E1 in L; exact L).
  assert (L1' : length h1' = 12%nat) by (pose proof (hwf_len 397 _ F2) as L; rewrite E1' in L; exact L).
  destruct (app_inj_len h1 h1' h2 h2' ltac:(congruence) E) as [<- <-].
  pose proof (histories_determine_start h0 h0' h1 c1 c1' h2 c2 c2' F1 F2 E1 E2 E1' E2') as MZ.
  apply mz_inj in MZ; auto. unfold h0, h0' in MZ. apply seed_words_inj in MZ; auto; lia.
Qed.

(* ------------------------------------------------------------------ restart *)
Lemma read_doubles_app : forall xs rest,
  read_doubles (length xs) (map Wd xs ++ rest) = Some (xs, rest).
Proof.
  induction xs as [|a xs IH]; intros rest; cbn [length map app read_doubles].
  - reflexivity.
  - rewrite IH. reflexivity.
Qed.

Lemma restart_roundtrip : forall s, length (xdbl s) = 12%nat -> restore (dump s) = Some s.
Proof.
  intros [xs c a b o p] H. cbn [xdbl] in H. unfold restore, dump. cbn [xdbl carry ir jr ir_old pr].
  rewrite <- H. rewrite read_doubles_app. reflexivity.
Qed.

Lemma restart_continues : forall s s' n, wf s -> restore (dump s) = Some s' -> s' = s /\ stream n s' = stream n s.
Proof.
  intros s s' n H E. rewrite restart_roundtrip in E by apply H. injection E as <-. auto.
Qed.

(* ------------------------------------------------------------------ the step is NOT injective *)
Definition wit1 : loc := mkLoc [5; 0; 0; 0; 0; 0; 0; 9; 0; 0; 0; 0] 0 0 7.
Definition wit2 : loc := mkLoc [4; 0; 0; 0; 0; 0; 0; 9; 0; 0; 0; 0] 1 0 7.

Lemma wit_inv : forall a c, 0 <= a < 10 -> (c = 0 \/ c = 1) -> locinv (mkLoc [a; 0; 0; 0; 0; 0; 0; 9; 0; 0; 0; 0] c 0 7).
Proof.
  intros a c Ha Hc. split; [|reflexivity]. unfold locwf. cbn [lx lc lir ljr].
  split; [reflexivity|]. split; [|split; [exact Hc|lia]].
  repeat (apply Forall_cons; [unfold word_ok, W; lia|]). apply Forall_nil.
Qed.

Lemma step_not_injective : exists l1 l2, locinv l1 /\ locinv l2 /\ l1 <> l2 /\ body l1 = body l2.
Proof.
  exists wit1, wit2. split; [apply wit_inv; [lia|auto]|]. split; [apply wit_inv; [lia|auto]|].
  split; [discriminate|]. vm_compute. reflexivity.
Qed.

(* ------------------------------------------------------------------ every intermediate is a numerator of magnitude <= 2^48 *)
Definition exact48 (v : Z) : Prop := - W <= v <= W.

(* the values computed by one loop body, in evaluation order: xdbl[jr], xdbl[ir], y1, y2, carry', y2' *)
Definition body_ivals (l : loc) : list Z :=
  let a := zn (lx l) (ljr l) in let b := zn (lx l) (lir l) in
  let y1 := a - b in let y2 := y1 - lc l in
  [a; b; y1; y2; snd (norm y2); fst (norm y2)].

Lemma body_exact : forall l, locwf l -> Forall exact48 (body_ivals l).
Proof.
  intros l H. pose proof (pend_bounds l H) as Hp. destruct (norm_ok _ Hp) as [Hv Hc]. unfold pend in *.
  destruct H as (Hlen & Hx & Hcar & Hi & Hj).
  assert (word_ok (zn (lx l) (ljr l))) by (apply Forall_zn; auto; lia).
  assert (word_ok (zn (lx l) (lir l))) by (apply Forall_zn; auto; lia).
  unfold body_ivals, exact48, word_ok in *. pose proof W_pos.
  repeat (apply Forall_cons; [lia|]). apply Forall_nil.
Qed.

(* the values computed by one RANLUX_STEP: xdbl[i1], xdbl[i2], x1, x1', x2' *)
Definition rs_ivals (xd : list Z) (x2 : Z) (i1 i2 : Z) : list Z :=
  let x1 := zn xd i1 - zn xd i2 in
  [zn xd i1; zn xd i2; x1; (if x2 <? 0 then x1 - 1 else x1); (if x2 <? 0 then x2 + W else x2)].

Lemma rs_exact : forall l i1 i2, locwf l -> i2 = (lir l + 1) mod 12 -> i1 = (ljr l + 1) mod 12 -> i1 <> lir l ->
  Forall exact48 (rs_ivals (lx l) (pend l) i1 i2) /\
  rs_ivals (lx l) (pend l) i1 i2 = [zn (lx l) i1; zn (lx l) i2; zn (lx l) i1 - zn (lx l) i2; pend (body l); fst (norm (pend l))].
Proof.
  intros l i1 i2 Hl H2 H1 Hne.
  pose proof (rs_body l (lir l) i1 i2 Hl eq_refl H2 H1 Hne) as E.
  pose proof (pend_bounds l Hl) as Hp. pose proof (pend_bounds _ (body_wf l Hl)) as Hp'.
  destruct (norm_ok _ Hp) as [Hv _].
  assert (R : rs_ivals (lx l) (pend l) i1 i2 =
              [zn (lx l) i1; zn (lx l) i2; zn (lx l) i1 - zn (lx l) i2; pend (body l); fst (norm (pend l))]).
  { unfold ranlux_step in E. unfold rs_ivals, norm in *. destruct (pend l <? 0); cbn [fst snd] in *;
      injection E as _ E; rewrite <- E; reflexivity. }
  split; [|exact R]. rewrite R.
  destruct Hl as (Hlen & Hx & Hcar & Hi & Hj).
  assert (0 <= i1 < 12) by (subst i1; apply Z.mod_pos_bound; lia).
  assert (0 <= i2 < 12) by (subst i2; apply Z.mod_pos_bound; lia).
  assert (word_ok (zn (lx l) i1)) by (apply Forall_zn; auto; lia).
  assert (word_ok (zn (lx l) i2)) by (apply Forall_zn; auto; lia).
  unfold exact48, word_ok in *. pose proof W_pos.
  repeat (apply Forall_cons; [lia|]). apply Forall_nil.
Qed.

(* seeding: every partial sum x of the 48-step inner loop is below 2^(number of steps) <= 2^48 *)
Lemma seed_partial_exact : forall m r, reginv r -> (m <= 48)%nat ->
  0 <= fold_left wacc (lfsr m r) 0 < 2 ^ Z.of_nat m /\ 2 ^ Z.of_nat m <= W.
Proof.
  intros m r H Hm. pose proof (wob_range (lfsr m r) (lfsr_bits m r H)) as B. rewrite length_lfsr in B.
  rewrite wob_fold in B. split; [exact B|]. change W with (2 ^ 48). apply Z.pow_le_mono_r; lia.
Qed.

(* the executable check run by the model driver on every visited state decides wf *)
Lemma wfb_sound : forall s, wfb s = true -> wf s.
Proof.
  intros s H. unfold wfb in H. repeat (apply andb_prop in H; destruct H as [H ?]).
  unfold wf. repeat split.
  - apply Nat.eqb_eq. auto.
  - apply Forall_forall. intros v Hv.
    match goal with F : forallb _ _ = true |- _ => rewrite forallb_forall in F; specialize (F v Hv); apply andb_prop in F; destruct F as [F1 F2] end.
    unfold word_ok. apply Z.leb_le in F1. apply Z.ltb_lt in F2. lia.
  - match goal with F : (_ =? 0) || _ = true |- _ => apply orb_prop in F; destruct F as [F|F]; apply Z.eqb_eq in F; auto end.
  - apply Z.leb_le; auto.
  - apply Z.ltb_lt; auto.
  - apply Z.leb_le; auto.
  - apply Z.ltb_lt; auto.
  - apply Z.eqb_eq; auto.
  - apply Z.leb_le; auto.
Qed.

(* ------------------------------------------------------------------ examples: the hypotheses are satisfiable, the statements are not vacuous *)
(* first values of seed 1 (what gsl_rng_ranlxd2 seeded with 1 returns, times 2^48) *)
Example ex_seed1 : stream 14 (set_seed 1) =
  [21745022586017; 196174505299359; 205773107636216; 58556236704735; 195849200845518; 259647544328442; 228507593575357;
   120698853816937; 212624361058374; 109219519070484; 101194482428869; 236334768703061; 107983022133965; 267462294193551].
Proof. vm_compute. reflexivity. Qed.

Example ex_wf : wfb (set_seed 1) = true /\ wfb (after 30 (set_seed 12345)) = true /\ wfb (after 13 (set_seed 2147483648)) = true.
Proof. vm_compute. auto. Qed.

(* the state in which increment_state is called first satisfies its precondition ir = ir_old, and all three loops run later on *)
Example ex_increment_pre : let s := set_seed 42 in (ir s + 1) mod 12 = ir_old s /\ ir (after 13 s) = 2 /\ ir_old (after 13 s) = 2.
Proof. vm_compute. auto. Qed.

(* seeds 2 and 3 differ within the first 24 values (here already in the first) *)
Example ex_streams_differ : nth_output 2 0 <> nth_output 3 0.
Proof. vm_compute. discriminate. Qed.

(* seed 2^31 is used as index 0: the shift register is all zero, every word is 2^48-1, and the very first
   subtract-with-borrow difference is exactly 0 (the case that separates y2 < 0 from y2 <= 0) *)
Example ex_degenerate_seed : xdbl (set_seed 2147483648) = repeat (W - 1) 12 /\ pend (mkLoc (xdbl (set_seed 2147483648)) 0 0 7) = 0.
Proof. vm_compute. auto. Qed.

(* dump/restore in the middle of a batch of twelve *)
Example ex_restart : let s := after 17 (set_seed 7) in restore (dump s) = Some s /\ length (dump s) = 17%nat.
Proof. vm_compute. auto. Qed.

Example ex_integer : fst (next_integer (set_seed 1)) = 165901356.
Proof. vm_compute. auto. Qed.
