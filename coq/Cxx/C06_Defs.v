(* C06: executable hand models of
     src/IonizationStateCalculator.cpp : compute_ionization_state_hydrogen,
                                         compute_ionization_states_hydrogen_helium,
                                         compute_ionization_states_metals,
                                         calculate_ionization_state (one cell)
     src/TemperatureCalculator.cpp     : calculate_temperature (one cell; control logic,
                                         the cooling/heating balance is an oracle)
   ONE definition of each function, written over an abstract scalar [F] with a record
   of operations [ops F].  It is instantiated
     - with PrimFloat (binary64) for execution: [OF] at the end of this file; pow/exp/log
       are not in PrimFloat, they are parameters of the instance (the OCaml driver passes
       Float.pow/exp/log = glibc libm, the same functions the C++ calls);
     - with R for the theorems (Cxx/C06_Proofs.v, instance [OR]).
   Literal transcription: every C++ double expression is written with the C++
   association; std::max(a,b) = (a<b)?b:a, std::min(a,b) = (b<a)?b:a, `if (x)` on a
   double = x != 0, `x != 0.` = negb (x == 0).  cmac_assert/cmac_assert_message are
   compiled out (HAVE_ASSERTIONS is off in the configured build) and are not modelled;
   cmac_error = abort() is the explicit value [HheAbort]/[CellAbort]/[TAbort]. *)
From Coq Require Import Bool List Floats.
Import ListNotations.

(* literal constants that occur in the two C++ files *)
Inductive cname :=
| K0 | K1 | K2 | K4 | Khalf | Kquarter | K1em10 | K1em14         (* hydrogen *)
| K1em20 | K417em20 | K1em4 | Km0861 | K099 | Kmhalf | K09 | K77 | K1em3   (* H/He loop *)
| K500 | K4000 | K8000 | K11 | Km99 | K99 | K1e10 | K30000.      (* temperature loop *)

Record ops (F : Type) := mkOps {
  add : F -> F -> F; sub : F -> F -> F; mul : F -> F -> F; div : F -> F -> F;
  sqrtF : F -> F; absF : F -> F;
  ltb : F -> F -> bool;          (* a < b  *)
  leb : F -> F -> bool;          (* a <= b *)
  eqb : F -> F -> bool;          (* a == b *)
  powF : F -> F -> F; expF : F -> F; logF : F -> F;
  cst : cname -> F }.
Arguments add {F}. Arguments sub {F}. Arguments mul {F}. Arguments div {F}.
Arguments sqrtF {F}. Arguments absF {F}. Arguments ltb {F}. Arguments leb {F}. Arguments eqb {F}.
Arguments powF {F}. Arguments expF {F}. Arguments logF {F}. Arguments cst {F}.

(* the 14 tracked ions, in the order of enum IonName *)
Inductive ion := H_n | He_n | C_p1 | C_p2 | N_n | N_p1 | N_p2 | O_n | O_p1 | Ne_n | Ne_p1
               | S_p1 | S_p2 | S_p3.
Definition all_ions : list ion :=
  [H_n; He_n; C_p1; C_p2; N_n; N_p1; N_p2; O_n; O_p1; Ne_n; Ne_p1; S_p1; S_p2; S_p3].
Definition metal_ions : list ion :=
  [C_p1; C_p2; N_n; N_p1; N_p2; O_n; O_p1; Ne_n; Ne_p1; S_p1; S_p2; S_p3].

Inductive hhe_res (F : Type) :=
| HheOk (h0 he0 : F) (niter : nat)
| HheAbort.                         (* cmac_error("Too many iterations in ionization loop!") *)
Arguments HheOk {F}. Arguments HheAbort {F}.

Section Model.
Variable F : Type.
Variable OPS : ops F.
(* variants of the two sites repaired after this check exhibited defects D6 and D9:
   [true] = the pinned commit, [false] = the repaired code.
   d9: exact branch of compute_ionization_state_hydrogen,  1 + aa*(1-cc)  (cancels
       catastrophically for large aa)  vs. the algebraically equal  1/(1 + aa*(1+cc));
   d6: calculate_ionization_state enters the ionized branch for  jH > 0  (then for
       0 < jH < 1e-20 the H/He shortcut gives ne = 0 and the coolant ratios are x/0)
       vs.  jH >= 1e-20  (weaker fields are handled like jH == 0);
   d6t: the same weak field in calculate_temperature: early `neutral, 500 K' return for
       jH == 0 && jHe == 0  (then 0 < jH < 1e-20 runs the loop on NaN cooling rates and
       ends at the 30000 K cap with h0 = 1)  vs.  jH < 1e-20. *)
Variables d6_pinned d6t_pinned d9_pinned : bool.
Local Notation "x + y" := (add OPS x y).
Local Notation "x - y" := (sub OPS x y).
Local Notation "x * y" := (mul OPS x y).
Local Notation "x / y" := (div OPS x y).
Local Notation "x <? y" := (ltb OPS x y).
Local Notation "x >? y" := (ltb OPS y x) (at level 70, no associativity).
Local Notation "x =? y" := (eqb OPS x y).
Local Notation "x <=? y" := (leb OPS x y).
Local Notation "'c' k" := (cst OPS k) (at level 1, k at level 0).

Definition maxF (a b : F) : F := if a <? b then b else a.     (* std::max(a, b) *)
Definition minF (a b : F) : F := if b <? a then b else a.     (* std::min(a, b) *)

(* ------------------------------------------------------------------------------------
   (a) IonizationStateCalculator::compute_ionization_state_hydrogen(alphaH, jH, nH) *)
Definition hyd_aa (alphaH jH nH : F) : F := (c Khalf * jH) / (nH * alphaH).
Definition hyd_bb (alphaH jH nH : F) : F := c K2 / hyd_aa alphaH jH nH.
Definition hyd (alphaH jH nH : F) : F :=
  if (jH >? c K0) && (nH >? c K0) then
    let aa := hyd_aa alphaH jH nH in
    let bb := c K2 / aa in
    if bb <? c K1em10 then maxF (c K1em14) (c Kquarter * bb)
    else
      let cc := sqrtF OPS (bb + c K1) in
      maxF (c K1em14) (if d9_pinned then c K1 + aa * (c K1 - cc)
                       else c K1 / (c K1 + aa * (c K1 + cc)))
  else c K1.

(* ------------------------------------------------------------------------------------
   (b) IonizationStateCalculator::compute_ionization_states_hydrogen_helium *)
(* helium neutral fraction inside one iteration, from the current h0 *)
Definition hhe_he0 (che AHe h0 : F) : F :=
  if negb (che =? c K0) then                                   (* if (che) *)
    let bhe := (((c K1 + c K2 * AHe) - h0) * che) + c K1 in
    let che_bhe := che / bhe in
    let opAHeh0 := (c K1 + AHe) - h0 in
    let t1he := (((c K4 * AHe) * opAHeh0) * che_bhe) * che_bhe in
    if t1he <? c K1em3 then opAHeh0 * che_bhe
    else (bhe - sqrtF OPS (bhe * bhe - ((((c K4 * AHe) * opAHeh0) * che) * che))) / ((c K2 * AHe) * che)
  else c K1.

Definition hhe_pHots (T h0old he0old : F) : F :=
  c K1 / (c K1 + ((c K77 * he0old) / sqrtF OPS T) / h0old).
Definition hhe_ch (ch1 ch2 AHe T h0old he0old : F) : F :=
  ch1 - ((((ch2 * AHe) * (c K1 - he0old)) * hhe_pHots T h0old he0old) / (c K1 - h0old)).

(* hydrogen neutral fraction inside one iteration, from ch and the new he0 *)
Definition hhe_h0 (ch AHe he0 : F) : F :=
  let b := (ch * ((c K2 + AHe) - he0 * AHe)) + c K1 in
  let ch_b := ch / b in
  let opAHeh0AHe := (c K1 + AHe) - he0 * AHe in
  let t1 := ((c K4 * ch_b) * ch_b) * opAHeh0AHe in
  if t1 <? c K1em3 then ch_b * opAHeh0AHe
  else (b - sqrtF OPS (b * b - (((c K4 * ch) * ch) * opAHeh0AHe))) / (c K2 * ch).

(* the body of the while loop for iteration number [niter] (already incremented);
   input: h0, he0 as left by the previous iteration; output: (h0, h0old, he0, he0old) *)
Definition hhe_step (ch1 ch2 che AHe T : F) (niter : nat) (h0 he0 : F) : F * F * F * F :=
  let h0old := h0 in
  let he0old := if he0 >? c K0 then he0 else c K0 in
  let ch := hhe_ch ch1 ch2 AHe T h0old he0old in
  let he0' := hhe_he0 che AHe h0 in
  let h0' := hhe_h0 ch AHe he0' in
  if Nat.ltb 10 niter then
    (c Khalf * (h0' + h0old), h0old, c Khalf * (he0' + he0old), he0old)
  else (h0', h0old, he0', he0old).

Definition hhe_cond (h0 h0old he0 he0old : F) : bool :=
  (absF OPS (h0 - h0old) >? c K1em4 * h0old) && (absF OPS (he0 - he0old) >? c K1em4 * he0old).

(* while (cond) { ++niter; body; if (niter > 20) cmac_error }.  fuel 21 is always
   enough: the 21st iteration aborts (C06_Proofs.hhe_loop_fuel). *)
Fixpoint hhe_loop (fuel : nat) (ch1 ch2 che AHe T : F) (niter : nat) (h0 h0old he0 he0old : F)
  : hhe_res F :=
  if hhe_cond h0 h0old he0 he0old then
    match fuel with
    | O => HheAbort
    | S f =>
      let niter := S niter in
      match hhe_step ch1 ch2 che AHe T niter h0 he0 with
      | (h0', h0old', he0', he0old') =>
        if Nat.ltb 20 niter then HheAbort
        else hhe_loop f ch1 ch2 che AHe T niter h0' h0old' he0' he0old'
      end
    end
  else HheOk h0 he0 niter.

Definition hhe_ch1 (alphaH jH nH : F) : F := (alphaH * nH) / jH.
Definition hhe_alpha_e_2sP (T : F) : F := c K417em20 * powF OPS (T * c K1em4) (c Km0861).
Definition hhe_ch2 (jH nH AHe T : F) : F := ((AHe * hhe_alpha_e_2sP T) * nH) / jH.
Definition hhe_che (alphaHe jHe nH : F) : F :=
  if jHe >? c K0 then (alphaHe * nH) / jHe else c K0.
Definition hhe_h0old_init (ch1 : F) : F := c K099 * (c K1 - expF OPS (c Kmhalf / ch1)).
Definition hhe_he0old_init (che : F) : F :=
  if che >? c K0 then minF (c Khalf / che) (c K1) else c K1.

Definition HHE_FUEL : nat := 21.

Definition hhe (alphaH alphaHe jH jHe nH AHe T : F) : hhe_res F :=
  if jH <? c K1em20 then HheOk (c K1) (c K1) 0
  else
    let ch1 := hhe_ch1 alphaH jH nH in
    let ch2 := hhe_ch2 jH nH AHe T in
    let che := hhe_che alphaHe jHe nH in
    let h0old := hhe_h0old_init ch1 in
    let h0 := c K09 * h0old in
    let he0old := hhe_he0old_init che in
    hhe_loop HHE_FUEL ch1 ch2 che AHe T 0 h0 h0old (c K0) he0old.

(* ------------------------------------------------------------------------------------
   (c) IonizationStateCalculator::compute_ionization_states_metals.
   alpha     = recombination_rates.get_recombination_rate(ion, T)
   ctrH/ctrHe = charge_transfer_rates.get_charge_transfer_recombination_rate_H/He(ion, T4)
   ctiH      = charge_transfer_rates.get_charge_transfer_ionization_rate_H(ion, T4)
   (values at the temperature of the call; the tables themselves are property C18) *)
Record rates := mkRates { alpha : ion -> F; ctrH : ion -> F; ctrHe : ion -> F; ctiH : ion -> F }.

(* two tracked stages: 1/(1 + r21 + r31) *)
Definition frac2 (r21 r32 : F) : F * F :=
  let r31 := r32 * r21 in
  let sum_inv := c K1 / ((c K1 + r21) + r31) in
  (r21 * sum_inv, r31 * sum_inv).
(* three tracked stages *)
Definition frac3 (r21 r32 r43 : F) : F * F * F :=
  let r31 := r32 * r21 in
  let r41 := r43 * r31 in
  let sum_inv := c K1 / (((c K1 + r21) + r31) + r41) in
  (r21 * sum_inv, r31 * sum_inv, r41 * sum_inv).

Section Metals.
Variable R : rates.
Variable j : ion -> F.
Variables ne nh0 nhe0 nhp : F.
Definition C21 := j C_p1 / (ne * alpha R C_p1).
Definition C32 := j C_p2 / ((ne * alpha R C_p2 + nh0 * ctrH R C_p2) + nhe0 * ctrHe R C_p2).
Definition N21 := (j N_n + nhp * ctiH R N_n) / (ne * alpha R N_n + nh0 * ctrH R N_n).
Definition N32 := j N_p1 / ((ne * alpha R N_p1 + nh0 * ctrH R N_p1) + nhe0 * ctrHe R N_p1).
Definition N43 := j N_p2 / ((ne * alpha R N_p2 + nh0 * ctrH R N_p2) + nhe0 * ctrHe R N_p2).
Definition O21 := (j O_n + nhp * ctiH R O_n) / (ne * alpha R O_n + nh0 * ctrH R O_n).
Definition O32 := j O_p1 / ((ne * alpha R O_p1 + nh0 * ctrH R O_p1) + nhe0 * ctrHe R O_p1).
Definition Ne21 := j Ne_n / (ne * alpha R Ne_n).
Definition Ne32 := j Ne_p1 / ((ne * alpha R Ne_p1 + nh0 * ctrH R Ne_p1) + nhe0 * ctrHe R Ne_p1).
Definition S21 := j S_p1 / (ne * alpha R S_p1 + nh0 * ctrH R S_p1).
Definition S32 := j S_p2 / ((ne * alpha R S_p2 + nh0 * ctrH R S_p2) + nhe0 * ctrHe R S_p2).
Definition S43 := j S_p3 / ((ne * alpha R S_p3 + nh0 * ctrH R S_p3) + nhe0 * ctrHe R S_p3).

(* the ionic fractions the function stores; H_n/He_n are not touched (given as [old]) *)
Definition metals (old : ion -> F) : ion -> F :=
  let fc := frac2 C21 C32 in
  let fn := frac3 N21 N32 N43 in
  let fo := frac2 O21 O32 in
  let fne := frac2 Ne21 Ne32 in
  let fs := frac3 S21 S32 S43 in
  fun i => match i with
  | H_n => old H_n | He_n => old He_n
  | C_p1 => fst fc | C_p2 => snd fc
  | N_n => fst (fst fn) | N_p1 => snd (fst fn) | N_p2 => snd fn
  | O_n => fst fo | O_p1 => snd fo
  | Ne_n => fst fne | Ne_p1 => snd fne
  | S_p1 => fst (fst fs) | S_p2 => snd (fst fs) | S_p3 => snd fs
  end.
End Metals.

(* ------------------------------------------------------------------------------------
   IonizationStateCalculator::calculate_ionization_state(jfac, hfac, ionization_variables)
   (HAS_HELIUM .. HAS_SULPHUR defined, VARIABLE_ABUNDANCES and
   DO_OUTPUT_PHOTOIONIZATION_RATES not defined: the configured build) *)
Inductive cell_res :=
| CellOk (frac : ion -> F) (heatH heatHe : F)
| CellAbort.

Definition neutral_fracs : ion -> F := fun i =>
  match i with H_n | He_n | N_n | O_n | Ne_n => c K1 | _ => c K0 end.

Definition cell_ne (ntot AHe h0 he0 : F) : F := ntot * ((c K1 - h0) + AHe * (c K1 - he0)).

Definition cell (R : rates) (jfac hfac : F) (mean : ion -> F) (heatH heatHe : F)
                (ntot T AHe : F) : cell_res :=
  let jH := jfac * mean H_n in
  let jHe := jfac * mean He_n in
  let hH := hfac * heatH in
  let hHe := hfac * heatHe in
  if (if d6_pinned then jH >? c K0 else c K1em20 <=? jH) && (ntot >? c K0) then
    let alphaH := alpha R H_n in
    let r := if negb (AHe =? c K0) then hhe alphaH (alpha R He_n) jH jHe ntot AHe T
             else HheOk (hyd alphaH jH ntot) (c K0) 0 in
    match r with
    | HheAbort => CellAbort
    | HheOk h0 he0 _ =>
      let nhp := ntot * (c K1 - h0) in
      let ne := cell_ne ntot AHe h0 he0 in
      let nh0 := ntot * h0 in
      let nhe0 := (ntot * he0) * AHe in
      let hhe_fr := fun i => match i with H_n => h0 | _ => he0 end in
      CellOk (metals R (fun i => jfac * mean i) ne nh0 nhe0 nhp hhe_fr) hH hHe
    end
  else if ntot >? c K0 then CellOk neutral_fracs hH hHe
  else CellOk (fun _ => c K0) hH hHe.

(* ------------------------------------------------------------------------------------
   (d) TemperatureCalculator::calculate_temperature(ionization_variables, jfac, hfac, midpoint)
   control logic.  The cooling/heating evaluation compute_cooling_and_heating_balance is
   the oracle [bal]: given the oracle state, the cosmic ray factor and a temperature it returns
   (h0, he0, gain, loss) and the next oracle state (the real function writes the metal
   fractions into ionization_variables; that cell is the oracle state). *)
Section Temperature.
Variable M : Type.
Variable bal : M -> F -> F -> (F * F * F * F) * M.     (* state, crfac, T *)

Record tstate := mkT { tT0 : F; th0 : F; the0 : F; tgain0 : F; tloss0 : F; tm : M; tniter : nat }.

Definition t_exp (x1 x2 : F) : F :=
  if x2 >? c K0 then (if x1 >? c K0 then logF OPS (x1 / x2) else c Km99)
  else (if x1 >? c K0 then c K99 else c K0).

(* body of the while loop *)
Definition t_body (crfac tmin : F) (s : tstate) : tstate :=
  let T0 := tT0 s in
  let T1 := c K11 * T0 in
  let '((_, _, gain1, loss1), m1) := bal (tm s) crfac T1 in
  let T2 := c K09 * T0 in
  let '((_, _, gain2, loss2), m2) := bal m1 crfac T2 in
  let '((h0, he0, gain0, loss0), m3) := bal m2 crfac T0 in
  let logtt := logF OPS (c K11 / c K09) in
  let expgain := t_exp gain1 gain2 in
  let exploss := t_exp loss1 loss2 in
  let expdiff := expgain - exploss in
  let T0a := if (gain0 >? c K0) && negb (expdiff =? c K0)
             then T0 * powF OPS (loss0 / gain0) (logtt / expdiff) else T1 in
  let s1 := if T0a <? tmin then mkT (c K500) (c K1) (c K1) (c K1) (c K1) m3 (S (tniter s))
            else mkT T0a h0 he0 gain0 loss0 m3 (S (tniter s)) in
  if tT0 s1 >? c K1e10 then mkT (c K1e10) (c K1em10) (c K1em10) (c K1) (c K1) m3 (S (tniter s))
  else s1.

Definition t_cond (eps : F) (s : tstate) : bool :=
  absF OPS (tgain0 s - tloss0 s) >? eps * tgain0 s.

(* while (cond && niter < maxit): [left] = maxit - niter *)
Fixpoint t_loop (left : nat) (eps crfac tmin : F) (s : tstate) : tstate :=
  match left with
  | O => s
  | S l => if t_cond eps s then t_loop l eps crfac tmin (t_body crfac tmin s) else s
  end.

Inductive t_res :=
| TOk (T h0 he0 : F) (zero_metals : bool) (early : bool) (heatH heatHe : F) (m : M) (niter : nat)
     (* zero_metals: all coolant fractions are set to 0; otherwise they are what the oracle
        state holds.  early: returned before the loop (T = 500, heating terms zeroed) *)
| TAbort.

Definition t_neutral (m0 : M) : t_res := TOk (c K500) (c K1) (c K1) true true (c K0) (c K0) m0 0.

(* alphaH8/alphaHe8 = recombination rates of H and He at 8000 K (cosmic-ray pre-check) *)
Definition calc_temperature (eps tmin : F) (maxit : nat) (crfac_cfg crlim : F)
    (alphaH8 alphaHe8 AHe : F)
    (jfac hfac : F) (meanH meanHe heatH heatHe ntot Tinit crf_cell : F) (m0 : M) : t_res :=
  let jH := jfac * meanH in
  let jHe := jfac * meanHe in
  if (if d6t_pinned then (jH =? c K0) && (jHe =? c K0) else jH <? c K1em20) || (ntot =? c K0)
  then t_neutral m0
  else
    let crfac0 := crfac_cfg * crf_cell in
    let crfac := if crfac0 <? c K0 then crfac_cfg else crfac0 in
    let go := fun _ : unit =>
      let T0 := if Tinit <=? c K4000 then c K8000 else Tinit in
      let s := t_loop maxit eps crfac tmin (mkT T0 (c K0) (c K0) (c K1) (c K0) m0 0) in
      let Tf := minF (c K30000) (tT0 s) in
      let h0 := if meanH =? c K0 then c K1 else th0 s in
      let he0 := if meanHe =? c K0 then c K1 else the0 s in
      TOk Tf h0 he0 ((h0 =? c K1) || (h0 <=? c K1em10)) false (hfac * heatH) (hfac * heatHe)
          (tm s) (tniter s) in
    if crfac >? c K0 then
      match hhe alphaH8 alphaHe8 jH jHe ntot AHe (c K8000) with
      | HheAbort => TAbort
      | HheOk h0 _ _ => if h0 >? crlim then t_neutral m0 else go tt
      end
    else go tt.
End Temperature.
End Model.

Arguments HheOk {F}. Arguments HheAbort {F}.
Arguments mkRates {F}. Arguments alpha {F}. Arguments ctrH {F}. Arguments ctrHe {F}. Arguments ctiH {F}.
Arguments CellOk {F}. Arguments CellAbort {F}.
Arguments TOk {F M}. Arguments TAbort {F M}.
Arguments mkT {F M}. Arguments tT0 {F M}. Arguments th0 {F M}. Arguments the0 {F M}.
Arguments tgain0 {F M}. Arguments tloss0 {F M}. Arguments tm {F M}. Arguments tniter {F M}.

(* ------------------------------------------------------------------------------------
   binary64 instance.  pow/exp/log are supplied by the caller (libm). *)
Set Warnings "-inexact-float".
Definition fcst (k : cname) : float :=
  match k with
  | K0 => 0 | K1 => 1 | K2 => 2 | K4 => 4 | Khalf => 0.5 | Kquarter => 0.25
  | K1em10 => 1e-10 | K1em14 => 1e-14
  | K1em20 => 1e-20 | K417em20 => 4.17e-20 | K1em4 => 1e-4 | Km0861 => -0.861 | K099 => 0.99
  | Kmhalf => -0.5 | K09 => 0.9 | K77 => 77 | K1em3 => 1e-3
  | K500 => 500 | K4000 => 4000 | K8000 => 8000 | K11 => 1.1 | Km99 => -99 | K99 => 99
  | K1e10 => 1e10 | K30000 => 30000
  end%float.

Definition OF (pw : float -> float -> float) (ex lg : float -> float) : ops float :=
  mkOps float PrimFloat.add PrimFloat.sub PrimFloat.mul PrimFloat.div PrimFloat.sqrt PrimFloat.abs
        PrimFloat.ltb PrimFloat.leb PrimFloat.eqb pw ex lg fcst.

(* instance without libm, for the functions that need none of pow/exp/log
   (hyd, frac2, frac3, metals) and for vm_compute witnesses *)
Definition OF0 : ops float := OF (fun x _ => x) (fun x => x) (fun x => x).

Definition f_hyd := hyd float OF0.      (* d9_pinned -> alphaH -> jH -> nH -> result *)
Definition f_le (a b : float) : bool := PrimFloat.leb a b.
