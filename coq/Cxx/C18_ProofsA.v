(* C18 proofs, part A: the real-number instance of the model, exact decimals, sign checkers
   with soundness lemmas, and the recombination-rate theorems. *)
From Coq Require Import Reals ZArith List Bool Lra Lia Psatz.
From Interval Require Import Tactic.
From CMI Require Import Cxx.C18_Dec Cxx.C18_Gen Cxx.C18_Defs.
Import ListNotations.
Local Open Scope R_scope.

(* ---------------------------------------------------------------------------
   exact decimals as reals *)
Definition dnum (d : dec) : Z := if (de d <? 0)%Z then dm d else (dm d * 10 ^ de d)%Z.
Definition dden (d : dec) : Z := if (de d <? 0)%Z then (10 ^ (- de d))%Z else 1%Z.
Definition dec2R (d : dec) : R := IZR (dnum d) / IZR (dden d).

Definition Rltb (a b : R) : bool := if Rlt_dec a b then true else false.
Definition Rleb (a b : R) : bool := if Rle_dec a b then true else false.
Definition Reqb (a b : R) : bool := if Req_EM_T a b then true else false.

(* the model over the reals: pow is Rpower, log10 x = ln x / ln 10 *)
Definition Rops : ops R :=
  mkOps R Rplus Rminus Rmult Rdiv Ropp sqrt exp (fun x => ln x / ln 10) Rpower Rltb Rleb Reqb dec2R.

Lemma Rltb_true : forall a b, Rltb a b = true <-> a < b.
Proof. intros; unfold Rltb; destruct (Rlt_dec a b); split; intros; try lra; congruence. Qed.
Lemma Rltb_false : forall a b, Rltb a b = false <-> b <= a.
Proof. intros; unfold Rltb; destruct (Rlt_dec a b); split; intros; try lra; congruence. Qed.
Lemma Rleb_true : forall a b, Rleb a b = true <-> a <= b.
Proof. intros; unfold Rleb; destruct (Rle_dec a b); split; intros; try lra; congruence. Qed.
Lemma Rleb_false : forall a b, Rleb a b = false <-> b < a.
Proof. intros; unfold Rleb; destruct (Rle_dec a b); split; intros; try lra; congruence. Qed.

Lemma dden_pos : forall d, (0 < dden d)%Z.
Proof.
  intros [m e]; unfold dden; cbn [de]. destruct (e <? 0)%Z eqn:E; [|lia].
  apply Z.ltb_lt in E. apply Z.pow_pos_nonneg; lia.
Qed.
Lemma dden_posR : forall d, 0 < IZR (dden d).
Proof. intros; apply IZR_lt, dden_pos. Qed.

(* sign and order of decimals, decided on integers *)
Definition dpos (d : dec) : bool := (0 <? dm d)%Z.
Definition dnonneg (d : dec) : bool := (0 <=? dm d)%Z.
Definition dnonpos (d : dec) : bool := (dm d <=? 0)%Z.
Definition dlt (a b : dec) : bool := (dnum a * dden b <? dnum b * dden a)%Z.
Definition dle (a b : dec) : bool := (dnum a * dden b <=? dnum b * dden a)%Z.

Lemma dnum_sign_pos : forall d, (0 < dm d)%Z -> (0 < dnum d)%Z.
Proof.
  intros [m e] H; unfold dnum; cbn [dm de] in *. destruct (e <? 0)%Z eqn:E; [lia|].
  apply Z.ltb_ge in E. apply Z.mul_pos_pos; [lia|]. apply Z.pow_pos_nonneg; lia.
Qed.
Lemma dnum_sign_nonneg : forall d, (0 <= dm d)%Z -> (0 <= dnum d)%Z.
Proof.
  intros [m e] H; unfold dnum; cbn [dm de] in *. destruct (e <? 0)%Z eqn:E; [lia|].
  apply Z.ltb_ge in E. apply Z.mul_nonneg_nonneg; [lia|]. apply Z.pow_nonneg; lia.
Qed.
Lemma dnum_sign_nonpos : forall d, (dm d <= 0)%Z -> (dnum d <= 0)%Z.
Proof.
  intros [m e] H; unfold dnum; cbn [dm de] in *. destruct (e <? 0)%Z eqn:E; [lia|].
  apply Z.ltb_ge in E. apply Z.mul_nonpos_nonneg; [lia|]. apply Z.pow_nonneg; lia.
Qed.

Lemma dpos_sound : forall d, dpos d = true -> 0 < dec2R d.
Proof.
  intros d H; apply Z.ltb_lt in H. unfold dec2R.
  apply Rdiv_lt_0_compat; [apply IZR_lt, dnum_sign_pos, H | apply dden_posR].
Qed.
Lemma dnonneg_sound : forall d, dnonneg d = true -> 0 <= dec2R d.
Proof.
  intros d H; apply Z.leb_le in H. unfold dec2R, Rdiv.
  apply Rmult_le_pos; [apply IZR_le, dnum_sign_nonneg, H | left; apply Rinv_0_lt_compat, dden_posR].
Qed.
Lemma dnonpos_sound : forall d, dnonpos d = true -> dec2R d <= 0.
Proof.
  intros d H; apply Z.leb_le in H. unfold dec2R, Rdiv.
  assert (IZR (dnum d) <= 0) by (apply IZR_le, dnum_sign_nonpos, H).
  assert (0 < / IZR (dden d)) by (apply Rinv_0_lt_compat, dden_posR). nra.
Qed.
Lemma dlt_sound : forall a b, dlt a b = true -> dec2R a < dec2R b.
Proof.
  intros a b H; apply Z.ltb_lt in H. unfold dec2R.
  pose proof (dden_posR a); pose proof (dden_posR b).
  apply IZR_lt in H. rewrite !mult_IZR in H.
  apply Rmult_lt_reg_r with (IZR (dden a) * IZR (dden b)); [nra|]. field_simplify; lra.
Qed.
Lemma dle_sound : forall a b, dle a b = true -> dec2R a <= dec2R b.
Proof.
  intros a b H; apply Z.leb_le in H. unfold dec2R.
  pose proof (dden_posR a); pose proof (dden_posR b).
  apply IZR_le in H. rewrite !mult_IZR in H.
  apply Rmult_le_reg_r with (IZR (dden a) * IZR (dden b)); [nra|]. field_simplify; lra.
Qed.

(* closed decimals in a goal become quotients of integer literals *)
Ltac dec_norm :=
  repeat match goal with
  | |- context [dec2R (D ?m ?e)] =>
      let n := eval vm_compute in (dnum (D m e)) in
      let dd := eval vm_compute in (dden (D m e)) in
      change (dec2R (D m e)) with (IZR n / IZR dd)
  end.
Ltac dec_norm_in H :=
  repeat match type of H with
  | context [dec2R (D ?m ?e)] =>
      let n := eval vm_compute in (dnum (D m e)) in
      let dd := eval vm_compute in (dden (D m e)) in
      change (dec2R (D m e)) with (IZR n / IZR dd) in H
  end.

Lemma one_R : one Rops = 1.
Proof. unfold one, k; cbn [o_dec Rops]. dec_norm. lra. Qed.
Lemma zero_R : zero Rops = 0.
Proof. unfold zero, k; cbn [o_dec Rops]. dec_norm. lra. Qed.
Lemma k_R : forall m e, k Rops m e = dec2R (D m e).
Proof. reflexivity. Qed.
Lemma cd_R : forall d, cd Rops d = dec2R d.
Proof. reflexivity. Qed.

Lemma fmax_R : forall a b, fmax Rops a b = Rmax a b.
Proof.
  intros; unfold fmax; cbn [o_lt Rops]. unfold Rltb, Rmax.
  destruct (Rlt_dec a b), (Rle_dec a b); lra.
Qed.
Lemma fmin_R : forall a b, fmin Rops a b = Rmin a b.
Proof.
  intros; unfold fmin; cbn [o_lt Rops]. unfold Rltb, Rmin.
  destruct (Rlt_dec b a), (Rle_dec a b); lra.
Qed.

(* unfold the generic model at the real instance, leaving real-number operations folded *)
Ltac unfR :=
  cbv beta iota zeta delta
    [rec_rate rec_prepped rec_finish rec_before_scaling rr_eval rr_prep
     ct_eval clamp fit_A fit_B fitA_y fitA_b2 fitB_x fitB_y fitB_b2 prep_A prep_B eV_to_Hz
     one zero k cd of_nat
     o_add o_sub o_mul o_div o_neg o_sqrt o_exp o_log10 o_pow o_dec Rops
     pa_Plconst pa_Eth pa_E0inv pa_s0 pa_yainv pa_P pa_yw2 pb_E0inv pb_s0 pb_yainv pb_P pb_yw2 pb_y0 pb_y12].

(* ===========================================================================
   recombination rates *)

(* rec_finish: scaling by 1e-6 and max with 0 *)
Lemma rec_finish_R : forall r, rec_finish Rops r = Rmax 0 (r * dec2R (D 1 (-6))).
Proof. intros; unfold rec_finish. rewrite fmax_R, zero_R. reflexivity. Qed.

Lemma rec_finish_nonneg : forall r, 0 <= rec_finish Rops r.
Proof. intros; rewrite rec_finish_R. apply Rmax_l. Qed.

Lemma rec_finish_pos : forall r, 0 < r -> 0 < rec_finish Rops r.
Proof.
  intros r H; rewrite rec_finish_R. dec_norm.
  eapply Rlt_le_trans; [|apply Rmax_r]. lra.
Qed.

Lemma rec_finish_of_pos : forall r, 0 < r -> rec_finish Rops r = r * (1 / 1000000).
Proof.
  intros r H; rewrite rec_finish_R. dec_norm. rewrite Rmax_right; lra.
Qed.

(* --- the Verner & Ferland form  a / ( sqrt(T c2) (sqrt(T c2)+1)^(1-b) (1+sqrt(T c3))^(1+b) ) *)
Definition vfR (a b c2 c3 T : R) : R :=
  a / (sqrt (T * c2) * Rpower (sqrt (T * c2) + 1) (1 - b) * Rpower (1 + sqrt (T * c3)) (1 + b)).

Lemma rr_eval_vf : forall a b c2 c3 T, rr_eval Rops (PPvf a b c2 c3) T = vfR a b c2 c3 T.
Proof. intros. unfold rr_eval, vfR. cbn [o_add o_sub o_mul o_div o_sqrt o_pow Rops]. rewrite one_R. reflexivity. Qed.

Lemma Rpower_pos : forall x y, 0 < Rpower x y.
Proof. intros; unfold Rpower; apply exp_pos. Qed.

Lemma vfR_pos : forall a b c2 c3 T, 0 < a -> 0 < c2 -> 0 < T -> 0 < vfR a b c2 c3 T.
Proof.
  intros. unfold vfR. apply Rdiv_lt_0_compat; [assumption|].
  apply Rmult_lt_0_compat; [apply Rmult_lt_0_compat|]; try apply Rpower_pos.
  apply sqrt_lt_R0. nra.
Qed.

(* a product of positive strictly increasing factors in the denominator *)
Lemma vfR_decreasing : forall a b c2 c3 T T', 0 < a -> 0 < c2 -> 0 <= c3 -> -1 < b < 1 ->
  0 < T -> T < T' -> vfR a b c2 c3 T' < vfR a b c2 c3 T.
Proof.
  intros a b c2 c3 T T' Ha Hc2 Hc3 Hb HT HTT. unfold vfR.
  assert (S0 : 0 < sqrt (T * c2)) by (apply sqrt_lt_R0; nra).
  assert (S1 : sqrt (T * c2) < sqrt (T' * c2)) by (apply sqrt_lt_1_alt; nra).
  assert (S2 : sqrt (T * c3) <= sqrt (T' * c3)) by (apply sqrt_le_1_alt; nra).
  assert (S3 : 0 <= sqrt (T * c3)) by apply sqrt_pos.
  assert (P1 : Rpower (sqrt (T * c2) + 1) (1 - b) < Rpower (sqrt (T' * c2) + 1) (1 - b))
    by (apply Rlt_Rpower_l; lra).
  assert (P2 : Rpower (1 + sqrt (T * c3)) (1 + b) <= Rpower (1 + sqrt (T' * c3)) (1 + b))
    by (apply Rle_Rpower_l; lra).
  pose proof (Rpower_pos (sqrt (T * c2) + 1) (1 - b)) as Q1.
  pose proof (Rpower_pos (1 + sqrt (T * c3)) (1 + b)) as Q2.
  set (x := sqrt (T * c2)) in *. set (x' := sqrt (T' * c2)) in *.
  set (p := Rpower (x + 1) (1 - b)) in *. set (p' := Rpower (x' + 1) (1 - b)) in *.
  set (q := Rpower (1 + sqrt (T * c3)) (1 + b)) in *. set (q' := Rpower (1 + sqrt (T' * c3)) (1 + b)) in *.
  assert (D : x * p * q < x' * p' * q').
  { assert (x * p < x' * p') by nra. assert (0 < x * p) by nra. nra. }
  assert (D0 : 0 < x * p * q) by (apply Rmult_lt_0_compat; [apply Rmult_lt_0_compat|]; assumption).
  unfold Rdiv. apply Rmult_lt_compat_l; [assumption|].
  apply Rinv_lt_contravar; [nra | assumption].
Qed.

(* --- hydrogen and helium: the literals of get_recombination_rate *)
Definition hR (a s1 s2 p q T : R) : R :=
  a / (sqrt (T / s1) * Rpower (1 + sqrt (T / s1)) p * Rpower (1 + sqrt (T / s2)) q).

Lemma hR_vf : forall a s1 s2 p q T, 0 < s1 -> 0 < s2 -> p + q = 2 ->
  hR a s1 s2 p q T = vfR a (1 - p) (/ s1) (/ s2) T.
Proof.
  intros. unfold hR, vfR. unfold Rdiv at 2 3 4.
  replace (1 - (1 - p)) with p by lra. replace (1 + (1 - p)) with q by lra.
  replace (sqrt (T * / s1) + 1) with (1 + sqrt (T * / s1)) by lra. reflexivity.
Qed.

Lemma rec_H_shape : forall T, rec_before_scaling Rops H_n 0 T =
  hR (dec2R (D 7982 (-14))) (dec2R (D 3148 (-3))) (dec2R (D 7036 2)) (dec2R (D 252 (-3))) (dec2R (D 1748 (-3))) T.
Proof. intros. unfold rec_before_scaling, hR. cbn [o_add o_sub o_mul o_div o_sqrt o_pow Rops]. rewrite one_R. reflexivity. Qed.

Lemma rec_He_shape : forall T, rec_before_scaling Rops He_n 0 T =
  hR (dec2R (D 3294 (-14))) (dec2R (D 1554 (-2))) (dec2R (D 3676 4)) (dec2R (D 309 (-3))) (dec2R (D 1691 (-3))) T.
Proof. intros. unfold rec_before_scaling, hR. cbn [o_add o_sub o_mul o_div o_sqrt o_pow Rops]. rewrite one_R. reflexivity. Qed.

Lemma hR_pos : forall a s1 s2 p q T, 0 < a -> 0 < s1 -> 0 < T -> 0 < hR a s1 s2 p q T.
Proof.
  intros. unfold hR. apply Rdiv_lt_0_compat; [assumption|].
  apply Rmult_lt_0_compat; [apply Rmult_lt_0_compat|]; try apply Rpower_pos.
  apply sqrt_lt_R0. apply Rdiv_lt_0_compat; assumption.
Qed.

Lemma hR_decreasing : forall a s1 s2 p q T T', 0 < a -> 0 < s1 -> 0 < s2 -> 0 < p -> 0 < q -> p + q = 2 ->
  0 < T -> T < T' -> hR a s1 s2 p q T' < hR a s1 s2 p q T.
Proof.
  intros. rewrite !hR_vf by assumption.
  apply vfR_decreasing; try assumption; try lra.
  - apply Rinv_0_lt_compat; assumption.
  - left; apply Rinv_0_lt_compat; assumption.
Qed.

Definition rec_HHe_raw (i : ion) (T : R) : R := rec_before_scaling Rops i 0 T.

Lemma rec_rate_HHe : forall i T, i = H_n \/ i = He_n -> rec_rate Rops i T = rec_finish Rops (rec_HHe_raw i T).
Proof. intros i T [-> | ->]; unfold rec_rate, rec_prepped, rec_prep, rec_verner_of, rec_HHe_raw; rewrite zero_R; reflexivity. Qed.

Lemma rec_HHe_raw_pos : forall i T, i = H_n \/ i = He_n -> 0 < T -> 0 < rec_HHe_raw i T.
Proof.
  intros i T [-> | ->] HT; unfold rec_HHe_raw; [rewrite rec_H_shape | rewrite rec_He_shape];
    apply hR_pos; try assumption; dec_norm; lra.
Qed.

Lemma rec_HHe_raw_decreasing : forall i T T', i = H_n \/ i = He_n -> 0 < T -> T < T' ->
  rec_HHe_raw i T' < rec_HHe_raw i T.
Proof.
  intros i T T' [-> | ->] HT HTT; unfold rec_HHe_raw; [rewrite !rec_H_shape | rewrite !rec_He_shape];
    apply hR_decreasing; try assumption; dec_norm; lra.
Qed.

(* the hydrogen and helium rates decrease strictly with temperature, for every T > 0 *)
Lemma rec_H_He_decreasing_lemma : forall i T T', i = H_n \/ i = He_n -> 0 < T -> T < T' ->
  rec_rate Rops i T' < rec_rate Rops i T.
Proof.
  intros i T T' Hi HT HTT. rewrite !rec_rate_HHe by assumption.
  rewrite !rec_finish_of_pos by (apply rec_HHe_raw_pos; [assumption | lra]).
  pose proof (rec_HHe_raw_decreasing i T T' Hi HT HTT). lra.
Qed.

(* --- the Verner part of the metals, from sign conditions on the regenerated table entries *)
Definition rrkind_ok (kd : rrkind) : bool :=
  match kd with
  | RRvf a b t0 t1 => dpos a && dpos t0 && dpos t1
  | RRfe a b c => dpos a
  | RRpl a b => dpos a
  end.

Lemma inv_nz_R : forall x, x <> 0 -> inv_nz Rops x = / x.
Proof.
  intros x H. unfold inv_nz. cbn [o_eqb o_div Rops]. rewrite zero_R, one_R. unfold Reqb.
  destruct (Req_EM_T x 0); [contradiction|]. unfold Rdiv; lra.
Qed.

Lemma rr_eval_pos : forall kd T, rrkind_ok kd = true -> 0 < T -> 0 < rr_eval Rops (rr_prep Rops kd) T.
Proof.
  intros [a b t0 t1 | a b c | a b] T Hok HT; cbn [rrkind_ok] in Hok.
  - apply andb_prop in Hok as [Hok H3]. apply andb_prop in Hok as [H1 H2].
    apply dpos_sound in H1, H2, H3. cbn [rr_prep]. rewrite rr_eval_vf. unfold cd; cbn [o_dec Rops].
    rewrite !inv_nz_R by lra. apply vfR_pos; try assumption. apply Rinv_0_lt_compat; assumption.
  - apply dpos_sound in Hok. cbn [rr_prep rr_eval]. unfold cd; cbn [o_mul o_pow o_dec Rops].
    apply Rmult_lt_0_compat; [assumption | apply Rpower_pos].
  - apply dpos_sound in Hok. cbn [rr_prep rr_eval]. unfold cd; cbn [o_mul o_pow o_dec Rops].
    apply Rmult_lt_0_compat; [assumption | apply Rpower_pos].
Qed.

(* the table entries of the twelve metal ions satisfy the sign conditions (decided on C18_Gen.v) *)
Definition metal_rr_ok : bool :=
  forallb (fun i => match rec_verner_of i with Some (z, n) => rrkind_ok (rr_kind z n) | None => true end) all_ions.
Lemma metal_rr_ok_true : metal_rr_ok = true.
Proof. vm_compute. reflexivity. Qed.

Lemma all_ions_complete : forall i, In i all_ions.
Proof. destruct i; cbn; tauto. Qed.

Lemma verner_part_pos : forall i z n T, rec_verner_of i = Some (z, n) -> 0 < T ->
  0 < rr_eval Rops (rr_prep Rops (rr_kind z n)) T.
Proof.
  intros i z n T H HT. apply rr_eval_pos; [|assumption].
  pose proof metal_rr_ok_true as M. unfold metal_rr_ok in M. rewrite forallb_forall in M.
  specialize (M i (all_ions_complete i)). rewrite H in M. exact M.
Qed.

Definition Vof (i : ion) (T : R) : R :=
  match rec_prep Rops i with Some q => rr_eval Rops q T | None => 0 end.

Lemma rec_rate_unfold : forall i T, rec_rate Rops i T = rec_finish Rops (rec_before_scaling Rops i (Vof i T) T).
Proof. intros. unfold rec_rate, rec_prepped, Vof. destruct (rec_prep Rops i); [reflexivity | rewrite zero_R; reflexivity]. Qed.

Lemma Vof_pos : forall i T, (i <> H_n /\ i <> He_n) -> 0 < T -> 0 < Vof i T.
Proof.
  intros i T [N1 N2] HT. unfold Vof, rec_prep.
  destruct (rec_verner_of i) as [[z n]|] eqn:E.
  - eapply verner_part_pos; eauto.
  - destruct i; try discriminate; congruence.
Qed.

(* every rate is >= 0 at every temperature (even outside 10..1e9 K): the code clips at 0 *)
Lemma rec_rate_nonneg_lemma : forall i T, 0 <= rec_rate Rops i T.
Proof. intros; rewrite rec_rate_unfold; apply rec_finish_nonneg. Qed.
