(* C10: proofs.  Abstract: a phase whose operations only accumulate into cells, computing what they add from a view of the
   cells that accumulation does not change, gives the same final state for every order of its operations; a cell-wise phase gives
   the same state for every order of a duplicate-free cell list.  Concrete (real-number instance of the model): the gradient
   phase and the flux phase are of the first kind, slope limiter / prediction / conserved update / primitive update of the second;
   hence one step is independent of the order inside each phase, and (with C04_Faces.faces_once) of the subgrid layout. *)
From Coq Require Import Reals Lra Lia Bool ZArith List Permutation FunctionalExtensionality.
From CMI Require Import Common.Scalar Cxx.C05_Defs Cxx.C04_Defs Cxx.C04_FluxDefs Cxx.C04_Faces Cxx.C10_Defs.
Import ListNotations.

(* ------------------------------------------------------------------------------------------ *)
Section PhasesProofs.
  Variables C M V : Type.
  Variable acc : C -> M -> C.
  Variable view : C -> V.
  Hypothesis acc_comm : forall c a b, acc (acc c a) b = acc (acc c b) a.
  Hypothesis view_acc : forall c a, view (acc c a) = view c.

  Notation st_t := (cstate C).
  Definition inc1 (s : st_t) (km : Z * M) : st_t := cupd C s (fst km) (acc (s (fst km)) (snd km)).

  Lemma apply_incs_fold st l : apply_incs C M acc st l = fold_left inc1 l st.
  Proof. reflexivity. Qed.

  Lemma inc1_swap st a b : inc1 (inc1 st a) b = inc1 (inc1 st b) a.
  Proof.
    destruct a as [k m], b as [k' m']. unfold inc1, cupd. cbn [fst snd]. apply functional_extensionality. intros j.
    destruct (Z.eqb_spec k' k) as [->|Hkk].
    - rewrite Z.eqb_refl. destruct (Z.eqb_spec j k); [apply acc_comm|reflexivity].
    - destruct (Z.eqb_spec k k') as [E|_]; [exfalso; apply Hkk; symmetry; exact E|].
      destruct (Z.eqb_spec j k') as [E1|Hj'], (Z.eqb_spec j k) as [E2|Hj]; try reflexivity. exfalso. apply Hkk. congruence.
  Qed.

  Lemma incs_inc1_comm l : forall st a, fold_left inc1 l (inc1 st a) = inc1 (fold_left inc1 l st) a.
  Proof.
    induction l as [|b l IH]; intros st a; [reflexivity|]. cbn [fold_left]. rewrite inc1_swap. apply IH.
  Qed.

  Lemma incs_comm l1 : forall l2 st, fold_left inc1 l2 (fold_left inc1 l1 st) = fold_left inc1 l1 (fold_left inc1 l2 st).
  Proof.
    induction l1 as [|a l1 IH]; intros l2 st; [reflexivity|]. cbn [fold_left].
    rewrite IH. rewrite incs_inc1_comm. reflexivity.
  Qed.

  Lemma view_inc1 st a : (fun j => view (inc1 st a j)) = (fun j => view (st j)).
  Proof.
    apply functional_extensionality. intros j. destruct a as [k m]. unfold inc1, cupd. cbn [fst snd].
    destruct (Z.eqb_spec j k) as [->|]; [apply view_acc|reflexivity].
  Qed.

  Lemma view_incs l : forall st, (fun j => view (fold_left inc1 l st j)) = (fun j => view (st j)).
  Proof. induction l as [|a l IH]; intros st; [reflexivity|]. cbn [fold_left]. rewrite IH. apply view_inc1. Qed.

  Lemma apply_aop_swap st (o1 o2 : aop M V) :
    apply_aop C M V acc view (apply_aop C M V acc view st o1) o2 = apply_aop C M V acc view (apply_aop C M V acc view st o2) o1.
  Proof.
    unfold apply_aop. rewrite !apply_incs_fold. rewrite !view_incs. apply incs_comm.
  Qed.

  (* any order of the operations of an accumulate phase gives the same state *)
  Theorem run_aops_perm ops ops' : Permutation ops ops' -> forall st, run_aops C M V acc view ops st = run_aops C M V acc view ops' st.
  Proof.
    unfold run_aops. induction 1 as [|o l l' _ IH|o1 o2 l|l l' l'' _ IH1 _ IH2]; intros st.
    - reflexivity.
    - cbn [fold_left]. apply IH.
    - cbn [fold_left]. rewrite apply_aop_swap. reflexivity.
    - rewrite IH1. apply IH2.
  Qed.

  (* cell-wise phase *)
  Lemma cupd_same (st : st_t) k c : cupd C st k c k = c.
  Proof. unfold cupd. rewrite Z.eqb_refl. reflexivity. Qed.
  Lemma cupd_other (st : st_t) k c j : j <> k -> cupd C st k c j = st j.
  Proof. intros H. unfold cupd. destruct (Z.eqb_spec j k); [contradiction|reflexivity]. Qed.

  Lemma map_phase_spec (h : C -> C) cells : NoDup cells -> forall st j,
    map_phase C h cells st j = if in_dec Z.eq_dec j cells then h (st j) else st j.
  Proof.
    unfold map_phase. induction cells as [|k cs IH]; intros Hnd st j; [reflexivity|].
    inversion Hnd as [|? ? Hk Hcs]; subst. cbn [fold_left]. rewrite (IH Hcs).
    destruct (in_dec Z.eq_dec j cs) as [Hin|Hnin], (in_dec Z.eq_dec j (k :: cs)) as [Hin'|Hnin'].
    - rewrite cupd_other; [reflexivity|]. intros ->. contradiction.
    - exfalso. apply Hnin'. right. exact Hin.
    - destruct Hin' as [->|Hin']; [|contradiction]. apply cupd_same.
    - apply cupd_other. intros ->. apply Hnin'. left. reflexivity.
  Qed.

  (* any order of a duplicate-free cell list gives the same state *)
  Theorem map_phase_perm (h : C -> C) cells cells' : NoDup cells -> Permutation cells cells' ->
    forall st, map_phase C h cells st = map_phase C h cells' st.
  Proof.
    intros Hnd Hp st. apply functional_extensionality. intros j.
    rewrite (map_phase_spec h cells Hnd). rewrite (map_phase_spec h cells' (Permutation_NoDup Hp Hnd)).
    destruct (in_dec Z.eq_dec j cells) as [H|H], (in_dec Z.eq_dec j cells') as [H'|H']; try reflexivity.
    - exfalso. apply H'. eapply Permutation_in; eassumption.
    - exfalso. apply H. eapply Permutation_in; [apply Permutation_sym|]; eassumption.
  Qed.
End PhasesProofs.

(* ------------------------------------------------------------------------------------------ *)
Local Open Scope R_scope.

Section RInst.
  Variable eps gfloor dblmax : R.
  Let RS := ROps eps gfloor.
  Notation rvec := (vec R).
  Notation rcell := (cell R).
  Notation rstate := (state R).
  Variable riemann : R -> rvec -> R -> R -> rvec -> R -> rvec -> flux R.

  (* ---------------- the flux phase is an accumulate phase ---------------- *)
  Definition facc (c : rcell) (m : bool * v5 R) : rcell := bump R RS c (fst m) (snd m).
  (* what a flux operation may look at: primitives, conserved variables, gradients (the declared read set of C10_Defs.declared);
     [fcell] rebuilds a cell from such a view, every other field blanked *)
  Definition fview (c : rcell) : v5 R * v5 R * g5 R := (prim R c, cons R c, grad R c).
  Definition fcell (t : v5 R * v5 R * g5 R) : rcell :=
    mkCell R (fst (fst t)) (snd (fst t)) (zero5 R RS) (snd t) (vzero R RS) 0 (lims_reset R RS dblmax).

  Lemma facc_comm c a b : facc (facc c a) b = facc (facc c b) a.
  Proof.
    destruct a as [pa fa], b as [pb fb]. unfold facc, bump. cbn [fst snd prim cons dcons grad grav eterm lims].
    f_equal. destruct (dcons R c) as [d0 d1 d2 d3 d4], fa as [a0 a1 a2 a3 a4], fb as [b0 b1 b2 b3 b4].
    destruct pa, pb; unfold add5, sub5; cbn [c0 c1 c2 c3 c4 sadd ssub RS ROps]; f_equal; ring.
  Qed.
  Lemma fview_facc c a : fview (facc c a) = fview c.
  Proof. reflexivity. Qed.

  Variable gamma : R.
  Variable bkind : Z.
  Variables dxs As : rvec.
  Variable dt : R.

  Definition face_aop (f : face) : aop (bool * v5 R) (v5 R * v5 R * g5 R) :=
    fun v => match f with
             | Interior a l r => let fl := pair_flux R RS riemann gamma a (fcell (v l)) (fcell (v r)) (vget R a dxs) (vget R a As) dt in
                                 [(l, (false, fl)); (r, (true, fl))]
             | Boundary a sgn c => let dx := if (sgn <? 0)%Z then sneg RS (vget R a dxs) else vget R a dxs in
                                   [(c, (false, ghost_flux R RS riemann gamma bkind a (fcell (v c)) dx (vget R a As) dt))]
             end.

  (* the flux operations do not look at the accumulators they write *)
  Lemma pair_flux_view a L Rr dx A : pair_flux R RS riemann gamma a (fcell (fview L)) (fcell (fview Rr)) dx A dt = pair_flux R RS riemann gamma a L Rr dx A dt.
  Proof. reflexivity. Qed.
  Lemma ghost_flux_view a L dx A : ghost_flux R RS riemann gamma bkind a (fcell (fview L)) dx A dt = ghost_flux R RS riemann gamma bkind a L dx A dt.
  Proof. reflexivity. Qed.

  Lemma apply_face_is_aop (st : rstate) f :
    apply_face R RS riemann gamma bkind dxs As dt st f = apply_aop rcell (bool * v5 R) (v5 R * v5 R * g5 R) facc fview st (face_aop f).
  Proof.
    destruct f as [a l r|a sgn c]; unfold apply_aop, face_aop, apply_incs; cbn [fold_left fst snd].
    - rewrite pair_flux_view. reflexivity.
    - rewrite ghost_flux_view. reflexivity.
  Qed.

  Lemma flux_phase_is_run fs : forall st : rstate,
    flux_phase R RS riemann gamma bkind dxs As dt fs st = run_aops rcell (bool * v5 R) (v5 R * v5 R * g5 R) facc fview (map face_aop fs) st.
  Proof.
    unfold flux_phase, run_aops. induction fs as [|f fs IH]; intros st; [reflexivity|].
    cbn [fold_left map]. rewrite apply_face_is_aop. apply IH.
  Qed.

  Theorem flux_phase_perm fs fs' (st : rstate) : Permutation fs fs' ->
    flux_phase R RS riemann gamma bkind dxs As dt fs st = flux_phase R RS riemann gamma bkind dxs As dt fs' st.
  Proof.
    intros H. rewrite !flux_phase_is_run. apply (run_aops_perm rcell (bool * v5 R) (v5 R * v5 R * g5 R) facc fview facc_comm fview_facc).
    apply Permutation_map. exact H.
  Qed.

  (* ---------------- the gradient phase is an accumulate phase ---------------- *)
  Definition gacc (c : rcell) (m : Z * bool * v5 R * v5 R) : rcell :=
    let '(i, plus, dw, w) := m in bump_grad R RS c i plus dw w.

  Lemma smin_comm3 a x y : smin RS (smin RS a x) y = smin RS (smin RS a y) x.
  Proof.
    unfold smin. cbn [sltb RS ROps].
    destruct (Rltb x a) eqn:E1; destruct (Rltb y a) eqn:E2;
      repeat match goal with
             | |- context [Rltb ?p ?q] => let E := fresh "E" in destruct (Rltb p q) eqn:E
             end;
      repeat match goal with
             | H : Rltb _ _ = true |- _ => apply Rltb_true in H
             | H : Rltb _ _ = false |- _ => apply Rltb_false in H
             end; lra.
  Qed.
  Lemma smax_comm3 a x y : smax RS (smax RS a x) y = smax RS (smax RS a y) x.
  Proof.
    unfold smax. cbn [sltb RS ROps].
    destruct (Rltb a x) eqn:E1; destruct (Rltb a y) eqn:E2;
      repeat match goal with
             | |- context [Rltb ?p ?q] => let E := fresh "E" in destruct (Rltb p q) eqn:E
             end;
      repeat match goal with
             | H : Rltb _ _ = true |- _ => apply Rltb_true in H
             | H : Rltb _ _ = false |- _ => apply Rltb_false in H
             end; lra.
  Qed.
  Lemma lim_upd_comm l x y : lim_upd R RS (lim_upd R RS l x) y = lim_upd R RS (lim_upd R RS l y) x.
  Proof. destruct l as [lo hi]. unfold lim_upd. cbn [fst snd]. f_equal; [apply smin_comm3|apply smax_comm3]. Qed.

  (* adding to component i then to component i' of a vector, in either order *)
  Lemma vbump_comm (g : rvec) i p d i' p' d' :
    let f (i : Z) (p : bool) (g : rvec) (d : R) := vset R i g (if p then sadd RS (vget R i g) d else ssub RS (vget R i g) d) in
    f i' p' (f i p g d) d' = f i p (f i' p' g d') d.
  Proof.
    destruct g as [[x y] z]. cbv zeta. unfold vset, vget, mkv, vx, vy, vz.
    destruct (i =? 0)%Z, (i =? 1)%Z, (i' =? 0)%Z, (i' =? 1)%Z, p, p'; cbn [fst snd sadd ssub RS ROps];
      repeat (match goal with |- (_, _) = (_, _) => apply f_equal2 end); try reflexivity; ring.
  Qed.

  Lemma gacc_comm c a b : gacc (gacc c a) b = gacc (gacc c b) a.
  Proof.
    destruct a as [[[i p] dw] w], b as [[[i' p'] dw'] w']. unfold gacc, bump_grad.
    cbn [prim cons dcons grad grav eterm lims gr0 gr1 gr2 gr3 gr4 lm0 lm1 lm2 lm3 lm4].
    f_equal.
    - f_equal; apply vbump_comm.
    - f_equal; apply lim_upd_comm.
  Qed.
  Lemma gview_gacc c a : prim R (gacc c a) = prim R c.
  Proof. destruct a as [[[i p] dw] w]. reflexivity. Qed.

  Variable dxinvs : rvec.
  Definition grad_aop (f : face) : aop (Z * bool * v5 R * v5 R) (v5 R) :=
    fun v => match f with
             | Interior a l r => let dw := grad_inc R RS (v l) (v r) (vget R a dxinvs) in
                                 [(l, (a, true, dw, v r)); (r, (a, false, dw, v l))]
             | Boundary a sgn c => let dxinv := if (sgn <? 0)%Z then sneg RS (vget R a dxinvs) else vget R a dxinvs in
                                   let pR := ghost_prim R RS bkind a (orientation R RS dxinv) (v c) in
                                   [(c, (a, true, grad_inc R RS (v c) pR dxinv, pR))]
             end.

  Lemma apply_grad_is_aop (st : rstate) f :
    apply_grad R RS bkind dxinvs st f = apply_aop rcell (Z * bool * v5 R * v5 R) (v5 R) gacc (prim R) st (grad_aop f).
  Proof. destruct f as [a l r|a sgn c]; reflexivity. Qed.

  Lemma grad_phase_is_run fs : forall st : rstate,
    grad_phase R RS bkind dxinvs fs st = run_aops rcell (Z * bool * v5 R * v5 R) (v5 R) gacc (prim R) (map grad_aop fs) st.
  Proof.
    unfold grad_phase, run_aops. induction fs as [|f fs IH]; intros st; [reflexivity|].
    cbn [fold_left map]. rewrite apply_grad_is_aop. apply IH.
  Qed.

  Theorem grad_phase_perm fs fs' (st : rstate) : Permutation fs fs' ->
    grad_phase R RS bkind dxinvs fs st = grad_phase R RS bkind dxinvs fs' st.
  Proof.
    intros H. rewrite !grad_phase_is_run. apply (run_aops_perm rcell _ (v5 R) gacc (prim R) gacc_comm gview_gacc).
    apply Permutation_map. exact H.
  Qed.

  (* ---------------- the cell-wise operations read and write what C10_Defs.declared says ---------------- *)
  Lemma slope_limit_rw dx (c c' : rcell) :
    (prim R c = prim R c' -> grad R c = grad R c' -> lims R c = lims R c' -> grad R (slope_limit R RS dblmax dx c) = grad R (slope_limit R RS dblmax dx c'))
    /\ prim R (slope_limit R RS dblmax dx c) = prim R c /\ cons R (slope_limit R RS dblmax dx c) = cons R c
    /\ dcons R (slope_limit R RS dblmax dx c) = dcons R c /\ grav R (slope_limit R RS dblmax dx c) = grav R c
    /\ eterm R (slope_limit R RS dblmax dx c) = eterm R c /\ lims R (slope_limit R RS dblmax dx c) = lims R c.
  Proof. split; [intros H1 H2 H3; unfold slope_limit; rewrite H1, H2, H3; reflexivity|repeat split]. Qed.

  Lemma predict_rw g hdt (c c' : rcell) :
    (prim R c = prim R c' -> grad R c = grad R c' -> grav R c = grav R c' -> prim R (predict R RS g hdt c) = prim R (predict R RS g hdt c'))
    /\ cons R (predict R RS g hdt c) = cons R c /\ dcons R (predict R RS g hdt c) = dcons R c /\ grad R (predict R RS g hdt c) = grad R c
    /\ grav R (predict R RS g hdt c) = grav R c /\ eterm R (predict R RS g hdt c) = eterm R c /\ lims R (predict R RS g hdt c) = lims R c.
  Proof.
    split.
    - intros H1 H2 H3. unfold predict. rewrite H1, H2, H3.
      destruct (seqb RS (c0 R (prim R c')) (s0 RS)); [exact H1|].
      destruct (sisinf RS (sdiv RS (s1 RS) (c0 R (prim R c')))); [exact H1|reflexivity].
    - unfold predict. destruct (seqb RS (c0 R (prim R c)) (s0 RS)); [repeat split|].
      destruct (sisinf RS (sdiv RS (s1 RS) (c0 R (prim R c)))); repeat split.
  Qed.

  Lemma update_conserved_rw hdt (c c' : rcell) :
    (cons R c = cons R c' -> dcons R c = dcons R c' -> grav R c = grav R c' -> eterm R c = eterm R c' -> prim R c = prim R c' ->
       update_conserved R RS dblmax c hdt = update_conserved R RS dblmax c' hdt)
    /\ prim R (update_conserved R RS dblmax c hdt) = prim R c /\ grav R (update_conserved R RS dblmax c hdt) = grav R c.
  Proof. split; [intros H1 H2 H3 H4 H5; unfold update_conserved; rewrite H1, H2, H3, H4, H5; reflexivity|split; reflexivity]. Qed.

  Lemma set_primitive_rw g maxv pcf T xH invvol (c c' : rcell) :
    (cons R c = cons R c' -> prim R (set_primitive R RS g maxv pcf T xH c invvol) = prim R (set_primitive R RS g maxv pcf T xH c' invvol))
    /\ cons R (set_primitive R RS g maxv pcf T xH c invvol) = cons R c /\ dcons R (set_primitive R RS g maxv pcf T xH c invvol) = dcons R c
    /\ grad R (set_primitive R RS g maxv pcf T xH c invvol) = grad R c /\ grav R (set_primitive R RS g maxv pcf T xH c invvol) = grav R c
    /\ eterm R (set_primitive R RS g maxv pcf T xH c invvol) = eterm R c /\ lims R (set_primitive R RS g maxv pcf T xH c invvol) = lims R c.
  Proof.
    split.
    - intros H. unfold set_primitive. rewrite H.
      destruct (if sltb RS (s0 RS) (c0 R (cons R c')) then _ else _) as [[dd vv] pp]. reflexivity.
    - unfold set_primitive.
      destruct (sltb RS (s0 RS) (c0 R (cons R c))); [|repeat split].
      destruct (negb (sisinf RS (sdiv RS (s1 RS) (c0 R (cons R c))))); repeat split.
  Qed.
End RInst.

Lemma declared_sets_ok : declared_ok = true.
Proof. vm_compute. reflexivity. Qed.

(* ------------------------------------------------------------------------------------------ *)
Section Step.
  Variable eps gfloor dblmax : R.
  Let RS := ROps eps gfloor.
  Variable riemann : R -> vec R -> R -> R -> vec R -> R -> vec R -> flux R.
  Variable P : params R.

  (* C10 phase_commutes: inside every phase of a step any order of the operations gives the same cell states *)
  Theorem phase_commutes fg fg' c1 c1' c2 c2' ff ff' c3 c3' c4 c4' (st : state R) :
    Permutation fg fg' -> Permutation ff ff' ->
    NoDup c1 -> Permutation c1 c1' -> NoDup c2 -> Permutation c2 c2' -> NoDup c3 -> Permutation c3 c3' -> NoDup c4 -> Permutation c4 c4' ->
    step_with R RS dblmax riemann P fg c1 c2 ff c3 c4 st = step_with R RS dblmax riemann P fg' c1' c2' ff' c3' c4' st.
  Proof.
    intros Hg Hf N1 P1 N2 P2 N3 P3 N4 P4. unfold step_with. cbv zeta. unfold RS.
    rewrite (grad_phase_perm eps gfloor (p_bkind R P) (p_dxinv R P) fg fg' st Hg).
    rewrite (map_phase_perm (cell R) _ c1 c1' N1 P1).
    rewrite (map_phase_perm (cell R) _ c2 c2' N2 P2).
    rewrite (flux_phase_perm eps gfloor dblmax riemann (p_gamma R P) (p_bkind R P) (p_dx R P) (p_A R P) (p_dt R P) ff ff' _ Hf).
    rewrite (map_phase_perm (cell R) _ c3 c3' N3 P3).
    rewrite (map_phase_perm (cell R) _ c4 c4' N4 P4).
    reflexivity.
  Qed.

  (* two layouts of the same global grid *)
  Definition same_grid (L1 L2 : layout) : Prop :=
    NX L1 = NX L2 /\ NY L1 = NY L2 /\ NZ L1 = NZ L2 /\ px L1 = px L2 /\ py L1 = py L2 /\ pz L1 = pz L2.

  Lemma canonical_same_grid L1 L2 : same_grid L1 L2 -> canonical_faces L1 = canonical_faces L2.
  Proof.
    intros (Hx & Hy & Hz & Hpx & Hpy & Hpz). unfold canonical_faces, gid3. rewrite Hx, Hy, Hz, Hpx, Hpy, Hpz. reflexivity.
  Qed.

  (* C10 layout_independent: the sweeps of two layouts of the same grid give the same cell states after one step *)
  Theorem layout_independent L1 L2 (st : state R) : wf_layout L1 -> wf_layout L2 -> same_grid L1 L2 ->
    step_layout R RS dblmax riemann P L1 st = step_layout R RS dblmax riemann P L2 st.
  Proof.
    intros W1 W2 HG. unfold step_layout.
    assert (Hf : Permutation (global_faces L1) (global_faces L2)).
    { eapply Permutation_trans; [apply faces_once; exact W1|]. rewrite (canonical_same_grid L1 L2 HG).
      apply Permutation_sym. apply faces_once. exact W2. }
    destruct HG as (Hx & Hy & Hz & _). rewrite <- Hx, <- Hy, <- Hz.
    apply phase_commutes; try assumption; try apply NoDup_range; apply Permutation_refl.
  Qed.

  (* ... in particular every layout equals the plain sequential sweep over the undivided grid *)
  Theorem equals_sequential_reference L (st : state R) : wf_layout L ->
    step_layout R RS dblmax riemann P L st = step_layout R RS dblmax riemann P (undivided L) st.
  Proof.
    intros W. apply layout_independent; [exact W| |].
    - destruct W as (A & B & Cc & D & E & G). unfold wf_layout, undivided, NX, NY, NZ. cbn [nx ny nz sx sy sz px py pz]. nia.
    - unfold same_grid, undivided, NX, NY, NZ. cbn [nx ny nz sx sy sz px py pz]. repeat split; try reflexivity; ring.
  Qed.

  (* ... and any execution order of the operations of that layout's sweeps inside the phases gives that same result *)
  Theorem schedule_independent L fg ff c1 c2 c3 c4 (st : state R) : wf_layout L ->
    let cells := range (NX L * NY L * NZ L) in
    Permutation (global_faces L) fg -> Permutation (global_faces L) ff ->
    Permutation cells c1 -> Permutation cells c2 -> Permutation cells c3 -> Permutation cells c4 ->
    step_with R RS dblmax riemann P fg c1 c2 ff c3 c4 st = step_layout R RS dblmax riemann P (undivided L) st.
  Proof.
    intros W cells Hg Hf H1 H2 H3 H4. rewrite <- (equals_sequential_reference L st W). unfold step_layout. symmetry.
    apply phase_commutes; try assumption; apply NoDup_range.
  Qed.
End Step.
