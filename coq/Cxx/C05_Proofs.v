(* C05: proofs over the real-number instance of the Riemann solver model. *)
From Coq Require Import Reals Lra Lia Bool ZArith Psatz.
From CMI Require Import Common.Scalar Cxx.C05_Defs.
Local Open Scope R_scope.

Ltac tup := repeat (match goal with |- (_, _) = (_, _) => apply f_equal2 end).

Section RInst.
  Variable eps gfloor : R.
  Let RS := ROps eps gfloor.

  Notation rvec := (vec R).
  Notation rflux := (flux R).

  Definition fneg (f : rflux) : rflux :=
    let '(m, p, e) := f in (- m, (- vx R p, - vy R p, - vz R p), - e).

  (* Galilean transformation of a flux to a frame moving with -w, i.e. after adding w to all velocities *)
  Definition boostT (w : rvec) (f : rflux) : rflux :=
    let '(m, p, e) := f in
    (m,
     (vx R p + m * vx R w, vy R p + m * vy R w, vz R p + m * vz R w),
     e + (vx R w * vx R p + vy R w * vy R p + vz R w * vz R p) + / 2 * (vx R w * vx R w + vy R w * vy R w + vz R w * vz R w) * m).

  Lemma vsub_boost (u v w : rvec) : vsub R RS (vadd R RS u w) (vadd R RS v w) = vsub R RS u v.
  Proof.
    destruct u as [[ux uy] uz], v as [[vx' vy'] vz'], w as [[wx wy] wz].
    unfold vsub, vadd, mkv, vx, vy, vz. cbn. tup; ring.
  Qed.

  Lemma deboost_boost (f : rflux) (vface w : rvec) :
    deboost R RS f (vadd R RS vface w) = boostT w (deboost R RS f vface).
  Proof.
    destruct f as [[m [[px py] pz]] e], vface as [[fx fy] fz], w as [[wx wy] wz].
    unfold deboost, boostT, vadd, vscale, vdot, vnorm2, mkv, vx, vy, vz. cbn.
    tup; try ring; field.
  Qed.

  Lemma boostT_zero w : boostT w (fzero R RS) = fzero R RS.
  Proof.
    destruct w as [[wx wy] wz]. unfold boostT, fzero, vzero, mkv, vx, vy, vz. cbn.
    tup; ring.
  Qed.

  Variable c : consts R.
  Variables d1 d8 : bool.

  (* flux_from_sample = deboost of a frame flux that does not depend on vface *)
  Definition sample_frame (smp : Z * R * R * R) (uLface uRface : rvec) (vL vR : R) (normal : rvec) : option rflux :=
    let '(flag, rhosol, vsol, Psol) := smp in
    if (flag =? 0)%Z then None
    else
      let usol := if (flag =? -1)%Z then vadd R RS uLface (vscale R RS (vsol - vL) normal)
                  else vadd R RS uRface (vscale R RS (vsol - vR) normal) in
      let rhoesol := if Rltb 1 (gam R c) then / 2 * rhosol * vnorm2 R RS usol + Psol * odgm1 R c
                     else / 2 * rhosol * vnorm2 R RS usol in
      let vsol' := vdot R RS usol normal in
      Some (rhosol * vsol', vadd R RS (vscale R RS (rhosol * vsol') usol) (vscale R RS Psol normal), (rhoesol + Psol) * vsol').

  Lemma flux_from_sample_frame smp uLf uRf vL vR n vface :
    flux_from_sample R RS c smp uLf uRf vL vR n vface =
    match sample_frame smp uLf uRf vL vR n with
    | None => fzero R RS
    | Some f => deboost R RS f vface
    end.
  Proof.
    destruct smp as [[[flag rs] vs] ps]. unfold flux_from_sample, sample_frame.
    destruct (flag =? 0)%Z; [reflexivity|].
    replace (shalf RS) with (/ 2) by (cbn; lra). reflexivity.
  Qed.

  Lemma flux_from_sample_boost smp uLf uRf vL vR n vface w :
    flux_from_sample R RS c smp uLf uRf vL vR n (vadd R RS vface w) =
    boostT w (flux_from_sample R RS c smp uLf uRf vL vR n vface).
  Proof.
    rewrite !flux_from_sample_frame. destruct (sample_frame smp uLf uRf vL vR n).
    - apply deboost_boost.
    - symmetry. apply boostT_zero.
  Qed.

  (* ---- Galilean boost: HLLC ---- *)
  Lemma hllc_boost rhoL uL PL rhoR uR PR n vface w :
    hllc_flux R RS c d1 d8 rhoL (vadd R RS uL w) PL rhoR (vadd R RS uR w) PR n (vadd R RS vface w) =
    boostT w (hllc_flux R RS c d1 d8 rhoL uL PL rhoR uR PR n vface).
  Proof.
    unfold hllc_flux, hllc_flux_b. rewrite !vsub_boost.
    destruct (is_vacuum R RS rhoL PL _ _ && is_vacuum R RS rhoR PR _ _); cbn [fst].
    - symmetry. apply boostT_zero.
    - match goal with |- context [if ?b then _ else _] => destruct b end; cbn [fst].
      + apply flux_from_sample_boost.
      + apply deboost_boost.
  Qed.

  (* ---- Galilean boost: exact solver (for the same sampled star state, which only depends on
          the velocities relative to the face) ---- *)
  Lemma exact_boost star rhoL uL PL rhoR uR PR n vface w :
    exact_flux R RS c d1 star rhoL (vadd R RS uL w) PL rhoR (vadd R RS uR w) PR n (vadd R RS vface w) =
    boostT w (exact_flux R RS c d1 star rhoL uL PL rhoR uR PR n vface).
  Proof.
    unfold exact_flux. rewrite !vsub_boost. apply flux_from_sample_boost.
  Qed.

End RInst.

(* ------------------------------------------------------------------------
   eps = 0 (DBL_MIN only regularises 0/0; in binary64 x + DBL_MIN = x unless x is tiny) *)
Section RInst0.
  Variable gfloor : R.
  Let RS := ROps 0 gfloor.
  Variable c : consts R.
  Variable d8 : bool.
  Notation rvec := (vec R).
  Notation rflux := (flux R).

  Definition vneg (v : rvec) : rvec := (- vx R v, - vy R v, - vz R v).

  Lemma pstar_swap rhoL PL vL aL rhoR PR vR aR :
    hllc_pstar R RS rhoR PR (- vR) aR rhoL PL (- vL) aL = hllc_pstar R RS rhoL PL vL aL rhoR PR vR aR.
  Proof.
    unfold hllc_pstar, smax.
    cbn [sadd ssub smul sdiv sneg ssqrt sltb sleb s0 s1 s2 shalf squarter sdblmin RS ROps].
    replace (1 / 2 * (PR + PL - 1 / 4 * (- vL - - vR) * (rhoR + rhoL) * (aR + aL)))
       with (1 / 2 * (PL + PR - 1 / 4 * (vR - vL) * (rhoL + rhoR) * (aL + aR))) by field.
    reflexivity.
  Qed.

  Lemma sstar_swap rhoL PL vL SL rhoR PR vR SR :
    hllc_sstar R RS rhoR PR (- vR) (- SR) rhoL PL (- vL) (- SL) = - hllc_sstar R RS rhoL PL vL SL rhoR PR vR SR.
  Proof.
    unfold hllc_sstar.
    cbn [sadd ssub smul sdiv sneg ssqrt sltb sleb s0 s1 s2 shalf squarter sdblmin RS ROps].
    replace (rhoR * - SR - rhoL * - SL + 0) with (rhoL * SL - rhoR * SR + 0) by ring.
    unfold Rdiv. ring.
  Qed.

  (* one side of the star-region formula seen from the other cell *)
  Lemma side_swap (left : bool) rho uf P v rhoinv S Sstar n :
    hllc_side R RS c d8 (negb left) rho uf P (- v) rhoinv (- S) (- Sstar) (vneg n) =
    fneg (hllc_side R RS c d8 left rho uf P v rhoinv S Sstar n).
  Proof.
    destruct uf as [[ux uy] uz], n as [[nx ny] nz].
    unfold hllc_side, vneg.
    cbn [sadd ssub smul sdiv sneg ssqrt sltb sleb s0 s1 s2 shalf squarter sdblmin RS ROps
         vadd vscale vnorm2 mkv vx vy vz fst snd].
    assert (Hc : (if negb left then Rltb (- S + - v) 0 else Rltb 0 (- S + - v)) =
                 (if left then Rltb (S + v) 0 else Rltb 0 (S + v))).
    { destruct left; cbn [negb].
      - destruct (Rltb (S + v) 0) eqn:E.
        + apply Rltb_true in E. apply Rltb_true. lra.
        + apply Rltb_false in E. apply Rltb_false. lra.
      - destruct (Rltb 0 (S + v)) eqn:E.
        + apply Rltb_true in E. apply Rltb_true. lra.
        + apply Rltb_false in E. apply Rltb_false. lra. }
    rewrite Hc. clear Hc.
    destruct (if left then Rltb (S + v) 0 else Rltb 0 (S + v)).
    - (* star region *)
      replace (- S + - v - - Sstar) with (- (S + v - Sstar)) by ring.
      replace (- S + 0) with (- (S + 0)) by ring.
      unfold Rdiv. rewrite !Rinv_opp.
      set (I1 := / (S + v - Sstar)). set (I2 := / (S + 0)).
      unfold fneg.
      destruct d8; unfold vadd, vscale, mkv, vx, vy, vz; cbn [fst snd sadd ssub smul RS ROps]; tup; ring.
    - unfold fneg, vadd, vscale, mkv, vx, vy, vz. cbn [fst snd sadd ssub smul RS ROps]. tup; ring.
  Qed.

  (* exchanging the two states and reversing the normal: S* changes sign, and away from the tie
     S* = 0 the interface-frame flux is negated in all five components *)
  Lemma hllc_star_antisym rhoL uLf PL vL aL rhoLinv PLinv rhoR uRf PR vR aR rhoRinv PRinv n :
    let r  := hllc_star R RS c d8 rhoL uLf PL vL aL rhoLinv PLinv rhoR uRf PR vR aR rhoRinv PRinv n in
    let r' := hllc_star R RS c d8 rhoR uRf PR (- vR) aR rhoRinv PRinv rhoL uLf PL (- vL) aL rhoLinv PLinv (vneg n) in
    snd r' = - snd r /\ (snd r <> 0 -> fst r' = fneg (fst r)).
  Proof.
    cbv zeta. unfold hllc_star. rewrite pstar_swap.
    set (pstar := hllc_pstar R RS rhoL PL vL aL rhoR PR vR aR).
    set (qL := hllc_q R RS c PL PLinv pstar). set (qR := hllc_q R RS c PR PRinv pstar).
    cbn [sneg smul RS ROps].
    replace (- aR * qR) with (- (aR * qR)) by ring.
    replace (aL * qL) with (- (- aL * qL)) by ring.
    rewrite sstar_swap.
    set (Sstar := hllc_sstar R RS rhoL PL vL (- aL * qL) rhoR PR vR (aR * qR)).
    cbn [sleb s0 RS ROps].
    destruct (Rleb 0 Sstar) eqn:E1; destruct (Rleb 0 (- Sstar)) eqn:E2; cbn [fst snd]; split; try reflexivity; intros Hnz.
    - apply Rleb_true in E1. apply Rleb_true in E2. exfalso. apply Hnz. lra.
    - apply (side_swap true).
    - apply (side_swap false).
    - apply Rleb_false in E1. apply Rleb_false in E2. exfalso. lra.
  Qed.

  (* ---- the contact at rest: both one-sided formulae give the same flux (repaired star state) ---- *)
  Lemma side_at_rest_contact (left : bool) rho uf P v S n :
    0 < rho -> (if left then S + v < 0 else 0 < S + v) -> S <> 0 ->
    hllc_side R RS c false left rho uf P v (/ rho) S 0 n =
    (0, (vx R n * (P - rho * v * S), vy R n * (P - rho * v * S), vz R n * (P - rho * v * S)), 0).
  Proof.
    intros Hrho Hc HS.
    destruct uf as [[ux uy] uz], n as [[nx ny] nz].
    unfold hllc_side.
    cbn [sadd ssub smul sdiv sneg ssqrt sltb sleb s0 s1 s2 shalf squarter sdblmin RS ROps].
    assert (Hb : (if left then Rltb (S + v) 0 else Rltb 0 (S + v)) = true).
    { destruct left; apply Rltb_true; exact Hc. }
    rewrite Hb.
    assert (HSv : S + v <> 0) by (destruct left; lra).
    unfold vadd, vscale, vnorm2, mkv, vx, vy, vz. cbn [fst snd sadd ssub smul RS ROps].
    replace (S + v - 0) with (S + v) by ring. replace (S + 0) with S by ring.
    tup; field; repeat split; lra.
  Qed.

  Lemma hllc_contact_continuous rhoL uLf PL vL SLmvL rhoR uRf PR vR SRmvR n :
    0 < rhoL -> 0 < rhoR -> SLmvL + vL < 0 -> 0 < SRmvR + vR -> SLmvL <> 0 -> SRmvR <> 0 ->
    rhoL * SLmvL - rhoR * SRmvR <> 0 ->
    hllc_sstar R RS rhoL PL vL SLmvL rhoR PR vR SRmvR = 0 ->
    hllc_side R RS c false true rhoL uLf PL vL (/ rhoL) SLmvL 0 n =
    hllc_side R RS c false false rhoR uRf PR vR (/ rhoR) SRmvR 0 n.
  Proof.
    intros HL HR H1 H2 H3 H4 Hden Hs.
    rewrite (side_at_rest_contact true) by assumption.
    rewrite (side_at_rest_contact false) by assumption.
    unfold hllc_sstar in Hs.
    cbn [sadd ssub smul sdiv sneg ssqrt sltb sleb s0 s1 s2 shalf squarter sdblmin RS ROps] in Hs.
    assert (Hnum : PR - PL + (rhoL * vL * SLmvL - rhoR * vR * SRmvR) = 0).
    { replace (rhoL * SLmvL - rhoR * SRmvR + 0) with (rhoL * SLmvL - rhoR * SRmvR) in Hs by ring.
      unfold Rdiv in Hs. apply Rmult_integral in Hs. destruct Hs as [Hs|Hs]; [exact Hs|].
      exfalso. apply (Rinv_neq_0_compat _ Hden). exact Hs. }
    assert (Hp : PL - rhoL * vL * SLmvL = PR - rhoR * vR * SRmvR) by lra.
    rewrite Hp. reflexivity.
  Qed.

  (* ---- two identical states: the analytic flux of that state ---- *)
  Lemma hllc_identical rho uf P v a n :
    0 < rho -> 0 < P -> 0 < a ->
    fst (hllc_star R RS c d8 rho uf P v a (/ rho) (/ P) rho uf P v a (/ rho) (/ P) n) =
    (rho * v,
     vadd R RS (vscale R RS (rho * v) uf) (vscale R RS P n),
     rho * v * (P * odgm1 R c * / rho + / 2 * vnorm2 R RS uf) + P * v).
  Proof.
    intros Hrho HP Ha.
    unfold hllc_star.
    assert (Hps : hllc_pstar R RS rho P v a rho P v a = P).
    { unfold hllc_pstar, smax.
      cbn [sadd ssub smul sdiv sneg ssqrt sltb sleb s0 s1 s2 shalf squarter sdblmin RS ROps].
      replace (1 / 2 * (P + P - 1 / 4 * (v - v) * (rho + rho) * (a + a))) with P by field.
      destruct (Rltb 0 P) eqn:E; [reflexivity|]. apply Rltb_false in E. lra. }
    rewrite Hps.
    assert (Hq : hllc_q R RS c P (/ P) P = 1).
    { unfold hllc_q. cbn [sltb s1 RS ROps]. destruct (Rltb P P) eqn:E; [|reflexivity]. apply Rltb_true in E. lra. }
    rewrite Hq.
    cbn [sneg smul s1 RS ROps]. replace (- a * 1) with (- a) by ring. replace (a * 1) with a by ring.
    assert (Hs : hllc_sstar R RS rho P v (- a) rho P v a = v).
    { unfold hllc_sstar.
      cbn [sadd ssub smul sdiv sneg ssqrt sltb sleb s0 s1 s2 shalf squarter sdblmin RS ROps].
      field. nra. }
    rewrite Hs.
    destruct uf as [[ux uy] uz], n as [[nx ny] nz].
    cbn [sleb s0 RS ROps].
    destruct (Rleb 0 v); cbn [fst]; unfold hllc_side;
      cbn [sadd ssub smul sdiv sneg ssqrt sltb sleb s0 s1 s2 shalf squarter sdblmin RS ROps];
      match goal with |- context [if ?b then _ else _] => destruct b end;
      unfold vadd, vscale, vnorm2, mkv, vx, vy, vz; cbn [fst snd sadd ssub smul RS ROps];
      try (replace (- a + v - v) with (- a) by ring); try (replace (a + v - v) with a by ring);
      destruct d8; tup; field; lra.
  Qed.

  (* ---- mirror-image states approaching at less than 1.5 sound speeds: no mass, no energy flux ---- *)
  Lemma hllc_mirror rho uLf uRf P v a n gamma :
    0 < rho -> 0 < P -> 0 < a -> a * a = gamma * P / rho -> 1 < gamma ->
    gp1d2g R c = (gamma + 1) / (2 * gamma) ->
    v < 3 / 2 * a ->
    let F := fst (hllc_star R RS c false rho uLf P v a (/ rho) (/ P) rho uRf P (- v) a (/ rho) (/ P) n) in
    fst (fst F) = 0 /\ snd F = 0.
  Proof.
    intros Hrho HP Ha Haa Hg Hc Hv. cbv zeta.
    unfold hllc_star.
    set (pstar := hllc_pstar R RS rho P v a rho P (- v) a).
    set (q := hllc_q R RS c P (/ P) pstar).
    cbn [sneg smul RS ROps].
    assert (Hs : hllc_sstar R RS rho P v (- a * q) rho P (- v) (a * q) = 0).
    { unfold hllc_sstar.
      cbn [sadd ssub smul sdiv sneg ssqrt sltb sleb s0 s1 s2 shalf squarter sdblmin RS ROps].
      unfold Rdiv. ring. }
    rewrite Hs. cbn [sleb s0 RS ROps].
    assert (E0 : Rleb 0 0 = true) by (apply Rleb_true; lra). rewrite E0. cbn [fst].
    (* the left wave moves to the left: v < a q *)
    assert (Hq : 0 < q /\ v < a * q).
    { unfold q, hllc_q. cbn [sltb sadd ssub smul ssqrt s1 RS ROps].
      assert (Hps : pstar = Rmax 0 (P + rho * v * a)).
      { unfold pstar, hllc_pstar, smax.
        cbn [sadd ssub smul sdiv sneg ssqrt sltb sleb s0 s1 s2 shalf squarter sdblmin RS ROps].
        replace (1 / 2 * (P + P - 1 / 4 * (- v - v) * (rho + rho) * (a + a))) with (P + rho * v * a) by field.
        destruct (Rltb 0 (P + rho * v * a)) eqn:E.
        - apply Rltb_true in E. rewrite Rmax_right; lra.
        - apply Rltb_false in E. rewrite Rmax_left; lra. }
      destruct (Rltb P pstar) eqn:E.
      - apply Rltb_true in E.
        assert (Hpv : pstar = P + rho * v * a).
        { rewrite Hps in E |- *. unfold Rmax in *. destruct (Rle_dec 0 (P + rho * v * a)); [reflexivity|lra]. }
        assert (Hva : 0 < v * a) by (rewrite Hpv in E; nra).
        assert (Hvpos : 0 < v) by nra.
        set (arg := 1 + gp1d2g R c * (pstar * / P - 1)).
        assert (Harg : arg = 1 + (gamma + 1) / 2 * (v / a)).
        { unfold arg. rewrite Hc, Hpv.
          assert (Hrel : rho * a / P = gamma / a).
          { apply (Rmult_eq_reg_r (a * P)); [|nra]. field_simplify; [|lra|lra]. 
            replace (rho * a ^ 2) with (rho * (a * a)) by ring. rewrite Haa. field. lra. }
          replace ((P + rho * v * a) * / P - 1) with (v * (rho * a / P)) by (field; lra).
          rewrite Hrel. field. lra. }
        assert (Hargpos : 1 < arg).
        { rewrite Harg. assert (0 < v / a) by (apply Rdiv_lt_0_compat; lra). nra. }
        assert (Hsq : sqrt arg * sqrt arg = arg) by (apply sqrt_sqrt; lra).
        assert (Hspos : 0 < sqrt arg) by (apply sqrt_lt_R0; lra).
        split; [exact Hspos|].
        destruct (Rlt_le_dec v (a * sqrt arg)) as [L|G]; [exact L|exfalso].
        assert (Hnn : 0 <= a * sqrt arg) by (apply Rmult_le_pos; lra).
        assert (Hle : (a * sqrt arg) * (a * sqrt arg) <= v * v) by (apply Rmult_le_compat; lra).
        assert (Heq : (a * sqrt arg) * (a * sqrt arg) = a * a * arg).
        { transitivity (a * a * (sqrt arg * sqrt arg)); [ring|rewrite Hsq; reflexivity]. }
        rewrite Heq in Hle.
        rewrite Harg in Hle.
        assert (Hx : a * a * (1 + (gamma + 1) / 2 * (v / a)) = a * a + (gamma + 1) / 2 * (v * a)) by (field; lra).
        rewrite Hx in Hle. nra.
      - apply Rltb_false in E. split; [lra|].
        assert (P + rho * v * a <= P).
        { rewrite Hps in E. pose proof (Rmax_r 0 (P + rho * v * a)). lra. }
        assert (rho * v * a <= 0) by lra.
        assert (v <= 0).
        { destruct (Rle_lt_dec v 0) as [L|G]; [exact L|exfalso].
          assert (0 < rho * v * a) by (apply Rmult_lt_0_compat; [apply Rmult_lt_0_compat|]; lra). lra. }
        lra. }
    destruct Hq as [Hq1 Hq2].
    rewrite (side_at_rest_contact true); [cbn [fst snd]; split; reflexivity|exact Hrho|lra|nra].
  Qed.

  (* ---- vacuum samplers: the left-vacuum sampler is the mirror image of the right-vacuum one
          (repaired coefficient) and both are Galilean covariant ---- *)
  Definition mirror_sample (s : Z * R * R * R) : Z * R * R * R :=
    let '(f, r, u, p) := s in ((- f)%Z, r, - u, p).

  Ltac vac_close :=
    cbn [Z.opp]; tup; try reflexivity; try ring;
    try (f_equal; unfold Rdiv; ring);
    try (f_equal; f_equal; unfold Rdiv; ring).

  Lemma Rltb_flip x y : Rltb (- x) (- y) = Rltb y x.
  Proof. destruct (Rltb y x) eqn:E; [apply Rltb_true in E; apply Rltb_true; lra|apply Rltb_false in E; apply Rltb_false; lra]. Qed.

  Lemma vacuum_mirror rho u P a dxdt :
    sample_left_vacuum R RS c false rho (- u) P a (- dxdt) =
    mirror_sample (sample_right_vacuum R RS c rho u P a dxdt).
  Proof.
    unfold sample_left_vacuum, sample_right_vacuum, fan_coeff, mirror_sample.
    cbn [sadd ssub smul sdiv sneg ssqrt spow sltb sleb s0 s1 s2 shalf squarter sdblmin RS ROps].
    replace (- u + a) with (- (u - a)) by ring. rewrite Rltb_flip.
    destruct (Rltb (u - a) dxdt); [|vac_close].
    replace (- u - tdgm1 R c * a) with (- (u + tdgm1 R c * a)) by ring. rewrite Rltb_flip.
    destruct (Rltb dxdt (u + tdgm1 R c * a)); [|vac_close].
    replace (tdgp1 R c - gm1dgp1 R c * (- u - - dxdt) / a) with (tdgp1 R c + gm1dgp1 R c * (u - dxdt) / a) by (unfold Rdiv; ring).
    vac_close.
  Qed.

  Lemma vacuum_generation_mirror rhoL uL PL aL rhoR uR PR aR dxdt :
    (dxdt < uR - tdgm1 R c * aR \/ uL + tdgm1 R c * aL < dxdt) ->   (* not on the single point where both fan tails meet *)
    sample_vacuum_generation R RS c false rhoR (- uR) PR aR rhoL (- uL) PL aL (- dxdt) =
    mirror_sample (sample_vacuum_generation R RS c false rhoL uL PL aL rhoR uR PR aR dxdt).
  Proof.
    intros Hnt.
    unfold sample_vacuum_generation, fan_coeff, mirror_sample.
    cbn [sadd ssub smul sdiv sneg ssqrt spow sltb sleb s0 s1 s2 shalf squarter sdblmin RS ROps].
    set (SR := uR - tdgm1 R c * aR) in *. set (SL := uL + tdgm1 R c * aL) in *.
    replace (- uL - tdgm1 R c * aL) with (- SL) by (unfold SL; ring).
    replace (- uR + tdgm1 R c * aR) with (- SR) by (unfold SR; ring).
    replace (- uL + aL) with (- (uL - aL)) by ring.
    replace (- uR - aR) with (- (uR + aR)) by ring.
    rewrite !Rltb_flip.
    replace (tdgp1 R c - gm1dgp1 R c * (- uL - - dxdt) / aL) with (tdgp1 R c + gm1dgp1 R c * (uL - dxdt) / aL) by (unfold Rdiv; ring).
    replace (tdgp1 R c + gm1dgp1 R c * (- uR - - dxdt) / aR) with (tdgp1 R c - gm1dgp1 R c * (uR - dxdt) / aR) by (unfold Rdiv; ring).
    destruct (Rltb dxdt SR) eqn:A; destruct (Rltb SL dxdt) eqn:B; cbn [andb].
    - vac_close.
    - destruct (Rltb (uL - aL) dxdt); vac_close.
    - destruct (Rltb dxdt (uR + aR)); vac_close.
    - exfalso. apply Rltb_false in A. apply Rltb_false in B. lra.
  Qed.

  (* ---- from a mirrored sample to a negated flux (used by both solvers' vacuum branches and by the
          exact solver's flux assembly) ---- *)
  Lemma deboost_neg (f : rflux) vface : deboost R RS (fneg f) vface = fneg (deboost R RS f vface).
  Proof.
    destruct f as [[m [[px py] pz]] e], vface as [[fx fy] fz].
    unfold deboost, fneg, vadd, vscale, vdot, vnorm2, mkv, vx, vy, vz.
    cbn [fst snd sadd ssub smul shalf RS ROps]. tup; ring.
  Qed.

  Lemma fneg_zero : fneg (fzero R RS) = fzero R RS.
  Proof. unfold fneg, fzero, vzero, mkv, vx, vy, vz. cbn. tup; ring. Qed.

  Definition flag_ok (smp : Z * R * R * R) : Prop :=
    let f := fst (fst (fst smp)) in f = (-1)%Z \/ f = 0%Z \/ f = 1%Z.

  Lemma flux_from_sample_mirror smp uLf uRf vL vR n vface :
    flag_ok smp ->
    flux_from_sample R RS c (mirror_sample smp) uRf uLf (- vR) (- vL) (vneg n) vface =
    fneg (flux_from_sample R RS c smp uLf uRf vL vR n vface).
  Proof.
    destruct smp as [[[flag rs] vs] ps]. unfold flag_ok. cbn [fst]. intros Hflag.
    unfold flux_from_sample, mirror_sample.
    destruct (Z.eqb_spec flag 0) as [->|Hnz].
    - cbn [Z.opp Z.eqb]. symmetry. apply fneg_zero.
    - destruct (Z.eqb_spec (- flag) 0) as [E|_]; [lia|].
      rewrite <- deboost_neg. f_equal.
      destruct uLf as [[lx ly] lz], uRf as [[rx ry] rz], n as [[nx ny] nz].
      destruct (Z.eqb_spec flag (-1)) as [->|Hm1].
      + cbn [Z.opp Z.eqb Pos.eqb].
        unfold fneg, vneg, vadd, vscale, vdot, vnorm2, mkv, vx, vy, vz.
        cbn [fst snd sadd ssub smul sneg shalf s1 sltb RS ROps].
        destruct (Rltb 1 (gam R c)); tup; ring.
      + destruct (Z.eqb_spec (- flag) (-1)) as [E|Hp1].
        * (* flag = 1 *)
          assert (flag = 1%Z) by lia. subst flag.
          unfold fneg, vneg, vadd, vscale, vdot, vnorm2, mkv, vx, vy, vz.
          cbn [fst snd sadd ssub smul sneg shalf s1 sltb RS ROps].
          destruct (Rltb 1 (gam R c)); tup; ring.
        * exfalso. lia.
  Qed.

  Lemma mk_consts_spec gamma : gfloor <= gamma -> gamma <> 0 ->
    let k := mk_consts R RS gamma in
    gam R k = gamma /\ gp1d2g R k = (gamma + 1) / (2 * gamma) /\ tdgm1 R k = 2 / (gamma - 1)
    /\ gm1d2 R k = (gamma - 1) / 2 /\ odgm1 R k = 1 / (gamma - 1).
  Proof.
    intros Hg Hnz. unfold mk_consts, smax. cbn [sltb sgamma_floor RS ROps].
    destruct (Rltb gamma gfloor) eqn:E.
    - apply Rltb_true in E. lra.
    - cbn [gam gp1d2g tdgm1 gm1d2 odgm1 sadd ssub smul sdiv s1 s2 shalf RS ROps].
      repeat split; try reflexivity; field; assumption.
  Qed.

  (* ---- the coefficient of the pinned commit (defect D1): the left-vacuum sampler is NOT the mirror
          image of the right-vacuum sampler (gamma = 2, gas moving at half its sound speed) ---- *)
  Definition consts_gamma2 : consts R := mkConsts R 2 2 (3 / 4) 1 (1 / 2) (1 / 3) 4 (2 / 3).
End RInst0.

Lemma fan_coeff_pinned_refuted :
  sample_left_vacuum R (ROps 0 1) consts_gamma2 true 1 (1 / 2) 1 1 0 <>
  mirror_sample (sample_right_vacuum R (ROps 0 1) consts_gamma2 1 (- (1 / 2)) 1 1 0).
Proof.
  unfold sample_left_vacuum, sample_right_vacuum, fan_coeff, mirror_sample, consts_gamma2.
  cbn [sadd ssub smul sdiv sneg ssqrt spow sltb sleb s0 s1 s2 shalf squarter sdblmin ROps
       tdgm1 gm1d2 tdgp1 gm1dgp1 tgdgm1].
  assert (E1 : Rltb 0 (1 / 2 + 1) = true) by (apply Rltb_true; lra).
  assert (E2 : Rltb (1 / 2 - 2 * 1) 0 = true) by (apply Rltb_true; lra).
  assert (E3 : Rltb (- (1 / 2) - 1) 0 = true) by (apply Rltb_true; lra).
  assert (E4 : Rltb 0 (- (1 / 2) + 2 * 1) = true) by (apply Rltb_true; lra).
  rewrite E1, E2, E3, E4.
  intros H. injection H as _ Hu _. lra.
Qed.

(* with the repaired coefficient the same input IS mirror symmetric (instance of vacuum_mirror) *)
Lemma fan_coeff_repaired_example :
  sample_left_vacuum R (ROps 0 1) consts_gamma2 false 1 (- - (1 / 2)) 1 1 (- 0) =
  mirror_sample (sample_right_vacuum R (ROps 0 1) consts_gamma2 1 (- (1 / 2)) 1 1 0).
Proof. apply vacuum_mirror. Qed.

(* ---- the star-state correction of the pinned commit (defect D8), on the binary64 instance:
        mirror states approaching at Mach 3/8 (gamma = 2) exchange energy 9/160; the repaired
        formula gives zero up to round-off ---- *)
From Coq Require Import Floats.
Definition f_dummy_pow (a b : float) : float := a.
Definition f_dummy_cst (m e : Z) : float := 0%float.
Definition f_ops := FOps f_dummy_pow f_dummy_cst.
Definition f_mirror_flux (d8 : bool) : flux float :=
  hllc_flux float f_ops (mk_consts float f_ops 2%float) false d8
    1%float (0.375%float, 0%float, 0%float) 0.5%float
    1%float ((-0.375)%float, 0%float, 0%float) 0.5%float
    (1%float, 0%float, 0%float) (0%float, 0%float, 0%float).

Lemma star_correction_pinned_refuted :
  PrimFloat.ltb 0.05%float (snd (f_mirror_flux true)) = true
  /\ PrimFloat.ltb (PrimFloat.abs (snd (f_mirror_flux false))) 1e-15%float = true
  /\ PrimFloat.eqb (fst (fst (f_mirror_flux false))) 0%float = true.
Proof. vm_compute. repeat split. Qed.

(* ---- known finding (not repaired): at the tie S* = 0 with UNORDERED wave-speed estimates (S_L >= 0, i.e.
        mirror states colliding faster than about 1.62 sound speeds) both orientations of the interface
        take the "left" branch without star correction and upwind their own left state: the flux is not
        antisymmetric.  binary64 instance, gamma = 2, Mach 3. ---- *)
Definition f_collide (swap : bool) : flux float :=
  let c := mk_consts float f_ops 2%float in
  if swap then
    hllc_flux float f_ops c false false 1%float ((-3)%float, 0%float, 0%float) 0.5%float
      1%float (3%float, 0%float, 0%float) 0.5%float ((-1)%float, (-0)%float, (-0)%float) (0%float, 0%float, 0%float)
  else
    hllc_flux float f_ops c false false 1%float (3%float, 0%float, 0%float) 0.5%float
      1%float ((-3)%float, 0%float, 0%float) 0.5%float (1%float, 0%float, 0%float) (0%float, 0%float, 0%float).

Lemma hllc_supersonic_tie_refuted :
  PrimFloat.eqb (fst (fst (f_collide false))) 3%float = true /\ PrimFloat.eqb (fst (fst (f_collide true))) 3%float = true.
Proof. vm_compute. split; reflexivity. Qed.
