(* C13: executable model of src/RandomGenerator.hpp (hand model; tie = correspondence,
   three-way with gsl_rng_ranlxd2).

   Every double the class ever holds is an integer multiple of 2^-48 (state words,
   the differences y1,y2,y3, the carry 0 or 2^-48), so a double d is represented by
   its numerator n = d * 2^48 (a Z); "+= 1" becomes "+ W", the carry constant
   1.0/281474976710656.0 becomes 1.  The bound lemmas in C13_Proofs.v show every
   intermediate numerator has magnitude <= 2^48 < 2^53, so this integer arithmetic
   IS the binary64 arithmetic (no rounding ever happens).

   Integer members (uint_fast32_t / int_fast32_t = 64 bit on x86-64 glibc; the harness
   prints the sizes) never leave [0, 2^31) resp. (-12, 2^31), no wrap is reachable.

   Transcription is literal: circular buffer with % 12 index arithmetic, the three
   loops of increment_state with their loop conditions, the unrolled block with the
   software-pipelined RANLUX_STEP calls and their literal indices. *)
From Coq Require Import ZArith List Bool.
Import ListNotations.
Local Open Scope Z_scope.

Definition W : Z := 281474976710656.          (* 2^48 *)

(* array read / write by a C index *)
Definition zn (l : list Z) (i : Z) : Z := nth (Z.to_nat i) l 0.

Fixpoint upd_nat (l : list Z) (n : nat) (v : Z) : list Z :=
  match l, n with
  | [], _ => []
  | _ :: t, O => v :: t
  | h :: t, S n' => h :: upd_nat t n' v
  end.
Definition upd (l : list Z) (i : Z) (v : Z) : list Z := upd_nat l (Z.to_nat i) v.

(* f applied n times, first application first *)
Fixpoint iter {A : Type} (n : nat) (f : A -> A) (a : A) : A :=
  match n with O => a | S n' => iter n' f (f a) end.

(* ---------------------------------------------------------------- the class *)
Record rg := mkRg { xdbl : list Z;   (* double _xdbl[12], numerators *)
                    carry : Z;       (* double _carry, numerator (0 or 1) *)
                    ir : Z; jr : Z; ir_old : Z; pr : Z }.

(* local variables of increment_state: xdbl (aliases _xdbl), carry, ir, jr *)
Record loc := mkLoc { lx : list Z; lc : Z; lir : Z; ljr : Z }.

(* body of the first and of the third loop:
     y1 = xdbl[jr] - xdbl[ir]; y2 = y1 - carry;
     if (y2 < 0) { carry = 2^-48; y2 += 1; } else { carry = 0; }
     xdbl[ir] = y2; ir = (ir + 1) % 12; jr = (jr + 1) % 12;                      *)
Definition body (l : loc) : loc :=
  let y1 := zn (lx l) (ljr l) - zn (lx l) (lir l) in
  let y2 := y1 - lc l in
  let '(y2, c) := if y2 <? 0 then (y2 + W, 1) else (y2, 0) in
  mkLoc (upd (lx l) (lir l) y2) c ((lir l + 1) mod 12) ((ljr l + 1) mod 12).

(* static void ranlux_step(double *xdbl, double &x1, double &x2, i1, i2, i3):
     x1 = xdbl[i1] - xdbl[i2]; if (x2 < 0) { x1 -= 2^-48; x2 += 1; } xdbl[i3] = x2;
   x1 is write-only, x2 is read and written; returns (xdbl, x1, x2)                 *)
Definition ranlux_step (xd : list Z) (x2 : Z) (i1 i2 i3 : Z) : list Z * Z * Z :=
  let x1 := zn xd i1 - zn xd i2 in
  let '(x1, x2) := if x2 <? 0 then (x1 - 1, x2 + W) else (x1, x2) in
  (upd xd i3 x2, x1, x2).

(* body of the second loop (the unrolled 12 steps); ir and jr are not touched *)
Definition block (l : loc) : loc :=
  let xd := lx l in
  let y1 := zn xd 7 - zn xd 0 in
  let y1 := y1 - lc l in
  let '(xd, y2, y1) := ranlux_step xd y1 8 1 0 in
  let '(xd, y3, y2) := ranlux_step xd y2 9 2 1 in
  let '(xd, y1, y3) := ranlux_step xd y3 10 3 2 in
  let '(xd, y2, y1) := ranlux_step xd y1 11 4 3 in
  let '(xd, y3, y2) := ranlux_step xd y2 0 5 4 in
  let '(xd, y1, y3) := ranlux_step xd y3 1 6 5 in
  let '(xd, y2, y1) := ranlux_step xd y1 2 7 6 in
  let '(xd, y3, y2) := ranlux_step xd y2 3 8 7 in
  let '(xd, y1, y3) := ranlux_step xd y3 4 9 8 in
  let '(xd, y2, y1) := ranlux_step xd y1 5 10 9 in
  let '(xd, y3, y2) := ranlux_step xd y2 6 11 10 in
  let '(y3, c) := if y3 <? 0 then (y3 + W, 1) else (y3, 0) in
  mkLoc (upd xd 11 y3) c (lir l) (ljr l).

(* for (k = 0; ir > 0; ++k) body *)
Fixpoint loop1 (fuel : nat) (k : Z) (l : loc) : Z * loc :=
  match fuel with
  | O => (k, l)
  | S f => if 0 <? lir l then loop1 f (k + 1) (body l) else (k, l)
  end.

(* for (; k <= kmax; k += 12) block *)
Fixpoint loop2 (fuel : nat) (kmax k : Z) (l : loc) : Z * loc :=
  match fuel with
  | O => (k, l)
  | S f => if k <=? kmax then loop2 f kmax (k + 12) (block l) else (k, l)
  end.

(* for (; k < kmax; ++k) body *)
Fixpoint loop3 (fuel : nat) (kmax k : Z) (l : loc) : Z * loc :=
  match fuel with
  | O => (k, l)
  | S f => if k <? kmax then loop3 f kmax (k + 1) (body l) else (k, l)
  end.

(* The fuels bound the trip counts (12, _pr, 12); C13_Proofs.v shows each loop leaves
   through its condition, never through the fuel (consequence of increment_refines). *)
Definition increment_state (s : rg) : rg :=
  let l := mkLoc (xdbl s) (carry s) (ir s) (jr s) in
  let '(k, l) := loop1 12 0 l in
  let kmax := pr s - 12 in
  let '(k, l) := loop2 (Z.to_nat (pr s)) kmax k l in
  let kmax := pr s in
  let '(k, l) := loop3 12 kmax k l in
  mkRg (lx l) (lc l) (lir l) (ljr l) (lir l) (pr s).

(* ---- set_seed -------------------------------------------------------------- *)
(* for (k = 0; k < 31; ++k) { xbit[k] = i % 2; i /= 2; } *)
Fixpoint seed_bits (n : nat) (i : Z) : list Z :=
  match n with O => [] | S n' => i mod 2 :: seed_bits n' (i / 2) end.

(* state of the inner loop: xbit[31], ibit, jbit, x *)
Definition bitst : Type := (list Z * Z * Z * Z)%type.

(*  y = (double)((xbit[ibit] + 1) % 2); x += x + y;
    xbit[ibit] = (xbit[ibit] + xbit[jbit]) % 2; ibit = (ibit+1) % 31; jbit = (jbit+1) % 31; *)
Definition bitstep (st : bitst) : bitst :=
  let '(xbit, ibit, jbit, x) := st in
  let y := (zn xbit ibit + 1) mod 2 in
  let x := x + (x + y) in
  let xbit := upd xbit ibit ((zn xbit ibit + zn xbit jbit) mod 2) in
  (xbit, (ibit + 1) mod 31, (jbit + 1) mod 31, x).

(* for (k = 0; k < 12; ++k) { x = 0; for (m = 1; m <= 48; ++m) bitstep; _xdbl[k] = 2^-48 * x; } *)
Fixpoint seed_words (n : nat) (xbit : list Z) (ibit jbit : Z) : list Z :=
  match n with
  | O => []
  | S n' => let '(xbit', ibit', jbit', x) := iter 48 bitstep (xbit, ibit, jbit, 0) in
            x :: seed_words n' xbit' ibit' jbit'
  end.

(* seed : int_fast32_t (64 bit); seed & 0x7FFFFFFFUL on the two's complement value *)
Definition seed_index (seed : Z) : Z :=
  let seed := if seed =? 0 then 1 else seed in
  Z.land seed 2147483647.

Definition set_seed (seed : Z) : rg :=
  let i := seed_index seed in
  let xbit := seed_bits 31 i in
  mkRg (seed_words 12 xbit 0 18) 0 11 7 0 397.

(* ---- drawing --------------------------------------------------------------- *)
(* _ir = (_ir + 1) % 12; if (_ir == _ir_old) increment_state(); return _xdbl[_ir]; *)
Definition next (s : rg) : Z * rg :=
  let s1 := mkRg (xdbl s) (carry s) ((ir s + 1) mod 12) (jr s) (ir_old s) (pr s) in
  let s2 := if ir s1 =? ir_old s1 then increment_state s1 else s1 in
  (zn (xdbl s2) (ir s2), s2).

(* (int_fast32_t)(u * 2147483648.0): u*2^31 = n*2^-17 exactly, truncation of a value >= 0 *)
Definition next_integer (s : rg) : Z * rg :=
  let '(n, s') := next s in (n / 131072, s').

Fixpoint stream (n : nat) (s : rg) : list Z :=
  match n with O => [] | S n' => let '(v, s') := next s in v :: stream n' s' end.

(* state after n draws *)
Fixpoint after (n : nat) (s : rg) : rg :=
  match n with O => s | S n' => after n' (snd (next s)) end.

(* n-th value (n = 0 is the first) drawn after set_seed(seed) *)
Definition nth_output (seed : Z) (n : nat) : Z := fst (next (after n (set_seed seed))).

(* ---- restart file: the words in the order written / read -------------------- *)
Inductive word := Wd (numer : Z)   (* write(double) *)
                | Wu (v : Z).      (* write(uint_fast32_t) *)

Definition dump (s : rg) : list word :=
  map Wd (xdbl s) ++ [Wd (carry s); Wu (ir s); Wu (jr s); Wu (ir_old s); Wu (pr s)].

Fixpoint read_doubles (n : nat) (ws : list word) : option (list Z * list word) :=
  match n with
  | O => Some ([], ws)
  | S n' => match ws with
            | Wd d :: r => match read_doubles n' r with
                           | Some (ds, r') => Some (d :: ds, r')
                           | None => None
                           end
            | _ => None
            end
  end.

(* restart constructor: 12 x read<double>, read<double>, 4 x read<uint_fast32_t>,
   in member declaration order _xdbl,_carry,_ir,_jr,_ir_old,_pr *)
Definition restore (ws : list word) : option rg :=
  match read_doubles 12 ws with
  | Some (xs, Wd c :: Wu a :: Wu b :: Wu o :: Wu p :: []) => Some (mkRg xs c a b o p)
  | _ => None
  end.

(* ---------------------------------------------------------------- the spec *)
(* Subtract with borrow, base W = 2^48, lags (12,5):
     x_n = (x_{n-5} - x_{n-12} - c_{n-1}) mod W,  c_n = [x_{n-5} - x_{n-12} - c_{n-1} < 0]
   on the history h = [x_{n-12}; ...; x_{n-1}] (oldest first).                       *)
Definition swb (st : list Z * Z) : list Z * Z :=
  let '(h, c) := st in
  let d := zn h 7 - zn h 0 - c in
  (tl h ++ [d mod W], if d <? 0 then 1 else 0).

(* ranlxd2 = luxury p = 397: 397 swb steps, then the 12 history values are handed out
   oldest first (i.e. 12 kept, 385 skipped of every 397).  used = how many of the
   current 12 have been handed out. *)
Record lux := mkLux { hist : list Z; bor : Z; used : Z }.

Definition lux_next (p : nat) (g : lux) : Z * lux :=
  if used g <? 12 then (zn (hist g) (used g), mkLux (hist g) (bor g) (used g + 1))
  else let '(h, c) := iter p swb (hist g, bor g) in (zn h 0, mkLux h c 1).

Fixpoint lux_stream (p n : nat) (g : lux) : list Z :=
  match n with O => [] | S n' => let '(v, g') := lux_next p g in v :: lux_stream p n' g' end.

(* seeding spec: 31-bit shift register b_{n+31} = b_n xor b_{n+18}, started with the bits
   of the seed (least significant first); output bits complemented, 48 per word, most
   significant first *)
Fixpoint lfsr (n : nat) (reg : list Z) : list Z :=
  match n with
  | O => []
  | S n' => zn reg 0 :: lfsr n' (tl reg ++ [(zn reg 0 + zn reg 18) mod 2])
  end.

Definition word_of_bits (bs : list Z) : Z := fold_left (fun a b => 2 * a + (1 - b)) bs 0.

Fixpoint chunks (n : nat) (bs : list Z) : list (list Z) :=
  match n with O => [] | S n' => firstn 48 bs :: chunks n' (skipn 48 bs) end.

Definition seed_words_spec (i : Z) : list Z :=
  map word_of_bits (chunks 12 (lfsr 576 (seed_bits 31 i))).

Definition lux_init (seed : Z) : lux :=
  mkLux (seed_words_spec ((if seed =? 0 then 1 else seed) mod 2147483648)) 0 12.

(* abstraction: the circular buffer read from position i *)
Definition rot (l : list Z) (i : Z) : list Z := skipn (Z.to_nat i) l ++ firstn (Z.to_nat i) l.

Definition abs (s : rg) : lux :=
  mkLux (rot (xdbl s) (ir_old s)) (carry s) ((ir s - ir_old s) mod 12 + 1).

(* the Marsaglia-Zaman number of a state: swb is multiplication by W^-1 modulo
   MODULUS = W^12 - W^5 + 1 on it (used for "different seeds give different streams") *)
Definition MODULUS : Z := W ^ 12 - W ^ 5 + 1.

Fixpoint poly (l : list Z) : Z := match l with [] => 0 | a :: t => a + W * poly t end.

Definition mznum (st : list Z * Z) : Z :=
  let '(h, c) := st in poly h - poly (skipn 7 h) + c.

(* ---- well-formedness -------------------------------------------------------- *)
Definition word_ok (v : Z) : Prop := 0 <= v < W.

Definition wf (s : rg) : Prop :=
  length (xdbl s) = 12%nat /\ Forall word_ok (xdbl s) /\ (carry s = 0 \/ carry s = 1) /\
  0 <= ir s < 12 /\ 0 <= ir_old s < 12 /\ jr s = (ir_old s + 7) mod 12 /\ 12 <= pr s.

(* executable version, run by the model driver on every state it visits *)
Definition wfb (s : rg) : bool :=
  (length (xdbl s) =? 12)%nat && forallb (fun v => (0 <=? v) && (v <? W)) (xdbl s) &&
  ((carry s =? 0) || (carry s =? 1)) && (0 <=? ir s) && (ir s <? 12) && (0 <=? ir_old s) && (ir_old s <? 12) &&
  (jr s =? (ir_old s + 7) mod 12) && (12 <=? pr s).
