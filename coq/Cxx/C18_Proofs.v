From CMI Require Import Cxx.C18_Dec Cxx.C18_Gen Cxx.C18_Defs.
