(* C18 proofs: collects the four parts and shows that the hypotheses of the sampler theorems are satisfiable. *)
From Coq Require Import Reals List Lra Lia.
From CMI Require Export Cxx.C18_Dec Cxx.C18_Gen Cxx.C18_Defs Cxx.C18_ProofsA Cxx.C18_ProofsB Cxx.C18_ProofsC Cxx.C18_ProofsD.
Import ListNotations.
Local Open Scope R_scope.

(* the hypotheses of sample_lyman_range are satisfiable (tables + a temperature inside them) *)
Example lyman_hyps_sat : lyman_tables w_freq w_temp w_cdfs /\ nth 0 w_temp 0 <= 2500 <= nth (length w_temp - 1) w_temp 0.
Proof. split; [exact w_tables | unfold w_temp; cbn [length nth Nat.sub]; lra]. Qed.

(* ... and those of sample_linear_range / sample_linear_monotone *)
Example linear_hyps_sat : let freq := [1; 2; 3] in let cdf := [0; 1 / 2; 1] in
  length freq = length cdf /\ (2 <= length cdf)%nat /\ Rsorted freq /\ Rsorted cdf /\ nth 0 cdf 0 < 7 / 10 <= nth (length cdf - 1) cdf 0.
Proof.
  cbn zeta. cbn [length nth Nat.sub]. repeat split; try lia; try lra;
    apply adj_sorted; cbn [length]; intros [|[|i]] Hi; cbn [nth]; try lia; lra.
Qed.

(* ... and those of sample_planck_range *)
Example planck_hyps_sat : planck_tables [0; 1 / 2; 1] [-10; log10R (1 / 2); log10R 1].
Proof.
  unfold planck_tables. cbn [length nth]. repeat split; try lia.
  - apply Rmult_lt_reg_r with (10 ^ 10); [apply pow_lt; lra|]. unfold Rdiv. rewrite Rmult_assoc, Rinv_l by (apply pow_nonzero; lra). lra.
  - destruct j as [|[|[|j]]]; cbn [nth]; try lia; lra.
  - destruct j as [|[|[|j]]]; cbn [nth]; try lia; reflexivity.
Qed.

(* the sign conditions are not vacuous: a row with a negative sigma_0 is rejected *)
Example rowA_ok_rejects : rowA_ok (RA 1 1 1 0 (D 136 (-1)) (D 4298 (-4)) (D (-5475) 1) (D 3288 (-2)) (D 2963 (-3)) (D 0 0)) = false.
Proof. reflexivity. Qed.
