(* C20 (snapshot clause): the reader's index arithmetic inverts the writer's cell ordering, for every layout *)
From Coq Require Import List ZArith QArith Qround Qfield Qabs Bool Lia.
From CMI Require Import Cxx.C20_Defs Cxx.C20_Proofs Cxx.C20_SnapDefs.
Import ListNotations.
Local Open Scope Z_scope.

(* ------------------------------------------------------------------------
   A. loops and array stores *)
Lemma in_zrange_from : forall n s x, In x (zrange_from s n) <-> s <= x < s + Z.of_nat n.
Proof.
  induction n as [|n IH]; intros s x.
  - cbn [zrange_from]. split; [intros []|lia].
  - cbn [zrange_from In]. rewrite IH. lia.
Qed.

Lemma in_zrange : forall n x, In x (zrange n) <-> 0 <= x < n.
Proof. intros n x. unfold zrange. rewrite in_zrange_from. lia. Qed.

Section Store.
  Variables (K X : Type) (eqb : K -> K -> bool).
  Hypothesis eqb_spec : forall a b, eqb a b = true <-> a = b.

  Lemma store_all_snoc : forall (l : list (K * X)) kx k,
    store_all eqb (l ++ [kx]) k = if eqb k (fst kx) then Some (snd kx) else store_all eqb l k.
  Proof. intros. unfold store_all. rewrite fold_left_app. reflexivity. Qed.

  Lemma store_all_in : forall (l : list (K * X)) k x, store_all eqb l k = Some x -> In (k, x) l.
  Proof.
    induction l as [|a l IH] using rev_ind; intros k v H.
    - discriminate.
    - rewrite store_all_snoc in H. destruct (eqb k (fst a)) eqn:E.
      + apply eqb_spec in E. inversion H. subst. apply in_or_app. right. left. destruct a; reflexivity.
      + apply in_or_app. left. auto.
  Qed.

  Lemma store_all_key : forall (l : list (K * X)) k x, In (k, x) l -> exists x', store_all eqb l k = Some x'.
  Proof.
    induction l as [|a l IH] using rev_ind; intros k v H.
    - contradiction.
    - rewrite store_all_snoc. destruct (eqb k (fst a)) eqn:E.
      + eauto.
      + apply in_app_or in H. destruct H as [H|[H|[]]].
        * eauto.
        * subst a. cbn [fst] in E. assert (T : eqb k k = true) by (apply eqb_spec; reflexivity). congruence.
  Qed.

  (* a key that is stored with one value only holds that value at the end (no store is overwritten by another cell) *)
  Lemma store_all_functional : forall (l : list (K * X)) k x,
    In (k, x) l -> (forall x', In (k, x') l -> x' = x) -> store_all eqb l k = Some x.
  Proof.
    intros l k x H U. destruct (store_all_key l k x H) as [x' E]. rewrite E. f_equal. apply U. apply store_all_in. exact E.
  Qed.

  Lemma store_all_none : forall (l : list (K * X)) k, (forall x, ~ In (k, x) l) -> store_all eqb l k = None.
  Proof.
    intros l k H. destruct (store_all eqb l k) eqn:E; [|reflexivity]. apply store_all_in in E. destruct (H _ E).
  Qed.
End Store.

Lemma z3_eqb_spec : forall a b, z3_eqb a b = true <-> a = b.
Proof.
  intros [[a0 a1] a2] [[b0 b1] b2]. unfold z3_eqb. rewrite !andb_true_iff, !Z.eqb_eq. split.
  - intros [[-> ->] ->]. reflexivity.
  - intro E. inversion E. auto.
Qed.

(* ------------------------------------------------------------------------
   B. integer arithmetic of the index maps *)
Lemma divmod_unique : forall b q r q' r', 0 <= r < b -> 0 <= r' < b -> q * b + r = q' * b + r' -> q = q' /\ r = r'.
Proof.
  intros b q r q' r' H H' E.
  assert (Q1 : q = (q * b + r) / b) by (apply Z.div_unique with (r := r); [left; exact H | ring]).
  assert (Q2 : q' = (q * b + r) / b) by (apply Z.div_unique with (r := r'); [left; exact H' | rewrite E; ring]).
  assert (EQ : q = q') by congruence. clear Q1 Q2. subst q'. split; [reflexivity | lia].
Qed.

(* index = x*a*b + y*b + z  <->  (x, y, z) is the decomposition computed by create_subgrid / get_three_index /
   get_indices *)
Lemma decomp_index : forall a b x y z, 0 <= y < a -> 0 <= z < b ->
  let n := x * a * b + y * b + z in
  n / (a * b) = x /\ (n - x * a * b) / b = y /\ n - x * a * b - y * b = z.
Proof.
  intros a b x y z Hy Hz n. subst n.
  assert (E1 : (x * a * b + y * b + z) / (a * b) = x).
  { symmetry. apply Z.div_unique with (r := y * b + z); [left; nia | ring]. }
  assert (E2 : (x * a * b + y * b + z - x * a * b) / b = y).
  { symmetry. apply Z.div_unique with (r := z); [left; lia | ring]. }
  repeat split; [exact E1 | exact E2 | ring].
Qed.

Lemma decomp_range : forall a b n, 1 <= a -> 1 <= b -> 0 <= n ->
  let x := n / (a * b) in let y := (n - x * a * b) / b in let z := n - x * a * b - y * b in
  0 <= x /\ 0 <= y < a /\ 0 <= z < b /\ n = x * a * b + y * b + z /\ (forall m, n < m * a * b -> x < m).
Proof.
  intros a b n Ha Hb Hn x y z.
  assert (Pab : 0 < a * b) by nia.
  pose proof (Z.div_mod n (a * b) ltac:(lia)) as D1. pose proof (Z.mod_pos_bound n (a * b) Pab) as M1.
  fold x in D1.
  assert (R1 : n - x * a * b = n mod (a * b)) by lia.
  assert (Py : 0 < b) by lia.
  pose proof (Z.div_mod (n mod (a * b)) b ltac:(lia)) as D2. pose proof (Z.mod_pos_bound (n mod (a * b)) b Py) as M2.
  assert (Ey : y = (n mod (a * b)) / b) by (subst y; rewrite R1; reflexivity).
  rewrite <- Ey in D2.
  assert (X0 : 0 <= x) by (subst x; apply Z.div_pos; lia).
  assert (Y0 : 0 <= y) by (rewrite Ey; apply Z.div_pos; lia).
  assert (Y1 : y < a).
  { rewrite Ey. apply Z.div_lt_upper_bound; [lia | nia]. }
  assert (Ez : z = (n mod (a * b)) mod b) by (subst z; lia).
  repeat split; try lia.
  intros m Hm. subst x. apply Z.div_lt_upper_bound; [lia | nia].
Qed.

Lemma sub_position_index : forall sx sy sz x y z, 0 <= y < sy -> 0 <= z < sz ->
  sub_position (sx, sy, sz) (x * sy * sz + y * sz + z) = (x, y, z).
Proof.
  intros sx sy sz x y z Hy Hz. unfold sub_position.
  destruct (decomp_index sy sz x y z Hy Hz) as [E1 [E2 E3]].
  rewrite E1, E2, E3. reflexivity.
Qed.

Lemma three_index_index : forall bx by_ bz i j k, 0 <= j < by_ -> 0 <= k < bz ->
  three_index (bx, by_, bz) (i * by_ * bz + j * bz + k) = (i, j, k).
Proof.
  intros bx by_ bz i j k Hj Hk. unfold three_index.
  destruct (decomp_index by_ bz i j k Hj Hk) as [E1 [E2 E3]].
  cbv zeta. replace (i * (by_ * bz)) with (i * by_ * bz) in * by ring.
  rewrite E1. replace (i * (by_ * bz)) with (i * by_ * bz) by ring. rewrite E2, E3. reflexivity.
Qed.

Lemma cart_indices_index : forall nx ny nz x y z, 0 <= y < ny -> 0 <= z < nz ->
  cart_indices (nx, ny, nz) (x * ny * nz + y * nz + z) = (x, y, z).
Proof.
  intros nx ny nz x y z Hy Hz. unfold cart_indices.
  destruct (decomp_index ny nz x y z Hy Hz) as [E1 [E2 E3]].
  cbv zeta. rewrite E1, E2, E3. reflexivity.
Qed.

Lemma sub_position_range : forall S g, pos3 S -> 0 <= g < prod3 S ->
  in3 (sub_position S g) S /\ rd_subgrid_index S (sub_position S g) = g.
Proof.
  intros [[sx sy] sz] g [Hx [Hy Hz]] [G0 G1]. unfold sub_position, in3, rd_subgrid_index, prod3 in *.
  destruct (decomp_range sy sz g Hy Hz G0) as [X0 [Y [Z [E U]]]]. cbv zeta in *.
  specialize (U sx G1). repeat split; lia.
Qed.

Lemma three_index_range : forall B c, pos3 B -> 0 <= c < prod3 B ->
  in3 (three_index B c) B /\
  (match B, three_index B c with (bx, by_, bz), (i, j, k) => i * by_ * bz + j * bz + k end) = c.
Proof.
  intros [[bx by_] bz] c [Hx [Hy Hz]] [C0 C1]. unfold three_index, in3, prod3 in *.
  destruct (decomp_range by_ bz c Hy Hz C0) as [X0 [Y [Z [E U]]]]. cbv zeta in *.
  specialize (U bx C1).
  replace (c / (by_ * bz) * (by_ * bz)) with (c / (by_ * bz) * by_ * bz) by ring.
  repeat split; lia.
Qed.

Lemma cart_indices_range : forall N l, pos3 N -> 0 <= l < prod3 N ->
  in3 (cart_indices N l) N /\
  (match N, cart_indices N l with (nx, ny, nz), (x, y, z) => x * ny * nz + y * nz + z end) = l.
Proof.
  intros [[nx ny] nz] l [Hx [Hy Hz]] [C0 C1]. unfold cart_indices, in3, prod3 in *.
  destruct (decomp_range ny nz l Hy Hz C0) as [X0 [Y [Z [E U]]]]. cbv zeta in *.
  specialize (U nx C1). repeat split; lia.
Qed.

Lemma index_range : forall a b c x y z, 0 <= x < a -> 0 <= y < b -> 0 <= z < c -> 0 <= x * b * c + y * c + z < a * b * c.
Proof.
  intros a b c x y z Hx Hy Hz.
  assert (B0 : 0 <= b * c) by (apply Z.mul_nonneg_nonneg; lia).
  assert (A1 : x * (b * c) <= (a - 1) * (b * c)) by (apply Z.mul_le_mono_nonneg_r; lia).
  assert (A2 : y * c <= (b - 1) * c) by (apply Z.mul_le_mono_nonneg_r; lia).
  assert (A3 : 0 <= x * (b * c)) by (apply Z.mul_nonneg_nonneg; lia).
  assert (A4 : 0 <= y * c) by (apply Z.mul_nonneg_nonneg; lia).
  split; lia.
Qed.

Lemma div3_mul3 : forall S B, pos3 S -> div3 (mul3 S B) S = B.
Proof.
  intros [[sx sy] sz] [[bx by_] bz] [Hx [Hy Hz]]. unfold div3, mul3.
  rewrite (Z.mul_comm sx), (Z.mul_comm sy), (Z.mul_comm sz), !Z.div_mul by lia. reflexivity.
Qed.

Lemma prod3_mul3 : forall S B, prod3 (mul3 S B) = prod3 S * prod3 B.
Proof. intros [[sx sy] sz] [[bx by_] bz]. unfold prod3, mul3. ring. Qed.

Lemma prod3_pos : forall S, pos3 S -> 1 <= prod3 S.
Proof. intros [[sx sy] sz] [Hx [Hy Hz]]. unfold prod3. nia. Qed.

(* ------------------------------------------------------------------------
   C. the writer: which cell ends up at which position of the datasets *)
Lemma in_wr_blocks : forall (A : Type) ncell (entry : Z -> Z -> Z -> A) a, 0 <= ncell ->
  In a (wr_blocks ncell entry) <->
  exists iblock index, 0 <= iblock /\ 0 <= index < blocksize /\ iblock * blocksize + index < ncell /\
                       a = entry (iblock * blocksize) index (iblock * blocksize + index).
Proof.
  intros A ncell entry a Hn. unfold wr_blocks. rewrite in_flat_map. split.
  - intros [iblock [Hb Ha]]. apply in_map_iff in Ha. destruct Ha as [index [E Hi]].
    apply in_zrange in Hb. apply in_zrange in Hi. exists iblock, index. unfold blocksize in *. repeat split; try lia. auto.
  - intros [iblock [index [Hb [Hi [Hc E]]]]]. exists iblock. split.
    + apply in_zrange. unfold blocksize in *. split; [lia|].
      destruct (Z.gtb_spec (ncell mod 10000) 0) as [G|G]; Z.div_mod_to_equations; lia.
    + apply in_map_iff. exists index. split; [auto|]. apply in_zrange. unfold blocksize in *. lia.
Qed.

Lemma in_wr_subgrid : forall ncell off g p g' c, 0 <= ncell ->
  In (p, (g', c)) (wr_subgrid ncell off g) <-> g' = g /\ 0 <= c < ncell /\ p = off + c.
Proof.
  intros ncell off g p g' c Hn. unfold wr_subgrid. rewrite in_wr_blocks by exact Hn. split.
  - intros [iblock [index [Hb [Hi [Hc E]]]]]. inversion E. subst. unfold blocksize in *. repeat split; lia.
  - intros [-> [Hc ->]]. exists (c / blocksize), (c mod blocksize). unfold blocksize in *.
    repeat split; try (Z.div_mod_to_equations; lia).
    f_equal; [|f_equal]; Z.div_mod_to_equations; lia.
Qed.

Lemma in_wr_loop : forall ncell n a off p g c, 0 <= ncell ->
  In (p, (g, c)) (wr_loop ncell (zrange_from a n) off) <->
  a <= g < a + Z.of_nat n /\ 0 <= c < ncell /\ p = off + (g - a) * ncell + c.
Proof.
  intros ncell n. induction n as [|n IH]; intros a off p g c Hn.
  - cbn [zrange_from wr_loop]. split; [intros []|lia].
  - cbn [zrange_from wr_loop]. rewrite in_app_iff, in_wr_subgrid, IH by exact Hn. split.
    + intros [[-> [Hc ->]]|[Hg [Hc ->]]].
      * repeat split; try lia.
      * repeat split; try lia.
    + intros [Hg [Hc ->]]. destruct (Z.eq_dec g a) as [->|Ne].
      * left. repeat split; try lia.
      * right. repeat split; try lia.
Qed.

Theorem in_wr_entries : forall S B p g c, pos3 S -> pos3 B ->
  In (p, (g, c)) (wr_entries S B) <-> 0 <= g < prod3 S /\ 0 <= c < prod3 B /\ p = g * prod3 B + c.
Proof.
  intros S B p g c HS HB. unfold wr_entries, zrange.
  pose proof (prod3_pos S HS). pose proof (prod3_pos B HB).
  rewrite in_wr_loop by lia. split.
  - intros [Hg [Hc ->]]. repeat split; try lia.
  - intros [Hg [Hc ->]]. repeat split; try lia.
Qed.

(* the dataset holds, at position g * (cells per subgrid) + c, the value of cell c of subgrid g *)
Theorem snapshot_file_content : forall (V : Type) S B (f : Z3 -> V) g c, pos3 S -> pos3 B ->
  0 <= g < prod3 S -> 0 <= c < prod3 B ->
  snapshot_file S B f (g * prod3 B + c) = Some (f (global_cell S B g c)).
Proof.
  intros V S B f g c HS HB Hg Hc. unfold snapshot_file.
  rewrite (store_all_functional Z (Z * Z)%type Z.eqb Z.eqb_eq (wr_entries S B) (g * prod3 B + c) (g, c)).
  - reflexivity.
  - apply in_wr_entries; auto.
  - intros [g' c'] H. apply in_wr_entries in H; auto. destruct H as [Hg' [Hc' E]].
    destruct (divmod_unique (prod3 B) g c g' c' Hc Hc' E) as [-> ->]. reflexivity.
Qed.

(* the writer fills exactly the positions 0 .. ncell-1, each once *)
Theorem wr_positions_bijective : forall S B, pos3 S -> pos3 B ->
  (forall p, 0 <= p < prod3 S * prod3 B <-> exists g c, In (p, (g, c)) (wr_entries S B)) /\
  (forall p g c g' c', In (p, (g, c)) (wr_entries S B) -> In (p, (g', c')) (wr_entries S B) -> g = g' /\ c = c') /\
  (forall p p' g c, In (p, (g, c)) (wr_entries S B) -> In (p', (g, c)) (wr_entries S B) -> p = p').
Proof.
  intros S B HS HB. pose proof (prod3_pos S HS) as PS. pose proof (prod3_pos B HB) as PB.
  split; [|split].
  - intro p. split.
    + intros Hp. exists (p / prod3 B), (p mod prod3 B). apply in_wr_entries; auto.
      pose proof (Z.div_mod p (prod3 B) ltac:(lia)). pose proof (Z.mod_pos_bound p (prod3 B) ltac:(lia)).
      repeat split; try lia.
      * apply Z.div_pos; lia.
      * apply Z.div_lt_upper_bound; [lia | nia].
    + intros [g [c H1]]. apply in_wr_entries in H1; auto. destruct H1 as [Hg [Hc ->]].
      assert (A1 : g * prod3 B <= (prod3 S - 1) * prod3 B) by (apply Z.mul_le_mono_nonneg_r; lia).
      assert (A2 : 0 <= g * prod3 B) by (apply Z.mul_nonneg_nonneg; lia).
      split; lia.
  - intros p g c g' c' H1 H2. apply in_wr_entries in H1; auto. apply in_wr_entries in H2; auto.
    destruct H1 as [_ [C1 E1]], H2 as [_ [C2 E2]]. rewrite E1 in E2. apply (divmod_unique (prod3 B) g c g' c' C1 C2 E2).
  - intros p p' g c H1 H2. apply in_wr_entries in H1; auto. apply in_wr_entries in H2; auto. lia.
Qed.

(* ------------------------------------------------------------------------
   D. the reader, task based branch *)
Theorem in_rd_entries : forall S N t src,
  In (t, src) (rd_entries S N) <->
  exists si ci, in3 si S /\ in3 ci (div3 N S) /\ t = rd_target S N si ci /\ src = rd_cell_index S N si ci.
Proof.
  intros [[sx sy] sz] [[nx ny] nz] t src. unfold rd_entries. cbv beta iota delta [div3]. split.
  - intro H.
    apply in_flat_map in H. destruct H as [six [H1 H]].
    apply in_flat_map in H. destruct H as [siy [H2 H]].
    apply in_flat_map in H. destruct H as [siz [H3 H]].
    apply in_flat_map in H. destruct H as [cix [H4 H]].
    apply in_flat_map in H. destruct H as [ciy [H5 H]].
    apply in_map_iff in H. destruct H as [ciz [E H6]].
    rewrite in_zrange in H1, H2, H3, H4, H5, H6. inversion E.
    exists (six, siy, siz), (cix, ciy, ciz). unfold in3. repeat split; lia.
  - intros [[[six siy] siz] [[[cix ciy] ciz] [[H1 [H2 H3]] [[H4 [H5 H6]] [-> ->]]]]].
    apply in_flat_map. exists six. split; [apply in_zrange; exact H1|].
    apply in_flat_map. exists siy. split; [apply in_zrange; exact H2|].
    apply in_flat_map. exists siz. split; [apply in_zrange; exact H3|].
    apply in_flat_map. exists cix. split; [apply in_zrange; exact H4|].
    apply in_flat_map. exists ciy. split; [apply in_zrange; exact H5|].
    apply in_map_iff. exists ciz. split; [reflexivity | apply in_zrange; exact H6].
Qed.

(* the reader's linear index of (block, cell in block) IS the writer's position of cell `one_index ci` of subgrid
   `rd_subgrid_index si`, and that cell is the cell of the whole grid that the reader assigns the value to *)
Theorem reader_index_is_writer_position : forall S B si ci, pos3 S -> pos3 B -> in3 si S -> in3 ci B ->
  let N := mul3 S B in
  let g := rd_subgrid_index S si in
  let c := one_index B ci in
  rd_cell_index S N si ci = g * prod3 B + c /\
  In (rd_cell_index S N si ci, (g, c)) (wr_entries S B) /\
  global_cell S B g c = rd_target S N si ci /\
  sub_position S g = si /\ three_index B c = ci /\
  0 <= rd_cell_index S N si ci < prod3 N.
Proof.
  intros S B si ci HS HB Hsi Hci N g c.
  assert (DN : div3 N S = B) by (apply div3_mul3; exact HS).
  pose proof (prod3_pos S HS) as PS. pose proof (prod3_pos B HB) as PB.
  destruct S as [[sx sy] sz], B as [[bx by_] bz], si as [[six siy] siz], ci as [[cix ciy] ciz].
  destruct HS as [Sx [Sy Sz]], HB as [Bx [By Bz]], Hsi as [I1 [I2 I3]], Hci as [C1 [C2 C3]].
  assert (Eg : sub_position (sx, sy, sz) g = (six, siy, siz)) by (apply sub_position_index; assumption).
  assert (Ec : three_index (bx, by_, bz) c = (cix, ciy, ciz)) by (apply three_index_index; assumption).
  assert (Rg : 0 <= g < prod3 (sx, sy, sz)) by (apply index_range; assumption).
  assert (Rc : 0 <= c < prod3 (bx, by_, bz)) by (apply index_range; assumption).
  assert (E : rd_cell_index (sx, sy, sz) N (six, siy, siz) (cix, ciy, ciz) = g * prod3 (bx, by_, bz) + c).
  { unfold rd_cell_index. rewrite DN. subst g c. unfold rd_subgrid_index, one_index, prod3. ring. }
  split; [exact E|]. split.
  { rewrite E. apply in_wr_entries; unfold pos3; auto. }
  split.
  { unfold global_cell. rewrite Eg, Ec. unfold rd_target. rewrite DN. reflexivity. }
  split; [exact Eg|]. split; [exact Ec|].
  rewrite E. subst N. rewrite prod3_mul3. nia.
Qed.

(* every cell of the grid is the target of exactly one store of the reader *)
Lemma rd_target_unique : forall S B si ci si' ci', pos3 S -> pos3 B -> in3 ci B -> in3 ci' B ->
  rd_target S (mul3 S B) si ci = rd_target S (mul3 S B) si' ci' -> si = si' /\ ci = ci'.
Proof.
  intros S B si ci si' ci' HS HB Hc Hc' E. unfold rd_target in E. rewrite (div3_mul3 S B HS) in E.
  destruct B as [[bx by_] bz], si as [[six siy] siz], ci as [[cix ciy] ciz], si' as [[six' siy'] siz'], ci' as [[cix' ciy'] ciz'].
  destruct Hc as [C1 [C2 C3]], Hc' as [D1 [D2 D3]]. inversion E as [[E1 E2 E3]].
  destruct (divmod_unique bx six cix six' cix' C1 D1 E1) as [-> ->].
  destruct (divmod_unique by_ siy ciy siy' ciy' C2 D2 E2) as [-> ->].
  destruct (divmod_unique bz siz ciz siz' ciz' C3 D3 E3) as [-> ->]. split; reflexivity.
Qed.

Lemma cell_split : forall s b t, 1 <= s -> 1 <= b -> 0 <= t < s * b ->
  0 <= t / b < s /\ 0 <= t mod b < b /\ t / b * b + t mod b = t.
Proof.
  intros s b t Hs Hb Ht. pose proof (Z.div_mod t b ltac:(lia)). pose proof (Z.mod_pos_bound t b ltac:(lia)).
  repeat split; try lia.
  - apply Z.div_pos; lia.
  - apply Z.div_lt_upper_bound; [lia | nia].
Qed.

(* read back = written, as a statement about the two index maps composed with an arbitrary field f *)
Theorem snapshot_grid_roundtrip : forall (V : Type) S B (f : Z3 -> V) t, pos3 S -> pos3 B ->
  in3 t (mul3 S B) ->
  rd_grid S (mul3 S B) (snapshot_file S B f) t = Some (f t).
Proof.
  intros V S B f t HS HB Ht.
  pose (N := mul3 S B).
  assert (EX : exists si ci, in3 si S /\ in3 ci B /\ rd_target S N si ci = t).
  { subst N. unfold rd_target. rewrite (div3_mul3 S B HS).
    destruct S as [[sx sy] sz], B as [[bx by_] bz], t as [[tx ty] tz].
    destruct HS as [Sx [Sy Sz]], HB as [Bx [By Bz]], Ht as [T1 [T2 T3]].
    destruct (cell_split sx bx tx Sx Bx T1) as [A1 [A2 A3]].
    destruct (cell_split sy by_ ty Sy By T2) as [A4 [A5 A6]].
    destruct (cell_split sz bz tz Sz Bz T3) as [A7 [A8 A9]].
    exists (tx / bx, ty / by_, tz / bz), (tx mod bx, ty mod by_, tz mod bz). unfold in3.
    split; [auto|]. split; [auto|]. rewrite A3, A6, A9. reflexivity. }
  destruct EX as [si [ci [Hsi [Hci Et]]]].
  destruct (reader_index_is_writer_position S B si ci HS HB Hsi Hci) as [E [_ [G [_ [_ _]]]]].
  fold N in E, G.
  unfold rd_grid. fold N.
  rewrite (store_all_functional Z3 Z z3_eqb z3_eqb_spec (rd_entries S N) t (rd_cell_index S N si ci)).
  - rewrite E. rewrite snapshot_file_content; auto.
    + rewrite G, Et. reflexivity.
    + destruct S as [[sx sy] sz], si as [[six siy] siz]. destruct Hsi as [I1 [I2 I3]]. apply index_range; assumption.
    + destruct B as [[bx by_] bz], ci as [[cix ciy] ciz]. destruct Hci as [I1 [I2 I3]]. apply index_range; assumption.
  - apply in_rd_entries. exists si, ci. subst N. rewrite (div3_mul3 S B HS). auto.
  - intros src' H. apply in_rd_entries in H. destruct H as [si' [ci' [Hsi' [Hci' [Et' ->]]]]].
    subst N. rewrite (div3_mul3 S B HS) in Hci'.
    rewrite <- Et in Et'. destruct (rd_target_unique S B si ci si' ci' HS HB Hci Hci' Et') as [-> ->]. reflexivity.
Qed.

(* the stores of the reader hit every cell once and use every position of the datasets once *)
Theorem rd_entries_bijective : forall S B, pos3 S -> pos3 B ->
  let N := mul3 S B in
  (forall t, in3 t N <-> exists src, In (t, src) (rd_entries S N)) /\
  (forall src, 0 <= src < prod3 N <-> exists t, In (t, src) (rd_entries S N)) /\
  (forall t src src', In (t, src) (rd_entries S N) -> In (t, src') (rd_entries S N) -> src = src') /\
  (forall t t' src, In (t, src) (rd_entries S N) -> In (t', src) (rd_entries S N) -> t = t').
Proof.
  intros S B HS HB N. pose proof (div3_mul3 S B HS) as DN. fold N in DN.
  pose proof (prod3_pos S HS) as PS. pose proof (prod3_pos B HB) as PB.
  assert (TGT : forall si ci, in3 si S -> in3 ci B -> in3 (rd_target S N si ci) N).
  { intros si ci Hsi Hci. unfold rd_target. rewrite DN. subst N.
    destruct S as [[sx sy] sz], B as [[bx by_] bz], si as [[six siy] siz], ci as [[cix ciy] ciz].
    destruct Hsi as [I1 [I2 I3]], Hci as [C1 [C2 C3]]. unfold in3, mul3. repeat split; nia. }
  split; [|split; [|split]].
  - intro t. split.
    + intro Ht. pose proof (snapshot_grid_roundtrip Z3 S B (fun x => x) t HS HB Ht) as R. unfold rd_grid in R. fold N in R.
      destruct (store_all z3_eqb (rd_entries S N) t) as [src|] eqn:E; [|discriminate].
      exists src. apply (store_all_in Z3 Z z3_eqb z3_eqb_spec). exact E.
    + intros [src H]. apply in_rd_entries in H. destruct H as [si [ci [Hsi [Hci [-> _]]]]]. rewrite DN in Hci. auto.
  - intro src. split.
    + intros Hs. assert (PN : prod3 N = prod3 S * prod3 B) by apply prod3_mul3. rewrite PN in Hs.
      pose proof (Z.div_mod src (prod3 B) ltac:(lia)). pose proof (Z.mod_pos_bound src (prod3 B) ltac:(lia)).
      assert (Rg : 0 <= src / prod3 B < prod3 S).
      { split; [apply Z.div_pos; lia | apply Z.div_lt_upper_bound; [lia | nia]]. }
      destruct (sub_position_range S (src / prod3 B) HS Rg) as [Isi Esi].
      destruct (three_index_range B (src mod prod3 B) HB ltac:(lia)) as [Ici Eci].
      exists (rd_target S N (sub_position S (src / prod3 B)) (three_index B (src mod prod3 B))).
      apply in_rd_entries. exists (sub_position S (src / prod3 B)), (three_index B (src mod prod3 B)).
      rewrite DN. repeat split; auto.
      destruct (reader_index_is_writer_position S B _ _ HS HB Isi Ici) as [E _]. fold N in E. rewrite E, Esi.
      unfold one_index. destruct B as [[bx by_] bz]. destruct (three_index (bx, by_, bz) (src mod prod3 (bx, by_, bz))) as [[i j] k].
      rewrite Eci. lia.
    + intros [t H]. apply in_rd_entries in H. destruct H as [si [ci [Hsi [Hci [_ ->]]]]]. rewrite DN in Hci.
      destruct (reader_index_is_writer_position S B si ci HS HB Hsi Hci) as [_ [_ [_ [_ [_ R]]]]]. exact R.
  - intros t src src' H H'. apply in_rd_entries in H, H'.
    destruct H as [si [ci [Hsi [Hci [Et ->]]]]], H' as [si' [ci' [Hsi' [Hci' [Et' ->]]]]]. rewrite DN in Hci, Hci'.
    rewrite Et in Et'. destruct (rd_target_unique S B si ci si' ci' HS HB Hci Hci' Et') as [-> ->]. reflexivity.
  - intros t t' src H H'. apply in_rd_entries in H, H'.
    destruct H as [si [ci [Hsi [Hci [-> Es]]]]], H' as [si' [ci' [Hsi' [Hci' [-> Es']]]]]. rewrite DN in Hci, Hci'.
    destruct (reader_index_is_writer_position S B si ci HS HB Hsi Hci) as [E1 [_ [_ [P1 [Q1 _]]]]].
    destruct (reader_index_is_writer_position S B si' ci' HS HB Hsi' Hci') as [E2 [_ [_ [P2 [Q2 _]]]]].
    fold N in E1, E2. rewrite <- Es in E1. rewrite <- Es' in E2. rewrite E1 in E2.
    assert (R1 : 0 <= one_index B ci < prod3 B).
    { destruct B as [[bx by_] bz], ci as [[cix ciy] ciz]. destruct Hci as [I1 [I2 I3]]. apply index_range; assumption. }
    assert (R2 : 0 <= one_index B ci' < prod3 B).
    { destruct B as [[bx by_] bz], ci' as [[cix ciy] ciz]. destruct Hci' as [I1 [I2 I3]]. apply index_range; assumption. }
    destruct (divmod_unique (prod3 B) _ _ _ _ R1 R2 E2) as [Eg Ec].
    rewrite <- P1, <- P2, <- Q1, <- Q2, Eg, Ec. reflexivity.
Qed.

(* ------------------------------------------------------------------------
   E. positions: the cell that operator() looks up for the midpoint of a cell is that cell *)
Local Open Scope Q_scope.

Lemma inject_Z_nonzero : forall n : Z, (1 <= n)%Z -> ~ inject_Z n == 0.
Proof. intros n H E. unfold Qeq in E. simpl in E. lia. Qed.

Lemma sub_mid_is_cell_mid : forall s b g i anchor side, (1 <= s)%Z -> (1 <= b)%Z ->
  sub_mid s b g i anchor side == cell_mid (s * b) (g * b + i) anchor side.
Proof.
  intros s b g i anchor side Hs Hb. unfold sub_mid, cell_mid.
  rewrite inject_Z_plus, !inject_Z_mult. field. split; apply inject_Z_nonzero; assumption.
Qed.

Lemma sub_mid_lookup : forall s b g i anchor side, (1 <= s)%Z -> (1 <= b)%Z -> (0 <= g)%Z -> (0 <= i)%Z -> ~ side == 0 ->
  snap_lookup_index (s * b) anchor side (sub_mid s b g i anchor side) = (g * b + i)%Z.
Proof.
  intros s b g i anchor side Hs Hb Hg Hi Hl. unfold snap_lookup_index. apply Qtrunc_half; [nia|].
  unfold sub_mid. rewrite inject_Z_plus, !inject_Z_mult. field.
  repeat split; first [exact Hl | apply inject_Z_nonzero; assumption].
Qed.

Lemma cart_mid_is_cell_mid : forall n i anchor side, (1 <= n)%Z -> cart_mid n i anchor side == cell_mid n i anchor side.
Proof. intros n i anchor side Hn. unfold cart_mid, cell_mid. field. apply inject_Z_nonzero; assumption. Qed.

Lemma cart_mid_lookup : forall n i anchor side, (1 <= n)%Z -> (0 <= i)%Z -> ~ side == 0 ->
  snap_lookup_index n anchor side (cart_mid n i anchor side) = i /\
  snap_fill_index n side (cart_mid n i anchor side - anchor) = i.
Proof.
  intros n i anchor side Hn Hi Hl. unfold snap_lookup_index, snap_fill_index, cart_mid.
  split; (apply Qtrunc_half; [exact Hi|]); field; repeat split; first [exact Hl | apply inject_Z_nonzero; assumption].
Qed.

Theorem midpoint_lookup_is_cell : forall S B g c anchor side, pos3 S -> pos3 B -> nonzero3 side ->
  (0 <= g < prod3 S)%Z -> (0 <= c < prod3 B)%Z ->
  lookup_cell (mul3 S B) anchor side (sub_mid3 S B g c anchor side) = global_cell S B g c /\
  in3 (global_cell S B g c) (mul3 S B).
Proof.
  intros S B g c anchor side HS HB Hl Hg Hc.
  destruct (sub_position_range S g HS Hg) as [Ig _]. destruct (three_index_range B c HB Hc) as [Ic _].
  unfold sub_mid3, global_cell, lookup_cell.
  destruct S as [[sx sy] sz], B as [[bx by_] bz], anchor as [[ax ay] az], side as [[lx ly] lz].
  destruct (sub_position (sx, sy, sz) g) as [[gx gy] gz]. destruct (three_index (bx, by_, bz) c) as [[i j] k].
  destruct HS as [Sx [Sy Sz]], HB as [Bx [By Bz]], Hl as [Lx [Ly Lz]], Ig as [G1 [G2 G3]], Ic as [C1 [C2 C3]].
  unfold mul3. split.
  - rewrite !sub_mid_lookup by (assumption || lia). reflexivity.
  - unfold in3. repeat split; nia.
Qed.

(* the whole chain: a new grid on the same geometry, initialised from the snapshot, gets in the cell with the
   position of cell c of subgrid g the value that cell had when the snapshot was written *)
Theorem snapshot_roundtrip : forall (V : Type) S B (f : Z3 -> V) anchor side g c, pos3 S -> pos3 B -> nonzero3 side ->
  (0 <= g < prod3 S)%Z -> (0 <= c < prod3 B)%Z ->
  rd_value S (mul3 S B) anchor side (snapshot_file S B f) (sub_mid3 S B g c anchor side) = Some (f (global_cell S B g c)).
Proof.
  intros V S B f anchor side g c HS HB Hl Hg Hc. unfold rd_value.
  destruct (midpoint_lookup_is_cell S B g c anchor side HS HB Hl Hg Hc) as [E I]. rewrite E.
  apply snapshot_grid_roundtrip; assumption.
Qed.

(* ------------------------------------------------------------------------
   F. the legacy pair (coordinates are stored, the order of the cells does not matter to the reader) *)
Local Open Scope Z_scope.

Lemma in_lg_wr_entries : forall N p l, pos3 N -> In (p, l) (lg_wr_entries N) <-> 0 <= l < prod3 N /\ p = l.
Proof.
  intros N p l HN. pose proof (prod3_pos N HN). unfold lg_wr_entries. rewrite in_wr_blocks by lia. split.
  - intros [iblock [index [Hb [Hi [Hc E]]]]]. inversion E. subst. unfold blocksize in *. lia.
  - intros [Hl ->]. exists (l / blocksize), (l mod blocksize). unfold blocksize in *.
    repeat split; try (Z.div_mod_to_equations; lia).
    f_equal; Z.div_mod_to_equations; lia.
Qed.

Lemma lg_file_content : forall (V : Type) N anchor side (f : Z3 -> V) l, pos3 N -> 0 <= l < prod3 N ->
  lg_file N anchor side f l = Some (cart_coords N anchor side l, f (cart_indices N l)).
Proof.
  intros V N anchor side f l HN Hl. unfold lg_file.
  rewrite (store_all_functional Z Z Z.eqb Z.eqb_eq (lg_wr_entries N) l l).
  - reflexivity.
  - apply in_lg_wr_entries; auto.
  - intros l' H. apply in_lg_wr_entries in H; auto. lia.
Qed.

Lemma lg_file_none : forall (V : Type) N anchor side (f : Z3 -> V) p, pos3 N -> ~ 0 <= p < prod3 N ->
  lg_file N anchor side f p = None.
Proof.
  intros V N anchor side f p HN Hp. unfold lg_file.
  rewrite (store_all_none Z Z Z.eqb Z.eqb_eq); [reflexivity|].
  intros l H. apply in_lg_wr_entries in H; auto. lia.
Qed.

Lemma fill_cell_coords : forall N anchor side l, pos3 N -> nonzero3 side -> 0 <= l < prod3 N ->
  fill_cell N side (cart_coords N anchor side l) = cart_indices N l.
Proof.
  intros N anchor side l HN Hs Hl. destruct (cart_indices_range N l HN Hl) as [I _].
  unfold fill_cell, cart_coords.
  destruct N as [[nx ny] nz], anchor as [[ax ay] az], side as [[lx ly] lz].
  destruct (cart_indices (nx, ny, nz) l) as [[x y] z].
  destruct HN as [Nx [Ny Nz]], Hs as [Lx [Ly Lz]], I as [I1 [I2 I3]].
  rewrite (proj2 (cart_mid_lookup nx x ax lx Nx (proj1 I1) Lx)).
  rewrite (proj2 (cart_mid_lookup ny y ay ly Ny (proj1 I2) Ly)).
  rewrite (proj2 (cart_mid_lookup nz z az lz Nz (proj1 I3) Lz)). reflexivity.
Qed.

Theorem legacy_snapshot_roundtrip : forall (V : Type) N (f : Z3 -> V) anchor side t, pos3 N -> nonzero3 side -> in3 t N ->
  lg_rd_value N anchor side (prod3 N) (lg_file N anchor side f) (cart_mid3 N t anchor side) = Some (f t).
Proof.
  intros V N f anchor side t HN Hs Ht. unfold lg_rd_value.
  assert (LK : lookup_cell N anchor side (cart_mid3 N t anchor side) = t).
  { unfold lookup_cell, cart_mid3. destruct N as [[nx ny] nz], t as [[x y] z], anchor as [[ax ay] az], side as [[lx ly] lz].
    destruct HN as [Nx [Ny Nz]], Hs as [Lx [Ly Lz]], Ht as [I1 [I2 I3]].
    rewrite (proj1 (cart_mid_lookup nx x ax lx Nx (proj1 I1) Lx)).
    rewrite (proj1 (cart_mid_lookup ny y ay ly Ny (proj1 I2) Ly)).
    rewrite (proj1 (cart_mid_lookup nz z az lz Nz (proj1 I3) Lz)). reflexivity. }
  rewrite LK.
  assert (CH : forall t' v, In (t', v) (lg_rd_entries N side (prod3 N) (lg_file N anchor side f)) <->
                            exists l, 0 <= l < prod3 N /\ t' = cart_indices N l /\ v = f (cart_indices N l)).
  { intros t' v. unfold lg_rd_entries. rewrite in_flat_map. split.
    - intros [l [Hl H]]. apply in_zrange in Hl. rewrite lg_file_content in H by assumption.
      destruct H as [H|[]]. inversion H. exists l. rewrite fill_cell_coords by assumption. auto.
    - intros [l [Hl [-> ->]]]. exists l. split; [apply in_zrange; exact Hl|].
      rewrite lg_file_content by assumption. left. rewrite fill_cell_coords by assumption. reflexivity. }
  apply (store_all_functional Z3 V z3_eqb z3_eqb_spec).
  - apply CH. destruct N as [[nx ny] nz], t as [[x y] z]. destruct Ht as [I1 [I2 I3]].
    exists (x * ny * nz + y * nz + z). split; [apply index_range; assumption|].
    rewrite cart_indices_index by assumption. auto.
  - intros v H. apply CH in H. destruct H as [l [Hl [-> ->]]]. reflexivity.
Qed.

(* ------------------------------------------------------------------------
   G. examples: the hypotheses are satisfiable; non-cubic subgrids (1 x 3 x 2 cells) in a 2 x 1 x 3 layout read back
      every cell; a subgrid with more than `blocksize` cells is written in two appends at consecutive positions *)
Example snapshot_noncubic_example :
  let S := (2, 1, 3) in let B := (1, 3, 2) in
  forallb (fun t => match rd_grid S (mul3 S B) (snapshot_file S B (fun x => x)) t with
                    | Some t' => z3_eqb t t'
                    | None => false
                    end)
    (flat_map (fun x => flat_map (fun y => map (fun z => (x, y, z)) (zrange 6)) (zrange 3)) (zrange 2)) = true.
Proof. vm_compute. reflexivity. Qed.

Example snapshot_noncubic_positions :
  map (fun e => fst e) (rd_entries (1, 1, 2) (1, 2, 4)) =
  [(0, 0, 0); (0, 0, 1); (0, 1, 0); (0, 1, 1); (0, 0, 2); (0, 0, 3); (0, 1, 2); (0, 1, 3)] /\
  map (fun e => snd e) (rd_entries (1, 1, 2) (1, 2, 4)) = [0; 1; 2; 3; 4; 5; 6; 7].
Proof. vm_compute. split; reflexivity. Qed.

Example writer_block_boundary :
  filter (fun e => (9998 <? fst e) && (fst e <? 10003)) (wr_entries (2, 1, 1) (1, 1, 10001)) =
  [(9999, (0, 9999)); (10000, (0, 10000)); (10001, (1, 0)); (10002, (1, 1))] /\
  Z.of_nat (length (wr_entries (2, 1, 1) (1, 1, 10001))) = 20002.
Proof. vm_compute. split; reflexivity. Qed.

Example legacy_example :
  lg_rd_value (2, 3, 2) (0, 0, 0)%Q (1, 2 # 3, 5)%Q 12 (lg_file (2, 3, 2) (0, 0, 0)%Q (1, 2 # 3, 5)%Q (fun x => x))
    (cart_mid3 (2, 3, 2) (1, 2, 0) (0, 0, 0)%Q (1, 2 # 3, 5)%Q) = Some (1, 2, 0).
Proof. vm_compute. reflexivity. Qed.

(* ------------------------------------------------------------------------
   H. the hypothesis "same anchor and sides" of the position theorems is needed: a reader that knows the box only to the
      printed precision of the used values (6 significant digits, relative error <= 5e-6 -- what the /Parameters block of
      a snapshot holds for SimulationBox:anchor / sides in the pinned tree) looks up ANOTHER cell.
      Witness (replayed on the real code by props/c20.py, probe snapshot_box_precision): 12 cells along z,
      anchor 428.77666347504663 (printed 428.777), side 0.007542463164563509 (printed 0.00754246), cell 1 -> 0 *)
Local Open Scope Q_scope.
Theorem snapshot_printed_precision_box_refuted :
  exists (n i : Z) (anchor side anchor' side' : Q),
    (0 <= i < n)%Z /\ ~ side == 0 /\ ~ side' == 0 /\
    Qabs (anchor' - anchor) <= (5 # 1000000) * Qabs anchor /\
    Qabs (side' - side) <= (5 # 1000000) * Qabs side /\
    snap_lookup_index n anchor' side' (cell_mid n i anchor side) <> i.
Proof.
  exists 12%Z, 1%Z, (42877666347504663 # 100000000000000), (7542463164563509 # 1000000000000000000),
         (428777 # 1000), (754246 # 100000000).
  split; [lia|]. split; [vm_compute; discriminate|]. split; [vm_compute; discriminate|].
  split; [vm_compute; discriminate|]. split; [vm_compute; discriminate|].
  vm_compute. discriminate.
Qed.
