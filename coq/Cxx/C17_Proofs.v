(* C17: proofs about the integer part of the model of src/ExactGeometricTests.hpp
   (sign of the real determinant, no overflow of the fixed width types, permutations, sign function).
   The floating point filter is in C17_Filter.v. *)
From Coq Require Import ZArith List Bool Lia Reals Lra Permutation.
From CMI Require Import Cxx.C17_Defs.
Import ListNotations.
Local Open Scope Z_scope.

(* ------------------------------------------------------------------------- *)
(* sign function *)

Lemma sign_of_sgn : forall r, sign_of r = Z.sgn r.
Proof.
  intros r. unfold sign_of.
  destruct (Z.ltb_spec 0 r); [ symmetry; apply Z.sgn_pos; lia |].
  destruct (Z.ltb_spec r 0); [ symmetry; apply Z.sgn_neg; lia |].
  replace r with 0 by lia. reflexivity.
Qed.

Lemma sign_of_cases : forall r, sign_of r = -1 \/ sign_of r = 0 \/ sign_of r = 1.
Proof. intros r. rewrite sign_of_sgn. destruct r; simpl; auto. Qed.

Lemma get_mantissa_range : forall bits, 0 <= get_mantissa bits < MANT.
Proof. intros. unfold get_mantissa, MANT. apply Z.mod_pos_bound. reflexivity. Qed.

Lemma get_mantissa_in_range : forall bits, in_range bits -> bits = ONE_BITS + get_mantissa bits.
Proof.
  unfold in_range, get_mantissa, ONE_BITS, MANT. intros bits H.
  replace bits with ((bits - 1023 * 2 ^ 52) + 1023 * 2 ^ 52) at 2 by ring.
  rewrite Z.mod_add by (compute; discriminate).
  rewrite Z.mod_small by lia. ring.
Qed.

(* ------------------------------------------------------------------------- *)
(* the computation as a syntax tree: obtained from the very same Section Shape
   by instantiating the operations with the constructors *)

Inductive expr := Var (i : nat) | Sub (a b : expr) | Mul (a b : expr) | Add (a b : expr).

Section Eval.
  Context {T : Type}.
  Variables (sub mul add : T -> T -> T) (rho : nat -> T).
  Fixpoint eval (e : expr) : T :=
    match e with
    | Var i => rho i
    | Sub a b => sub (eval a) (eval b)
    | Mul a b => mul (eval a) (eval b)
    | Add a b => add (eval a) (eval b)
    end.
End Eval.

Definition orient_expr : expr := Eval cbv in
  orient_shape expr Sub Mul Add (Var 0) (Var 1) (Var 2) (Var 3) (Var 4) (Var 5) (Var 6) (Var 7) (Var 8) (Var 9) (Var 10) (Var 11).
Definition insphere_expr : expr := Eval cbv in
  insphere_shape expr Sub Mul Add (Var 0) (Var 1) (Var 2) (Var 3) (Var 4) (Var 5) (Var 6) (Var 7) (Var 8) (Var 9) (Var 10) (Var 11)
                 (Var 12) (Var 13) (Var 14).

Definition env {T} (d : T) (l : list T) : nat -> T := fun i => nth i l d.

Lemma orient_shape_eval : forall T (sub mul add : T -> T -> T) d x0 x1 x2 x3 x4 x5 x6 x7 x8 x9 x10 x11,
  orient_shape T sub mul add x0 x1 x2 x3 x4 x5 x6 x7 x8 x9 x10 x11 =
  eval sub mul add (env d [x0; x1; x2; x3; x4; x5; x6; x7; x8; x9; x10; x11]) orient_expr.
Proof. reflexivity. Qed.

Lemma insphere_shape_eval : forall T (sub mul add : T -> T -> T) d x0 x1 x2 x3 x4 x5 x6 x7 x8 x9 x10 x11 x12 x13 x14,
  insphere_shape T sub mul add x0 x1 x2 x3 x4 x5 x6 x7 x8 x9 x10 x11 x12 x13 x14 =
  eval sub mul add (env d [x0; x1; x2; x3; x4; x5; x6; x7; x8; x9; x10; x11; x12; x13; x14]) insphere_expr.
Proof. reflexivity. Qed.

(* ------------------------------------------------------------------------- *)
(* no overflow: magnitude bound of every node of the tree *)

(* magnitude bound of a node when every leaf is bounded by B *)
Fixpoint bnd (B : Z) (e : expr) : Z :=
  match e with
  | Var _ => B
  | Sub a b => bnd B a + bnd B b
  | Mul a b => bnd B a * bnd B b
  | Add a b => bnd B a + bnd B b
  end.

(* all nodes (intermediate results of the computation), root first *)
Fixpoint nodes (e : expr) : list expr :=
  e :: match e with
       | Var _ => []
       | Sub a b | Mul a b | Add a b => nodes a ++ nodes b
       end.

(* every node's bound fits w bits *)
Fixpoint fits (B w : Z) (e : expr) : bool :=
  (bnd B e <? 2 ^ w) &&
  match e with
  | Var _ => true
  | Sub a b | Mul a b | Add a b => fits B w a && fits B w b
  end.

(* notations, not definitions: the kernel must never have to choose between unfolding these and unfolding [eval] on a big tree *)
Notation zeval := (eval Z.sub Z.mul Z.add).
Notation weval w := (eval (wsub w) (wmul w) (wadd w)).

Lemma bnd_nonneg : forall B e, 0 <= B -> 0 <= bnd B e.
Proof. intros B e HB. induction e; simpl; lia. Qed.

Lemma zeval_bound : forall B rho, 0 <= B -> (forall i, Z.abs (rho i) <= B) ->
  forall e, Z.abs (zeval rho e) <= bnd B e.
Proof.
  intros B rho HB Hrho. induction e; simpl.
  - apply Hrho.
  - lia.
  - rewrite Z.abs_mul.
    pose proof (Z.abs_nonneg (zeval rho e1)). pose proof (Z.abs_nonneg (zeval rho e2)). nia.
  - lia.
Qed.

Lemma wrap_id : forall w x, Z.abs x < 2 ^ w -> wrap w x = x.
Proof.
  intros w x H. unfold wrap. apply Z.ltb_lt in H. rewrite H. reflexivity.
Qed.

Lemma weval_zeval : forall B w rho, 0 <= B -> (forall i, Z.abs (rho i) <= B) ->
  forall e, fits B w e = true -> weval w rho e = zeval rho e.
Proof.
  intros B w rho HB Hrho. induction e; simpl; intros Hf.
  - reflexivity.
  - apply andb_prop in Hf. destruct Hf as [Hb Hf]. apply andb_prop in Hf. destruct Hf as [H1 H2]. rewrite IHe1, IHe2 by assumption.
    unfold wsub. apply wrap_id. apply Z.ltb_lt in Hb.
    pose proof (zeval_bound B rho HB Hrho (Sub e1 e2)) as Hz. simpl in Hz. lia.
  - apply andb_prop in Hf. destruct Hf as [Hb Hf]. apply andb_prop in Hf. destruct Hf as [H1 H2]. rewrite IHe1, IHe2 by assumption.
    unfold wmul. apply wrap_id. apply Z.ltb_lt in Hb.
    pose proof (zeval_bound B rho HB Hrho (Mul e1 e2)) as Hz. simpl in Hz. lia.
  - apply andb_prop in Hf. destruct Hf as [Hb Hf]. apply andb_prop in Hf. destruct Hf as [H1 H2]. rewrite IHe1, IHe2 by assumption.
    unfold wadd. apply wrap_id. apply Z.ltb_lt in Hb.
    pose proof (zeval_bound B rho HB Hrho (Add e1 e2)) as Hz. simpl in Hz. lia.
Qed.

Lemma fits_nodes : forall B w e, fits B w e = true -> forall n, In n (nodes e) -> bnd B n < 2 ^ w.
Proof.
  induction e; simpl; intros Hf n Hin.
  - destruct Hin as [<- | []]. simpl. apply andb_prop in Hf. destruct Hf as [Hb _]. apply Z.ltb_lt in Hb. exact Hb.
  - apply andb_prop in Hf. destruct Hf as [Hb Hf]. apply andb_prop in Hf. destruct Hf as [H1 H2].
    destruct Hin as [<- | Hin]; [apply Z.ltb_lt in Hb; exact Hb |].
    apply in_app_or in Hin. destruct Hin; auto.
  - apply andb_prop in Hf. destruct Hf as [Hb Hf]. apply andb_prop in Hf. destruct Hf as [H1 H2].
    destruct Hin as [<- | Hin]; [apply Z.ltb_lt in Hb; exact Hb |].
    apply in_app_or in Hin. destruct Hin; auto.
  - apply andb_prop in Hf. destruct Hf as [Hb Hf]. apply andb_prop in Hf. destruct Hf as [H1 H2].
    destruct Hin as [<- | Hin]; [apply Z.ltb_lt in Hb; exact Hb |].
    apply in_app_or in Hin. destruct Hin; auto.
Qed.

(* bit counts actually needed (the header's comments say 162 and 272) *)
Definition BITS_ORIENT : Z := 162.
Definition BITS_INSPHERE : Z := 272.

Lemma orient_fits : fits MANT BITS_ORIENT orient_expr = true.
Proof. vm_compute. reflexivity. Qed.
Lemma insphere_fits : fits MANT BITS_INSPHERE insphere_expr = true.
Proof. vm_compute. reflexivity. Qed.

Lemma fits_mono : forall B w w' e, w <= w' -> 0 <= w -> fits B w e = true -> fits B w' e = true.
Proof.
  intros B w w' e Hw H0. assert (2 ^ w <= 2 ^ w') by (apply Z.pow_le_mono_r; lia).
  induction e; simpl; intros Hf; apply andb_prop in Hf; destruct Hf as [Hb Hf]; apply Z.ltb_lt in Hb.
  - apply andb_true_intro; split; [apply Z.ltb_lt; simpl in *; lia | reflexivity].
  - apply andb_prop in Hf. destruct Hf. rewrite IHe1, IHe2 by assumption. rewrite andb_true_r. apply Z.ltb_lt. lia.
  - apply andb_prop in Hf. destruct Hf. rewrite IHe1, IHe2 by assumption. rewrite andb_true_r. apply Z.ltb_lt. lia.
  - apply andb_prop in Hf. destruct Hf. rewrite IHe1, IHe2 by assumption. rewrite andb_true_r. apply Z.ltb_lt. lia.
Qed.

Definition mant_ok (l : list Z) : Prop := Forall (fun m => 0 <= m < MANT) l.

Lemma env_bound : forall l, mant_ok l -> forall i, Z.abs (env 0 l i) <= MANT.
Proof.
  intros l H i. unfold env. destruct (nth_in_or_default i l 0) as [Hin | ->].
  - unfold mant_ok in H. rewrite Forall_forall in H. specialize (H _ Hin). lia.
  - compute. discriminate.
Qed.

(* all intermediate values of the integer computation *)
Definition intermediates (rho : nat -> Z) (e : expr) : list Z := map (zeval rho) (nodes e).

Lemma intermediates_bounded : forall l e w, mant_ok l -> fits MANT w e = true ->
  Forall (fun v => Z.abs v < 2 ^ w) (intermediates (env 0 l) e).
Proof.
  intros l e w Hl Hf. unfold intermediates. apply Forall_forall. intros v Hv.
  apply in_map_iff in Hv. destruct Hv as [n [<- Hn]].
  pose proof (fits_nodes _ _ _ Hf n Hn).
  pose proof (zeval_bound MANT (env 0 l) ltac:(compute; discriminate) (env_bound l Hl) n). lia.
Qed.

Theorem orient_no_overflow : forall m0 m1 m2 m3 m4 m5 m6 m7 m8 m9 m10 m11,
  let l := [m0; m1; m2; m3; m4; m5; m6; m7; m8; m9; m10; m11] in
  mant_ok l ->
  Forall (fun v => Z.abs v < 2 ^ BITS_ORIENT) (intermediates (env 0 l) orient_expr)
  /\ BITS_ORIENT < W_ORIENT
  /\ orient_det_fixed m0 m1 m2 m3 m4 m5 m6 m7 m8 m9 m10 m11 = orient_det m0 m1 m2 m3 m4 m5 m6 m7 m8 m9 m10 m11.
Proof.
  intros. split; [| split].
  - apply intermediates_bounded; [assumption | exact orient_fits].
  - reflexivity.
  - unfold orient_det_fixed, orient_det. rewrite !(orient_shape_eval Z _ _ _ 0).
    apply (weval_zeval MANT W_ORIENT); [compute; discriminate | apply env_bound; assumption |].
    apply (fits_mono MANT BITS_ORIENT); [compute; discriminate | compute; discriminate | exact orient_fits].
Qed.

Theorem insphere_no_overflow : forall m0 m1 m2 m3 m4 m5 m6 m7 m8 m9 m10 m11 m12 m13 m14,
  let l := [m0; m1; m2; m3; m4; m5; m6; m7; m8; m9; m10; m11; m12; m13; m14] in
  mant_ok l ->
  Forall (fun v => Z.abs v < 2 ^ BITS_INSPHERE) (intermediates (env 0 l) insphere_expr)
  /\ BITS_INSPHERE < W_INSPHERE
  /\ insphere_det_fixed m0 m1 m2 m3 m4 m5 m6 m7 m8 m9 m10 m11 m12 m13 m14 = insphere_det m0 m1 m2 m3 m4 m5 m6 m7 m8 m9 m10 m11 m12 m13 m14.
Proof.
  intros. split; [| split].
  - apply intermediates_bounded; [assumption | exact insphere_fits].
  - reflexivity.
  - unfold insphere_det_fixed, insphere_det. rewrite !(insphere_shape_eval Z _ _ _ 0).
    apply (weval_zeval MANT W_INSPHERE); [compute; discriminate | apply env_bound; assumption |].
    apply (fits_mono MANT BITS_INSPHERE); [compute; discriminate | compute; discriminate | exact insphere_fits].
Qed.

(* the functions of the header, for ALL bit patterns: fixed width = ideal, result = Z.sgn *)
Lemma mant_ok_pts : forall l : list pt, mant_ok (flat_map (fun p => [get_mantissa (px p); get_mantissa (py p); get_mantissa (pz p)]) l).
Proof.
  induction l; simpl; [constructor |].
  repeat (constructor; [apply get_mantissa_range |]). exact IHl.
Qed.

Theorem orient3d_exact_sgn : forall a b c d, orient3d_exact a b c d = Z.sgn (orient_mant orient_det a b c d).
Proof.
  intros. unfold orient3d_exact. rewrite sign_of_sgn. f_equal. unfold orient_mant.
  apply orient_no_overflow. exact (mant_ok_pts [a; b; c; d]).
Qed.

Theorem insphere_exact_sgn : forall a b c d e, insphere_exact a b c d e = Z.sgn (insphere_mant insphere_det a b c d e).
Proof.
  intros. unfold insphere_exact. rewrite sign_of_sgn. f_equal. unfold insphere_mant.
  apply insphere_no_overflow. exact (mant_ok_pts [a; b; c; d; e]).
Qed.

(* ------------------------------------------------------------------------- *)
(* permutations *)

(* generating transpositions *)
Lemma orient_swap_ab : forall ax ay az bx by_ bz cx cy cz dx dy dz,
  orient_det bx by_ bz ax ay az cx cy cz dx dy dz = - orient_det ax ay az bx by_ bz cx cy cz dx dy dz.
Proof. intros. unfold orient_det, orient_shape. ring. Qed.
Lemma orient_swap_bc : forall ax ay az bx by_ bz cx cy cz dx dy dz,
  orient_det ax ay az cx cy cz bx by_ bz dx dy dz = - orient_det ax ay az bx by_ bz cx cy cz dx dy dz.
Proof. intros. unfold orient_det, orient_shape. ring. Qed.
Lemma orient_swap_cd : forall ax ay az bx by_ bz cx cy cz dx dy dz,
  orient_det ax ay az bx by_ bz dx dy dz cx cy cz = - orient_det ax ay az bx by_ bz cx cy cz dx dy dz.
Proof. intros. unfold orient_det, orient_shape. ring. Qed.

Lemma insphere_swap_ab : forall ax ay az bx by_ bz cx cy cz dx dy dz ex ey ez,
  insphere_det bx by_ bz ax ay az cx cy cz dx dy dz ex ey ez = - insphere_det ax ay az bx by_ bz cx cy cz dx dy dz ex ey ez.
Proof. intros. unfold insphere_det, insphere_shape. ring. Qed.
Lemma insphere_swap_bc : forall ax ay az bx by_ bz cx cy cz dx dy dz ex ey ez,
  insphere_det ax ay az cx cy cz bx by_ bz dx dy dz ex ey ez = - insphere_det ax ay az bx by_ bz cx cy cz dx dy dz ex ey ez.
Proof. intros. unfold insphere_det, insphere_shape. ring. Qed.
Lemma insphere_swap_cd : forall ax ay az bx by_ bz cx cy cz dx dy dz ex ey ez,
  insphere_det ax ay az bx by_ bz dx dy dz cx cy cz ex ey ez = - insphere_det ax ay az bx by_ bz cx cy cz dx dy dz ex ey ez.
Proof. intros. unfold insphere_det, insphere_shape. ring. Qed.
Lemma insphere_swap_de : forall ax ay az bx by_ bz cx cy cz dx dy dz ex ey ez,
  insphere_det ax ay az bx by_ bz cx cy cz ex ey ez dx dy dz = - insphere_det ax ay az bx by_ bz cx cy cz dx dy dz ex ey ez.
Proof. intros. unfold insphere_det, insphere_shape. ring. Qed.

(* all permutations at once: explicit lists of the 24 / 120 permutations *)
Definition perms4 : list (list nat) := Eval vm_compute in perms [0; 1; 2; 3]%nat.
Definition perms5 : list (list nat) := Eval vm_compute in perms [0; 1; 2; 3; 4]%nat.
Lemma perms4_eq : perms [0; 1; 2; 3]%nat = perms4. Proof. vm_compute. reflexivity. Qed.
Lemma perms5_eq : perms [0; 1; 2; 3; 4]%nat = perms5. Proof. vm_compute. reflexivity. Qed.

Definition orient_det_l (l : list pt) : Z := orient_l (orient_mant orient_det) l.
Definition insphere_det_l (l : list pt) : Z := insphere_l (insphere_mant insphere_det) l.
Definition pt0 : pt := mkPt 0 0 0.

Ltac perm_goal :=
  cbv [permute map nth parity inversions inversions_with Nat.ltb Nat.leb Nat.even Nat.add
       orient_det_l insphere_det_l orient_l insphere_l nth_pt orient_mant insphere_mant];
  repeat match goal with |- context [get_mantissa ?x] => generalize (get_mantissa x); intro end;
  unfold orient_det, insphere_det, orient_shape, insphere_shape; ring.

Lemma orient_perm_list : forall a b c d,
  Forall (fun p => orient_det_l (permute pt0 [a; b; c; d] p) = parity p * orient_det_l [a; b; c; d]) (perms [0; 1; 2; 3]%nat).
Proof.
  intros. rewrite perms4_eq. unfold perms4.
  repeat (apply Forall_cons; [perm_goal |]). apply Forall_nil.
Qed.

Lemma insphere_perm_list : forall a b c d e,
  Forall (fun p => insphere_det_l (permute pt0 [a; b; c; d; e] p) = parity p * insphere_det_l [a; b; c; d; e]) (perms [0; 1; 2; 3; 4]%nat).
Proof.
  intros. rewrite perms5_eq. unfold perms5.
  repeat (apply Forall_cons; [perm_goal |]). apply Forall_nil.
Qed.

(* [perms l] contains every rearrangement of l *)
Lemma insert_all_in : forall {A} (x : A) l1 l2, In (l1 ++ x :: l2) (insert_all x (l1 ++ l2)).
Proof.
  induction l1; intros; simpl.
  - destruct l2; simpl; auto.
  - right. apply in_map. apply IHl1.
Qed.

Lemma perms_complete : forall {A} (l l' : list A), Permutation l' l -> In l' (perms l).
Proof.
  induction l; intros l' H.
  - apply Permutation_sym, Permutation_nil in H. subst. simpl. auto.
  - assert (Hin : In a l') by (apply (Permutation_in a (Permutation_sym H)); left; reflexivity).
    apply in_split in Hin. destruct Hin as [l1 [l2 ->]].
    apply Permutation_sym, Permutation_cons_app_inv, Permutation_sym in H.
    simpl. apply in_flat_map. exists (l1 ++ l2). split; [apply IHl; exact H | apply insert_all_in].
Qed.

Theorem orient_perm_any : forall a b c d p, Permutation p [0; 1; 2; 3]%nat ->
  orient3d_exact (nth_pt (permute pt0 [a; b; c; d] p) 0) (nth_pt (permute pt0 [a; b; c; d] p) 1)
                 (nth_pt (permute pt0 [a; b; c; d] p) 2) (nth_pt (permute pt0 [a; b; c; d] p) 3)
  = parity p * orient3d_exact a b c d.
Proof.
  intros a b c d p Hp. rewrite !orient3d_exact_sgn.
  pose proof (orient_perm_list a b c d) as H. rewrite Forall_forall in H.
  specialize (H p (perms_complete _ _ Hp)).
  unfold orient_det_l, orient_l in H. rewrite H. unfold nth_pt at 1 2 3 4. cbn [nth].
  rewrite Z.sgn_mul. f_equal. unfold parity. destruct (Nat.even _); reflexivity.
Qed.

Theorem insphere_perm_any : forall a b c d e p, Permutation p [0; 1; 2; 3; 4]%nat ->
  insphere_exact (nth_pt (permute pt0 [a; b; c; d; e] p) 0) (nth_pt (permute pt0 [a; b; c; d; e] p) 1)
                 (nth_pt (permute pt0 [a; b; c; d; e] p) 2) (nth_pt (permute pt0 [a; b; c; d; e] p) 3)
                 (nth_pt (permute pt0 [a; b; c; d; e] p) 4)
  = parity p * insphere_exact a b c d e.
Proof.
  intros a b c d e p Hp. rewrite !insphere_exact_sgn.
  pose proof (insphere_perm_list a b c d e) as H. rewrite Forall_forall in H.
  specialize (H p (perms_complete _ _ Hp)).
  unfold insphere_det_l, insphere_l in H. rewrite H. unfold nth_pt at 1 2 3 4 5. cbn [nth].
  rewrite Z.sgn_mul. f_equal. unfold parity. destruct (Nat.even _); reflexivity.
Qed.

(* the transpositions, for the functions of the header *)
Theorem orient_transpositions : forall a b c d,
  orient3d_exact b a c d = - orient3d_exact a b c d /\
  orient3d_exact a c b d = - orient3d_exact a b c d /\
  orient3d_exact a b d c = - orient3d_exact a b c d.
Proof.
  intros. rewrite !orient3d_exact_sgn. unfold orient_mant. repeat split.
  - rewrite orient_swap_ab. apply Z.sgn_opp.
  - rewrite orient_swap_bc. apply Z.sgn_opp.
  - rewrite orient_swap_cd. apply Z.sgn_opp.
Qed.

Theorem insphere_transpositions : forall a b c d e,
  insphere_exact b a c d e = - insphere_exact a b c d e /\
  insphere_exact a c b d e = - insphere_exact a b c d e /\
  insphere_exact a b d c e = - insphere_exact a b c d e /\
  insphere_exact a b c e d = - insphere_exact a b c d e.
Proof.
  intros. rewrite !insphere_exact_sgn. unfold insphere_mant. repeat split.
  - rewrite insphere_swap_ab. apply Z.sgn_opp.
  - rewrite insphere_swap_bc. apply Z.sgn_opp.
  - rewrite insphere_swap_cd. apply Z.sgn_opp.
  - rewrite insphere_swap_de. apply Z.sgn_opp.
Qed.
