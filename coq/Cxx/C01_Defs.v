(* C01: executable model of one task-based photoionization iteration
   (src/TaskBasedIonizationSimulation.cpp worker loop + the six task contexts + Scheduler +
   MemorySpace::add_photons).  Hand model; tie = validation of hook traces of the real binary.

   Abstraction level
   * packets carry identities (natural numbers); photon physics is an oracle: the label of a
     traversal step says where each packet of the input buffer goes;
   * a task body is ONE atomic transition (justified by the lock discipline: every mutable subgrid
     field is touched under the subgrid's dependency lock, the pools and counters are the
     thread-safe containers of C08); the worker loop around it is modelled control point by control
     point, because that is where the run flag, the two-step termination test and the task
     fetches interleave;
   * buffers and task slots have no identity: a traversal/re-emission task carries its buffer, an
     active slot of a subgrid carries its partially filled buffer.  "Memory space empty" = no such
     task and no active slot;
   * queues: one list of (queue id, task); queue 0 is the shared queue, queue (S i) is thread i's.
     A fetch takes ANY entry whose dependency is free; "no task" may be returned spuriously for other
     threads' queues (try_lock), never for the shared queue and the thread's own queue;
   * pool and queue capacities are unbounded (the property assumes they are not exhausted). *)
From Coq Require Import List Arith Bool PeanoNat Permutation.
Import ListNotations.

Inductive task :=
| TSrcD (sg cnt : nat)                 (* SourceDiscretePhoton: cnt new packets into subgrid sg *)
| TSrcC (blk cnt : nat)                (* SourceContinuousPhoton: block blk, cnt new packets *)
| TFlush (blk : nat)                   (* FlushContinuousPhotonBuffers *)
| TTrav (sg : nat) (ps : list nat)     (* PhotonTraversal of buffer ps in subgrid sg *)
| TReemit (sg : nat) (ps : list nat).  (* PhotonReemit of buffer ps *)

Inductive dep := DNone | DSub (sg : nat) | DBlk (b : nat).
Definition dep_of (k : task) : dep :=
  match k with
  | TSrcD _ _ => DNone | TSrcC b _ => DBlk b | TFlush b => DBlk b
  | TTrav sg _ => DSub sg | TReemit _ _ => DNone
  end.

(* control points of the worker loop, see the comment at [step] *)
Inductive pc :=
| PStart                         (* before  current = shared_queue.get_task()            *)
| PHead (cur : option task)      (* at      while (global_run_flag)                      *)
| PIdle                          (* current == NO_TASK: premature launch, then get_task  *)
| PIdleFetch
| PInner (cur : option task)     (* at      while (current != NO_TASK)                   *)
| PEnq (ks : list (nat * task))  (* after execute + unlock + free: adding the new tasks to their queues, one by one *)
| PFetchInner                    (* after a task: current = scheduler.get_task()         *)
| PCheck1                        (* about to read buffers.is_empty()                     *)
| PCheck2 (e : bool)             (* about to read num_photon_done == N                   *)
| PElse                          (* else: current = scheduler.get_task()                 *)
| PExit.

Record st := mkSt {
  queue : list (nat * task);
  active : list ((nat * nat) * list nat);      (* (subgrid, direction) -> partially filled buffer *)
  local : list ((nat * nat) * list nat);       (* (block, subgrid) -> thread-local continuous buffer *)
  slocks : list nat;                           (* held subgrid dependency locks *)
  blocks : list nat;                           (* held continuous-source block locks *)
  cont_rem : nat;                              (* number_of_continuous_photons still to draw *)
  flushed : nat;                               (* _continuous_photons_flushed *)
  done : nat;                                  (* num_photon_done *)
  term : list nat;                             (* terminated packets (ghost) *)
  fresh : nat;                                 (* next packet identity = packets created so far *)
  flag : bool;                                 (* global_run_flag *)
  thr : list pc
}.

Section Model.
  Variable CAP : nat.                          (* PHOTONBUFFER_SIZE *)
  Variable NTHR : nat.                         (* threads = continuous-source blocks = thread queues *)
  Variable NREQ : nat.                         (* _number_of_photons *)
  Variable reemit : bool.                      (* diffuse field on? *)
  Variable ngb : nat -> nat -> option nat.     (* neighbour of a subgrid in a direction (C03) *)
  Variable fixed_loop : bool.                  (* false: loop condition of the pinned commit *)

  (* ---- association lists ---- *)
  Definition keyeq (a b : nat * nat) : bool := Nat.eqb (fst a) (fst b) && Nat.eqb (snd a) (snd b).
  Fixpoint aget (l : list ((nat * nat) * list nat)) (k : nat * nat) : list nat :=
    match l with
    | [] => []
    | (k', v) :: r => if keyeq k' k then v else aget r k
    end.
  Fixpoint adel (l : list ((nat * nat) * list nat)) (k : nat * nat) : list ((nat * nat) * list nat) :=
    match l with
    | [] => []
    | (k', v) :: r => if keyeq k' k then r else (k', v) :: adel r k      (* first match: aget reads the first match *)
    end.
  Definition aput (l : list ((nat * nat) * list nat)) (k : nat * nat) (v : list nat) :=
    match v with [] => adel l k | _ => (k, v) :: adel l k end.

  Definition memb (x : nat) (l : list nat) : bool := existsb (Nat.eqb x) l.
  Fixpoint remove1 (x : nat) (l : list nat) : list nat :=
    match l with [] => [] | y :: r => if Nat.eqb x y then r else y :: remove1 x r end.

  Definition dep_free (s : st) (d : dep) : bool :=
    match d with DNone => true | DSub sg => negb (memb sg (slocks s)) | DBlk b => negb (memb b (blocks s)) end.
  Definition take_dep (s : st) (d : dep) : st :=
    match d with
    | DNone => s
    | DSub sg => mkSt (queue s) (active s) (local s) (sg :: slocks s) (blocks s) (cont_rem s) (flushed s) (done s) (term s) (fresh s) (flag s) (thr s)
    | DBlk b => mkSt (queue s) (active s) (local s) (slocks s) (b :: blocks s) (cont_rem s) (flushed s) (done s) (term s) (fresh s) (flag s) (thr s)
    end.
  Definition drop_dep (s : st) (d : dep) : st :=
    match d with
    | DNone => s
    | DSub sg => mkSt (queue s) (active s) (local s) (remove1 sg (slocks s)) (blocks s) (cont_rem s) (flushed s) (done s) (term s) (fresh s) (flag s) (thr s)
    | DBlk b => mkSt (queue s) (active s) (local s) (slocks s) (remove1 b (blocks s)) (cont_rem s) (flushed s) (done s) (term s) (fresh s) (flag s) (thr s)
    end.

  Definition set_thr (s : st) (t : nat) (p : pc) : st :=
    mkSt (queue s) (active s) (local s) (slocks s) (blocks s) (cont_rem s) (flushed s) (done s) (term s) (fresh s) (flag s)
         (firstn t (thr s) ++ p :: skipn (S t) (thr s)).
  Definition get_thr (s : st) (t : nat) : option pc := nth_error (thr s) t.
  Definition set_queue (s : st) q := mkSt q (active s) (local s) (slocks s) (blocks s) (cont_rem s) (flushed s) (done s) (term s) (fresh s) (flag s) (thr s).
  Definition set_active (s : st) a := mkSt (queue s) a (local s) (slocks s) (blocks s) (cont_rem s) (flushed s) (done s) (term s) (fresh s) (flag s) (thr s).
  Definition set_local (s : st) l := mkSt (queue s) (active s) l (slocks s) (blocks s) (cont_rem s) (flushed s) (done s) (term s) (fresh s) (flag s) (thr s).
  Definition enqueue (s : st) (q : nat) (k : task) : st := set_queue s (queue s ++ [(q, k)]).

  (* ---- queues ---- *)
  Definition fetchable (s : st) (e : nat * task) : bool := dep_free s (dep_of (snd e)).
  (* "no task" is an allowed answer for thread t iff nothing in the shared queue and in t's own
     queue can be fetched *)
  Definition none_allowed (s : st) (t : nat) : bool :=
    negb (existsb (fun e => (Nat.eqb (fst e) 0 || Nat.eqb (fst e) (S t)) && fetchable s e) (queue s)).
  Fixpoint remove_nth {A} (n : nat) (l : list A) : list A :=
    match n, l with
    | _, [] => []
    | O, _ :: r => r
    | S n', x :: r => x :: remove_nth n' r
    end.
  (* fetch entry i (any queue: own, stolen or shared); the start-up fetch only looks at the shared queue *)
  Definition do_fetch (s : st) (i : nat) (shared_only : bool) : option (task * st) :=
    match nth_error (queue s) i with
    | None => None
    | Some (q, k) =>
      if (negb shared_only || Nat.eqb q 0) && dep_free s (dep_of k)
      then Some (k, take_dep (set_queue s (remove_nth i (queue s))) (dep_of k))
      else None
    end.

  (* ---- buffers ---- *)
  (* task for a launched buffer that sits in output direction d of subgrid sg *)
  Definition launch_task (sg d : nat) (ps : list nat) : option task :=
    match d with
    | O => Some (TReemit sg ps)
    | _ => match ngb sg d with Some n => Some (TTrav n ps) | None => None end
    end.

  (* move the packets qs of the thread-local output buffer of direction d into the subgrid's active
     buffer for that direction (MemorySpace::add_photons + the bookkeeping of PhotonTraversalTaskContext):
     returns the new state and the tasks created (to be enqueued after the task has finished) *)
  Definition append_active (s : st) (sg d : nat) (qs : list nat) : st * list task :=
    let cur := aget (active s) (sg, d) in
    if length cur + length qs <? CAP then (set_active s (aput (active s) (sg, d) (cur ++ qs)), [])
    else
      let room := CAP - length cur in
      let full := cur ++ firstn room qs in
      let rest := skipn room qs in
      (set_active s (aput (active s) (sg, d) rest),
       match launch_task sg d full with Some k => [k] | None => [] end).

  Fixpoint append_all (s : st) (sg : nat) (outs : list (nat * list nat)) : st * list task :=
    match outs with
    | [] => (s, [])
    | (d, qs) :: r =>
      let '(s1, k1) := append_active s sg d qs in
      let '(s2, k2) := append_all s1 sg r in
      (s2, k1 ++ k2)
    end.

  (* queue of each new task: re-emission and flush tasks go to the shared queue, traversal tasks to the
     queue of the thread that owns the target subgrid *)
  Fixpoint assign_queues (qsel : nat -> nat) (n : nat) (ks : list task) : list (nat * task) :=
    match ks with
    | [] => []
    | k :: r => ((match k with TReemit _ _ => 0 | TFlush _ => 0 | _ => S (qsel n) end), k) :: assign_queues qsel (S n) r
    end.

  Definition add_done (s : st) (ps : list nat) : st :=
    mkSt (queue s) (active s) (local s) (slocks s) (blocks s) (cont_rem s) (flushed s) (done s + length ps) (term s ++ ps) (fresh s) (flag s) (thr s).

  (* enabled output directions of a traversal in subgrid sg *)
  Definition dir_enabled (sg d : nat) : bool :=
    (d <? 27) && (match d with O => reemit | _ => match ngb sg d with Some _ => true | None => false end end).

  Fixpoint nodupb (l : list nat) : bool :=
    match l with [] => true | x :: r => negb (memb x r) && nodupb r end.
  Definition same_elements (a b : list nat) : bool :=
    Nat.eqb (length a) (length b) &&
    forallb (fun x => Nat.eqb (count_occ Nat.eq_dec a x) (count_occ Nat.eq_dec b x)) (a ++ b).

  (* ---- the bodies of the five task types (atomic) ---- *)
  (* info supplied by the label *)
  Record runinfo := mkRun {
    r_term : list nat;                 (* packets that terminate in this task *)
    r_outs : list (nat * list nat);    (* traversal: packets stored per output direction;  re-emission: [(0, kept)] *)
    r_dest : list nat;                 (* continuous source: destination subgrid of each drawn packet *)
    r_qsel : nat -> nat                (* owning thread (queue) of the subgrid the n-th created task is for *)
  }.

  (* continuous source: put packet p into local[(blk, sg)], launching the buffer when it is full *)
  Definition local_add (s : st) (blk sg p : nat) : st * list task :=
    let cur := aget (local s) (blk, sg) ++ [p] in
    if length cur =? CAP then (set_local s (aput (local s) (blk, sg) []), [TTrav sg cur])
    else (set_local s (aput (local s) (blk, sg) cur), []).
  Fixpoint local_add_all (s : st) (blk : nat) (ps dest : list nat) : st * list task :=
    match ps, dest with
    | p :: r, sg :: dr =>
      let '(s1, k1) := local_add s blk sg p in
      let '(s2, k2) := local_add_all s1 blk r dr in
      (s2, k1 ++ k2)
    | _, _ => (s, [])
    end.
  (* flush: launch every non-empty local buffer of the block *)
  Definition flush_block (s : st) (blk : nat) : st * list task :=
    (set_local s (filter (fun e => negb (Nat.eqb (fst (fst e)) blk)) (local s)),
     map (fun e => TTrav (snd (fst e)) (snd e)) (filter (fun e => Nat.eqb (fst (fst e)) blk) (local s))).

  Definition set_counts (s : st) (cr fl fr : nat) : st :=
    mkSt (queue s) (active s) (local s) (slocks s) (blocks s) cr fl (done s) (term s) fr (flag s) (thr s).

  (* returns the state after the body (dependency still held) and the tasks to enqueue *)
  Definition run_body (s : st) (k : task) (r : runinfo) : option (st * list task) :=
    match k with
    | TSrcD sg cnt =>
        if (0 <? cnt) && (cnt <=? CAP)
        then Some (set_counts s (cont_rem s) (flushed s) (fresh s + cnt), [TTrav sg (seq (fresh s) cnt)])
        else None
    | TSrcC blk cnt =>
        if (0 <? cnt) && (cnt <=? cont_rem s) && (length (r_dest r) =? cnt) then
          let '(s1, ks) := local_add_all (set_counts s (cont_rem s) (flushed s) (fresh s + cnt)) blk (seq (fresh s) cnt) (r_dest r) in
          let rem := cont_rem s1 - cnt in
          if rem =? 0 then
            let fl := S (flushed s1) in
            Some (set_counts s1 rem fl (fresh s1), ks ++ (if fl =? 1 then map TFlush (seq 0 NTHR) else []))
          else Some (set_counts s1 rem (flushed s1) (fresh s1), ks)
        else None
    | TFlush blk => Some (flush_block s blk)
    | TTrav sg ps =>
        if same_elements ps (r_term r ++ flat_map snd (r_outs r))
           && forallb (fun o => dir_enabled sg (fst o) && negb (match snd o with [] => true | _ => false end)) (r_outs r)
           && nodupb (map fst (r_outs r))
        then
          let '(s1, ks) := append_all s sg (r_outs r) in
          Some (add_done s1 (r_term r), ks)
        else None
    | TReemit sg ps =>
        match r_outs r with
        | [(O, kept)] =>
          if same_elements ps (r_term r ++ kept)
          then Some (add_done s (r_term r), match kept with [] => [] | _ => [TTrav sg kept] end)
          else None
        | _ => None
        end
    end.

  Inductive label :=
  | LFetch (t i : nat)               (* a get_task that returns queue entry i *)
  | LFetchNone (t : nat)             (* a get_task that returns NO_TASK *)
  | LRun (t : nat) (r : runinfo)     (* execute + unlock + free *)
  | LEnq (t : nat)                   (* add the next new task to its queue / all added: go on to the next fetch *)
  | LPremature (t sg d q : nat)      (* PrematureLaunch activates the buffer in slot (sg, d) *)
  | LPrematureSkip (t : nat)
  | LHead (t : nat)                  (* evaluate the outer loop condition *)
  | LInner (t : nat)                 (* evaluate the inner loop condition *)
  | LCheck1 (t : nat)
  | LCheck2 (t : nat).

  Definition no_buffers (s : st) : bool :=
    match active s with [] => true | _ => false end
    && forallb (fun e => match snd e with TTrav _ _ | TReemit _ _ => false | _ => true end) (queue s)
    && forallb (fun p => match p with
                         | PHead (Some (TTrav _ _)) | PHead (Some (TReemit _ _))
                         | PInner (Some (TTrav _ _)) | PInner (Some (TReemit _ _)) => false
                         | PEnq l => forallb (fun e => match snd e with TTrav _ _ | TReemit _ _ => false | _ => true end) l
                         | _ => true end) (thr s).

  (* one transition; None = the label is not enabled in this state *)
  (* [lg flag has_task]: the condition of the outer worker loop;  [tg empty done]: the termination test.
     Both are parameters so that the conditions regenerated from the source (C01_Gen.v) can be plugged in. *)
  Definition step_g (lg : bool -> bool -> bool) (tg : bool -> nat -> bool) (s : st) (l : label) : option st :=
    match l with
    | LFetch t i =>
        match get_thr s t with
        | Some PStart => match do_fetch s i true with Some (k, s') => Some (set_thr s' t (PHead (Some k))) | None => None end
        | Some PIdleFetch => match do_fetch s i false with Some (k, s') => Some (set_thr s' t (PInner (Some k))) | None => None end
        | Some PFetchInner => match do_fetch s i false with Some (k, s') => Some (set_thr s' t (PInner (Some k))) | None => None end
        | Some PElse => match do_fetch s i false with Some (k, s') => Some (set_thr s' t (PHead (Some k))) | None => None end
        | _ => None
        end
    | LFetchNone t =>
        match get_thr s t with
        | Some PStart =>      (* shared queue only; blocking lock: accurate *)
            if negb (existsb (fun e => Nat.eqb (fst e) 0 && fetchable s e) (queue s)) then Some (set_thr s t (PHead None)) else None
        | Some PIdleFetch => if none_allowed s t then Some (set_thr s t (PInner None)) else None
        | Some PFetchInner => if none_allowed s t then Some (set_thr s t (PInner None)) else None
        | Some PElse => if none_allowed s t then Some (set_thr s t (PHead None)) else None
        | _ => None
        end
    | LHead t =>
        match get_thr s t with
        | Some (PHead cur) =>
            if lg (flag s) (match cur with Some _ => true | None => false end)
            then Some (set_thr s t (match cur with None => PIdle | Some k => PInner (Some k) end))
            else Some (set_thr s t PExit)        (* pinned loop: a fetched task [cur] is dropped here *)
        | _ => None
        end
    | LPrematureSkip t =>
        match get_thr s t with Some PIdle => Some (set_thr s t PIdleFetch) | _ => None end
    | LPremature t sg d q =>
        match get_thr s t with
        | Some PIdle =>
            match aget (active s) (sg, d), negb (memb sg (slocks s)) with
            | (_ :: _) as ps, true =>
                match launch_task sg d ps with
                | Some k => Some (set_thr (enqueue (set_active s (adel (active s) (sg, d))) (match k with TReemit _ _ => 0 | _ => S q end) k) t PIdleFetch)
                | None => None
                end
            | _, _ => None
            end
        | _ => None
        end
    | LInner t =>
        match get_thr s t with
        | Some (PInner None) => Some (set_thr s t PCheck1)
        | _ => None
        end
    | LRun t r =>
        match get_thr s t with
        | Some (PInner (Some k)) =>
            match run_body s k r with
            | Some (s1, ks) => Some (set_thr (drop_dep s1 (dep_of k)) t (PEnq (assign_queues (r_qsel r) 0 ks)))
            | None => None
            end
        | _ => None
        end
    | LEnq t =>
        match get_thr s t with
        | Some (PEnq ((q, k) :: rest)) => Some (set_thr (enqueue s q k) t (PEnq rest))
        | Some (PEnq []) => Some (set_thr s t PFetchInner)
        | _ => None
        end
    | LCheck1 t =>
        match get_thr s t with Some PCheck1 => Some (set_thr s t (PCheck2 (no_buffers s))) | _ => None end
    | LCheck2 t =>
        match get_thr s t with
        | Some (PCheck2 e) =>
            if tg e (done s)
            then Some (set_thr (mkSt (queue s) (active s) (local s) (slocks s) (blocks s) (cont_rem s) (flushed s) (done s) (term s) (fresh s) false (thr s)) t (PHead None))
            else Some (set_thr s t PElse)
        | _ => None
        end
    end.

  Definition loop_guard (f h : bool) : bool := f || (fixed_loop && h).
  Definition term_guard (e : bool) (d : nat) : bool := e && (d =? NREQ).
  Definition step : st -> label -> option st := step_g loop_guard term_guard.

  Fixpoint run (s : st) (ls : list label) : option st :=
    match ls with
    | [] => Some s
    | l :: r => match step s l with Some s' => run s' r | None => None end
    end.

  (* state at the start of the parallel region: the source tasks are in the shared queue *)
  Definition init (srcs : list task) (crem : nat) : st :=
    mkSt (map (fun k => (0, k)) srcs) [] [] [] [] crem 0 0 [] 0 true (repeat PStart NTHR).
End Model.
