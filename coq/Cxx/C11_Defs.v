(* C11: model of the iterative part of ExactRiemannSolver (src/ExactRiemannSolver.hpp): constructor
   constants, get_soundspeed, fb/f, fprimeb/fprime, gb, guess_P, the Newton-Raphson loop of solve(),
   solve_brent, the shock / rarefaction samplers, sample_left/right_state and solve().
   Written once over the scalar record of Common/Scalar.v; literal transcription: the order of the
   floating-point operations is the order of the C++ expressions (left-associative).  The vacuum part
   of solve() (solve_vacuum and its three samplers) coincides with the model of C05_Defs.v (proved, C11_Proofs.v).
   Hand model; tie = bit-exact correspondence with the compiled solver (props/c11.py).
   C++ comparison "x > y" is written "y <? x", "x >= y" is "y <=? x", "x != y" is "negb (x =? y)". *)
From Coq Require Import Bool ZArith.
From CMI Require Import Common.Scalar Cxx.C05_Defs.

Section Exact.
  Variable F : Type.
  Variable S : SOps F.
  Local Notation "a + b" := (sadd S a b).
  Local Notation "a - b" := (ssub S a b).
  Local Notation "a * b" := (smul S a b).
  Local Notation "a / b" := (sdiv S a b).
  Local Notation "- a" := (sneg S a).
  Local Notation "a <? b" := (sltb S a b).
  Local Notation "a <=? b" := (sleb S a b).
  Local Notation "a =? b" := (seqb S a b).
  Local Notation "0" := (s0 S).
  Local Notation "1" := (s1 S).
  Local Notation "2" := (s2 S).
  Local Notation half := (shalf S).
  Local Notation quarter := (squarter S).

  (* literal constants of the source text *)
  Definition tol : F := sconst S 5%Z (-9)%Z.          (* 5.e-9 *)
  Definition big : F := sconst S 1%Z 230%Z.           (* 1e230 *)
  Definition eighth : F := sconst S 125%Z (-3)%Z.     (* 0.125 *)
  Definition three : F := sconst S 3%Z 0%Z.           (* 3. *)

  (* ---- constants computed by the constructor: those of C05 plus _gm1d2g and _ginv ---- *)
  Record xconsts := mkX { cb : consts F; gm1d2g : F; ginv : F }.

  Definition mk_xconsts (gamma : F) : xconsts :=
    let c := mk_consts F S gamma in
    let g := gam F c in
    mkX c (half * (g - 1) / g) (1 / g).

  Variable c : xconsts.
  Local Notation _gamma := (gam F (cb c)).
  Local Notation _gp1d2g := (gp1d2g F (cb c)).
  Local Notation _gm1d2g := (gm1d2g c).
  Local Notation _gm1dgp1 := (gm1dgp1 F (cb c)).
  Local Notation _tdgp1 := (tdgp1 F (cb c)).
  Local Notation _tdgm1 := (tdgm1 F (cb c)).
  Local Notation _gm1d2 := (gm1d2 F (cb c)).
  Local Notation _tgdgm1 := (tgdgm1 F (cb c)).
  Local Notation _ginv := (ginv c).

  Definition soundspeed (rhoinv P : F) : F := ssqrt S (_gamma * P * rhoinv).

  (* ---- pressure function and its derivative ---- *)
  Definition fb (P A B Pinv afac Pstar : F) : F :=
    if P <? Pstar then (Pstar - P) * ssqrt S (A / (Pstar + B))
    else afac * (spow S (Pstar * Pinv) _gm1d2g - 1).

  Definition ff (PL AL BL PLinv aLfac PR AR BR PRinv aRfac udiff Pstar : F) : F :=
    fb PL AL BL PLinv aLfac Pstar + fb PR AR BR PRinv aRfac Pstar + udiff.

  Definition fprimeb (P A B Pinv rhoainv Pstar : F) : F :=
    if P <? Pstar then
      let C := 1 / (Pstar + B) in
      (1 - half * (Pstar - P) * C) * ssqrt S (A * C)
    else spow S (Pstar * Pinv) (- _gp1d2g) * rhoainv.

  Definition fprime (PL AL BL PLinv rhoLaLinv PR AR BR PRinv rhoRaRinv Pstar : F) : F :=
    fprimeb PL AL BL PLinv rhoLaLinv Pstar + fprimeb PR AR BR PRinv rhoRaRinv Pstar.

  Definition gb (A B Pstar : F) : F := ssqrt S (A / (Pstar + B)).

  (* ---- initial guess; second component: which branch (1 PVRS, 2 two-rarefaction, 3 two-shock, 4 isinf) ---- *)
  Definition guess_P_b (PL aL AL BL PR aR AR BR udiff : F) : F * Z :=
    let Pmin := smin S PL PR in
    let Pmax := smax S PL PR in
    let qmax := Pmax / Pmin in
    let PLpPR := PL + PR in
    let smallP := tol * PLpPR in
    let Ppv := half * PLpPR - eighth * udiff * PLpPR * (aL + aR) in
    let Ppv := smax S smallP Ppv in
    let '(Pguess, br) :=
      if (qmax <=? 2) && (Pmin <=? Ppv) && (Ppv <=? Pmax) then (Ppv, 1%Z)
      else if Ppv <? Pmin then
        (spow S ((aL + aR - _gm1d2 * udiff) / (aL * spow S PL (- _gm1d2g) + aR * spow S PR (- _gm1d2g))) _tgdgm1, 2%Z)
      else
        let gL := gb AL BL Ppv in
        let gR := gb AR BR Ppv in
        if sisinf S gL || sisinf S gR then (smallP, 4%Z)
        else ((gL * PL + gR * PR - udiff) / (gL + gR), 3%Z) in
    (smax S smallP Pguess, br).

  Definition guess_P PL aL AL BL PR aR AR BR udiff : F := fst (guess_P_b PL aL AL BL PR aR AR BR udiff).

  (* ---- Newton-Raphson loop of solve(); [f] and [fp] are the closures f(..., P) and fprime(..., P).
          The C++ loop has no iteration bound: out of fuel = None ---- *)
  Definition newton_cont (Pstar Pguess fPguess : F) : bool :=
    (tol * (Pstar + Pguess) <? sabs S (Pstar - Pguess)) && (fPguess <? 0).

  Fixpoint newton_loop (f fp : F -> F) (fuel : nat) (Pstar fPstar Pguess fPguess : F) (n : Z)
    : option (F * F * F * F * Z) :=
    if newton_cont Pstar Pguess fPguess then
      match fuel with
      | O => None
      | Datatypes.S k =>
        let Pguess' := Pguess - fPguess / fp Pguess in
        newton_loop f fp k Pguess fPguess Pguess' (f Pguess') (n + 1)%Z
      end
    else Some (Pstar, fPstar, Pguess, fPguess, n).

  (* ---- solve_brent; [f] is the closure f(..., s) ---- *)
  Record bstate := mkB { ba : F; bb : F; bc : F; bd : F; bfa : F; bfb : F; bfc : F; bm : bool }.

  (* if |f(a)| < |f(b)| then swap (a,b) *)
  Definition brent_swap (a b fa fb_ : F) : F * F * F * F :=
    if sabs S fa <? sabs S fb_ then (b, a, fb_, fa) else (a, b, fa, fb_).

  Definition brent_init (Plow Phigh fPlow fPhigh : F) : bstate :=
    let '(a, b, fa, fb_) := brent_swap Plow Phigh fPlow fPhigh in
    mkB a b a big fa fb_ fa true.

  (* loop condition without the iteration bound *)
  Definition brent_cont (st : bstate) : bool :=
    negb (bfb st =? 0) && (tol * (ba st + bb st) <? sabs S (ba st - bb st)).

  Definition brent_interp (a b c_ fa fb_ fc : F) : F :=
    if negb (fa =? fc) && negb (fb_ =? fc) then
      let famfbinv := 1 / (fa - fb_) in
      let famfcinv := 1 / (fa - fc) in
      let fbmfcinv := 1 / (fb_ - fc) in
      a * fb_ * fc * famfbinv * famfcinv - b * fa * fc * famfbinv * fbmfcinv + c_ * fa * fb_ * famfcinv * fbmfcinv
    else b - fb_ * (b - a) / (fb_ - fa).

  (* true = the interpolated value is rejected, bisect *)
  Definition brent_reject (a b c_ d s : F) (mflag : bool) : bool :=
    let tmp2 := quarter * (three * a + b) in
    negb (((tmp2 <? s) && (s <? b)) || ((s <? tmp2) && (b <? s)))
    || (mflag && (half * sabs S (b - c_) <=? sabs S (s - b)))
    || (negb mflag && (half * sabs S (c_ - d) <=? sabs S (s - b)))
    || (mflag && (sabs S (b - c_) <? tol * (b + c_)))
    || (negb mflag && (sabs S (c_ - d) <? tol * (c_ + d))).

  Definition brent_step (f : F -> F) (st : bstate) : bstate :=
    let '(mkB a b c_ d fa fb_ fc mflag) := st in
    let s0 := brent_interp a b c_ fa fb_ fc in
    let rej := brent_reject a b c_ d s0 mflag in
    let s := if rej then half * (a + b) else s0 in
    let fs := f s in
    let d' := c_ in
    let c' := b in
    let fc' := fb_ in
    let '(a1, b1, fa1, fb1) := if fa * fs <? 0 then (a, s, fa, fs) else (s, b, fs, fb_) in
    let '(a2, b2, fa2, fb2) := brent_swap a1 b1 fa1 fb1 in
    mkB a2 b2 c' d' fa2 fb2 fc' rej.

  (* "while (itcount < 1e4 && ...)": fuel is the iteration bound; third component = the bound was hit *)
  Fixpoint brent_loop (f : F -> F) (fuel : nat) (st : bstate) (n : Z) : bstate * Z * bool :=
    if brent_cont st then
      match fuel with
      | O => (st, n, true)
      | Datatypes.S k => brent_loop f k (brent_step f st) (n + 1)%Z
      end
    else (st, n, false).

  (* None = cmac_error "Equal sign function values provided to solve_brent" *)
  Definition solve_brent (f : F -> F) (fuel : nat) (Plow Phigh fPlow fPhigh : F) : option (bstate * Z * bool) :=
    if 0 <? fPlow * fPhigh then None
    else Some (brent_loop f fuel (brent_init Plow Phigh fPlow fPhigh) 0%Z).

  (* ---- samplers: (rho, u, P) ---- *)
  (* the base of the density / pressure powers in a rarefaction fan.  clamp = true: "std::max(0., ...)" around it (the fan
     expressions are evaluated up to a rounding error beyond the vacuum front / a tail with P* = 0, where the unguarded
     base comes out slightly negative and std::pow returns NaN); clamp = false: the code without that guard *)
  Variable clamp : bool.
  Definition guard (b : F) : F := if clamp then smax S 0 b else b.

  Definition right_shock_speed (uR aR PRinv Pstar : F) : F := uR + aR * ssqrt S (_gp1d2g * (Pstar * PRinv) + _gm1d2g).
  Definition right_shock_density (rhoR PRinv Pstar : F) : F :=
    rhoR * (Pstar * PRinv + _gm1dgp1) / (_gm1dgp1 * (Pstar * PRinv) + 1).

  Definition sample_right_shock_wave (rhoR uR PR aR PRinv ustar Pstar dxdt : F) : F * F * F :=
    let SR := right_shock_speed uR aR PRinv Pstar in
    if dxdt <? SR then (right_shock_density rhoR PRinv Pstar, ustar, Pstar)
    else (rhoR, uR, PR).

  Definition right_tail_speed (aR PRinv ustar Pstar : F) : F := ustar + aR * spow S (Pstar * PRinv) _gm1d2g.
  Definition right_fan (rhoR uR PR aR dxdt : F) : F * F * F :=
    let base := guard (_tdgp1 - _gm1dgp1 * (uR - dxdt) / aR) in
    (rhoR * spow S base _tdgm1, _tdgp1 * (- aR + _gm1d2 * uR + dxdt), PR * spow S base _tgdgm1).

  Definition sample_right_rarefaction_wave (rhoR uR PR aR PRinv ustar Pstar dxdt : F) : F * F * F :=
    let SHR := uR + aR in
    if dxdt <? SHR then
      let STR := right_tail_speed aR PRinv ustar Pstar in
      if dxdt <? STR then (rhoR * spow S (Pstar * PRinv) _ginv, ustar, Pstar)
      else right_fan rhoR uR PR aR dxdt
    else (rhoR, uR, PR).

  Definition sample_right_state (rhoR uR PR aR PRinv ustar Pstar dxdt : F) : F * F * F :=
    if PR <? Pstar then sample_right_shock_wave rhoR uR PR aR PRinv ustar Pstar dxdt
    else sample_right_rarefaction_wave rhoR uR PR aR PRinv ustar Pstar dxdt.

  Definition left_shock_speed (uL aL PLinv Pstar : F) : F := uL - aL * ssqrt S (_gp1d2g * (Pstar * PLinv) + _gm1d2g).
  Definition left_shock_density (rhoL PLinv Pstar : F) : F :=
    rhoL * (Pstar * PLinv + _gm1dgp1) / (_gm1dgp1 * (Pstar * PLinv) + 1).

  Definition sample_left_shock_wave (rhoL uL PL aL PLinv ustar Pstar dxdt : F) : F * F * F :=
    let SL := left_shock_speed uL aL PLinv Pstar in
    if SL <? dxdt then (left_shock_density rhoL PLinv Pstar, ustar, Pstar)
    else (rhoL, uL, PL).

  Definition left_tail_speed (aL PLinv ustar Pstar : F) : F := ustar - aL * spow S (Pstar * PLinv) _gm1d2g.
  Definition left_fan (rhoL uL PL aL dxdt : F) : F * F * F :=
    let base := guard (_tdgp1 + _gm1dgp1 * (uL - dxdt) / aL) in
    (rhoL * spow S base _tdgm1, _tdgp1 * (aL + _gm1d2 * uL + dxdt), PL * spow S base _tgdgm1).

  Definition sample_left_rarefaction_wave (rhoL uL PL aL PLinv ustar Pstar dxdt : F) : F * F * F :=
    let SHL := uL - aL in
    if SHL <? dxdt then
      let STL := left_tail_speed aL PLinv ustar Pstar in
      if dxdt <? STL then left_fan rhoL uL PL aL dxdt
      else (rhoL * spow S (Pstar * PLinv) _ginv, ustar, Pstar)
    else (rhoL, uL, PL).

  Definition sample_left_state (rhoL uL PL aL PLinv ustar Pstar dxdt : F) : F * F * F :=
    if PL <? Pstar then sample_left_shock_wave rhoL uL PL aL PLinv ustar Pstar dxdt
    else sample_left_rarefaction_wave rhoL uL PL aL PLinv ustar Pstar dxdt.

  (* ---- the star state: everything solve() does between the vacuum tests and the sampling ---- *)
  (* how the pressure was found: flag 2 Newton only, 3 Brent, 4 isinf(fL)||isinf(fR);
     errors: 98 Newton loop out of fuel (the C++ would not terminate), 99 cmac_error in solve_brent *)
  Record star := mkStar {
    st_code : Z; st_P : F; st_u : F; st_guess : F; st_guess_branch : Z;
    st_newton : Z; st_brent : Z; st_brent_bound_hit : bool }.

  Definition star_state (nfuel bfuel : nat) (rhoL uL PL rhoR uR PR : F) : star :=
    let rhoLinv := 1 / rhoL in
    let rhoRinv := 1 / rhoR in
    let PLinv := 1 / PL in
    let PRinv := 1 / PR in
    let aL := soundspeed rhoLinv PL in
    let aR := soundspeed rhoRinv PR in
    let aLfac := _tdgm1 * aL in
    let aRfac := _tdgm1 * aR in
    let udiff := uR - uL in
    let AL := _tdgp1 * rhoLinv in
    let BL := _gm1dgp1 * PL in
    let rhoLaLinv := 1 / (rhoL * aL) in
    let AR := _tdgp1 * rhoRinv in
    let BR := _gm1dgp1 * PR in
    let rhoRaRinv := 1 / (rhoR * aR) in
    let f := ff PL AL BL PLinv aLfac PR AR BR PRinv aRfac udiff in
    let fp := fprime PL AL BL PLinv rhoLaLinv PR AR BR PRinv rhoRaRinv in
    let Pstar0 := 0 in
    let '(Pguess0, gbr) := guess_P_b PL aL AL BL PR aR AR BR udiff in
    let fPstar0 := f Pstar0 in
    let fPguess0 := f Pguess0 in
    let nw := if 0 <=? fPstar0 * fPguess0 then newton_loop f fp nfuel Pstar0 fPstar0 Pguess0 fPguess0 0%Z
              else Some (Pstar0, fPstar0, Pguess0, fPguess0, 0%Z) in
    match nw with
    | None => mkStar 98%Z 0 0 Pguess0 gbr 0%Z 0%Z false
    | Some (Pstar1, fPstar1, Pguess1, fPguess1, nn) =>
      let br := if (tol * (Pstar1 + Pguess1) <? sabs S (Pstar1 - Pguess1)) && (0 <? fPguess1)
                then match solve_brent f bfuel Pstar1 Pguess1 fPstar1 fPguess1 with
                     | None => None
                     | Some (bs, nb, hit) => Some (bb bs, 3%Z, nb, hit)
                     end
                else Some (Pguess1, 2%Z, 0%Z, false) in
      match br with
      | None => mkStar 99%Z 0 0 Pguess0 gbr nn 0%Z false
      | Some (Pstar, code, nb, hit) =>
        let fR := fb PR AR BR PRinv aRfac Pstar in
        let fL := fb PL AL BL PLinv aLfac Pstar in
        if sisinf S fR || sisinf S fL then mkStar 4%Z Pstar 0 Pguess0 gbr nn nb hit
        else
          let ustar := half * ((uL + uR) + (fR - fL)) in
          mkStar code Pstar ustar Pguess0 gbr nn nb hit
      end
    end.

  Definition sample_star (st : star) (rhoL uL PL rhoR uR PR dxdt : F) : Z * F * F * F :=
    let rhoLinv := 1 / rhoL in
    let rhoRinv := 1 / rhoR in
    let PLinv := 1 / PL in
    let PRinv := 1 / PR in
    let aL := soundspeed rhoLinv PL in
    let aR := soundspeed rhoRinv PR in
    if (st_code st =? 4)%Z then (0%Z, 0, 0, 0)
    else if (st_code st =? 98)%Z || (st_code st =? 99)%Z then (st_code st, 0, 0, 0)
    else
      let ustar := st_u st in
      let Pstar := st_P st in
      if ustar <? dxdt then
        let '(r, u, p) := sample_right_state rhoR uR PR aR PRinv ustar Pstar dxdt in (1%Z, r, u, p)
      else
        let '(r, u, p) := sample_left_state rhoL uL PL aL PLinv ustar Pstar dxdt in ((-1)%Z, r, u, p).

  (* ---- vacuum: sample_right_vacuum / sample_left_vacuum / sample_vacuum_generation / solve_vacuum and the vacuum tests
          of solve().  The fan branches are textually the fan expressions above (same operation order), so they are written
          with left_fan / right_fan; for clamp = true these definitions ARE the model of C05_Defs.v (repaired fan
          coefficient, guarded bases): lemma solve_novac_is_c05 in C11_Proofs.v, for every scalar instance ---- *)
  Definition with_flag (fl : Z) (s : F * F * F) : Z * F * F * F := let '(r, v, p) := s in (fl, r, v, p).

  Definition sample_right_vacuum (rhoL uL PL aL dxdt : F) : Z * F * F * F :=
    if (uL - aL) <? dxdt then
      let SL := uL + _tdgm1 * aL in
      if dxdt <? SL then with_flag (-1) (left_fan rhoL uL PL aL dxdt)
      else (0%Z, 0, 0, 0)
    else ((-1)%Z, rhoL, uL, PL).

  Definition sample_left_vacuum (rhoR uR PR aR dxdt : F) : Z * F * F * F :=
    if dxdt <? (uR + aR) then
      let SR := uR - _tdgm1 * aR in
      if SR <? dxdt then with_flag 1 (right_fan rhoR uR PR aR dxdt)
      else (0%Z, 0, 0, 0)
    else (1%Z, rhoR, uR, PR).

  Definition sample_vacuum_generation (rhoL uL PL aL rhoR uR PR aR dxdt : F) : Z * F * F * F :=
    let SR := uR - _tdgm1 * aR in
    let SL := uL + _tdgm1 * aL in
    if (dxdt <? SR) && (SL <? dxdt) then (0%Z, 0, 0, 0)
    else if SL <? dxdt then
      if dxdt <? (uR + aR) then with_flag 1 (right_fan rhoR uR PR aR dxdt)
      else (1%Z, rhoR, uR, PR)
    else
      if (uL - aL) <? dxdt then with_flag (-1) (left_fan rhoL uL PL aL dxdt)
      else ((-1)%Z, rhoL, uL, PL).

  Definition solve_vacuum (rhoL uL PL aL : F) (vacuumL : bool) (rhoR uR PR aR : F) (vacuumR : bool) (dxdt : F) : Z * F * F * F :=
    if vacuumL && vacuumR then (0%Z, 0, 0, 0)
    else if vacuumR then sample_right_vacuum rhoL uL PL aL dxdt
    else if vacuumL then sample_left_vacuum rhoR uR PR aR dxdt
    else sample_vacuum_generation rhoL uL PL aL rhoR uR PR aR dxdt.

  (* the part of solve() before the iterative solve; None = the iterative solve is needed *)
  Definition solve_novac (rhoL uL PL rhoR uR PR dxdt : F) : option (Z * F * F * F) :=
    let rhoLinv := 1 / rhoL in
    let rhoRinv := 1 / rhoR in
    let PLinv := 1 / PL in
    let PRinv := 1 / PR in
    let vacuumL := is_vacuum F S rhoL PL rhoLinv PLinv in
    let vacuumR := is_vacuum F S rhoR PR rhoRinv PRinv in
    if vacuumL || vacuumR then
      let aL := if vacuumL then 0 else soundspeed rhoLinv PL in
      let aR := if vacuumR then 0 else soundspeed rhoRinv PR in
      Some (solve_vacuum rhoL uL PL aL vacuumL rhoR uR PR aR vacuumR dxdt)
    else
      let aL := soundspeed rhoLinv PL in
      let aR := soundspeed rhoRinv PR in
      let aLfac := _tdgm1 * aL in
      let aRfac := _tdgm1 * aR in
      let udiff := uR - uL in
      if (aLfac + aRfac) <=? udiff then
        Some (solve_vacuum rhoL uL PL aL vacuumL rhoR uR PR aR vacuumR dxdt)
      else None.

  (* ---- solve().  Second component: the star state if one was computed ---- *)
  Definition solve (nfuel bfuel : nat) (rhoL uL PL rhoR uR PR dxdt : F) : (Z * F * F * F) * option star :=
    match solve_novac rhoL uL PL rhoR uR PR dxdt with
    | Some smp => (smp, None)
    | None =>
      let st := star_state nfuel bfuel rhoL uL PL rhoR uR PR in
      (sample_star st rhoL uL PL rhoR uR PR dxdt, Some st)
    end.

  (* the speeds at which the sampled solution changes expression, for the star state [st]:
     (left head-or-shock, left tail-or-shock, contact, right tail-or-shock, right head-or-shock), and the
     wave kinds (true = shock) *)
  Definition wave_speeds (st : star) (rhoL uL PL rhoR uR PR : F) : (F * F * F * F * F) * (bool * bool) :=
    let rhoLinv := 1 / rhoL in
    let rhoRinv := 1 / rhoR in
    let PLinv := 1 / PL in
    let PRinv := 1 / PR in
    let aL := soundspeed rhoLinv PL in
    let aR := soundspeed rhoRinv PR in
    let ustar := st_u st in
    let Pstar := st_P st in
    let shL := PL <? Pstar in
    let shR := PR <? Pstar in
    let l1 := if shL then left_shock_speed uL aL PLinv Pstar else uL - aL in
    let l2 := if shL then left_shock_speed uL aL PLinv Pstar else left_tail_speed aL PLinv ustar Pstar in
    let r1 := if shR then right_shock_speed uR aR PRinv Pstar else right_tail_speed aR PRinv ustar Pstar in
    let r2 := if shR then right_shock_speed uR aR PRinv Pstar else uR + aR in
    ((l1, l2, ustar, r1, r2), (shL, shR)).

  (* the same for the vacuum-generation branch (expressions of sample_vacuum_generation):
     (left head, left tail, right tail, right head) *)
  Definition vacgen_speeds (rhoL uL PL rhoR uR PR : F) : F * F * F * F :=
    let aL := soundspeed (1 / rhoL) PL in
    let aR := soundspeed (1 / rhoR) PR in
    (uL - aL, uL + _tdgm1 * aL, uR - _tdgm1 * aR, uR + aR).

  (* direct probe of the private helpers with the derived quantities computed as in solve():
     (guess_P, f(Plow), f(Phigh), fprime(Plow), fprime(Phigh)) and solve_brent on [Plow, Phigh] *)
  Definition probe (bfuel : nat) (rhoL uL PL rhoR uR PR Plow Phigh : F)
    : (F * F * F * F * F) * option (F * Z * bool) :=
    let rhoLinv := 1 / rhoL in
    let rhoRinv := 1 / rhoR in
    let PLinv := 1 / PL in
    let PRinv := 1 / PR in
    let aL := soundspeed rhoLinv PL in
    let aR := soundspeed rhoRinv PR in
    let aLfac := _tdgm1 * aL in
    let aRfac := _tdgm1 * aR in
    let udiff := uR - uL in
    let AL := _tdgp1 * rhoLinv in
    let BL := _gm1dgp1 * PL in
    let rhoLaLinv := 1 / (rhoL * aL) in
    let AR := _tdgp1 * rhoRinv in
    let BR := _gm1dgp1 * PR in
    let rhoRaRinv := 1 / (rhoR * aR) in
    let f := ff PL AL BL PLinv aLfac PR AR BR PRinv aRfac udiff in
    let fp := fprime PL AL BL PLinv rhoLaLinv PR AR BR PRinv rhoRaRinv in
    let fl := f Plow in
    let fh := f Phigh in
    ((guess_P PL aL AL BL PR aR AR BR udiff, fl, fh, fp Plow, fp Phigh),
     match solve_brent f bfuel Plow Phigh fl fh with
     | None => None
     | Some (bs, nb, hit) => Some (bb bs, nb, hit)
     end).
End Exact.
