(* C02: executable model of DensitySubGrid::interact (src/DensitySubGrid.hpp) and of the
   helpers it calls: update_photon_position, get_x/y/z_index (get_start_index), is_inside,
   get_optical_depth, update_intensity_counters, get_output_direction, and of
   TravelDirections::get_output_direction / is_compatible_input_direction
   (src/TravelDirections.hpp).  Default configuration: HAS_HELIUM defined, VARIABLE_ABUNDANCES,
   SUBGRID_CELL_LOCK, USE_LOCKFREE not defined, assertions off (cmac_assert* expand to nothing).

   The model is written ONCE, over a scalar type T with operations [Ops T]; it is a
   transcription statement by statement (the order of the floating point operations is the
   order of the C++ expressions, left to right).  Instances at the end of this file:
     FOps : PrimFloat binary64  -- extracted and compared bit for bit with the real code
     ROps : R                   -- used by Cxx/C02_Proofs.v
   The while loop is a fuelled recursion; running out of fuel is the explicit outcome ErrFuel.
   int_fast32_t (64 bit here) is modelled by Z; the harness keeps indices far from 2^63. *)
From Coq Require Import ZArith List Bool Reals Floats Uint63.
Import ListNotations.
Local Open Scope Z_scope.

(* ---------------------------------------------------------------------------
   TravelDirection enum (src/TravelDirections.hpp), same numbering *)
Definition INSIDE := 0.
Definition CORNER_PPP := 1.  Definition CORNER_PPN := 2.  Definition CORNER_PNP := 3.
Definition CORNER_PNN := 4.  Definition CORNER_NPP := 5.  Definition CORNER_NPN := 6.
Definition CORNER_NNP := 7.  Definition CORNER_NNN := 8.
Definition EDGE_X_PP := 9.   Definition EDGE_X_PN := 10.  Definition EDGE_X_NP := 11.
Definition EDGE_X_NN := 12.  Definition EDGE_Y_PP := 13.  Definition EDGE_Y_PN := 14.
Definition EDGE_Y_NP := 15.  Definition EDGE_Y_NN := 16.  Definition EDGE_Z_PP := 17.
Definition EDGE_Z_PN := 18.  Definition EDGE_Z_NP := 19.  Definition EDGE_Z_NN := 20.
Definition FACE_X_P := 21.   Definition FACE_X_N := 22.   Definition FACE_Y_P := 23.
Definition FACE_Y_N := 24.   Definition FACE_Z_P := 25.   Definition FACE_Z_N := 26.
Definition NUMBER := 27.

Definition zin (d : Z) (l : list Z) : bool := existsb (Z.eqb d) l.

Fixpoint zlookup {A : Type} (d : Z) (l : list (Z * A)) : option A :=
  match l with
  | [] => None
  | (k, v) :: r => if d =? k then Some v else zlookup d r
  end.

(* what an entry classification says about one coordinate *)
Inductive akind := KCompute | KLow | KHigh.

(* update_photon_position: which coordinates are overwritten with 0 (KLow), with
   _number_of_cells[k] * _cell_size[k] (KHigh), or left alone (KCompute); the switch, case by case *)
Definition reposition_table : list (Z * (akind * akind * akind)) :=
  [ (INSIDE,     (KCompute, KCompute, KCompute));
    (CORNER_NNN, (KLow,  KLow,  KLow));   (CORNER_NNP, (KLow,  KLow,  KHigh));
    (CORNER_NPN, (KLow,  KHigh, KLow));   (CORNER_NPP, (KLow,  KHigh, KHigh));
    (CORNER_PNN, (KHigh, KLow,  KLow));   (CORNER_PNP, (KHigh, KLow,  KHigh));
    (CORNER_PPN, (KHigh, KHigh, KLow));   (CORNER_PPP, (KHigh, KHigh, KHigh));
    (EDGE_X_NN,  (KCompute, KLow,  KLow));  (EDGE_X_NP, (KCompute, KLow,  KHigh));
    (EDGE_X_PN,  (KCompute, KHigh, KLow));  (EDGE_X_PP, (KCompute, KHigh, KHigh));
    (EDGE_Y_NN,  (KLow,  KCompute, KLow));  (EDGE_Y_NP, (KLow,  KCompute, KHigh));
    (EDGE_Y_PN,  (KHigh, KCompute, KLow));  (EDGE_Y_PP, (KHigh, KCompute, KHigh));
    (EDGE_Z_NN,  (KLow,  KLow,  KCompute)); (EDGE_Z_NP, (KLow,  KHigh, KCompute));
    (EDGE_Z_PN,  (KHigh, KLow,  KCompute)); (EDGE_Z_PP, (KHigh, KHigh, KCompute));
    (FACE_X_N,   (KLow,  KCompute, KCompute)); (FACE_X_P, (KHigh, KCompute, KCompute));
    (FACE_Y_N,   (KCompute, KLow,  KCompute)); (FACE_Y_P, (KCompute, KHigh, KCompute));
    (FACE_Z_N,   (KCompute, KCompute, KLow));  (FACE_Z_P, (KCompute, KCompute, KHigh)) ].

(* get_x_index / get_y_index / get_z_index: the three if-chains; None = cmac_error *)
Definition x_index_kind (d : Z) : option akind :=
  if zin d [INSIDE; EDGE_X_PP; EDGE_X_PN; EDGE_X_NP; EDGE_X_NN; FACE_Y_P; FACE_Y_N; FACE_Z_P; FACE_Z_N]
  then Some KCompute
  else if zin d [CORNER_NPP; CORNER_NPN; CORNER_NNP; CORNER_NNN; EDGE_Y_NP; EDGE_Y_NN; EDGE_Z_NP; EDGE_Z_NN; FACE_X_N]
  then Some KLow
  else if zin d [CORNER_PPP; CORNER_PPN; CORNER_PNP; CORNER_PNN; EDGE_Y_PP; EDGE_Y_PN; EDGE_Z_PP; EDGE_Z_PN; FACE_X_P]
  then Some KHigh
  else None.

Definition y_index_kind (d : Z) : option akind :=
  if zin d [INSIDE; EDGE_Y_PP; EDGE_Y_PN; EDGE_Y_NP; EDGE_Y_NN; FACE_X_P; FACE_X_N; FACE_Z_P; FACE_Z_N]
  then Some KCompute
  else if zin d [CORNER_PNP; CORNER_PNN; CORNER_NNP; CORNER_NNN; EDGE_X_NP; EDGE_X_NN; EDGE_Z_PN; EDGE_Z_NN; FACE_Y_N]
  then Some KLow
  else if zin d [CORNER_PPP; CORNER_PPN; CORNER_NPP; CORNER_NPN; EDGE_X_PP; EDGE_X_PN; EDGE_Z_PP; EDGE_Z_NP; FACE_Y_P]
  then Some KHigh
  else None.

Definition z_index_kind (d : Z) : option akind :=
  if zin d [INSIDE; EDGE_Z_PP; EDGE_Z_PN; EDGE_Z_NP; EDGE_Z_NN; FACE_X_P; FACE_X_N; FACE_Y_P; FACE_Y_N]
  then Some KCompute
  else if zin d [CORNER_PPN; CORNER_PNN; CORNER_NPN; CORNER_NNN; EDGE_X_PN; EDGE_X_NN; EDGE_Y_PN; EDGE_Y_NN; FACE_Z_N]
  then Some KLow
  else if zin d [CORNER_PPP; CORNER_PNP; CORNER_NPP; CORNER_NNP; EDGE_X_PP; EDGE_X_NP; EDGE_Y_PP; EDGE_Y_NP; FACE_Z_P]
  then Some KHigh
  else None.

(* TravelDirections::get_output_direction(mask); None = the "return -1" default *)
Definition output_table : list (Z * Z) :=
  [ (0, INSIDE); (1, FACE_Z_N); (2, FACE_Z_P); (4, FACE_Y_N); (8, FACE_Y_P); (16, FACE_X_N); (32, FACE_X_P);
    (5, EDGE_X_NN); (6, EDGE_X_NP); (9, EDGE_X_PN); (10, EDGE_X_PP);
    (17, EDGE_Y_NN); (18, EDGE_Y_NP); (33, EDGE_Y_PN); (34, EDGE_Y_PP);
    (20, EDGE_Z_NN); (24, EDGE_Z_NP); (36, EDGE_Z_PN); (40, EDGE_Z_PP);
    (21, CORNER_NNN); (22, CORNER_NNP); (25, CORNER_NPN); (26, CORNER_NPP);
    (37, CORNER_PNN); (38, CORNER_PNP); (41, CORNER_PPN); (42, CORNER_PPP) ].

(* TravelDirections::is_compatible_input_direction: required sign of each direction
   component (1: > 0, -1: < 0, 0: no requirement), case by case *)
Definition input_compat_table : list (Z * (Z * Z * Z)) :=
  [ (INSIDE, (0, 0, 0));
    (CORNER_NNN, (1, 1, 1));    (CORNER_NNP, (1, 1, -1));   (CORNER_NPN, (1, -1, 1));   (CORNER_NPP, (1, -1, -1));
    (CORNER_PNN, (-1, 1, 1));   (CORNER_PNP, (-1, 1, -1));  (CORNER_PPN, (-1, -1, 1));  (CORNER_PPP, (-1, -1, -1));
    (EDGE_X_NN, (0, 1, 1));     (EDGE_X_NP, (0, 1, -1));    (EDGE_X_PN, (0, -1, 1));    (EDGE_X_PP, (0, -1, -1));
    (EDGE_Y_NN, (1, 0, 1));     (EDGE_Y_NP, (1, 0, -1));    (EDGE_Y_PN, (-1, 0, 1));    (EDGE_Y_PP, (-1, 0, -1));
    (EDGE_Z_NN, (1, 1, 0));     (EDGE_Z_NP, (1, -1, 0));    (EDGE_Z_PN, (-1, 1, 0));    (EDGE_Z_PP, (-1, -1, 0));
    (FACE_X_N, (1, 0, 0));      (FACE_X_P, (-1, 0, 0));
    (FACE_Y_N, (0, 1, 0));      (FACE_Y_P, (0, -1, 0));
    (FACE_Z_N, (0, 0, 1));      (FACE_Z_P, (0, 0, -1)) ].

Record ivec := mkI { ix : Z; iy : Z; iz : Z }.

(* is_inside *)
Definition is_inside (n i : ivec) : bool :=
  (ix i <? ix n) && (0 <=? ix i) && (iy i <? iy n) && (0 <=? iy i) && (iz i <? iz n) && (0 <=? iz i).

(* get_one_index; _number_of_cells[3] = ncell[1] * ncell[2] *)
Definition one_index (n i : ivec) : Z := ix i * (iy n * iz n) + iy i * iz n + iz i.

Definition b2z (b : bool) : Z := if b then 1 else 0.

(* DensitySubGrid::get_output_direction: x_high = (i / n) > 0 with C++ (truncating) division *)
Definition exit_mask (n i : ivec) : Z :=
  let x_low := ix i <? 0 in let x_high := 0 <? Z.quot (ix i) (ix n) in
  let y_low := iy i <? 0 in let y_high := 0 <? Z.quot (iy i) (iy n) in
  let z_low := iz i <? 0 in let z_high := 0 <? Z.quot (iz i) (iz n) in
  32 * b2z x_high + 16 * b2z x_low + 8 * b2z y_high + 4 * b2z y_low + 2 * b2z z_high + b2z z_low.

Definition output_direction (n i : ivec) : option Z := zlookup (exit_mask n i) output_table.

(* ---------------------------------------------------------------------------
   scalar operations *)
Record Ops (T : Type) := mkOps {
  o_add : T -> T -> T; o_sub : T -> T -> T; o_mul : T -> T -> T; o_div : T -> T -> T;
  o_ltb : T -> T -> bool; o_leb : T -> T -> bool; o_eqb : T -> T -> bool;
  o_ofZ : Z -> T;        (* (double) of an int_fast32_t *)
  o_truncZ : T -> Z;     (* (int_fast32_t) of a double: truncation *)
  o_zero : T; o_one : T;
  o_dblmax : T;          (* DBL_MAX *)
  o_nuH : T; o_nuHe : T  (* 3.288e15, 5.948e15 *)
}.
Arguments o_add {T}. Arguments o_sub {T}. Arguments o_mul {T}. Arguments o_div {T}.
Arguments o_ltb {T}. Arguments o_leb {T}. Arguments o_eqb {T}. Arguments o_ofZ {T}. Arguments o_truncZ {T}.
Arguments o_zero {T}. Arguments o_one {T}. Arguments o_dblmax {T}. Arguments o_nuH {T}. Arguments o_nuHe {T}.

Record vec (T : Type) := mkV { vx : T; vy : T; vz : T }.
Arguments mkV {T}. Arguments vx {T}. Arguments vy {T}. Arguments vz {T}.

(* the members of DensitySubGrid that interact reads *)
Record block (T : Type) := mkB { b_anchor : vec T; b_cs : vec T; b_inv : vec T; b_n : ivec }.
Arguments mkB {T}. Arguments b_anchor {T}. Arguments b_cs {T}. Arguments b_inv {T}. Arguments b_n {T}.

(* per cell: number density, ionic fractions of H0 and He0 (read), mean intensities and
   heating terms (written) *)
Record cellc (T : Type) := mkC { c_n : T; c_xH : T; c_xHe : T }.
Arguments mkC {T}. Arguments c_n {T}. Arguments c_xH {T}. Arguments c_xHe {T}.
Record est (T : Type) := mkE { e_J : list T; e_hH : T; e_hHe : T }.
Arguments mkE {T}. Arguments e_J {T}. Arguments e_hH {T}. Arguments e_hHe {T}.

(* PhotonPacket: cross sections per ion; ION_H_n = 0, ION_He_n = 1 *)
Record photon (T : Type) := mkP { p_pos : vec T; p_dir : vec T; p_tau : T; p_sigma : list T; p_energy : T; p_weight : T }.
Arguments mkP {T}. Arguments p_pos {T}. Arguments p_dir {T}. Arguments p_tau {T}. Arguments p_sigma {T}.
Arguments p_energy {T}. Arguments p_weight {T}.

(* loop state: position (relative to the anchor), three_index, active_cell, tau_done, and the
   calls of update_intensity_counters made so far (cell, distance), most recent first *)
Record mstate (T : Type) := mkM { m_pos : vec T; m_idx : ivec; m_cell : Z; m_tau : T; m_vis : list (Z * T) }.
Arguments mkM {T}. Arguments m_pos {T}. Arguments m_idx {T}. Arguments m_cell {T}. Arguments m_tau {T}. Arguments m_vis {T}.

Record result (T : Type) := mkRes {
  r_out : Z;               (* returned TravelDirection *)
  r_pos : vec T;           (* photon position after the call (absolute) *)
  r_tau : T;               (* photon target optical depth after the call *)
  r_vis : list (Z * T);    (* update_intensity_counters calls, in program order *)
  r_fin : mstate T         (* loop state at loop exit (relative position, three_index, tau_done) *)
}.
Arguments mkRes {T}. Arguments r_out {T}. Arguments r_pos {T}. Arguments r_tau {T}. Arguments r_vis {T}. Arguments r_fin {T}.

Inductive outcome (T : Type) :=
| Ok (r : result T)
| ErrInput      (* cmac_error: invalid input direction *)
| ErrFuel       (* the loop did not end within the fuel *)
| ErrMask.      (* cmac_error: unknown outgoing check mask *)
Arguments Ok {T}. Arguments ErrInput {T}. Arguments ErrFuel {T}. Arguments ErrMask {T}.

Section Model.
Variable T : Type.
Variable Op : Ops T.

Local Notation "a +. b" := (o_add Op a b) (at level 50, left associativity).
Local Notation "a -. b" := (o_sub Op a b) (at level 50, left associativity).
Local Notation "a *. b" := (o_mul Op a b) (at level 40, left associativity).
Local Notation "a /. b" := (o_div Op a b) (at level 40, left associativity).
Local Notation "a <. b" := (o_ltb Op a b) (at level 70).
Local Notation "a <=. b" := (o_leb Op a b) (at level 70).
Local Notation "a ==. b" := (o_eqb Op a b) (at level 70).

(* constructor: _cell_size = box[3+k] / ncell[k], _inv_cell_size = ncell[k] / box[3+k] *)
Definition make_block (anchor sides : vec T) (n : ivec) : block T :=
  mkB anchor
      (mkV (vx sides /. o_ofZ Op (ix n)) (vy sides /. o_ofZ Op (iy n)) (vz sides /. o_ofZ Op (iz n)))
      (mkV (o_ofZ Op (ix n) /. vx sides) (o_ofZ Op (iy n) /. vy sides) (o_ofZ Op (iz n) /. vz sides))
      n.

Definition vsub (a b : vec T) := mkV (vx a -. vx b) (vy a -. vy b) (vz a -. vz b).
Definition vadd (a b : vec T) := mkV (vx a +. vx b) (vy a +. vy b) (vz a +. vz b).

(* update_photon_position, one coordinate *)
Definition repos1 (k : akind) (n : Z) (cs p : T) : T :=
  match k with KCompute => p | KLow => o_zero Op | KHigh => o_ofZ Op n *. cs end.

(* get_x_index etc., one coordinate *)
Definition start1 (k : akind) (n : Z) (inv p : T) : Z :=
  match k with KCompute => o_truncZ Op (p *. inv) | KLow => 0 | KHigh => n - 1 end.

(* is_compatible_input_direction (only used in an assertion; a premise of the theorems) *)
Definition sign_ok (s : Z) (d : T) : bool :=
  if s =? 1 then o_zero Op <. d else if s =? -1 then d <. o_zero Op else true.
Definition input_compatible (d : vec T) (input : Z) : bool :=
  match zlookup input input_compat_table with
  | Some (sx, sy, sz) => sign_ok sx (vx d) && sign_ok sy (vy d) && sign_ok sz (vz d)
  | None => false
  end.

(* "compute cell distances", one coordinate *)
Definition wall (d invd lo hi p : T) : T :=
  if o_zero Op <. d then (hi -. p) *. invd
  else if d <. o_zero Op then (lo -. p) *. invd
  else o_dblmax Op.

(* std::min(a, b) = (b < a) ? b : a *)
Definition smin (a b : T) : T := if b <. a then b else a.

(* position[k] = (l[k] == lmin) ? ((direction[k] > 0.) ? cell_high[k] : cell_low[k]) : position[k] + lmin * direction[k] *)
Definition newpos1 (l lmin d lo hi p : T) : T :=
  if l ==. lmin then (if o_zero Op <. d then hi else lo) else p +. lmin *. d.

(* if (l[k] == lmin) three_index[k] += (direction[k] > 0.) ? 1 : -1 *)
Definition newidx1 (l lmin d : T) (i : Z) : Z :=
  if l ==. lmin then i + (if o_zero Op <. d then 1 else -1) else i.

Section March.
Variable b : block T.
Variable d invd : vec T.
Variable tau_target : T.
Variable optical_depth : Z -> T -> T.    (* get_optical_depth(active_cell, distance, photon) *)

Definition cell_low (i : ivec) : vec T :=
  mkV (o_ofZ Op (ix i) *. vx (b_cs b)) (o_ofZ Op (iy i) *. vy (b_cs b)) (o_ofZ Op (iz i) *. vz (b_cs b)).
Definition cell_high (i : ivec) : vec T :=
  mkV ((o_ofZ Op (ix i) +. o_one Op) *. vx (b_cs b)) ((o_ofZ Op (iy i) +. o_one Op) *. vy (b_cs b))
      ((o_ofZ Op (iz i) +. o_one Op) *. vz (b_cs b)).

Definition walls (st : mstate T) : vec T :=
  let lo := cell_low (m_idx st) in let hi := cell_high (m_idx st) in let p := m_pos st in
  mkV (wall (vx d) (vx invd) (vx lo) (vx hi) (vx p))
      (wall (vy d) (vy invd) (vy lo) (vy hi) (vy p))
      (wall (vz d) (vz invd) (vz lo) (vz hi) (vz p)).

Definition lmin_of (l : vec T) : T := smin (vx l) (smin (vy l) (vz l)).

Definition move (st : mstate T) (l : vec T) (len : T) : vec T :=
  let lo := cell_low (m_idx st) in let hi := cell_high (m_idx st) in let p := m_pos st in
  mkV (newpos1 (vx l) len (vx d) (vx lo) (vx hi) (vx p))
      (newpos1 (vy l) len (vy d) (vy lo) (vy hi) (vy p))
      (newpos1 (vz l) len (vz d) (vz lo) (vz hi) (vz p)).

(* loop condition *)
Definition cond (st : mstate T) : bool := (m_tau st <. tau_target) && is_inside (b_n b) (m_idx st).

(* loop body *)
Definition step (st : mstate T) : mstate T :=
  let l := walls st in
  let lmin := lmin_of l in
  let tau := optical_depth (m_cell st) lmin in
  let tau_done := m_tau st +. tau in
  if tau_target <=. tau_done then
    let correction := (tau_done -. tau_target) /. tau in
    let lmin' := lmin *. (o_one Op -. correction) in
    mkM (move st l lmin') (m_idx st) (one_index (b_n b) (m_idx st)) tau_done ((m_cell st, lmin') :: m_vis st)
  else
    let i := m_idx st in
    let i' := mkI (newidx1 (vx l) lmin (vx d) (ix i)) (newidx1 (vy l) lmin (vy d) (iy i))
                  (newidx1 (vz l) lmin (vz d) (iz i)) in
    mkM (move st l lmin) i' (one_index (b_n b) i') tau_done ((m_cell st, lmin) :: m_vis st).

Fixpoint march (fuel : nat) (st : mstate T) : option (mstate T) :=
  match fuel with
  | O => if cond st then None else Some st
  | S f => if cond st then march f (step st) else Some st
  end.
End March.

Definition FUEL (n : ivec) : nat := Z.to_nat (ix n + iy n + iz n + 1).

(* get_optical_depth, HAS_HELIUM and not VARIABLE_ABUNDANCES:
   distance * n * (sigma_H * x_H + sigma_He * x_He) *)
Definition optical_depth_of (cells : Z -> cellc T) (ph : photon T) (c : Z) (dist : T) : T :=
  let sH := nth 0%nat (p_sigma ph) (o_zero Op) in
  let sHe := nth 1%nat (p_sigma ph) (o_zero Op) in
  dist *. c_n (cells c) *. (sH *. c_xH (cells c) +. sHe *. c_xHe (cells c)).

Definition interact_with (fuel : nat) (b : block T) (cells : Z -> cellc T) (ph : photon T) (input : Z) : outcome T :=
  let d := p_dir ph in
  let invd := mkV (o_one Op /. vx d) (o_one Op /. vy d) (o_one Op /. vz d) in
  let p0 := vsub (p_pos ph) (b_anchor b) in
  let tau_target := p_tau ph in
  match zlookup input reposition_table, x_index_kind input, y_index_kind input, z_index_kind input with
  | Some (kx, ky, kz), Some jx, Some jy, Some jz =>
    let n := b_n b in
    let p1 := mkV (repos1 kx (ix n) (vx (b_cs b)) (vx p0)) (repos1 ky (iy n) (vy (b_cs b)) (vy p0))
                  (repos1 kz (iz n) (vz (b_cs b)) (vz p0)) in
    let i0 := mkI (start1 jx (ix n) (vx (b_inv b)) (vx p1)) (start1 jy (iy n) (vy (b_inv b)) (vy p1))
                  (start1 jz (iz n) (vz (b_inv b)) (vz p1)) in
    let st0 := mkM p1 i0 (one_index n i0) (o_zero Op) [] in
    match march b d invd tau_target (optical_depth_of cells ph) fuel st0 with
    | None => ErrFuel
    | Some st =>
      let newtau := tau_target -. m_tau st in
      let newpos := vadd (m_pos st) (b_anchor b) in
      if tau_target <=. m_tau st then Ok (mkRes INSIDE newpos newtau (rev (m_vis st)) st)
      else match output_direction n (m_idx st) with
           | Some o => Ok (mkRes o newpos newtau (rev (m_vis st)) st)
           | None => ErrMask
           end
    end
  | _, _, _, _ => ErrInput
  end.

Definition interact (b : block T) := interact_with (FUEL (b_n b)) b.

(* update_intensity_counters(active_cell, distance, photon) on one cell's estimators *)
Fixpoint map2 (f : T -> T -> T) (a c : list T) : list T :=
  match a, c with
  | x :: a', y :: c' => f x y :: map2 f a' c'
  | _, _ => []
  end.

Definition deposit1 (ph : photon T) (e : est T) (dist : T) : est T :=
  let dm := map (fun s => dist *. s *. p_weight ph) (p_sigma ph) in
  mkE (map2 (o_add Op) (e_J e) dm)
      (e_hH e +. nth 0%nat dm (o_zero Op) *. (p_energy ph -. o_nuH Op))
      (e_hHe e +. nth 1%nat dm (o_zero Op) *. (p_energy ph -. o_nuHe Op)).

Definition deposit (ph : photon T) (store : Z -> est T) (v : Z * T) : Z -> est T :=
  fun c => if c =? fst v then deposit1 ph (store c) (snd v) else store c.

Definition deposit_all (ph : photon T) (store : Z -> est T) (vis : list (Z * T)) : Z -> est T :=
  fold_left (deposit ph) vis store.

End Model.

Arguments make_block {T}. Arguments interact {T}. Arguments interact_with {T}. Arguments deposit_all {T}.
Arguments deposit1 {T}. Arguments deposit {T}. Arguments march {T}. Arguments step {T}. Arguments cond {T}.
Arguments walls {T}. Arguments lmin_of {T}. Arguments move {T}. Arguments cell_low {T}. Arguments cell_high {T}.
Arguments wall {T}. Arguments smin {T}. Arguments newpos1 {T}. Arguments newidx1 {T}. Arguments repos1 {T}.
Arguments start1 {T}. Arguments input_compatible {T}. Arguments sign_ok {T}. Arguments optical_depth_of {T}.
Arguments vsub {T}. Arguments vadd {T}. Arguments map2 {T}.

(* ---------------------------------------------------------------------------
   binary64 instance *)
Definition f_ofZ (z : Z) : float :=
  match z with
  | Z0 => 0%float
  | Zpos _ => PrimFloat.of_uint63 (Uint63.of_Z z)
  | Zneg p => PrimFloat.opp (PrimFloat.of_uint63 (Uint63.of_Z (Zpos p)))
  end.

(* cvttsd2si: truncation toward zero; NaN, infinities and values outside the int64 range give
   the "integer indefinite" value -2^63 (undefined behaviour in C++; what x86-64 does) *)
Definition INDEF : Z := - 2 ^ 63.
Definition f_truncZ (x : float) : Z :=
  match Prim2SF x with
  | S754_zero _ => 0
  | S754_finite s m e =>
      let v := if 0 <=? e then Zpos m * 2 ^ e else Zpos m / 2 ^ (- e) in
      let r := if s then - v else v in
      if (r <? 2 ^ 63) && (- 2 ^ 63 <=? r) then r else INDEF
  | _ => INDEF
  end.

Definition FOps : Ops float :=
  mkOps float PrimFloat.add PrimFloat.sub PrimFloat.mul PrimFloat.div PrimFloat.ltb PrimFloat.leb PrimFloat.eqb
        f_ofZ f_truncZ 0%float 1%float 0x1.fffffffffffffp+1023%float
        3288000000000000%float 5948000000000000%float.

Definition f_make_block := @make_block float FOps.
Definition f_interact := @interact float FOps.
Definition f_deposit_all := @deposit_all float FOps.
Definition f_input_compatible := @input_compatible float FOps.

(* ---------------------------------------------------------------------------
   real-number instance *)
Local Open Scope R_scope.
Definition Rltb (x y : R) : bool := if Rlt_dec x y then true else false.
Definition Rleb (x y : R) : bool := if Rle_dec x y then true else false.
Definition Reqb (x y : R) : bool := if Req_EM_T x y then true else false.
(* truncation toward zero *)
Definition RtruncZ (x : R) : Z := if Rle_dec 0 x then Int_part x else (- Int_part (- x))%Z.
Definition RDBLMAX : R := IZR (2 ^ 1024 - 2 ^ 971).

Definition ROps : Ops R :=
  mkOps R Rplus Rminus Rmult Rdiv Rltb Rleb Reqb IZR RtruncZ 0 1 RDBLMAX
        (IZR 3288000000000000) (IZR 5948000000000000).
