(* C01, source side: how the requested number of packets is split over sources, subgrid copies and source tasks.
   Literal model of DistributedPhotonSource's constructor, get_number_of_batches, get_photon_batch
   (src/DistributedPhotonSource.hpp) and of the two task-creation loops in TaskBasedIonizationSimulation.cpp /
   TaskBasedRadiationHydrodynamicsSimulation.cpp ("photon source tasks").  Executable; proofs in C01_SourceProofs.v.

   Inputs that are floating point or random in the code enter as data:
     a source  = (n, c):  n = (size_t)(number_of_photons * weight)   [number_this_source],  c = 1 + number of copies of
                          the subgrid that contains the source        [subgrids.size()]
     a draw    = the index  (size_t)(random * overhead.size())  of one of the num_overhead remainder packets. *)
From Coq Require Import List Arith Bool.
Import ListNotations.

Definition per_copy (n c i : nat) : nat := n / c + (if i <? n mod c then 1 else 0).
Definition expand (n c : nat) : list nat := map (per_copy n c) (seq 0 c).

(* the constructor's loop over the sources: (_total_number_of_photons, overhead) *)
Fixpoint build (ss : list (nat * nat)) (tot ovh : list nat) : list nat * list nat :=
  match ss with
  | [] => (tot, ovh)
  | (n, c) :: r => build r (tot ++ expand n c) (ovh ++ [length tot + n mod c])
  end.

Fixpoint incr (l : list nat) (i : nat) : list nat :=
  match l, i with
  | [], _ => []
  | x :: r, 0 => S x :: r
  | x :: r, S j => x :: incr r j
  end.

(* ++_total_number_of_photons[overhead[index]] for every remainder packet *)
Definition add_overhead (tot ovh draws : list nat) : list nat :=
  fold_left (fun t d => incr t (nth d ovh 0)) draws tot.

Definition totals (ss : list (nat * nat)) (draws : list nat) : list nat :=
  let '(t, o) := build ss [] [] in add_overhead t o draws.

Definition sum (l : list nat) : nat := fold_right Nat.add 0 l.

(* num_overhead = number_of_photons - number_done, computed in size_t: the subtraction wraps when the floors add up to
   more than the request; the model reports that case instead of looping 2^64 times *)
Definition num_overhead (N : nat) (ss : list (nat * nat)) : option nat :=
  if sum (map fst ss) <=? N then Some (N - sum (map fst ss)) else None.

(* get_number_of_batches *)
Definition batches (total b : nat) : nat := total / b + (if 0 <? total mod b then 1 else 0).

(* get_photon_batch on (number_done, total): returned size and new number_done *)
Definition get_batch (done total maxn : nat) : nat * nat :=
  if done =? total then (0, done) else let k := Nat.min maxn (total - done) in (k, done + k).

(* one pass "for isrc" of the discrete task loop: tasks created (source index, size), new done vector, packets handed out *)
Fixpoint rr_pass (cap i : nat) (dn tot : list nat) : list (nat * nat) * list nat * nat :=
  match dn, tot with
  | d :: dr, t :: tr =>
      let '(k, d') := get_batch d t cap in
      let '(ts, dn', s) := rr_pass cap (S i) dr tr in
      ((if 0 <? k then [(i, k)] else []) ++ ts, d' :: dn', k + s)
  | _, _ => ([], [], 0)
  end.

(* while (number_of_photons_done < number_of_discrete_photons) { pass };  None = out of fuel *)
Fixpoint rr_loop (fuel cap target done_sum : nat) (dn tot : list nat) : option (list (nat * nat) * list nat * nat) :=
  if done_sum <? target then
    match fuel with
    | 0 => None
    | S f =>
        let '(ts, dn', s) := rr_pass cap 0 dn tot in
        match rr_loop f cap target (done_sum + s) dn' tot with
        | Some (ts2, dn2, ds2) => Some (ts ++ ts2, dn2, ds2)
        | None => None
        end
    end
  else Some ([], dn, done_sum).

(* continuous source: num_batches full batches and one last partial batch; (block, size) *)
Definition cont_tasks (n b nblocks : nat) : list (nat * nat) :=
  map (fun k => (k mod nblocks, b)) (seq 0 (n / b)) ++ (if 0 <? n mod b then [((n / b) mod nblocks, n mod b)] else []).

(* everything: the list of source task sizes put into the shared queue for one iteration *)
Definition all_source_sizes (cap ndiscrete ncont nblocks : nat) (tot : list nat) : option (list nat) :=
  match rr_loop (S ndiscrete) cap ndiscrete 0 (map (fun _ => 0) tot) tot with
  | Some (ts, _, _) => Some (map snd ts ++ map snd (cont_tasks ncont cap nblocks))
  | None => None
  end.
