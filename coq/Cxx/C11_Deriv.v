(* C11: fprimeb as coded is the derivative of fb (Coquelicot is_derive), away from the kink P* = P_K. *)
From Coq Require Import Reals Lra Lia Bool ZArith Psatz.
From Coquelicot Require Import Coquelicot.
From CMI Require Import Common.Scalar Cxx.C05_Defs Cxx.C11_Defs Cxx.C11_Proofs.
Local Open Scope R_scope.

Section Deriv.
  Variables g rho P a : R.
  Hypothesis Hg : 1 < g.
  Hypothesis Hrho : 0 < rho.
  Hypothesis HP : 0 < P.
  Hypothesis Ha : 0 < a.
  Hypothesis Ha2 : a * a = g * P / rho.
  Let c := rconsts g.
  Let A := tdgp1 R (cb R c) * (1 / rho).
  Let B := gm1dgp1 R (cb R c) * P.
  Let afac := tdgm1 R (cb R c) * a.
  Let rhoainv := 1 / (rho * a).

  Lemma fb_deriv_shock p : P < p ->
    is_derive (fun q => fb R RS c P A B (1 / P) afac q) p (fprimeb R RS c P A B (1 / P) rhoainv p).
  Proof.
    intros Hp.
    assert (HB : 0 < B). { unfold B, c. rops. apply Rmult_lt_0_compat; [apply Rdiv_lt_0_compat; lra | lra]. }
    assert (HA : 0 < A). { unfold A, c. rops. apply Rmult_lt_0_compat; apply Rdiv_lt_0_compat; lra. }
    apply (is_derive_ext_loc (fun q => (q - P) * sqrt (A / (q + B)))).
    - exists (mkposreal (p - P) ltac:(lra)). intros q Hq. unfold ball in Hq. simpl in Hq. unfold AbsRing_ball, abs, minus, plus, opp in Hq. simpl in Hq.
      unfold fb. rops. assert (E : Rltb P q = true).
      { apply Rltb_true. unfold Rabs in Hq. destruct (Rcase_abs (q + - p)); lra. }
      rewrite E. reflexivity.
    - unfold fprimeb. rops. assert (E : Rltb P p = true) by (apply Rltb_true; lra). rewrite E.
      auto_derive.
      + repeat split; try lra. apply Rdiv_lt_0_compat; lra.
      + assert (Q : 0 < A * / (p + B)) by (apply Rmult_lt_0_compat; [lra | apply Rinv_0_lt_compat; lra]).
        assert (S1 : sqrt (A * (1 / (p + B))) = sqrt (A * / (p + B))) by (f_equal; field; lra).
        rewrite S1. set (s := sqrt (A * / (p + B))).
        assert (Ps : 0 < s) by (apply sqrt_lt_R0; exact Q).
        assert (Ss : s * s = A * / (p + B)) by (apply sqrt_sqrt; lra).
        assert (EA : A = s * s * (p + B)) by (rewrite Ss; field; lra).
        clearbody s. clear S1 Q Ss. subst A. rewrite EA. field. split; lra.
  Qed.

  Lemma fb_deriv_rarefaction p : 0 < p -> p < P ->
    is_derive (fun q => fb R RS c P A B (1 / P) afac q) p (fprimeb R RS c P A B (1 / P) rhoainv p).
  Proof.
    intros H0 Hp.
    apply (is_derive_ext_loc (fun q => afac * (Rpower (q * (1 / P)) (1 / 2 * (g - 1) / g) - 1))).
    - exists (mkposreal (P - p) ltac:(lra)). intros q Hq. unfold ball in Hq. simpl in Hq. unfold AbsRing_ball, abs, minus, plus, opp in Hq. simpl in Hq.
      unfold fb, c. rops. assert (E : Rltb P q = false).
      { apply Rltb_false. unfold Rabs in Hq. destruct (Rcase_abs (q + - p)); lra. }
      rewrite E. reflexivity.
    - unfold fprimeb, c. rops. assert (E : Rltb P p = false) by (apply Rltb_false; lra). rewrite E.
      unfold Rpower. auto_derive.
      + apply Rmult_lt_0_compat; [lra | apply Rdiv_lt_0_compat; lra].
      + set (L := ln (p * (1 / P))).
        assert (Ppos : 0 < p * (1 / P)) by (apply Rmult_lt_0_compat; [lra | apply Rdiv_lt_0_compat; lra]).
        assert (EL : / (p * (1 / P)) = exp (- L)) by (unfold L; rewrite exp_Ropp, exp_ln by exact Ppos; reflexivity).
        rewrite EL.
        assert (K : afac * (1 / 2 * (g - 1) / g) * (1 / P) = rhoainv).
        { unfold afac, rhoainv, c. rops.
          assert (H : a * a * rho = g * P) by (rewrite Ha2; field; lra).
          field_simplify_eq; [| repeat split; lra]. rewrite <- H. ring. }
        rewrite <- K.
        replace (exp (- (1 / 2 * (g + 1) / g) * L)) with (exp (- L) * exp (1 / 2 * (g - 1) / g * L)).
        * ring.
        * rewrite <- exp_plus. f_equal. field. lra.
  Qed.

  (* in the standard library's vocabulary, both branches *)
  Lemma fb_derivable_pt_lim p : 0 < p -> p <> P ->
    derivable_pt_lim (fun q => fb R RS c P A B (1 / P) afac q) p (fprimeb R RS c P A B (1 / P) rhoainv p).
  Proof.
    intros H0 Hne. apply is_derive_Reals.
    destruct (Rtotal_order p P) as [H | [H | H]]; [apply fb_deriv_rarefaction; assumption | contradiction | apply fb_deriv_shock; assumption].
  Qed.
End Deriv.
