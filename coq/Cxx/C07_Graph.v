(* C07: the hydro task graph make_graph (model of make_hydro_tasks / set_dependencies / reset_hydro_tasks).
   make_graph true = the code with the fix of D2, make_graph false = the pinned commit.
   - wf (make_graph true Y) for EVERY layout and periodicity: C07_GraphGen.make_graph_wf (closed form of the task
     numbering + neighbour arithmetic); re-exported here.  Independently, the boolean wf_check (the checker that the
     run-time tie evaluates on the dumped REAL tables) accepts all 512 graphs up to 4 x 4 x 4 by evaluation in the kernel;
   - the defect D2 of the pinned commit: with a periodic axis of exactly one subgrid the pair task takes the same lock
     twice, the graph is not well formed, and in the interleaving model that task is never started, for any schedule;
   - the counter protocol lets a thread leave the loop early (number_of_tasks is transiently 0): a concrete schedule. *)
From Coq Require Import Arith List Bool PeanoNat Lia.
From CMI Require Import Cxx.C07_Defs Cxx.C07_Base Cxx.C07_Proofs Cxx.C07_GraphGen.
Import ListNotations.

Definition BOUND : nat := 4.

Lemma check_upto_bound : check_upto BOUND = true.
Proof. vm_cast_no_check (eq_refl true). Qed.

Lemma In_bools : forall b, In b bools.
Proof. destruct b; simpl; auto. Qed.

Lemma In_layouts_upto : forall b x y z px py pz, 1 <= x <= b -> 1 <= y <= b -> 1 <= z <= b ->
  In (mkLayout x y z px py pz) (layouts_upto b).
Proof.
  intros. unfold layouts_upto.
  apply in_flat_map. exists x. split. apply in_seq; lia.
  apply in_flat_map. exists y. split. apply in_seq; lia.
  apply in_flat_map. exists z. split. apply in_seq; lia.
  apply in_flat_map. exists px. split. apply In_bools.
  apply in_flat_map. exists py. split. apply In_bools.
  apply in_map. apply In_bools.
Qed.

Lemma check_upto_sound : forall b, check_upto b = true ->
  forall Y, In Y (layouts_upto b) -> wf (make_graph true Y).
Proof.
  intros b C Y HY. unfold check_upto in C. rewrite forallb_forall in C. specialize (C Y HY).
  unfold check_layout in C. apply wf_check_sound; auto.
Qed.

(* the bounded statement obtained from the evaluation alone (kept as a cross-check of the general proof) *)
Lemma make_graph_wf_bounded : forall Y,
  1 <= lnx Y <= BOUND -> 1 <= lny Y <= BOUND -> 1 <= lnz Y <= BOUND -> wf (make_graph true Y).
Proof.
  intros [x y z px py pz] Hx Hy Hz. cbn [lnx lny lnz lpx lpy lpz] in *.
  apply (check_upto_sound BOUND check_upto_bound). apply In_layouts_upto; auto.
Qed.

(* a pair task of a subgrid with itself (one subgrid on a periodic axis) has ONE lock, the lock of the only subgrid it
   touches - the same lock every other task of that subgrid takes, so C07_mutual_exclusion covers it *)
Definition self_pairs_ok (g : graph) : bool :=
  forallb (fun t => match other t with
                    | Some o => if o =? sub t
                                then match dep0 t, dep1 t with Some a, None => a =? sub t | _, _ => false end
                                else true
                    | None => true
                    end
                    && match dep0 t with Some a => (a =? sub t) || (match other t with Some o => a =? o | None => false end) | None => false end) g.
Lemma self_pairs_single_lock :
  forallb (fun Y => self_pairs_ok (make_graph true Y)) (layouts_upto 3) = true.
Proof. vm_cast_no_check (eq_refl true). Qed.

(* ------------------------------------------------------------------ defect D2 (pinned commit: make_graph false) *)
Definition Y_self : layout := mkLayout 1 2 2 true false false.

Lemma self_task_same_lock : dep0 (tk (make_graph false Y_self) 1) = Some 0 /\ dep1 (tk (make_graph false Y_self) 1) = Some 0
  /\ 1 < length (make_graph false Y_self) /\ kind (tk (make_graph false Y_self) 1) = GN.
Proof. repeat split; try (vm_compute; reflexivity). vm_compute. lia. Qed.

Theorem self_neighbour_refuted : exists Y, 1 <= lnx Y /\ 1 <= lny Y /\ 1 <= lnz Y /\ ~ wf (make_graph false Y).
Proof.
  exists Y_self. repeat split; simpl; try lia. intros W.
  destruct self_task_same_lock as [D0 [D1 [L _]]].
  apply (wf_locks_distinct _ W 1 0 0 L D0 D1). reflexivity.
Qed.

(* in the model the x-pair gradient task of subgrid 0 is never started, whatever the threads do:
   the hydro step never completes *)
Theorem self_neighbour_never_completes : forall n sched,
  ~ In (EStart 1) (log (exec (make_graph false Y_self) (init (make_graph false Y_self) n) sched)).
Proof.
  intros. destruct self_task_same_lock as [D0 [D1 _]]. eapply same_lock_never_starts; eauto.
Qed.

(* pinned commit: every layout with a periodic axis of one subgrid is rejected by wf_check (up to 3x3x3) *)
Lemma self_neighbour_all_rejected :
  forallb (fun Y => negb (self_neighbour Y) || negb (wf_check (make_graph false Y))) (layouts_upto 3) = true.
Proof. vm_cast_no_check (eq_refl true). Qed.

(* ------------------------------------------------------------------ early exit *)
Definition Y_one : layout := mkLayout 1 1 1 false false false.
Definition blk (thr t m : nat) : list label := repeat (L thr (Some t)) m.
(* thread 0 runs the 7 gradient tasks, the slope limiter and the prediction task up to the point where the
   internal flux task (9) has been queued but not yet counted; thread 1 takes it, finishes it, decrements
   number_of_tasks to 0 and leaves the loop although 8 tasks have not run *)
Definition early_sched : list label :=
  blk 0 0 12 ++ blk 0 1 12 ++ blk 0 2 12 ++ blk 0 3 12 ++ blk 0 4 12 ++ blk 0 5 12 ++ blk 0 6 14 ++
  blk 0 7 14 ++ blk 0 8 5 ++ blk 1 9 7.
Definition stoppedb (s : state) (t : nat) : bool := existsb (ev_eqb (EStop t)) (log s).

Lemma early_exit_possible :
  let g := make_graph true Y_one in
  let s := exec g (init g 2) early_sched in
  wf g /\ nth 1 (pcs s) Exited = Exited /\ nth 0 (pcs s) Exited = Inc 8 0 /\ ntasks s = 0
  /\ stoppedb s 9 = true /\ stoppedb s 10 = false /\ stoppedb s 17 = false.
Proof.
  split. apply wf_check_sound. vm_compute. reflexivity.
  vm_compute. repeat split; reflexivity.
Qed.

(* ... and the step is still completed by the remaining thread *)
Definition finish_sched : list label :=
  blk 0 8 30 ++ blk 0 10 12 ++ blk 0 11 12 ++ blk 0 12 12 ++ blk 0 13 12 ++ blk 0 14 12 ++ blk 0 15 12 ++
  blk 0 16 12 ++ blk 0 17 12 ++ blk 0 17 3.
Lemma early_exit_still_completes :
  let g := make_graph true Y_one in
  let s := exec g (init g 2) (early_sched ++ finish_sched) in
  pcs s = [Exited; Exited] /\ forallb (stoppedb s) (seq 0 (length g)) = true /\ length (log s) = 36.
Proof. vm_compute. repeat split; reflexivity. Qed.

(* the hypotheses of the generic theorems are satisfiable; the D2 witness is now well formed, and the same task
   that could never start has a single lock *)
Example wf_2x2x2_periodic : wf (make_graph true (mkLayout 2 2 2 true true true)).
Proof. apply make_graph_wf; simpl; lia. Qed.
Example wf_3x1x2_mixed : wf (make_graph true (mkLayout 3 1 2 true false true)).
Proof. apply make_graph_wf; simpl; lia. Qed.
Example wf_5x7x3_mixed : wf (make_graph true (mkLayout 5 7 3 false true true)).
Proof. apply make_graph_wf; simpl; lia. Qed.
Example wf_D2_witness_fixed : wf (make_graph true Y_self).
Proof. apply make_graph_wf; simpl; lia. Qed.
Example D2_witness_fixed_task : let t := tk (make_graph true Y_self) 1 in
  kind t = GN /\ sub t = 0 /\ other t = Some 0 /\ dep0 t = Some 0 /\ dep1 t = None /\ locks t = [0] /\ touches t = [0; 0]
  /\ locks (tk (make_graph true Y_self) 0) = [0].
Proof. vm_compute. repeat split; reflexivity. Qed.
