(* One numerical model, two interpretations: the operations a C++ double computation
   uses, as a record.  Instances: binary64 (PrimFloat, executable, compared bit for bit
   with the compiled code) and R (used in theorems).  pow/exp/log are fields: the float
   instance receives them from the driver (the same libm the C++ links), the real
   instance uses Rpower/exp/ln. *)
From Coq Require Import Reals Floats Bool ZArith.

Record SOps (T : Type) := mkSOps {
  s0 : T; s1 : T; s2 : T; shalf : T; squarter : T;
  sadd : T -> T -> T; ssub : T -> T -> T; smul : T -> T -> T; sdiv : T -> T -> T;
  sneg : T -> T;
  ssqrt : T -> T;
  spow : T -> T -> T;
  sabs : T -> T;
  sltb : T -> T -> bool;        (* a < b  *)
  sleb : T -> T -> bool;        (* a <= b *)
  seqb : T -> T -> bool;        (* a == b *)
  sisinf : T -> bool;           (* std::isinf *)
  sdblmin : T;                  (* DBL_MIN; an arbitrary eps in the real instance *)
  sgamma_floor : T;             (* 1.00000001 *)
  sconst : Z -> Z -> T;         (* decimal constant m * 10^e, correctly rounded in the float instance where used *)
}.

Arguments s0 {T}. Arguments s1 {T}. Arguments s2 {T}. Arguments shalf {T}. Arguments squarter {T}.
Arguments sadd {T}. Arguments ssub {T}. Arguments smul {T}. Arguments sdiv {T}. Arguments sneg {T}.
Arguments ssqrt {T}. Arguments spow {T}. Arguments sabs {T}. Arguments sltb {T}. Arguments sleb {T}.
Arguments seqb {T}. Arguments sisinf {T}. Arguments sdblmin {T}. Arguments sgamma_floor {T}. Arguments sconst {T}.

(* std::max(a,b) = (a < b) ? b : a     std::min(a,b) = (b < a) ? b : a *)
Definition smax {T} (S : SOps T) (a b : T) : T := if sltb S a b then b else a.
Definition smin {T} (S : SOps T) (a b : T) : T := if sltb S b a then b else a.

(* ---- reals ---- *)
Definition Rltb (a b : R) : bool := if Rlt_dec a b then true else false.
Definition Rleb (a b : R) : bool := if Rle_dec a b then true else false.
Definition Reqb (a b : R) : bool := if Req_EM_T a b then true else false.

Lemma Rltb_true a b : Rltb a b = true <-> (a < b)%R.
Proof. unfold Rltb. destruct (Rlt_dec a b); split; intros; try assumption; try reflexivity; try discriminate; contradiction. Qed.
Lemma Rltb_false a b : Rltb a b = false <-> (b <= a)%R.
Proof. unfold Rltb. destruct (Rlt_dec a b); split; intros; try reflexivity; try discriminate.
  - exfalso. apply (Rlt_irrefl a). eapply Rlt_le_trans; eassumption.
  - apply Rnot_lt_le. assumption. Qed.
Lemma Rleb_true a b : Rleb a b = true <-> (a <= b)%R.
Proof. unfold Rleb. destruct (Rle_dec a b); split; intros; try assumption; try reflexivity; try discriminate; contradiction. Qed.
Lemma Rleb_false a b : Rleb a b = false <-> (b < a)%R.
Proof. unfold Rleb. destruct (Rle_dec a b); split; intros; try reflexivity; try discriminate.
  - exfalso. apply (Rlt_irrefl a). eapply Rle_lt_trans; eassumption.
  - apply Rnot_le_lt. assumption. Qed.
Lemma Reqb_true a b : Reqb a b = true <-> a = b.
Proof. unfold Reqb. destruct (Req_EM_T a b); split; intros; try assumption; try reflexivity; try discriminate; contradiction. Qed.
Lemma Reqb_false a b : Reqb a b = false <-> a <> b.
Proof. unfold Reqb. destruct (Req_EM_T a b); split; intros; try assumption; try reflexivity; try discriminate; contradiction. Qed.

(* eps plays the role of DBL_MIN, gfloor of 1.00000001 *)
Definition ROps (eps gfloor : R) : SOps R := {|
  s0 := 0%R; s1 := 1%R; s2 := 2%R; shalf := (1/2)%R; squarter := (1/4)%R;
  sadd := Rplus; ssub := Rminus; smul := Rmult; sdiv := Rdiv; sneg := Ropp;
  ssqrt := R_sqrt.sqrt; spow := Rpower; sabs := Rabs;
  sltb := Rltb; sleb := Rleb; seqb := Reqb;
  sisinf := fun _ => false;
  sdblmin := eps; sgamma_floor := gfloor;
  sconst := fun m e => (IZR m * Rpower 10 (IZR e))%R;
|}.

(* ---- binary64 ---- *)
Definition f_isinf (x : float) : bool := PrimFloat.eqb x infinity || PrimFloat.eqb x neg_infinity.

Definition FOps (pw : float -> float -> float) (cst : Z -> Z -> float) : SOps float := {|
  s0 := 0%float; s1 := 1%float; s2 := 2%float; shalf := 0.5%float; squarter := 0.25%float;
  sadd := PrimFloat.add; ssub := PrimFloat.sub; smul := PrimFloat.mul; sdiv := PrimFloat.div; sneg := PrimFloat.opp;
  ssqrt := PrimFloat.sqrt; spow := pw; sabs := PrimFloat.abs;
  sltb := PrimFloat.ltb; sleb := PrimFloat.leb; seqb := PrimFloat.eqb;
  sisinf := f_isinf;
  sdblmin := 0x1p-1022%float; sgamma_floor := 0x1.0000002af31dcp+0%float;
  sconst := cst;
|}.
