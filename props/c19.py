# C19  time line: proof (Coq) + correspondence of the executable model with src/TimeLine.hpp
import os, math, json, re
import vf

LEVEL = "proof"
CLAIM = dict(cat="proof", design="§3 C19, Appendix A.1",
   text="Coq theorems (no axioms) over a Z model of TimeLine::advance/constructor/restart for every state satisfying the invariant and EVERY history of requests: "
        "step is a power of two in [min,max], not larger than requested, divides the remaining time, is the largest such, time strictly increases, never exceeds the end, "
        "a run that ends lands exactly on the end and its steps sum to the interval, stops only when the request is below the minimum, no division by zero, loops terminate. "
        "The model is tied to src/TimeLine.hpp by bit-exact differential execution (extracted model vs. real class) on generated histories on every run. Driver tie on the real binary (task-based RHD to its natural end; legacy RHD where photo-heating pushes the request below the configured minimum): every executed step lies in [configured min, configured max], time never passes the end, a completed run's executed steps sum to the interval (KNOWN FINDING: the drivers never integrate the last step), a run restarted from its final dump takes no step; constructor oracle: the integer limits are the configured ones rounded down to a power-of-two fraction.",
   note="Driver ties (no model): executed steps of both hydro drivers within the configured limits, no step after a restart from the final dump, and a legacy run stopped after every step and restarted continues at t + dt with the same number of steps. Trusted: Coq kernel; extraction (ExtrOcamlBasic, ExtrOCamlFloats, ExtrOCamlInt63) + OCaml for the correspondence only; the premise that A*2^k > request is monotone in k "
        "is decided per request by mono_check (soundness proved) rather than proved for all doubles; the end time is reproduced up to the rounding of fl(A*2^63+start).",
   technique="Coq proof by induction over request histories + extracted-model differential correspondence")
TOP = 1 << 63


def gen_case(rng, idx):
    """one time line + a history of requests; returns list of protocol lines"""
    mode = idx % 8
    if mode == 0:
        start, interval = 0.0, 1.0
    elif mode == 1:
        start, interval = 0.0, 10.0 ** (rng.uniform() * 20 - 3)
    elif mode == 2:
        start, interval = 10.0 ** (rng.uniform() * 10), 10.0 ** (rng.uniform() * 14)
    elif mode == 3:
        start, interval = -(10.0 ** (rng.uniform() * 6)), 10.0 ** (rng.uniform() * 8)
    elif mode == 4:
        start, interval = 0.0, float(2 ** (rng.below(60) - 20))
    else:
        start, interval = rng.uniform() * 1e3, (0.1 + rng.uniform()) * 3.15e13
    end = start + interval
    span = end - start
    a = span / float(TOP)
    mn = 0.0
    mx = 0.0
    r = rng.below(4)
    if r >= 1:
        mn = span * 2.0 ** (-(3 + rng.below(38))) * (1.0 + (rng.uniform() if r == 2 else 0.0))
    r = rng.below(4)
    if r >= 2:
        mx = span * 2.0 ** (-rng.below(8)) * (1.0 + (rng.uniform() if r == 3 else 0.0))
    elif r == 1 and mn > 0:
        mx = mn * 0.5                      # maximum below minimum
    lines = ["C %016x %016x %016x %016x" % (vf.dbl_bits(start), vf.dbl_bits(end), vf.dbl_bits(mn), vf.dbl_bits(mx))]
    hist = rng.below(7)
    n = 20 + rng.below(60)
    req = span * 2.0 ** (-rng.below(8))
    for i in range(n):
        if hist == 0:      # growing
            req = req * (1.0 + rng.uniform())
        elif hist == 1:    # shrinking slowly
            req = req * (1.0 - 0.2 * rng.uniform())
        elif hist == 2:    # wildly varying
            req = span * 2.0 ** (-(rng.uniform() * 12))
        elif hist == 3:    # exactly at / one ulp around A*2^k
            k = 52 + rng.below(12)
            base = a * float(1 << k)
            d = rng.below(3)
            req = base if d == 0 else (math.nextafter(base, 0.0) if d == 1 else math.nextafter(base, math.inf))
        elif hist == 4:    # large steps so that the end is reached, sometimes larger than the line
            req = span * (0.1 + 2.0 * rng.uniform())
        elif hist == 5:    # drops below the minimum at some point
            req = span * 2.0 ** (-(rng.uniform() * 6)) if i < n // 2 or mn == 0.0 else mn * (0.3 + rng.uniform())
        else:              # tiny / denormal / zero / huge / inf / nan
            req = rng.choice([5e-324, 1e-310, 0.0, 1e300, math.inf, span, span / 3, a, a * 0.75, math.nan if i > 3 else span / 7])
        lines.append("A %016x" % vf.dbl_bits(req))
        if rng.below(9) == 0:
            lines.append("R")
    return lines


CORPUS = [
    # unit line, no limits, steps 1/4,1/4,1/2 -> ends exactly
    ["C 0000000000000000 3ff0000000000000 0000000000000000 0000000000000000", "A 3fd0000000000001", "R",
     "A 3fe0000000000000", "A 3fe0000000000000", "A 3fe0000000000000"],
    # minimum 2^-10 of the line, request below it -> StopMin
    ["C 0000000000000000 3ff0000000000000 3f50000000000000 0000000000000000", "A 3fc0000000000000", "A 3f40000000000000"],
    # request 0 -> below absolute limit
    ["C 0000000000000000 3ff0000000000000 0000000000000000 3fc0000000000000", "A 3fb0000000000000", "A 0000000000000000"],
    # divisibility shortening: 1/8 then 1/2 requested -> 1/8 taken, then 1/4
    ["C 0000000000000000 3ff0000000000000 0000000000000000 0000000000000000", "A 3fc0000000000000", "A 3fe0000000000000",
     "A 3fe0000000000000", "A 3fe0000000000000", "A 3fe0000000000000", "A 3ff0000000000000"],
]


def oracle_case(lines_in, out):
    """property C19 decided on one implementation trace (integers exact, float clause
    'step not larger than requested' exactly as the comparison the property names).
    returns None or a description of the failing clause"""
    tmin = tmax = cur = None
    a = None
    for li, lo in zip(lines_in, out):
        f = lo.split()
        g = li.split()
        if f[0] == "C":
            if f[1] == "diverges":
                return None
            tmin, tmax, cur = int(f[1]), int(f[2]), int(f[3])
            a = vf.bits_dbl(int(f[4], 16))
            t_start, t_end = vf.bits_dbl(int(g[1], 16)), vf.bits_dbl(int(g[2], 16))
            t_prev = None
            mnv, mxv = vf.bits_dbl(int(g[3], 16)), vf.bits_dbl(int(g[4], 16))
            for v in (tmin, tmax):
                if v <= 0 or v & (v - 1) or v > TOP:
                    return "constructor: limit %d is not a power of two in [1,2^63]" % v
            if tmin > tmax or cur != 0:
                return "constructor: min > max or current time not 0"
            # the integer limits are the configured ones rounded down to a power-of-two fraction of the interval (independent of how the code finds them)
            def floor_pow2(v):
                t = TOP
                while t > 1 and a * float(t) > v:
                    t >>= 1
                return t
            if mnv > 0 and tmin != floor_pow2(mnv):
                return ("configured minimum: the time line uses the minimum step %d (%r s) but the configured minimum %r s rounds down to %d (%r s): requests below the configured minimum "
                        "do not stop the run / requests above it do" % (tmin, a * float(tmin), mnv, floor_pow2(mnv), a * float(floor_pow2(mnv))))
            if mnv <= 0 and tmin != 1:
                return "configured minimum: no minimum configured but the time line uses %d" % tmin
            want_max = max(tmin, floor_pow2(mxv)) if mxv > 0 else TOP
            if tmax != want_max:
                return "configured maximum: the time line uses the maximum step %d (%r s), the configured maximum %r s rounds down to %d" % (tmax, a * float(tmax), mxv, want_max)
        elif f[0] == "A" and len(f) >= 6 and cur is not None:
            req = vf.bits_dbl(int(g[1], 16))
            ret, ts, new = int(f[1]), int(f[4]), int(f[5])
            if cur >= TOP:
                continue
            if ts == 0:
                if new != cur:
                    return "stop changed the current time"
                if ret != 0:
                    return "no step taken but has_next is true"
                if not (a * float(tmin) > req):
                    return "run stopped although the request %r is not below the minimum step %r" % (req, a * float(tmin))
                continue
            if ts & (ts - 1):
                return "step %d is not a power of two" % ts
            if new != cur + ts:
                return "time did not advance by the step"
            if new > TOP:
                return "time %d exceeds the end" % new
            if a * float(ts) > req:
                return "step %r larger than requested %r" % (a * float(ts), req)
            if ts > tmax or ts < tmin:
                return "step outside [min,max]"
            if (TOP - cur) % ts:
                return "step does not divide the time remaining"
            if (ret == 1) != (new < TOP):
                return "has_next wrong: returned %d at time %d" % (ret, new)
            # maximality
            t2 = ts * 2
            if t2 <= tmax and (TOP - cur) % t2 == 0 and not (a * float(t2) > req):
                return "step %d is not the largest admissible one" % ts
            act = vf.bits_dbl(int(f[2], 16))
            if act != a * float(ts):
                return "reported step differs from A*ts"
            now = vf.bits_dbl(int(f[3], 16))
            # the reported physical time: strictly increasing, never past the end, on the end with the last step
            if t_end > t_start:
                if now > t_end:
                    return "reported time %r exceeds the end time %r (integer time %d of 2^63)" % (now, t_end, new)
                if new == TOP and now != t_end:
                    return "the last step lands on the reported time %r, the end time is %r" % (now, t_end)
                if t_prev is not None and not now > t_prev and a * float(ts) > abs(t_end) * 2.3e-16:
                    return "reported time does not increase: %r after %r" % (now, t_prev)
                t_prev = now
            cur = new
        elif f[0] == "R":
            pass
    return None


def split_cases(lines):
    cases, curc = [], None
    for i, l in enumerate(lines):
        if l.startswith("C "):
            curc = [i, i]
            cases.append(curc)
        if curc:
            curc[1] = i + 1
    return cases


MYR = 3.15576e13      # s (Julian year x 1e6, the code's Myr)


def driver_tie(ck):
    """the two hydro drivers use the time line as the property says: parsed from the log of complete runs of the real binary:
    every executed step is at least the configured minimum (a smaller request stops the run), at most the configured maximum,
    time never passes the end, the steps of a completed run sum to the total interval, and a run restarted from the dump
    written after its last step takes no further step"""
    import shutil
    okb, logb = vf.repo_ninja(["CMacIonize"])
    if not okb:
        ck.breaks.append("whole binary does not build: " + logb[-800:])
        return 0
    exe = os.path.join(vf.REPOBUILD, "rundir", "CMacIonize")
    conf = os.path.join(vf.VERIF, "harness", "configs")
    step_re = re.compile(r"Starting hydro step (\d+), t = ([0-9.eE+-]+) (s|Myr), dt = ([0-9.eE+-]+) (s|Myr)")
    def steps_of(out):
        res = []
        for m in step_re.finditer(out):
            t = float(m.group(2)) * (MYR if m.group(3) == "Myr" else 1.0)
            dt = float(m.group(4)) * (MYR if m.group(5) == "Myr" else 1.0)
            res.append((int(m.group(1)), t, dt))
        return res
    n = 0
    runs = [("task-based RHD, natural end", ["--task-based-rhd"], "hydro.param", {"total time: 0.02 s": "total time: 0.0001 s"}, 1e-4, 0.0, 0.0, True),
            ("legacy RHD, photo-heating drives the request below the configured minimum", ["--rhd"], "legacy_min_step.param", {}, 0.1 * MYR, 0.01 * MYR, 0.02 * MYR, False)]
    for name, mode, param, subs, total, tmin, tmax, restartable in runs:
        w = os.path.join(ck.scratch, "drv_" + param)
        shutil.rmtree(w, ignore_errors=True)
        os.makedirs(w)
        for f in os.listdir(conf):
            shutil.copy(os.path.join(conf, f), w)
        txt = open(os.path.join(conf, param)).read()
        for a, b in subs.items():
            txt = txt.replace(a, b)
        open(os.path.join(w, "run.param"), "w").write(txt)
        rc, out = vf.sh([exe] + mode + ["--params", "run.param", "--threads", "1", "--dirty"], cwd=w, timeout=600)
        st = steps_of(out)
        n += len(st)
        rp = {"driver_run": {"name": name, "mode": mode, "param": param, "subs": subs}}
        why = None
        if rc != 0:
            why = "the run exits with status %d" % rc
        elif not st:
            ck.breaks.append("driver tie: no 'Starting hydro step' lines in the log of `%s`" % name)
            continue
        for (k, t, dt) in st:
            if why:
                break
            if tmin > 0 and dt < tmin * (1 - 1e-5):
                why = "hydro step %d is executed with dt = %r s, below the configured minimum %r s (a request below the minimum must stop the run)" % (k, dt, tmin)
            elif tmax > 0 and dt > tmax * (1 + 1e-5):
                why = "hydro step %d is executed with dt = %r s, above the configured maximum %r s" % (k, dt, tmax)
            elif t + dt > total * (1 + 1e-5):
                why = "hydro step %d runs from t = %r s with dt = %r s past the end time %r s" % (k, t, dt, total)
        stopped = "Prematurely stopping" in out or "prematurely" in out.lower()
        clause = None
        if not why and not stopped and abs(sum(x[2] for x in st) - total) > 1e-5 * total:
            ssum = sum(x[2] for x in st)
            why = "the run completed but the %d steps it executed sum to %r s, the total interval is %r s" % (len(st), ssum, total)
            if abs(ssum + st[-1][2] - total) <= 1e-5 * total:
                # TimeLine::advance is called BEFORE a step is integrated and returns false for the step that lands on the end time;
                # the driver loop `while (has_next_step)` then ends without integrating that step
                clause = "last_step_not_integrated"
                why += (": the time line handed out a last step of %r s that lands on the end time, but the driver leaves its loop as soon as advance() returns false "
                        "and never integrates it (the final state and snapshot are those of t = %r s)" % (st[-1][2], ssum))
        if (not why or clause) and restartable:
            rc2, out2 = vf.sh([exe] + mode + ["--params", "run.param", "--threads", "1", "--dirty", "--restart", "."], cwd=w, timeout=600)
            st2 = steps_of(out2)
            if st2:
                clause = None
                why = "restarted from the dump written after its last step (t = end time) the run executes %d more step(s), the first from t = %r s (end time %r s)" % (len(st2), st2[0][1], total)
        if why:
            key = {"kind": "driver", "mode": mode[0]}
            if clause:
                key["clause"] = clause
            ck.violation("C19 fails on the real binary (%s): %s" % (name, why), rp, key=key)
        shutil.rmtree(w, ignore_errors=True)
    # "a time line saved and restored in the middle of a run continues identically", on the legacy driver: the run is stopped after every
    # step (wall-clock limit) and restarted; every leg must continue where the previous one stopped
    w = os.path.join(ck.scratch, "drv_legacy_chain")
    shutil.rmtree(w, ignore_errors=True)
    os.makedirs(w)
    for f in os.listdir(conf):
        shutil.copy(os.path.join(conf, f), w)
    txt = open(os.path.join(conf, "legacy_min_step.param")).read().replace("radiative heating: true", "radiative heating: false")
    txt = txt.replace("  minimum timestep: 0.01 Myr\n", "")
    open(os.path.join(w, "free.param"), "w").write(txt)
    open(os.path.join(w, "chain.param"), "w").write(txt + "\nRestartManager:\n  path: .\n  output interval: 1.e9 s\n  maximum number of backups: 0\n  maximum time: 0.000001 s\n")
    rc, out = vf.sh([exe, "--rhd", "--params", "free.param", "--threads", "1", "--dirty"], cwd=w, timeout=600)
    free = steps_of(out)
    chain, legs, why = [], 0, None
    for leg in range(2 * len(free) + 4):
        rc, out = vf.sh([exe, "--rhd", "--params", "chain.param", "--threads", "1", "--dirty"] + (["--restart", "."] if leg else []), cwd=w, timeout=600)
        st = steps_of(out)
        legs += 1
        if rc != 0:
            why = "leg %d of the chain exits with status %d" % (leg, rc)
            break
        for x in st:
            if chain and not why:
                k0, t0, dt0 = chain[-1]
                if x[0] != k0 + 1 or abs(x[1] - (t0 + dt0)) > 1e-4 * (t0 + dt0):
                    why = ("after stop/restart number %d the run continues with hydro step %d at t = %r s, but the step before it was step %d from t = %r s with dt = %r s "
                           "(the restored time line does not continue where the dumped one stopped)" % (leg, x[0], x[1], k0, t0, dt0))
            chain.append(x)
        if why or not st or "prematurely" not in out.lower():
            break
    n += len(chain)
    if not free or len(chain) < 2:
        ck.breaks.append("driver tie: the legacy stop/restart chain did not run (%d free steps, %d chain steps in %d legs)" % (len(free), len(chain), legs))
    elif not why and len(chain) != len(free) and legs < 2 * len(free) + 4:
        why = "stopped and restarted after every step the run takes %d steps, the uninterrupted run takes %d (same parameters)" % (len(chain), len(free))
    if why:
        ck.violation("C19 fails on the real binary (legacy RHD stopped by its wall-clock limit after every step and restarted, %d legs): %s" % (legs, why),
                     {"driver_run": {"name": "legacy_chain"}}, key={"kind": "driver", "mode": "--rhd", "clause": "restart_chain"})
    ck.coverage["driver_restart_chain"] = {"legs": legs, "steps": len(chain), "uninterrupted_steps": len(free)}
    shutil.rmtree(w, ignore_errors=True)
    ck.coverage["driver_steps_checked"] = n
    return n


def run(ck):
    ok_proof = ck.prove()
    driver_tie(ck)
    d = ck.scratch
    ok1, log1 = vf.coq_extract("C19", d)
    ok2, log2 = (False, "") if not ok1 else vf.ocaml_build(d, ["c19_model"], os.path.join(vf.VERIF, "ocaml/c19_driver.ml"), "model", floats=True)
    ok3, log3 = vf.cxx_build(os.path.join(vf.VERIF, "harness/c19/timeline_harness.cpp"), os.path.join(d, "impl"), openmp=False)
    if not ok3:
        ck.breaks.append("harness does not compile against /repo/src/TimeLine.hpp:\n" + log3[-2000:])
    if not (ok1 and ok2):
        ck.breaks.append("model extraction/build failed:\n" + (log1 + log2)[-2000:])
    ncases = 400 if ck.quick else 6000
    lines = []
    for c in CORPUS:
        lines += c
    for i in range(ncases):
        lines += gen_case(ck.rng, i)
    text = "\n".join(lines) + "\n"
    cov = ck.coverage
    mism = 0
    if ok3:
        rc_i, out_i = vf.run_lines([os.path.join(d, "impl"), os.path.join(d, "restart.tmp")], text, timeout=900)
        if rc_i != 0:
            ck.breaks.append("implementation harness exited with %d" % rc_i)
    if ok1 and ok2 and ok3:
        rc_m, out_m_raw = vf.run_lines([os.path.join(d, "model")], text, timeout=900)
        out_m = [l.split(" #")[0] for l in out_m_raw]
        tags = [l.split(" #")[1] if " #" in l else "" for l in out_m_raw]
        cases = split_cases(lines)
        sigs = set()
        hist = {}
        nadv = 0
        mono_false = 0
        for (b, e) in cases:
            sig = []
            for k in range(b, min(e, len(out_m_raw))):
                t = tags[k]
                if "br=" in t:
                    br = t.split("br=")[1].strip()
                    hist[br] = hist.get(br, 0) + 1
                    nadv += 1
                    sig.append(br + out_m[k].split()[4])
                if "mono=false" in t:
                    mono_false += 1
            s = " ".join(sig)
            if any(x[0] in "dmae" for x in sig):
                sigs.add(s)
            if out_i[b:e] != out_m[b:e]:
                mism += 1
                if mism <= 3:
                    k = b + vf.first_diff(out_i[b:e], out_m[b:e])
                    why = oracle_case(lines[b:e], out_i[b:e])
                    desc = "model and TimeLine.hpp disagree at op %d of case: impl=%r model=%r" % (k - b, out_i[k] if k < len(out_i) else None, out_m[k] if k < len(out_m) else None)
                    if why:
                        ck.violation("C19 fails on the real TimeLine: %s (%s)" % (why, desc), {"ops": lines[b:e], "impl_out": out_i[b:e], "failing_clause": why},
                                     key={"kind": "timeline", "clause": why.split(":")[0]})
                    else:
                        ck.breaks.append("correspondence C19 model <-> TimeLine.hpp: " + desc + " ops=" + json.dumps(lines[b:min(e, k + 1)]))
        if mono_false:
            ck.breaks.append("premise mono (A*2^k > request monotone in k) failed its executable check on %d requests" % mono_false)
        cov["evaluations"] = nadv
        cov["distinct_nontrivial"] = len(sigs)
        cov["rule"] = ("cases = one time line (start/end/min/max) + a request history from SplitMix64(VERIF_SEED); 8 interval modes x 7 history modes "
                       "(growing, shrinking, wild, on/around A*2^k by one ulp, reaching the end, dropping below the minimum, denormal/0/huge/inf/nan) with "
                       "dump+restore inserted at random; evaluations = advance calls compared bit for bit (return flag, step, time, both doubles); "
                       "a case is non-trivial when it contains a step shortened by the divisibility loop, a stop or reaches the end; distinct = distinct sequence of (branch, step)")
        cov["branch_histogram"] = {"s:plain step": hist.get("s", 0), "d:shortened by divisibility": hist.get("d", 0), "e:reached end": hist.get("e", 0),
                                   "m:stop below minimum": hist.get("m", 0), "a:stop below absolute limit": hist.get("a", 0)}
        cov["cases"] = len(cases)
        cov["case_mismatches"] = mism
        cov["mono_premise_checked_on_requests"] = nadv
        cov["samples"] = [{"ops": lines[b:e][:8], "impl_out": out_i[b:e][:8]} for (b, e) in cases[4:6]]
    # search on break: run the oracle on every implementation trace
    if ck.breaks and ok3:
        cases = split_cases(lines)
        found = 0
        for (b, e) in cases:
            why = oracle_case(lines[b:e], out_i[b:e])
            if why:
                found += 1
                if found <= 3 and not any(v["replay"].get("ops") == lines[b:e] for v in ck.violations if isinstance(v["replay"], dict)):
                    ck.violation("C19 fails on the real TimeLine: " + why, {"ops": lines[b:e], "impl_out": out_i[b:e], "failing_clause": why},
                                 key={"kind": "timeline", "clause": why.split(":")[0]})
        ck.notes.append("search-on-break: oracle evaluated on %d implementation traces, %d fail" % (len(cases), found))
    ck.assumptions += [
        "binary64 arithmetic of the model is Coq's PrimFloat extracted through ExtrOCamlFloats to OCaml's float (coq-core.kernel Float64); only the correspondence depends on it",
        "premise good_req (request >= 0 so that A*0 > request is false, and A*2^k > request monotone in k) is evaluated by mono_check on every request of the run, not proved for all doubles",
        "caller contract: advance is not called again after it returned false (both drivers skip such calls)",
        "reported physical time is fl(A*t+B): the end time is reproduced up to that rounding (stated, not proved)",
    ]
    ck.resolve_breaks_without_input()


def replay(ck, rp):
    if "driver_run" in rp.get("replay", {}):
        driver_tie(ck)
        bad = [v for v in ck.violations if v["key"].get("kind") == "driver"]
        print("REPLAY:", bad[0]["what"] if bad else "property holds on this input")
        return 1 if bad else 0
    d = ck.scratch
    ok3, log3 = vf.cxx_build(os.path.join(vf.VERIF, "harness/c19/timeline_harness.cpp"), os.path.join(d, "impl"), openmp=False)
    ops = rp["replay"]["ops"]
    rc, out = vf.run_lines([os.path.join(d, "impl"), os.path.join(d, "restart.tmp")], "\n".join(ops) + "\n")
    why = oracle_case(ops, out)
    print("\n".join(out))
    print("REPLAY:", why or "property holds on this input")
    return 1 if why else 0
