# C16  positions -> cells: proof (Coq, AMR keys/tree/blocks, Morton keys, Cartesian index maps) + correspondence of
# the extracted models with src/AMRGrid.hpp, AMRGridCell.hpp, MortonKeyGenerator.hpp, CartesianDensityGrid.{hpp,cpp};
# Octree / PointLocations searches are compared with brute force only (exploration evidence, not proved).
import os, json, math
import vf
import c16_interact
import c16_voronoi

LEVEL = "proof"
CLAIM = dict(cat="proof", design="§3 C16",
   text="PROVED in Coq (60 theorems) for literal models. (1) Integer models on exact (dyadic / lattice) arithmetic, no axioms: AMR keys and tree (AMRGridCell / AMRGrid): for every "
        "tree = every refinement history (C16_amr_trees_are_histories) and every block count 1..1024 per axis (odd ones included) get_first_key / get_next_key "
        "enumerate every single cell exactly once in depth first order and end with the sentinel, get_key(position) returns the key of the one cell whose box "
        "contains the position, operator[] inverts it, volumes sum to the box volume, refine_cell replaces exactly one cell by its 8 children, keys stay below "
        "2^31 / 2^62 up to depth 10 (the limit of the 32 bit cell key); Morton 21-bit interleave is injective (explicit inverse) and < 2^63; Cartesian long "
        "index <-> (ix,iy,iz) bijection, enumeration, containing cell, volumes, mutual neighbours with periodic wrap, is_inside wrap. "
        "(2) LEGACY PHOTON TRAVERSAL (C16_cart_*, C16_amr_*; real-number instance of models written once over a scalar type, standard real-number axioms only): "
        "CartesianDensityGrid::interact (get_cell_indices, get_wall_intersection, Scorr correction, index update, is_inside with its periodic side effect on index AND position) "
        "for ALL boxes, cell counts, periodicity flags, starts in the half open box, directions, non-negative opacities and positive targets: the credited lengths are >= 0 and the "
        "photon ends at start + (their sum) * direction + whole box periods on periodic axes only (path_sum); every visit is a cell of the grid and the piece of the straight line "
        "credited to it lies in its closed box (segments_in_cells); optical depth used = sum opacity * length = target when a cell is returned, = target - rest <= target when end() is "
        "returned (tau_sum); a returned cell is the last visited cell and contains the final position (exactly when the target was reached before the wall, modulo a box period when "
        "reached on a periodic wall) (absorbed_in_returned_cell); end() is returned only ON an open face, moving outward, target not exceeded (escaped_through_open_face); the final "
        "position is in the closed box and is not moved along an axis whose faces the line does not reach (final_position_in_box, no_spurious_wrap); the immediate-leave error is "
        "unreachable; nx+ny+nz+1 iterations suffice with open boundaries. AMRDensityGrid::interact, REPAIRED code (hooks/c16_fix_amr_interact.patch), for EVERY tree / block count / "
        "periodicity: the same theorem family, built on proved models of AMRGrid::set_ngbs + AMRGridCell::set_ngbs (C16_amr_neighbour_pointers: none exactly at an open face, else a "
        "valid same-or-coarser cell touching the face and covering the cell on the other axes), get_child(position) descent, periodic correction and get_cell(position) "
        "(C16_amr_locate_containing_cell). The PINNED AMRDensityGrid::interact is REFUTED with binary64 witnesses (3 defects, each replayed on the real class every run). "
        "Tie: extracted models vs the real classes on every run: keys in enumeration order, levels, boxes, volumes, position keys, refine keys, index maps, neighbour lists, wraps; "
        "and the binary64 instance of the SAME interact definitions vs the real CartesianDensityGrid::interact / AMRDensityGrid::interact BIT FOR BIT (returned iterator, final "
        "position, every changed mean intensity) on corpus + random photons (absorption in outermost cells heading outward / inward, starts on faces / edges / corners, axis aligned "
        "and nearly aligned rays, periodic wraps incl. absorption right after the wrap, targets at cell-wall partial sums +- 1 ulp, 1-cell-thick grids, vacuum cells; AMR: several "
        "refinement histories to depth 5, all periodicity flags), plus an exact-rational straight-line oracle for the property on every answer of the real code. "
        "CORRESPONDENCE ONLY (exploration evidence, not proved): Octree overlap / closest searches and PointLocations closest / radius searches vs brute force. VoronoiDensityGrid (both grid types, 0-3 Lloyd iterations): location = nearest generator, volumes sum to the box, "
        "per-cell path deposits = chords of the ray through the half-space cells, absorbed/escaped verdict; oracle on the generator positions the grid reports, no model of its traversal loop. PointLocations searches are also exercised with one compact corner cluster and a lattice of queries (searches that grow to their maximum range).",
   note="Positions of part (1) are lattice points at least as fine as the deepest cell; its correspondence runs on dyadic boxes where every binary64 operation of the code is exact. "
        "Traversal theorems are about exact real arithmetic; the binary64 instance is what is compared with the code (ExtrOCamlFloats extraction and the OCaml driver are trusted for the "
        "tie only); update_integrals is abstracted to the visit list + the hydrogen mean intensity (C16_cart_J_exact); get_optical_depth for HAS_HELIUM without VARIABLE_ABUNDANCES. "
        "AMR theorems assume a unit direction and are for the repaired code: the pinned AMRDensityGrid::interact has three defects which the check reports with minimal inputs until "
        "hooks/c16_fix_amr_interact.patch is applied (or they are registered): amr_interact_absorbed_reported_escaped (photon absorbed in an outermost cell heading for the open face is "
        "returned as end()), amr_interact_periodic_single_cell_hang (one cell along a periodic axis: interact never returns), amr_interact_periodic_wrong_child (crossing a periodic face "
        "into a finer region continues in the child on the far side: wrong cell credited and returned). Partial: termination is proved only for open Cartesian boundaries (periodic "
        "boxes of zero opacity loop forever in the real code too; AMR: fuel is a parameter of the theorems). Cells of zero density are traversed but not credited (update_integrals "
        "skips them). Earlier defect probes (pointlocations_face_ulp, amr_face_ulp, cartesian_face_ulp, octree_single_position) stay on; ulp-level ties where the stored box of the "
        "returned cell misses the position by one ulp remain. Search structures: only the abstract pruning-soundness theorem C16_search_pruning_partial and a one-axis distance lemma.",
   technique="Coq proofs over Z (tree / history induction) and over R (literal ray-march models generic in the scalar type, neighbour geometry by induction on the cell path) + extraction + "
             "bit-exact differential correspondence + exact-rational property oracle; brute-force oracles for the search structures")
LAT = 10          # lattice bits per AMR block side
CLAT = 16         # lattice units per Cartesian cell side
MAXDEPTH = 8
HARNESS = os.path.join(vf.VERIF, "harness/c16/grids_harness.cpp")
DRIVER = os.path.join(vf.VERIF, "ocaml/c16_driver.ml")


def hexd(x):
    return "%016x" % vf.dbl_bits(x)


def code(path):
    k, m = 0, 1
    for d in path:
        k += d * m
        m *= 8
    return k + m


def full_key(b, path):
    return (((b[0] << 20) + (b[1] << 10) + b[2]) << 32) + code(path)


# ---------------------------------------------------------------------------------------------------------------
# generators.  A case is a list of protocol lines; the first line names the structure.
def leaf_box(b, path):
    """lattice box (anchor, side) of a cell, relative to the grid anchor"""
    a = [b[0] << LAT, b[1] << LAT, b[2] << LAT]
    s = 1 << LAT
    for d in path:
        s >>= 1
        a[0] += ((d >> 2) & 1) * s
        a[1] += ((d >> 1) & 1) * s
        a[2] += (d & 1) * s
    return a, s


def gen_amr(rng, idx, quick):
    mode = idx % 8
    if mode == 0:
        n = (3, 3, 3)
    elif mode == 1:
        n = (1, 1, 1)
    elif mode == 2:
        n = (3, 1, 2)
    else:
        n = (1 + rng.below(3), 1 + rng.below(3), 1 + rng.below(3))
    nb = n[0] * n[1] * n[2]
    l0 = rng.below(3) if nb <= 8 else rng.below(2)
    e = rng.below(9) - 4
    off = [rng.below(8193) - 4096 for _ in range(3)] if rng.below(4) else [0, 0, 0]
    lines = ["G %d %d %d %d %d %d %d %d" % (n[0], n[1], n[2], l0, e, off[0], off[1], off[2])]
    # the generator's own bookkeeping of the cells, only used to produce valid keys
    leaves = []
    for ix in range(n[0]):
        for iy in range(n[1]):
            for iz in range(n[2]):
                paths = [()]
                for _ in range(l0):
                    paths = [p + (d,) for p in paths for d in range(8)]
                leaves += [((ix, iy, iz), p) for p in paths]
    nref = rng.below(13 if quick else 40)
    style = rng.below(4)          # 0 random cells, 1 chain into the last refined cell, 2 corners, 3 mixed
    last = None
    hist = []
    for r in range(nref):
        cand = None
        if style in (1, 3) and last is not None and len(last[1]) + 1 < MAXDEPTH and (style == 1 or rng.below(2)):
            cand = (last[0], last[1] + (rng.below(8),))
            if cand not in leaves:
                cand = None
        if cand is None and style == 2:
            c = [x for x in leaves if len(x[1]) < MAXDEPTH and all(d in (0, 7) for d in x[1])]
            if c:
                cand = c[rng.below(len(c))]
        if cand is None:
            c = [x for x in leaves if len(x[1]) < MAXDEPTH]
            if not c:
                break
            cand = c[rng.below(len(c))]
        i = leaves.index(cand)
        leaves[i:i + 1] = [(cand[0], cand[1] + (d,)) for d in range(8)]
        last = cand
        hist.append(full_key(cand[0], cand[1]))
        lines.append("R %d" % hist[-1])
        if rng.below(11) == 0:
            lines.append("E")
    lines.append("E")
    tot = [n[0] << LAT, n[1] << LAT, n[2] << LAT]
    pts = [(0, 0, 0), (tot[0] - 1, tot[1] - 1, tot[2] - 1), (tot[0] - 1, 0, tot[2] - 1)]
    for _ in range(6):
        pts.append(tuple(rng.below(tot[k]) for k in range(3)))
    for _ in range(8):
        b, p = leaves[rng.below(len(leaves))]
        a, s = leaf_box(b, p)
        w = rng.below(5)
        if w == 0:
            q = a                                                    # lower corner
        elif w == 1:
            q = [a[k] + s - 1 for k in range(3)]                     # last lattice point inside
        elif w == 2:
            q = [(a[k] + (s if rng.below(2) else 0)) % tot[k] for k in range(3)]   # on the upper faces = next cell
        elif w == 3:
            q = [a[k] + s // 2 for k in range(3)]                    # midpoint
        else:
            q = [a[k] + rng.below(s) for k in range(3)]
        pts.append(tuple(q))
    for q in pts:
        lines.append("K %d %d %d" % q)
    depth = max(len(p) for _, p in leaves)
    return lines, {"n": n, "l0": l0, "depth": depth, "nref": len(hist), "sig": (n, l0, tuple(hist))}


def gen_amr_ngb(rng, idx, quick):
    """an AMR case followed by set_ngbs with random periodicity flags (real code only)"""
    lines, meta = gen_amr(rng, idx, quick)
    lines = [l for l in lines if l[0] in "GR"]
    per = (rng.below(2), rng.below(2), rng.below(2))
    lines.append("B %d %d %d" % per)
    meta = dict(meta)
    meta["per"] = per
    return lines, meta


MORTON_CORPUS = [(0, 0, 0), (1, 0, 0), (0, 1, 0), (0, 0, 1), (2097151, 2097151, 2097151), (1048576, 0, 0), (0, 1048576, 0),
                 (0, 0, 1048576), (1048575, 1048575, 1048575), (1398101, 699050, 1398101), (699050, 1398101, 699050),
                 (2097151, 0, 0), (0, 2097151, 0), (0, 0, 2097151), (2097150, 2097150, 2097150)]
MORTON_CORPUS += [(1 << b, 0, 0) for b in range(21)] + [(0, 1 << b, 0) for b in range(21)] + [(0, 0, 1 << b) for b in range(21)]


def gen_morton(rng, quick):
    lines = ["Z %d %d %d" % t for t in MORTON_CORPUS]
    for i in range(1500 if quick else 20000):
        m = rng.below(4)
        if m == 0:
            t = tuple(rng.below(1 << 21) for _ in range(3))
        elif m == 1:
            b = rng.below(21)
            t = tuple(rng.below(1 << (b + 1)) for _ in range(3))
        elif m == 2:
            t = tuple((1 << 21) - 1 - rng.below(1 << rng.below(21)) for _ in range(3))
        else:
            base = [rng.below(1 << 21) for _ in range(3)]
            k = rng.below(3)
            base[k] ^= 1 << rng.below(21)      # neighbour in one bit of one coordinate
            t = tuple(base)
        lines.append("Z %d %d %d" % t)
    return lines


CART_CORPUS = [((1, 1, 1), (1, 1, 1)), ((1, 1, 1), (0, 0, 0)), ((3, 5, 7), (1, 0, 1)), ((2, 3, 2), (1, 1, 1)), ((7, 1, 3), (0, 1, 0)),
               ((2, 2, 2), (0, 0, 0)), ((1, 6, 1), (1, 1, 0)), ((4, 4, 5), (0, 0, 1))]


def gen_cart(rng, idx, quick):
    if idx < len(CART_CORPUS):
        n, per = CART_CORPUS[idx]
    else:
        n = tuple(1 + rng.below(7) for _ in range(3))
        per = tuple(rng.below(2) for _ in range(3))
    e = rng.below(9) - 4
    off = [CLAT * (rng.below(65) - 32) + (rng.below(CLAT) if rng.below(2) else 0) for _ in range(3)]
    lines = ["C %d %d %d %d %d %d %d %d %d %d" % (n + per + (e, off[0], off[1], off[2]))]
    tot = n[0] * n[1] * n[2]
    for l in range(tot):
        lines.append("L %d" % l)
    for l in range(tot):
        lines.append("N %d" % l)
    for _ in range(10):
        lines.append("I %d %d %d" % tuple(rng.below(n[k]) for k in range(3)))
    ext = [n[k] * CLAT for k in range(3)]
    pts = [(0, 0, 0), (ext[0] - 1, ext[1] - 1, ext[2] - 1)]
    for _ in range(12):
        w = rng.below(3)
        if w == 0:
            pts.append(tuple(rng.below(ext[k]) for k in range(3)))
        elif w == 1:
            pts.append(tuple(CLAT * rng.below(n[k]) for k in range(3)))                     # on cell faces
        else:
            pts.append(tuple(CLAT * rng.below(n[k]) + CLAT - 1 for k in range(3)))          # just below a face
    for q in pts:
        lines.append("P %d %d %d" % q)
    ws = [(-1, -1, -1), (n[0], n[1], n[2]), (0, 0, 0), (n[0] - 1, n[1] - 1, n[2] - 1), (-1, 0, n[2]), (n[0], -1, 0)]
    for _ in range(8):
        ws.append(tuple(rng.below(n[k] + 2) - 1 for k in range(3)))
    for w in ws:
        lines.append("W %d %d %d" % w)
    return lines, {"n": n, "per": per}


def gen_points(rng, n, style):
    pts = []
    for i in range(n):
        if style == 0:
            p = [rng.uniform() for _ in range(3)]
        elif style == 1:                                   # clustered
            c = [0.2 + 0.6 * ((i * 7 + k * 3) % 5) / 5.0 for k in range(3)]
            p = [min(0.999999, max(0.0, c[k] + 0.05 * (rng.uniform() - 0.5))) for k in range(3)]
        elif style == 4:                                   # one compact cluster in a corner: most buckets are empty
            if i == 0:
                gen_points.corner = [rng.below(2) for _ in range(3)]
            cc = gen_points.corner
            p = [(0.999999 - 0.18 * rng.uniform()) if cc[k] else 0.18 * rng.uniform() for k in range(3)]
        elif style == 2:                                   # lattice points: many equal distances
            p = [(rng.below(8) + 0.5) / 8.0 + 1e-3 * rng.uniform() for _ in range(3)]
        else:                                              # close to the box faces
            p = [rng.uniform() for _ in range(3)]
            k = rng.below(3)
            p[k] = (1e-9 * rng.uniform()) if rng.below(2) else (1.0 - 1e-9 * (1e-3 + rng.uniform()))
        pts.append(p)
    return pts


def gen_octree(rng, idx, quick):
    n = [2, 3, 9, 40, 100, 250][rng.below(6)]
    per = idx % 2
    style = rng.below(4)
    pts = gen_points(rng, n, style)
    hmax = [0.02, 0.1, 0.3, 0.7][rng.below(4)]
    lines = ["OT %d %d" % (n, per)]
    for p in pts:
        lines.append("p %s %s %s %s" % (hexd(p[0]), hexd(p[1]), hexd(p[2]), hexd(hmax * rng.uniform())))
    for q in range(12 if quick else 40):
        c = [rng.uniform() for _ in range(3)]
        if q % 4 == 3:
            c = list(pts[rng.below(n)])              # query at a data point
        r = 0.0 if q % 2 == 0 else 0.3 * rng.uniform()
        lines.append("Q %s %s %s %s" % (hexd(c[0]), hexd(c[1]), hexd(c[2]), hexd(r) if r > 0 else "0"))
        lines.append("QC %s %s %s" % (hexd(c[0]), hexd(c[1]), hexd(c[2])))
    return lines, {"n": n, "per": per}


def gen_locations(rng, idx, quick):
    n = [1, 2, 10, 64, 300, 1000][rng.below(6)]
    npc = [1, 2, 5, 10, 100][rng.below(5)]
    style = rng.below(5)
    if style == 4:
        n = [64, 300, 270][rng.below(3)]
        npc = [10, 34, 100][rng.below(3)]
    pts = gen_points(rng, n, style)
    lines = ["PL %d %d" % (n, npc)]
    for p in pts:
        lines.append("p %s %s %s 0" % (hexd(p[0]), hexd(p[1]), hexd(p[2])))
    for q in range(12 if quick else 40):
        c = [rng.uniform() for _ in range(3)]
        if q % 4 == 3:
            # not the last ulp below the face: that is the defect pointlocations_face_ulp, exhibited by probe_defects
            c = [0.0, 0.0, 0.0] if rng.below(2) else [1.0 - 2.0 ** -20] * 3
        lines.append("QP %s %s %s" % (hexd(c[0]), hexd(c[1]), hexd(c[2])))
        r = [0.01, 0.1, 0.5, 2.0][rng.below(4)] * (0.5 + rng.uniform())
        lines.append("QR %d %s" % (rng.below(n), hexd(r)))
    # a lattice of queries: with clustered / sparse generators many of them start in an empty bucket and force the search to grow to
    # its maximum range in some direction (the anchor-dependent end block of generalngbiterator::set_max_range is only exercised then)
    m = (5 if quick else 9) if (style in (1, 4) or n <= 64 or idx % 3 == 0) else 0
    for i in range(m):
        for j in range(m):
            for k in range(m):
                lines.append("QP %s %s %s" % (hexd((i + 0.5) / m), hexd((j + 0.37) / m), hexd((k + 0.61) / m)))
    return lines, {"n": n, "npc": npc}


# ---------------------------------------------------------------------------------------------------------------
# output bookkeeping: the answer to one input line is one output line, except E (1 + n + 1 lines) and p (none)
def split_outputs(lines, out):
    """returns list (one per input line) of lists of output lines; short if the output ends early"""
    res, k = [], 0
    for l in lines:
        op = l.split()[0]
        if op == "p":
            res.append([])
            continue
        if k >= len(out):
            res.append(None)
            continue
        if op in ("E", "B"):
            f = out[k].split()
            n = int(f[1]) if len(f) == 2 and f[0] == op and f[1].isdigit() else 0
            if k + n + 2 > len(out):          # the process died inside the enumeration
                res.append(None)
                k = len(out)
            else:
                res.append(out[k:k + n + 2])
                k += n + 2
        else:
            res.append([out[k]])
            k += 1
    return res


# ---------------------------------------------------------------------------------------------------------------
# oracles: the property decided on the outputs of the real code only
def oracle_amr(ops, outs):
    g = ops[0].split()
    n = [int(g[1]), int(g[2]), int(g[3])]
    e = int(g[5])
    off = [int(g[6]), int(g[7]), int(g[8])]
    unit = math.ldexp(1.0, e - LAT)
    bside = math.ldexp(1.0, e)
    boxlo = [off[k] * unit for k in range(3)]
    boxvol = (n[0] * bside) * (n[1] * bside) * (n[2] * bside)
    ncells = None
    cells = None
    for op, o in zip(ops, outs):
        if o is None:
            return "no answer to %r (the real code stopped)" % op
        f = op.split()
        if f[0] == "G":
            ncells = int(o[0].split()[1])
        elif f[0] == "R":
            r = o[0].split()
            if len(r) != 3:
                return "refine_cell gave %r" % o[0]
            if int(r[2]) != ncells + 7:
                return "refining one cell changed the number of cells from %d to %s" % (ncells, r[2])
            ncells = int(r[2])
            cells = None
        elif f[0] == "E":
            cnt = int(o[0].split()[1])
            if cnt != ncells:
                return "key enumeration visits %d cells, the grid has %d" % (cnt, ncells)
            cells = {}
            vs = 0.0
            for c in o[1:-1]:
                t = c.split()
                key = int(t[1])
                if key in cells:
                    return "key enumeration visits cell %d twice" % key
                a = [vf.bits_dbl(int(t[3 + k], 16)) for k in range(3)]
                s = [vf.bits_dbl(int(t[6 + k], 16)) for k in range(3)]
                vol = vf.bits_dbl(int(t[9], 16))
                if t[11] != "1":
                    return "enumerated key %d is not a single cell" % key
                if int(t[10]) != key:
                    return "midpoint of cell %d is located in cell %s" % (key, t[10])
                if vol != s[0] * s[1] * s[2]:
                    return "volume of cell %d is not the product of its sides" % key
                for k in range(3):
                    if not (boxlo[k] <= a[k] and a[k] + s[k] <= boxlo[k] + n[k] * bside):
                        return "cell %d sticks out of the box" % key
                cells[key] = (a, s)
                vs += vol
            if vs != boxvol:
                return "cell volumes sum to %r, box volume is %r" % (vs, boxvol)
            if vf.bits_dbl(int(o[-1].split()[1], 16)) != boxvol:
                return "accumulated cell volume differs from the box volume"
        elif f[0] == "K":
            t = o[0].split()
            if len(t) != 9:
                return "get_key gave %r" % o[0]
            p = [(off[k] + int(f[1 + k])) * unit for k in range(3)]
            a = [vf.bits_dbl(int(t[3 + k], 16)) for k in range(3)]
            s = [vf.bits_dbl(int(t[6 + k], 16)) for k in range(3)]
            if not all(a[k] <= p[k] < a[k] + s[k] for k in range(3)):
                return "position %r is located in cell %s whose box [%r,+%r) does not contain it" % (p, t[1], a, s)
            if cells is not None:
                if int(t[1]) not in cells:
                    return "position %r is located in key %s which the enumeration does not visit" % (p, t[1])
                holders = [k2 for k2, (a2, s2) in cells.items() if all(a2[k] <= p[k] < a2[k] + s2[k] for k in range(3))]
                if len(holders) != 1:
                    return "position %r lies in %d cells" % (p, len(holders))
    return None


def oracle_amr_ngb(ops, outs):
    """neighbour pointers: a neighbour is a cell of the same or a coarser level that touches the face (with periodic
    wrap where enabled, none only at an open box face), and same-level neighbours point back"""
    g = ops[0].split()
    n = [int(g[1]), int(g[2]), int(g[3])]
    e = int(g[5])
    off = [int(g[6]), int(g[7]), int(g[8])]
    unit = math.ldexp(1.0, e - LAT)
    bside = math.ldexp(1.0, e)
    lo = [off[k] * unit for k in range(3)]
    hi = [lo[k] + n[k] * bside for k in range(3)]
    for op, o in zip(ops, outs):
        if o is None:
            return "no answer to %r (the real code stopped)" % op
        f = op.split()
        if f[0] != "B":
            continue
        per = [int(f[1]), int(f[2]), int(f[3])]
        for c in o[1:-1]:
            t = c.split()
            key, lev = int(t[1]), int(t[2])
            a = [vf.bits_dbl(int(t[3 + k], 16)) for k in range(3)]
            s = [vf.bits_dbl(int(t[6 + k], 16)) for k in range(3)]
            for d in range(6):
                ax, high = d // 2, d & 1
                at_face = (a[ax] + s[ax] == hi[ax]) if high else (a[ax] == lo[ax])
                if t[9 + d] == "N":
                    if not (at_face and not per[ax]):
                        return "cell %d has no neighbour in direction %d although it is not at an open box face" % (key, d)
                    continue
                q = t[9 + d].split(",")
                nl, single, back = int(q[0]), q[1] == "1", q[2] == "1"
                na = [vf.bits_dbl(int(q[3 + k], 16)) for k in range(3)]
                ns = [vf.bits_dbl(int(q[6 + k], 16)) for k in range(3)]
                if at_face and not per[ax]:
                    return "cell %d has a neighbour through an open box face (direction %d)" % (key, d)
                if nl > lev:
                    return "neighbour of cell %d in direction %d is on a deeper level (%d > %d)" % (key, d, nl, lev)
                if nl < lev and not single:
                    return "neighbour of cell %d in direction %d is a coarser cell that is refined" % (key, d)
                if high:
                    want = lo[ax] if at_face else a[ax] + s[ax]
                    touch = na[ax] == want
                else:
                    want = hi[ax] if at_face else a[ax]
                    touch = na[ax] + ns[ax] == want
                if not touch:
                    return "neighbour of cell %d in direction %d does not touch its face" % (key, d)
                for k in range(3):
                    if k != ax and not (na[k] <= a[k] and a[k] + s[k] <= na[k] + ns[k]):
                        return "neighbour of cell %d in direction %d does not cover its face" % (key, d)
                if nl == lev and not back:
                    return "neighbour relation not mutual: cell %d -> direction %d -> same level cell that does not point back" % (key, d)
                if nl < lev and back:
                    return "coarser neighbour of cell %d points back to it" % key
    return None


def oracle_morton(ops, outs):
    seen = {}
    for op, o in zip(ops, outs):
        if o is None:
            return "no answer to %r" % op
        t = tuple(int(x) for x in op.split()[1:])
        k = int(o[0].split()[1])
        if not (0 <= k < 1 << 63):
            return "Morton key of %r does not fit 63 bits" % (t,)
        if k in seen and seen[k] != t:
            return "Morton key %d is produced for %r and for %r" % (k, seen[k], t)
        seen[k] = t
    return None


def oracle_cart(ops, outs):
    g = ops[0].split()
    n = [int(g[1]), int(g[2]), int(g[3])]
    per = [int(g[4]), int(g[5]), int(g[6])]
    e = int(g[7])
    off = [int(g[8]), int(g[9]), int(g[10])]
    unit = math.ldexp(1.0, e - 4)
    tot = n[0] * n[1] * n[2]
    idx_of, l_of, ngb = {}, {}, {}
    for op, o in zip(ops, outs):
        if o is None:
            return "no answer to %r (the real code stopped)" % op
        f = op.split()
        t = o[0].split()
        if f[0] == "C":
            if int(t[1]) != tot:
                return "number of cells %s is not %d" % (t[1], tot)
        elif f[0] == "L":
            l = int(f[1])
            i3 = (int(t[1]), int(t[2]), int(t[3]))
            if not all(0 <= i3[k] < n[k] for k in range(3)):
                return "long index %d maps to indices %r outside the grid" % (l, i3)
            if int(t[4]) != l:
                return "long index %d -> indices %r -> long index %s" % (l, i3, t[4])
            if i3 in l_of:
                return "long indices %d and %d map to the same cell %r" % (l_of[i3], l, i3)
            l_of[i3] = l
            idx_of[l] = i3
        elif f[0] == "I":
            i3 = (int(f[1]), int(f[2]), int(f[3]))
            if i3 in l_of and l_of[i3] != int(t[1]):
                return "indices %r have long index %s, but long index %d maps to them" % (i3, t[1], l_of[i3])
        elif f[0] == "N":
            ngb[int(f[1])] = [int(x) for x in t[1:]]
        elif f[0] == "P":
            p = [(off[k] + int(f[1 + k])) * unit for k in range(3)]
            a = [vf.bits_dbl(int(t[5 + k], 16)) for k in range(3)]
            s = [vf.bits_dbl(int(t[8 + k], 16)) for k in range(3)]
            if not all(a[k] <= p[k] < a[k] + s[k] for k in range(3)):
                return "position %r is located in cell %s whose box does not contain it" % (p, t[1:4])
            i3 = (int(t[1]), int(t[2]), int(t[3]))
            if i3 in l_of and l_of[i3] != int(t[4]):
                return "position %r: cell indices %r but cell index %s" % (p, i3, t[4])
        elif f[0] == "W":
            w = [int(f[1]), int(f[2]), int(f[3])]
            j = [int(t[2]), int(t[3]), int(t[4])]
            sh = [int(t[5]), int(t[6]), int(t[7])]
            inside = True
            for k in range(3):
                if per[k]:
                    if not (0 <= j[k] < n[k] and (j[k] - w[k]) % n[k] == 0 and w[k] + sh[k] * n[k] == j[k]):
                        return "periodic wrap of index %d on an axis with %d cells gives %d (position moved by %d box sides)" % (w[k], n[k], j[k], sh[k])
                else:
                    inside = inside and 0 <= w[k] < n[k]
            if (t[1] == "1") != inside:
                return "is_inside(%r) = %s" % (w, t[1])
    for l, ns in ngb.items():
        if len(ns) != 6:
            return "cell %d has %d neighbour entries" % (l, len(ns))
        for fidx, j in enumerate(ns):
            if j < 0:
                if per[fidx // 2]:
                    return "cell %d has no neighbour through face %d of a periodic axis" % (l, fidx)
                continue
            if j not in ngb:
                return "neighbour %d of cell %d is not a cell" % (j, l)
            if ngb[j][fidx ^ 1] != l:
                return "cell %d has neighbour %d through face %d, but %d has %d through the opposite face" % (l, j, fidx, j, ngb[j][fidx ^ 1])
            if l in idx_of and j in idx_of:
                a, b = idx_of[l], idx_of[j]
                ax = fidx // 2
                d = 1 if fidx & 1 else -1
                if any(a[k] != b[k] for k in range(3) if k != ax) or (a[ax] + d) % n[ax] != b[ax]:
                    return "neighbour %d %r of cell %d %r through face %d is not adjacent" % (j, b, l, a, fidx)
    return None


def oracle_search(ops, outs):
    for op, o in zip(ops, outs):
        f = op.split()
        if f[0] == "p":
            continue
        if o is None:
            return "no answer to %r (the real code stopped)" % op
        s = o[0]
        if f[0] in ("Q", "QR"):
            a = s.split(":")
            got = a[1].rsplit(" ", 1)[0].split()
            want = a[2].split(" blocks")[0].split()
            if got != want:
                return "%s returns %s, brute force %s" % ("Octree overlap search" if f[0] == "Q" else "PointLocations radius search", " ".join(got) or "nothing", " ".join(want) or "nothing")
        elif f[0] in ("QC", "QP"):
            t = s.split()
            if t[3] != t[6]:
                return "%s returns point %s at distance bits %s, brute force %s at %s" % ("Octree closest point" if f[0] == "QC" else "PointLocations closest point", t[2], t[3], t[5], t[6])
    return None



# ---------------------------------------------------------------------------------------------------------------
# defects of the real code outside the exact-arithmetic domain of the theorems.  Every probe case runs in its own
# child process (a segfault / abort only ends that case); each defect is reported once, with a minimal replay.
def inside(p, a, s):
    return all(a[k] <= p[k] < a[k] + s[k] for k in range(3))


def face_candidates(a, side, cells):
    """positions on and within two ulps of the faces of a row of `cells` cells along x"""
    out = []
    for i in range(cells + 1):
        f = a + (side / cells) * i
        d1 = math.nextafter(f, -math.inf)
        out += [f, d1, math.nextafter(d1, -math.inf), math.nextafter(f, math.inf)]
    return out


NONDYADIC = [(-1.3, 3.7), (5.0, 0.3), (0.0, 1.0), (-7.25e3, 1.1e4)]


def oracle_pl_face(ops, outs):
    return oracle_search(ops, outs)


def oracle_amr_face(ops, outs):
    keys = None
    for op, o in zip(ops, outs):
        if o is None:
            return "no answer to %r (the real code stopped)" % op
        f = op.split()
        if f[0] == "E":
            keys = set(int(c.split()[1]) for c in o[1:-1])
            if len(keys) != int(o[0].split()[1]):
                return "enumeration repeats keys"
        elif f[0] == "KD":
            k = int(o[0].split()[1])
            if keys is not None and k not in keys:
                ck_ = k & 0xffffffff
                lev = 0
                while (ck_ >> (3 * lev)) > 1:
                    lev += 1
                return ("get_key(position) for a position inside the half open box returns %d (block %d,%d,%d, cell part %d with its marker on level %d), "
                        "which is not the key of a cell of the grid" % (k, (k >> 52) & 1023, (k >> 42) & 1023, (k >> 32) & 1023, ck_, lev))
    return None


def oracle_cart_face(ops, outs):
    n = None
    for op, o in zip(ops, outs):
        if o is None:
            return "no answer to %r (the real code stopped)" % op
        f = op.split()
        if f[0] == "CA":
            n = [int(f[1]), int(f[2]), int(f[3])]
        elif f[0] == "PD":
            t = o[0].split()
            idx = [int(t[1]), int(t[2]), int(t[3])]
            if not all(0 <= idx[k] < n[k] for k in range(3)):
                return "get_cell_indices maps a position inside the half open box to indices %r of a %dx%dx%d grid (cell index %s)" % (idx, n[0], n[1], n[2], t[4])
    return None


def probe_cases(quick):
    """(kind key, oracle kind, list of cases); a case = list of ops"""
    res = {}
    # PointLocations: unit box, cells per axis 3,5,6,7 (and 4: must pass), query one ulp below the upper faces
    top = 1.0 - 2.0 ** -53
    pl = []
    for n, seed in ((300, 16), (27, 17), (125, 18), (216, 19), (343, 20), (64, 21)):
        r = vf.SplitMix64(seed)
        npc = 10 if n == 300 else 1
        pts = ["p %s %s %s 0" % (hexd(r.uniform()), hexd(r.uniform()), hexd(r.uniform())) for _ in range(n)]
        for q in ((top, 0.5, 0.5), (0.5, top, 0.5), (0.5, 0.5, top), (top, top, top)):
            pl.append((["PL %d %d" % (n, npc)] + pts + ["QP %s %s %s" % tuple(hexd(x) for x in q)],
                       {"box": "[0,1)^3", "points": "SplitMix64(%d).uniform() x 3 per point" % seed, "count": n, "per_cell": npc,
                        "query_bits": [hexd(x) for x in q]}))
    res["pointlocations_face_ulp"] = ("PLF", pl)
    # AMR: non dyadic boxes, uniform depth 3, positions on / next to the faces of the finest cells
    amr = []
    for (a, side) in NONDYADIC:
        for n in ((1, 3, 6, 7) if quick else range(1, 8)):
            box = "%s %s %s %s %s %s" % (hexd(a), hexd(a), hexd(a), hexd(side), hexd(side), hexd(side))
            head = ["GA %d 1 1 3 %s" % (n, box), "E"]
            for p in face_candidates(a, side, n * 8):
                if a <= p < a + side:
                    amr.append((head + ["KD %s %s %s" % (hexd(p), hexd(a), hexd(a))],
                                {"box_anchor": a, "box_side": side, "blocks": [n, 1, 1], "depth": 3, "position": [p, a, a]}))
    res["amr_face_ulp"] = ("GA", amr)
    cart = []
    for (a, side) in NONDYADIC:
        for n in ((1, 3, 5, 10, 37, 64) if quick else range(1, 65)):
            box = "%s %s %s %s %s %s" % (hexd(a), hexd(a), hexd(a), hexd(side), hexd(side), hexd(side))
            for p in face_candidates(a, side, n):
                if a <= p < a + side:
                    cart.append((["CA %d 1 1 %s" % (n, box), "PD %s %s %s" % (hexd(p), hexd(a), hexd(a))],
                                 {"box_anchor": a, "box_side": side, "cells": [n, 1, 1], "position": [p, a, a]}))
    res["cartesian_face_ulp"] = ("CA", cart)
    one = ["OT 1 0", "p %s %s %s %s" % (hexd(0.5), hexd(0.5), hexd(0.5), hexd(0.25)),
           "Q %s %s %s 0" % (hexd(0.5), hexd(0.5), hexd(0.75)), "Q %s %s %s %s" % (hexd(0.5), hexd(0.5), hexd(0.875), hexd(0.125)),
           "QC %s %s %s" % (hexd(0.1), hexd(0.2), hexd(0.3))]
    res["octree_single_position"] = ("OT", [(one, {"positions": [[0.5, 0.5, 0.5]], "h": 0.25})])
    return res


def run_grouped(ck, group, valgrind=False):
    """several probe cases that share their first line(s) are run in one child process each group; returns outs per case"""
    exe = [os.path.join(ck.scratch, "impl")]
    if valgrind:
        exe = ["valgrind", "-q", "--error-exitcode=9"] + exe
    rc, out = vf.run_lines(exe, "\n".join(group) + "\n", timeout=300)
    return rc, out


def probe_defects(ck):
    cov = ck.coverage
    summary = {}
    for key, (okind, plist) in probe_cases(ck.quick).items():
        oracle = ORACLES[okind]
        # cases with the same set-up lines share one process: set-up once, then the queries; on a failure the
        # failing query is re-run alone (set-up + that query) to get the minimal replay
        groups = {}
        for ops, meta in plist:
            nset = max(i for i, l in enumerate(ops) if l.split()[0] not in ("QP", "KD", "PD", "Q", "QC")) + 1 if okind != "OT" else 2
            groups.setdefault(tuple(ops[:nset]), []).append((ops[nset:], meta))
        nrun = nfail = 0
        first = None
        for setup, qs in groups.items():
            allq = [q for qq, _ in qs for q in qq]
            ops = list(setup) + allq
            rc, out = run_grouped(ck, ops)
            why = oracle(ops, split_outputs(ops, out))
            nrun += len(allq)
            if why is None:
                continue
            for qq, meta in qs:                      # locate: each query alone in its own process
                ops1 = list(setup) + qq
                rc1, out1 = run_grouped(ck, ops1)
                why1 = oracle(ops1, split_outputs(ops1, out1))
                if why1:
                    nfail += 1
                    # prefer a wrong answer over a crash as the exhibited input (both count)
                    if first is None or (first[2].startswith("no answer") and not why1.startswith("no answer")):
                        first = (ops1, out1, why1, meta, rc1)
        vg = None
        if key == "octree_single_position" and not ck.quick:
            ops1 = plist[0][0]
            rcv, outv = run_grouped(ck, ops1, valgrind=True)
            vg = rcv
            if rcv == 9 and first is None:
                first = (ops1, outv, "valgrind: a search on an Octree with one position depends on an uninitialised value (OctreeNode::_child of the root leaf)", plist[0][1], rcv)
                nfail += 1
        summary[key] = {"probes": nrun, "failing": nfail}
        if vg is not None:
            summary[key]["valgrind_exit"] = vg
        if first is not None:
            ops1, out1, why1, meta, rc1 = first
            ck.violation("C16 defect %s on the real code (%d of %d probes fail; child exit code %s): %s" % (key, nfail, nrun, rc1, why1),
                         {"kind": okind, "ops": ops1, "impl_out": out1[:20], "failing_clause": why1, "input": meta, "valgrind": bool(vg == 9)},
                         key={"kind": key})
    cov["defect_probes"] = summary

ORACLES = {"G": oracle_amr, "Z": oracle_morton, "C": oracle_cart, "OT": oracle_search, "PL": oracle_search, "GN": oracle_amr_ngb,
           "PLF": oracle_pl_face, "GA": oracle_amr_face, "CA": oracle_cart_face}
NAMES = {"G": "AMRGrid", "Z": "MortonKeyGenerator", "C": "CartesianDensityGrid", "OT": "Octree", "PL": "PointLocations",
         "GN": "AMRGrid neighbour pointers", "PLF": "PointLocations", "GA": "AMRGrid", "CA": "CartesianDensityGrid"}


# ---------------------------------------------------------------------------------------------------------------
def build(ck, need_model=True):
    d = ck.scratch
    ok3, log3 = vf.cxx_build(HARNESS, os.path.join(d, "impl"), libs=False, openmp=True)
    if not ok3:
        ck.breaks.append("harness does not compile against the repository:\n" + log3[-2500:])
    okm = False
    ck.c16_extracted = False
    if need_model:
        ok1, log1 = vf.coq_extract("C16", d)
        ck.c16_extracted = ok1
        ok2, log2 = (False, "") if not ok1 else vf.ocaml_build(d, ["c16_model"], DRIVER, "model")
        okm = ok1 and ok2
        if not okm:
            ck.breaks.append("model extraction/build failed:\n" + (log1 + log2)[-2000:])
    return ok3, okm


def run_impl(ck, ops):
    rc, out = vf.run_lines([os.path.join(ck.scratch, "impl")], "\n".join(ops) + "\n", timeout=900)
    return rc, out


def run(ck):
    ck.prove(timeout=1200)
    ok3, okm = build(ck)
    quick = ck.quick
    rng = ck.rng
    cases = []     # (kind, ops, meta)
    for i in range(160 if quick else 1500):
        ops, meta = gen_amr(rng, i, quick)
        cases.append(("G", ops, meta))
    cases.append(("Z", gen_morton(rng, quick), {}))
    for i in range(40 if quick else 300):
        ops, meta = gen_cart(rng, i, quick)
        cases.append(("C", ops, meta))
    for i in range(60 if quick else 500):
        ops, meta = gen_octree(rng, i, quick)
        cases.append(("OT", ops, meta))
    for i in range(60 if quick else 500):
        ops, meta = gen_locations(rng, i, quick)
        cases.append(("PL", ops, meta))
    for i in range(40 if quick else 300):
        ops, meta = gen_amr_ngb(rng, i, quick)
        cases.append(("GN", ops, meta))
    allops = []
    spans = []
    for kind, ops, meta in cases:
        spans.append((len(allops), len(allops) + len(ops)))
        allops += ops
    cov = ck.coverage
    # traversal clauses (CartesianDensityGrid::interact / AMRDensityGrid::interact): own harness, own model driver
    tr = c16_interact.run_interact(ck, ck.c16_extracted)
    # Voronoi grids (VoronoiDensityGrid: location, volumes, traversal) against the half-space definition of a Voronoi cell
    nvor = c16_voronoi.run_voronoi(ck)
    if not ok3:
        ck.resolve_breaks_without_input()
        return
    # one process for all cases; when the real code aborts / crashes inside a case the run is resumed with the next case
    per_i = [None] * len(allops)
    start, crashes = 0, []
    while start < len(cases) and len(crashes) < 25:
        base = spans[start][0]
        rc_i, out_i = run_impl(ck, allops[base:])
        per = split_outputs(allops[base:], out_i)
        per_i[base:] = per
        first_none = next((k for k, o in enumerate(per) if o is None), None)
        if rc_i == 0 or first_none is None:
            break
        cc = next(ci for ci in range(start, len(cases)) if spans[ci][0] <= base + first_none < spans[ci][1])
        crashes.append((cc, rc_i))
        for k in range(base + first_none, spans[cc][1]):
            per_i[k] = None
        start = cc + 1
    if crashes:
        ck.breaks.append("the real code stopped (exit codes %s) inside %d case(s), first: %r" %
                         (sorted(set(rc for _, rc in crashes)), len(crashes), cases[crashes[0][0]][1][0]))
    per_m = None
    if okm:
        mops = [l for k, ops, _ in cases if k in "GZC" for l in ops]
        rc_m, out_m = vf.run_lines([os.path.join(ck.scratch, "model")], "\n".join(mops) + "\n", timeout=900)
        out_m = [l.split(" #")[0] for l in out_m]
        if rc_m != 0:
            ck.breaks.append("model driver exited with %d" % rc_m)
        per_m_list = split_outputs(mops, out_m)
        per_m = {}
        j = 0
        for ci, (k, ops, _) in enumerate(cases):
            if k in "GZC":
                per_m[ci] = per_m_list[j:j + len(ops)]
                j += len(ops)
    evals = 0
    nviol = 0
    mism = {"G": 0, "Z": 0, "C": 0, "OT": 0, "PL": 0, "GN": 0}
    sigs = set()
    hist_depth, hist_blocks, hist_cart, hist_search = {}, {}, {}, {}
    failed_cases = set()

    def report(ci, why, extra=""):
        nonlocal nviol
        kind, ops, meta = cases[ci]
        b, e = spans[ci]
        if nviol < 4:
            ck.violation("C16 fails on the real %s: %s%s" % (NAMES[kind], why, extra),
                         {"kind": kind, "ops": ops, "impl_out": [x for o in per_i[b:e] if o for x in o][:400], "failing_clause": why},
                         key={"kind": NAMES[kind], "clause": why.split(":")[0][:60]})
        nviol += 1
        failed_cases.add(ci)

    for ci, (kind, ops, meta) in enumerate(cases):
        b, e = spans[ci]
        oi = per_i[b:e]
        if kind in "GZC":
            if per_m is not None:
                om = per_m[ci]
                for k in range(len(ops)):
                    if oi[k] is not None and om[k] is not None and oi[k] == om[k]:
                        evals += max(1, len(oi[k]) - 2) if ops[k] == "E" else 1
                if oi != om:
                    mism[kind] += 1
                    k = next(k for k in range(len(ops)) if oi[k] != om[k])
                    desc = " (model and code disagree at op %d %r: impl=%r model=%r)" % (k, ops[k], (oi[k] or ["<none>"])[:3], (om[k] or ["<none>"])[:3])
                    why = ORACLES[kind](ops, oi)
                    if why:
                        report(ci, why, desc)
                    elif mism[kind] <= 3:
                        ck.breaks.append("correspondence C16 model <-> %s:%s ops=%s" % (NAMES[kind], desc, json.dumps(ops[:k + 1][-30:])))
            if kind == "G":
                if meta["depth"] >= 2 and meta["nref"] >= 1:
                    sigs.add(meta["sig"])
                hist_depth[meta["depth"]] = hist_depth.get(meta["depth"], 0) + 1
                bk = "%dx%dx%d" % meta["n"]
                hist_blocks[bk] = hist_blocks.get(bk, 0) + 1
            elif kind == "C":
                bk = "%dx%dx%d per=%d%d%d" % (meta["n"] + meta["per"])
                hist_cart[bk] = hist_cart.get(bk, 0) + 1
        else:
            why = ORACLES[kind](ops, oi)
            if kind == "GN":
                nq = sum(max(0, len(o) - 2) for op, o in zip(ops, oi) if op[0] == "B" and o)
                hk = "AMRGrid set_ngbs: cells whose 6 neighbour pointers were checked"
            else:
                nq = sum(1 for l in ops if l[0] == "Q")
                hk = "%s n=%d" % (NAMES[kind], meta["n"])
            evals += nq
            hist_search[hk] = hist_search.get(hk, 0) + nq
            if why:
                mism[kind] += 1
                report(ci, why)
    # search on break: the property oracle on every trace of the real code
    if ck.breaks:
        found = 0
        for ci, (kind, ops, meta) in enumerate(cases):
            if ci in failed_cases:
                continue
            b, e = spans[ci]
            why = ORACLES[kind](ops, per_i[b:e])
            if why:
                found += 1
                report(ci, why)
        ck.notes.append("search-on-break: oracle evaluated on %d traces of the real code, %d more fail" % (len(cases), found))
    cov["evaluations"] = evals + (tr["evaluations"] if tr else 0) + nvor
    cov["distinct_nontrivial"] = len(sigs) + (tr["distinct"] if tr else 0)
    cov["rule"] = ("evaluations = answers of the real code compared with the extracted model (one per enumerated AMR cell: key, level, box, volume, "
                   "key of its midpoint; one per refine_cell / get_key(position) / Morton key / Cartesian index map, containing cell, neighbour list, "
                   "periodic wrap) plus Octree / PointLocations queries compared with brute force; distinct_nontrivial = distinct AMR cases "
                   "(block counts, start level, refinement history) whose tree reaches depth >= 2 through at least one refine_cell; generators: block "
                   "counts 1..3 per axis (3x3x3, 1x1x1, 3x1x2 forced), start level 0..2, four history styles (random cell, chain into the last refined "
                   "cell up to depth 8, corner cells, mixed), positions = box corners, random lattice points, cell corners / last point inside / on the "
                   "upper faces / midpoints; all from SplitMix64(VERIF_SEED)")
    cov["cases"] = {NAMES[k]: sum(1 for c in cases if c[0] == k) for k in mism}
    cov["case_mismatches"] = {NAMES[k]: v for k, v in mism.items()}
    cov["amr_depth_histogram"] = {str(k): v for k, v in sorted(hist_depth.items())}
    cov["amr_block_count_histogram"] = hist_blocks
    cov["cartesian_grids"] = len(hist_cart)
    cov["real_code_only_checks"] = hist_search
    cov["morton_triples"] = len(cases[[c[0] for c in cases].index("Z")][1])
    g0 = next(ci for ci, c in enumerate(cases) if c[0] == "G" and c[2]["nref"] >= 2)
    b, e = spans[g0]
    cov["samples"] = [{"ops": cases[g0][1][:6], "impl_out": [x for o in per_i[b:b + 6] if o for x in o][:8]}]
    probe_defects(ck)
    ck.assumptions += [
        "PROVED for the models (all trees = all refinement histories, all block counts 1..1024, all lattice positions): AMR key enumeration, "
        "position->key, key->cell, disjointness, volumes, refine, key widths (depth <= 10 = the deepest level the 32 bit cell key supports); "
        "Morton 21-bit interleave injective with explicit inverse; Cartesian long index <-> (ix,iy,iz) bijection, enumeration, containing cell, "
        "volumes, mutual neighbours incl. periodic wrap, is_inside wrap",
        "positions are points of a lattice at least as fine as the deepest cell and box sides are lattice multiples (okbox / wfgeom); the models "
        "use exact integer arithmetic where the code uses binary64: the correspondence runs on dyadic boxes (block side 2^e, cell side 2^e) where "
        "every binary64 operation of the code is exact, so rounding of positions within one ulp of a cell face in non-dyadic boxes is NOT covered",
        "hand models, tied to the code by the differential run on every check (not by translation)",
        "CORRESPONDENCE ONLY (exploration evidence, not proved): Octree::get_ngbs / get_ngbs_sphere / get_closest_ngb and PointLocations "
        "get_closest_neighbour / ngbiterator radius search are compared with brute force on random, clustered, lattice-like and face-hugging point "
        "sets; the Coq side only has the abstract pruning-soundness theorem C16_search_pruning_partial",
        "CORRESPONDENCE ONLY as well: AMRGrid::set_ngbs neighbour pointers (same or coarser level, touch and cover the face, periodic wrap, same "
        "level neighbours point back) are checked by a geometric oracle on the real code's output, not modelled in Coq",
        "TRAVERSAL (CartesianDensityGrid::interact, AMRDensityGrid::interact): theorems over R for the literal models of Cxx/C16_InteractDefs.v "
        "(AMR: the repaired code, flags true; unit direction); the binary64 instance of the same definitions is compared bit for bit with the real "
        "classes (harness compiled -O1 -ffp-contract=off, PrimFloat extracted through ExtrOCamlFloats); the model flags of the AMR model follow the "
        "code under test: they are set from three probes of the real class, and a pinned behaviour is reported as a violation",
        "property oracle of the traversal = exact-rational straight line through the exact-rational cell walls, tolerance 1e-11 x box scale + "
        "64 ulp / min|d_k| (conditioning of nearly axis aligned rays), optical depth within 1e-11; a start within that tolerance of a cell wall "
        "is accepted for either neighbour (the code's walls are binary64 numbers)",
        "Voronoi grids: VoronoiDensityGrid is compared with the half-space definition of its cells (the definition C15's theorems are about) on sampled generator sets; its traversal loop is not modelled. NOT COVERED: termination of the traversal with periodic boundaries / on AMR grids, "
        "AMRGrid::get_key(level, position), create_cell on partially built trees, get_total_emission",
        "defect probes (default on, each in a child process): pointlocations_face_ulp, amr_face_ulp, cartesian_face_ulp, octree_single_position; "
        "AMRDensityGrid::get_largest_odd_factor(0) loops forever (invalid input, noted only)",
    ]
    ck.resolve_breaks_without_input()


def replay(ck, rp):
    r = rp["replay"]
    if isinstance(r, dict) and r.get("part") == "interact":
        return c16_interact.replay_interact(ck, r)
    if isinstance(r, dict) and r.get("part") == "voronoi":
        return c16_voronoi.replay_voronoi(ck, r)
    ok3, _ = build(ck, need_model=False)
    if not ok3 or "ops" not in r:
        print("REPLAY: nothing to run")
        return 1 if not ok3 else 0
    ops = r["ops"]
    if r.get("valgrind"):
        rc, out = run_grouped(ck, ops, valgrind=True)
        if rc == 9:
            print("REPLAY: valgrind reports a use of an uninitialised value")
            return 1
    rc, out = run_impl(ck, ops)
    outs = split_outputs(ops, out)
    why = ORACLES[r["kind"]](ops, outs)
    print("\n".join(out[:60]))
    print("REPLAY:", why or "property holds on this input")
    return 1 if why else 0
