# C14  restart-dump rotation: proof (Coq) + correspondence with the real RestartManager /
# RestartWriter in a scratch directory, a crash injected at every crash point (hook H5)
import os, json, shutil, struct
import vf

LEVEL = "proof"
CLAIM = dict(cat="proof", design="§3 C14, Appendix A.2",
   text="Coq theorems (no axioms) over a model of RestartManager::get_restart_writer + RestartWriter on an abstract file system, for EVERY backup count, EVERY number of dumps and EVERY payload size: "
        "no dump fails; afterwards the directory is exactly restart.dump = newest state and restart.i.back = the previous ones newest-first up to the configured number; and if the process dies after ANY prefix "
        "of the file-system operations of a dump (>=1 backup) a complete copy of the previous state is on disk. The pinned commit's loop bound is proved to fail (C14_wrapping_start_refuted, defect D5, fixed). "
        "Tie: on every run the real classes are executed in a scratch directory for all M x n in a box, one real process killed at every crash point (hook H5), and the directory left behind is compared with the model. Driver tie on the real binary: a task-based RHD run stopped by its wall-clock limit hands over to a resubmit command that copies restart.dump - the copy must be the complete final dump; with a restart folder other than '.', all dumps and backups are in that folder.",
   note="Driver ties (no model): wall-clock stop with a resubmit command (what the resubmitted job sees is the finished dump; restart folder honoured) and a stop file created after three regular dumps (exit 0, stop file consumed, dump and two complete backups). Trusted: Coq kernel; ExtrOcamlBasic extraction + OCaml driver (correspondence only); file-system assumptions: atomic rename, unflushed ofstream data is lost at _exit; one RestartManager object per history.",
   technique="Coq proof by induction over dump histories and operation prefixes + crash-injection correspondence")
BEFORE_OPS = ("RM_before_rename_backup", "RM_before_rename_main", "RW_before_write", "RW_before_close")


def listing(d, M, chunks):
    """canonical listing of the scratch directory: Main, Back 0..M+1 ; plus unexpected names"""
    def one(p):
        if not os.path.exists(p):
            return "-"
        b = open(p, "rb").read()
        if len(b) != 8 * chunks:
            return "I"
        w = struct.unpack("<%dQ" % chunks, b)
        return "C%d" % w[0] if all(x == w[0] for x in w) else "I"
    names = ["restart.dump"] + ["restart.%d.back" % i for i in range(M + 2)]
    out = [one(os.path.join(d, n)) for n in names]
    extra = sorted(set(os.listdir(d)) - set(names))
    return out, extra


def run_impl(exe, base, M, ndumps, chunks, crash, tag):
    d = os.path.join(base, "dir_%s" % tag)
    shutil.rmtree(d, ignore_errors=True)
    os.makedirs(d)
    trace = os.path.join(base, "trace_%s" % tag)
    if os.path.exists(trace):
        os.remove(trace)
    rc, out = vf.sh([exe, d, str(M), str(ndumps), str(chunks), str(crash)], timeout=60, drop_stderr=True,
                    env={"CMI_VERIF_LAST_TRACE": trace})
    pts = [l.split()[0] for l in open(trace)] if os.path.exists(trace) else []
    lst, extra = listing(d, M, chunks)
    afters = [l.split()[1:] for l in out.splitlines() if l.startswith("after ")]
    size = [l.split()[1] for l in out.splitlines() if l.startswith("sizeof_counter")]
    shutil.rmtree(d, ignore_errors=True)
    return rc, pts, lst, extra, afters, size


def oracle(M, n_done, chunks, rc, lst, extra, crashed):
    """property C14 on the real directory. n_done = dumps completed before the (possibly crashed) one"""
    if not crashed:
        n = n_done
        if rc != 0:
            return "dump %d with %d backups configured failed (exit status %d)" % (n, M, rc)
        if n >= 1 and lst[0] != "C%d" % n:
            return "newest state %d is not in restart.dump (found %s)" % (n, lst[0])
        for i in range(M + 2):
            want = "C%d" % (n - 1 - i) if i < min(M, n - 1) else "-"
            if lst[1 + i] != want:
                return "restart.%d.back holds %s, expected %s after %d dumps with %d backups" % (i, lst[1 + i], want, n, M)
        if extra:
            return "unexpected files %s" % extra
        return None
    if M >= 1 and n_done >= 1:
        if rc != 77:
            return "the dump aborted by itself (exit status %d) instead of reaching the crash point" % rc
        if "C%d" % n_done not in (lst[0], lst[1]):
            return "after a crash during dump %d no complete copy of state %d is left (restart.dump=%s restart.0.back=%s)" % (n_done + 1, n_done, lst[0], lst[1])
    return None


def driver_tie(ck):
    """the driver side of 'afterwards the newest state is in the main dump file': when the run stops at its wall-clock limit it takes a
    final dump and then hands over to the resubmit command; what that command finds in restart.dump must be the complete newest dump
    (it is copied aside by the resubmit command itself and compared with the file after the run has ended), and with a restart folder
    that is not the working directory the dumps and backups must be in THAT folder"""
    okb, logb = vf.repo_ninja(["CMacIonize"])
    if not okb:
        ck.breaks.append("whole binary does not build: " + logb[-800:])
        return 0
    exe = os.path.join(vf.REPOBUILD, "rundir", "CMacIonize")
    conf = os.path.join(vf.VERIF, "harness", "configs")
    n = 0
    for name, rdir in (("resubmit_cwd", "."), ("resubmit_subfolder", "dumps")):
        w = os.path.join(ck.scratch, "drv_" + name)
        shutil.rmtree(w, ignore_errors=True)
        os.makedirs(os.path.join(w, rdir), exist_ok=True)
        for f in os.listdir(conf):
            shutil.copy(os.path.join(conf, f), w)
        txt = open(os.path.join(conf, "hydro.param")).read()
        txt = txt.replace("RestartManager:\n  path: .\n  output interval: 0. s\n  maximum number of backups: 1\n",
                          "RestartManager:\n  path: %s\n  output interval: 0. s\n  maximum number of backups: 2\n  maximum time: 0.000001 s\n  resubmit command: cp %s/restart.dump seen_by_resubmitted_job.dump\n" % (rdir, rdir))
        open(os.path.join(w, "run.param"), "w").write(txt)
        rc, out = vf.sh([exe, "--task-based-rhd", "--params", "run.param", "--threads", "1", "--dirty"], cwd=w, timeout=300)
        n += 1
        seen, final = os.path.join(w, "seen_by_resubmitted_job.dump"), os.path.join(w, rdir, "restart.dump")
        why = None
        if rc != 0:
            why = "the run exits with status %d" % rc
        elif not os.path.exists(final):
            why = "no %s/restart.dump after the run (the restart folder is '%s')" % (rdir, rdir)
        elif not os.path.exists(seen):
            ck.breaks.append("driver tie: the resubmit command was not executed in `%s` (wall-clock limit not reached?)" % name)
        else:
            a, b = open(seen, "rb").read(), open(final, "rb").read()
            if a != b:
                why = ("when the resubmit command runs, restart.dump is not the complete newest dump: it holds %d bytes, the finished file %d bytes (first difference at offset %d): "
                       "a resubmitted job would restart from a truncated file" % (len(a), len(b), next((i for i in range(min(len(a), len(b))) if a[i] != b[i]), min(len(a), len(b)))))
        if not why and rdir != ".":
            stray = [f for f in os.listdir(w) if f.startswith("restart.")]
            if stray:
                why = "restart files %s are written to the working directory although the restart folder is '%s'" % (stray, rdir)
        if why:
            ck.violation("C14 fails on the real binary (task-based RHD stopped by its wall-clock limit, restart folder '%s'): %s" % (rdir, why), {"driver_run": name}, key={"kind": "driver", "case": name})
        shutil.rmtree(w, ignore_errors=True)
    n += stop_file_tie(ck, exe, conf)
    ck.coverage["driver_runs_checked"] = n
    return n


def stop_file_tie(ck, exe, conf):
    """a run that has taken regular dumps is asked to stop with a stop file: the request is consumed, the run takes its final dump and
    ends normally, the newest state is in restart.dump, the configured two backups are kept and every one of them is a complete dump"""
    import subprocess, time
    name = "stop_file_after_dumps"
    w = os.path.join(ck.scratch, "drv_" + name)
    shutil.rmtree(w, ignore_errors=True)
    os.makedirs(w)
    for f in os.listdir(conf):
        shutil.copy(os.path.join(conf, f), w)
    txt = open(os.path.join(conf, "hydro.param")).read()
    txt = txt.replace("total time: 0.02 s", "total time: 20. s")
    txt = txt.replace("RestartManager:\n  path: .\n  output interval: 0. s\n  maximum number of backups: 1\n",
                      "RestartManager:\n  path: .\n  output interval: 0. s\n  maximum number of backups: 2\n")
    open(os.path.join(w, "run.param"), "w").write(txt)
    log = open(os.path.join(w, "run.log"), "w")
    p = subprocess.Popen([exe, "--task-based-rhd", "--params", "run.param", "--threads", "1", "--dirty"], cwd=w, stdout=log, stderr=subprocess.STDOUT)
    t0, asked = time.time(), False
    while time.time() - t0 < 120 and p.poll() is None:
        if all(os.path.exists(os.path.join(w, f)) for f in ("restart.dump", "restart.0.back", "restart.1.back")):
            open(os.path.join(w, "stop"), "w").close()
            asked = True
            break
        time.sleep(0.02)
    if not asked:
        p.kill()
        p.wait()
        ck.breaks.append("driver tie %s: the run did not take three dumps within 120 s (exit %r)" % (name, p.returncode))
        shutil.rmtree(w, ignore_errors=True)
        return 0
    try:
        rc = p.wait(timeout=120)
    except subprocess.TimeoutExpired:
        p.kill()
        p.wait()
        rc = "timeout: the run did not stop within 120 s of the stop request"
    log.close()
    why = None
    sizes = {f: os.path.getsize(os.path.join(w, f)) for f in os.listdir(w) if f.startswith("restart.")}
    if rc != 0:
        why = "the run exits with status %r after the stop request (restart files left: %s)" % (rc, sizes)
    elif os.path.exists(os.path.join(w, "stop")):
        why = "the stop file is still there after the run ended (the request was not consumed; restart files: %s)" % sizes
    elif sorted(sizes) != ["restart.0.back", "restart.1.back", "restart.dump"]:
        why = "after the final dump the restart folder holds %s instead of restart.dump and two backups" % sorted(sizes)
    elif len(set(sizes.values())) != 1 or min(sizes.values()) == 0:
        why = "the dumps of the same run have different sizes %s: one of them is not a complete dump" % sizes
    if why:
        ck.violation("C14 fails on the real binary (task-based RHD, a dump after every step, 2 backups, stop file created after three dumps): " + why, {"driver_run": name},
                     key={"kind": "driver", "case": name})
    shutil.rmtree(w, ignore_errors=True)
    return 1


def run(ck):
    ck.prove()
    driver_tie(ck)
    d = ck.scratch
    ok1, log1 = vf.coq_extract("C14", d)
    ok2, log2 = (False, "") if not ok1 else vf.ocaml_build(d, ["c14_model"], os.path.join(vf.VERIF, "ocaml/c14_driver.ml"), "model")
    ok3, log3 = vf.cxx_build(os.path.join(vf.VERIF, "harness/c14/rotate_harness.cpp"), os.path.join(d, "impl"), openmp=False)
    if not ok3:
        ck.breaks.append("harness does not compile against /repo/src/RestartManager.hpp:\n" + log3[-2000:])
    if not (ok1 and ok2):
        ck.breaks.append("model extraction/build failed:\n" + (log1 + log2)[-2000:])
    if not ok3:
        ck.resolve_breaks_without_input()
        return
    exe = os.path.join(d, "impl")
    Ms = range(0, 5) if ck.quick else range(0, 9)
    Ns = range(0, 6) if ck.quick else range(0, 21)
    chunk_choices = [1, 3]
    cases = []      # (M, n_done, chunks, prefix or -1, impl result)
    ev = 0
    hist = {}
    sigs = set()
    samples = []
    widths = set()
    model_in = []
    impl_res = []
    for M in Ms:
        for n in Ns:
            chunks = chunk_choices[(M + n) % 2]
            # no crash: n dumps
            rc, pts, lst, extra, afters, size = run_impl(exe, d, M, n, chunks, -1, "a")
            widths.update(size)
            why = oracle(M, n, chunks, rc, lst, extra, False)
            if why:
                ck.violation("C14 fails on the real RestartManager: " + why, {"M": M, "dumps": n, "chunks": chunks, "crash_point": -1, "listing": lst, "exit": rc},
                             key={"kind": "rotation", "backups_ge_2": M >= 2, "clause": "dump_fails" if rc not in (0, 77) else "order"})
            model_in.append("%d %d %d -1" % (M, n, chunks))
            impl_res.append((rc, lst, afters[-1][1:] if afters else ["0", "0"], None, (M, n, chunks, -1)))
            ev += 1
            # crash at every crash point of dump n+1 (all points in quick tier too: they are few)
            if rc != 0:
                continue
            rc2, pts2, _, _, _, _ = run_impl(exe, d, M, n + 1, chunks, -1, "b")
            if rc2 != 0:
                continue   # reported by the (M, n+1) no-crash case
            for p in range(len(pts2)):
                rc3, pts3, lst3, extra3, afters3, _ = run_impl(exe, d, M, n + 1, chunks, p, "c")
                prefix = sum(1 for q in pts2[:p] if q in BEFORE_OPS) + (1 if "RW_after_open" in pts2[:p + 1] else 0)
                hist[pts2[p]] = hist.get(pts2[p], 0) + 1
                why = oracle(M, n, chunks, rc3, lst3, extra3, True)
                if why:
                    ck.violation("C14 fails on the real RestartManager: " + why, {"M": M, "dumps": n + 1, "chunks": chunks, "crash_point": p, "crash_point_name": pts2[p], "listing": lst3},
                                 key={"kind": "crash", "point": pts2[p]})
                model_in.append("%d %d %d %d" % (M, n, chunks, prefix))
                impl_res.append((rc3, lst3, afters3[-1][1:] if afters3 else ["0", "0"], pts2[p], (M, n, chunks, p)))
                ev += 1
                if M >= 1 and n >= 1:
                    sigs.add((M, n, pts2[p], tuple(lst3)))
                if len(samples) < 3 and M == 2 and n == 3:
                    samples.append({"M": M, "dumps_done": n, "crash_at": pts2[p], "directory": dict(zip(["restart.dump"] + ["restart.%d.back" % i for i in range(M + 2)], lst3))})
    mism = 0
    if ok1 and ok2:
        rc_m, out_m = vf.run_lines([os.path.join(d, "model")], "\n".join(model_in) + "\n", timeout=600)
        if len(out_m) != len(model_in):
            ck.breaks.append("model driver produced %d lines for %d cases" % (len(out_m), len(model_in)))
        for line, (rc, lst, ctr, pname, case) in zip(out_m, impl_res):
            if line == "FAIL":
                m_lst, m_ctr = None, None
            else:
                head, tail = line.split("|")
                m_ctr = head.split()[:2]
                m_lst = tail.split()
            crashed = case[3] >= 0
            agree = (m_lst == lst) and (crashed or m_ctr == ctr) and (rc in (0, 77))
            if not agree:
                mism += 1
                if mism <= 5:
                    ck.breaks.append("correspondence C14 model <-> RestartManager: case (M,dumps_done,chunks,crash_point)=%s at %s: impl exit=%d dir=%s counters=%s ; model dir=%s counters=%s"
                                     % (case, pname, rc, lst, ctr, m_lst, m_ctr))
    if len(widths) != 1 or "8" not in widths:
        ck.breaks.append("sizeof(uint_fast32_t) is %s, the model assumes 8 bytes (WORD = 2^64)" % sorted(widths))
    cov = ck.coverage
    cov["evaluations"] = ev
    cov["distinct_nontrivial"] = len(sigs)
    cov["exhaustive"] = True
    cov["rule"] = ("exhaustive over backup counts M in %s x completed dumps n in %s, each followed by (a) a directory/counter comparison and (b) one real process per crash point of dump n+1 "
                   "(every rename, before/after the truncating open, every write, before/after close) killed there with _exit; the directory left behind is compared with the model's state after the "
                   "corresponding prefix of file-system operations; non-trivial = M>=1 and n>=1 (the crash theorem's premises), distinct = (M, n, crash point, directory)" % (list(Ms), list(Ns)))
    cov["crash_point_histogram"] = hist
    cov["case_mismatches"] = mism
    cov["samples"] = samples or [{"note": "no sample collected"}]
    ck.assumptions += [
        "file system: rename is atomic and fails only when the source is missing; data of an unclosed ofstream is not durable (the crash is _exit without flush)",
        "one RestartManager object per history (a restarted process starts a fresh manager: its first dump overwrites restart.dump without backing it up; outside the property's quantifier, noted in DESIGN.md)",
        "uint_fast32_t is 8 bytes (printed by the harness and compared)",
        "extraction through ExtrOcamlBasic; OCaml driver trusted for the correspondence only",
    ]
    ck.resolve_breaks_without_input()


def replay(ck, rp):
    if "driver_run" in rp.get("replay", {}):
        driver_tie(ck)
        bad = [v for v in ck.violations if v["key"].get("kind") == "driver"]
        print("REPLAY:", bad[0]["what"] if bad else "property holds on this input")
        return 1 if bad else 0
    d = ck.scratch
    ok3, log3 = vf.cxx_build(os.path.join(vf.VERIF, "harness/c14/rotate_harness.cpp"), os.path.join(d, "impl"), openmp=False)
    r = rp["replay"]
    rc, pts, lst, extra, afters, size = run_impl(os.path.join(d, "impl"), d, r["M"], r["dumps"], r["chunks"], r["crash_point"], "r")
    crashed = r["crash_point"] >= 0
    why = oracle(r["M"], r["dumps"] - 1 if crashed else r["dumps"], r["chunks"], rc, lst, extra, crashed)
    print("exit=%d directory=%s" % (rc, lst))
    print("REPLAY:", why or "property holds on this input")
    return 1 if why else 0
