# C18  atomic data and sampled frequencies are physical: proof (Coq, Interval) + bit-exact correspondence of the
#      executable model with VernerCrossSections / VernerRecombinationRates / ChargeTransferRates / Utilities::locate /
#      the tabulated spectrum samplers; tables regenerated from the shipped data files on every run.
import os, math, json, bisect
import vf
import c18_tables

LEVEL = "proof"
CLAIM = dict(cat="proof", design="§3 C18",
   text="Coq theorems over R for ONE model that is written once over an abstract arithmetic and instantiated with the reals (proofs) and with binary64 (execution): "
        "recombination rates of all 14 tracked ions > 0 on [10,1e5] K and >= 0 everywhere (structural proofs from table sign conditions, Interval with bisection where dielectronic "
        "polynomials have negative terms), H and He rates strictly decreasing for all T > 0; cross sections zero below threshold, >= 0 with all pow bases positive, and equal to the literal "
        "Verner&Yakovlev 1995 / Verner et al. 1996 expressions on the raw table values; every charge-transfer rate the balance uses >= 0 for every temperature; Utilities::locate terminates and "
        "brackets its argument; inverse-CDF samplers stay between the bracketing nodes, inside the table range and are monotone in the random number; the H/He Lyman-continuum samplers as shipped only for "
        "temperatures inside the table (refuted outside with a witness: D7), and for every temperature in the variant that clamps T to the table first (a regenerated flag from a source scan "
        "selects which variant is compared with the real samplers, so the check follows the code before and after the proposed fix hooks/c18_d7_fix.patch). Sign conditions are decided by proved-sound boolean checkers on tables REGENERATED each run from data/verner_*.dat by an independent parser. "
        "Tie: extracted binary64 instance vs. the real classes bit for bit (prepared tables of all 1696+185+30 rows and 5400 recombination coefficients, dense log grids, +-1 ulp around every threshold/shell edge/clamp/node).",
   note="Trusted: Coq kernel + standard real-number axioms + Interval (its reflexive checker runs in the kernel); extraction and OCaml/libm for the correspondence only. Theorems are about exact real arithmetic; "
        "that binary64 evaluation keeps the signs/ranges is checked by an oracle on every real output of the run, not proved (finite-ness is an oracle clause only). pow is Rpower (agrees with C pow for positive base; bases proved positive). "
        "Spectrum tables themselves (built by the C++ constructors in floating point) are not modelled: their order conditions are decided per run on the dumped tables by the extracted checkers. "
        "MaskedPhotonSourceSpectrum: the constructor's cumulative/normalise loops ARE modelled (masked_cdf, compared bit for bit with the real table on a staircase spectrum whose histogram is known exactly; "
        "theorem: the table starts at 0, ends at 1, is non-decreasing and every random number in (0,1] is sampled inside the bins; the construction of the pinned commit is refuted with a witness and was repaired, c6efddb); "
        "the histogram of an arbitrary unmasked spectrum is 10^7 random draws and is only sampled (Planck 40000 K instance: range, inverse-CDF and monotonicity oracle). "
        "Uniform/monochromatic spectra are closed formulas without a table (not modelled); stellar-library spectra are not anchored.",
   technique="generic-arithmetic model, Interval tactic, reflexive table checkers, extracted-model differential correspondence")

HARNESS = os.path.join(vf.VERIF, "harness/c18/atomic_harness.cpp")
DRIVER = os.path.join(vf.VERIF, "ocaml/c18_driver.ml")
GEN = os.path.join(vf.COQ, "Cxx", "C18_Gen.v")
IONS = ["H_n", "He_n", "C_p1", "C_p2", "N_n", "N_p1", "N_p2", "O_n", "O_p1", "Ne_n", "Ne_p1", "S_p1", "S_p2", "S_p3"]
ION_SHELLS = {"H_n": [(1, 1, 1)], "He_n": [(2, 2, 1)], "C_p1": [(6, 5, 3), (6, 5, 2)], "C_p2": [(6, 4, 2)], "N_n": [(7, 7, 3), (7, 7, 2)],
              "N_p1": [(7, 6, 3), (7, 6, 2)], "N_p2": [(7, 5, 3)], "O_n": [(8, 8, 3), (8, 8, 2)], "O_p1": [(8, 7, 3), (8, 7, 2)],
              "Ne_n": [(10, 10, 3), (10, 10, 2)], "Ne_p1": [(10, 9, 3)], "S_p1": [(16, 15, 5), (16, 15, 4)], "S_p2": [(16, 14, 5), (16, 14, 4)],
              "S_p3": [(16, 13, 5)]}
EV_TO_HZ = 1.6021766208e-19 / 6.626070040e-34
NU_H = 3.288465385e15          # 13.6 eV in Hz as the code writes it
SHELL = {(1, 0): 1, (2, 0): 2, (2, 1): 3, (3, 0): 4, (3, 1): 5, (3, 2): 6, (4, 0): 7}
CT_ABORT = {(0, 0), (1, 0), (2, 1)}      # (kind, ion) for which the C++ calls cmac_error
BALANCE = [(0, 3), (2, 3), (1, 4), (0, 4), (0, 5), (2, 5), (0, 6), (2, 6), (1, 7), (0, 7), (0, 8), (2, 8), (0, 10), (2, 10), (0, 11), (0, 12), (2, 12), (0, 13), (2, 13)]
hx = lambda x: "%016x" % vf.dbl_bits(x)
unhx = lambda s: vf.bits_dbl(int(s, 16))


def regenerate():
    del c18_tables.NOTES[:]
    txt, tabs = c18_tables.coq_text(vf.REPO)
    vf.write_if_changed(GEN, txt)
    return tabs


def data_flags():
    d = os.path.join(vf.REPO, "data")
    return ["-fno-builtin", "-ffp-contract=off",
            "-DVERNERCROSSSECTIONSDATALOCATION_HPP", '-DVERNERCROSSSECTIONSDATALOCATION_A="%s/verner_A.dat"' % d,
            '-DVERNERCROSSSECTIONSDATALOCATION_B="%s/verner_B.dat"' % d, '-DVERNERCROSSSECTIONSDATALOCATION_C="%s/verner_C.dat"' % d,
            "-DVERNERRECOMBINATIONRATESDATALOCATION_HPP", '-DVERNERRECOMBINATIONRATESDATALOCATION="%s/verner_rec_data.txt"' % d,
            "-DHELIUMTWOPHOTONCONTINUUMDATALOCATION_HPP", '-DHELIUMTWOPHOTONCONTINUUMDATALOCATION="%s/He2q.dat"' % d]


def ulps(x, ks=(-2, -1, 0, 1, 2)):
    out = []
    for k in ks:
        y = x
        for _ in range(abs(k)):
            y = math.nextafter(y, math.inf if k > 0 else -math.inf)
        out.append(y)
    return out


# ------------------------------------------------------------------ table view used by generators and oracles
class Tables:
    def __init__(self, tabs):
        self.A = {}
        for r in tabs["A"]:
            self.A[(r["Z"], r["N"], SHELL.get((r["n"], r["l"]), 0))] = r
        self.B = {(r["Z"], r["N"]): r for r in tabs["B"]}
        self.C = {r["N"]: r for r in tabs["C"]}
        self.R = tabs["R"]
        self.raw = tabs

    def obligations(self):
        """shape conditions of the regenerated tables (python side; the sign conditions are Coq obligations)"""
        ob = []
        keys = [(r["Z"], r["N"], r["n"], r["l"]) for r in self.raw["A"]]
        ob.append(("verner_A: (Z,N,n,l) unique and every (n,l) is one of 1s..4s", len(set(keys)) == len(keys) and all((k[2], k[3]) in SHELL for k in keys)))
        kb = [(r["Z"], r["N"]) for r in self.raw["B"]]
        ob.append(("verner_B: (Z,N) unique", len(set(kb)) == len(kb)))
        ob.append(("verner_C: N = 1..30 once each", sorted(r["N"] for r in self.raw["C"]) == list(range(1, 31))))
        ob.append(("verner_rec_data: shapes 2x30x30, 4x30x30, 3x13", True))     # parse_rec raises otherwise
        for ion, sh in ION_SHELLS.items():
            ok = all(k in self.A for k in sh) and all((k[0], k[1]) in self.B for k in sh)
            ob.append(("tables have the rows get_cross_section(%s) reads" % ion, ok))
        return ob

    def fval(self, d):
        return float(c18_tables.frac(d))

    def safe_V(self, z, n, s):
        """(nz,ne,is) for which get_cross_section_verner stays inside its vectors"""
        if (z, n, s) not in self.A or n not in self.C:
            return False
        ninn = self.C[n]["Ninn"]
        if (z, n) not in self.B:
            return False
        return n < 3 or (z, n, ninn) in self.A

    # ---- the published fits, evaluated independently (python floats on the raw decimals, energies in eV)
    def fit95(self, r, E):
        y = E / self.fval(r["E0"])
        P, l = self.fval(r["P"]), r["l"]
        Q = 5.5 + l - 0.5 * P
        return 1e-22 * self.fval(r["s0"]) * ((y - 1.0) ** 2 + self.fval(r["yw"]) ** 2) * y ** (-Q) * (1.0 + math.sqrt(y / self.fval(r["ya"]))) ** (-P)

    def fit96(self, r, E):
        x = E / self.fval(r["E0"]) - self.fval(r["y0"])
        y = math.sqrt(x * x + self.fval(r["y1"]) ** 2)
        P = self.fval(r["P"])
        return 1e-22 * self.fval(r["s0"]) * ((x - 1.0) ** 2 + self.fval(r["yw"]) ** 2) * y ** (0.5 * P - 5.5) * (1.0 + math.sqrt(y / self.fval(r["ya"]))) ** (-P)

    def thresholds(self, z, n, s):
        """(E_th, E_inn) in Hz exactly as doubles the code compares with"""
        eth = self.fval(self.A[(z, n, s)]["Eth"]) * EV_TO_HZ
        ninn = self.C[n]["Ninn"]
        if z in (15, 17, 19) or (z > 20 and z != 26):
            einn = 0.0
        elif n < 3:
            einn = 1e30
        else:
            einn = self.fval(self.A[(z, n, ninn)]["Eth"]) * EV_TO_HZ
        return eth, einn

    def published_shell(self, z, n, s, nu):
        """phfit2 semantics from the papers: 0 below the shell threshold; outermost shell uses the 1996 fit up to the
        inner-shell edge; inner shells (and everything above the edge) use the 1995 fit; shells between are dark below the edge"""
        eth, einn = self.thresholds(z, n, s)
        if nu < eth:
            return 0.0, "below"
        nout, ninn = self.C[n]["Ntot"], self.C[n]["Ninn"]
        if (z == n and z > 18) or (z == n + 1 and z in (20, 21, 22, 25, 26)):
            nout = 7                                  # 4s electron of the neutral / singly ionized iron group (phfit2)
        if s > nout:
            return 0.0, "zero"
        if s < nout and s > ninn and nu < einn:
            return 0.0, "zero"
        E = nu / EV_TO_HZ
        if s <= ninn or nu >= einn:
            return self.fit95(self.A[(z, n, s)], E), "A"
        return self.fit96(self.B[(z, n)], E), "B"

    def published_ion(self, ion, nu):
        tot, tags = 0.0, ""
        for (z, n, s) in ION_SHELLS[ion]:
            v, t = self.published_shell(z, n, s, nu)
            tot += v
            tags += t[0]
        return tot, tags

    def ion_threshold(self, ion):
        return min(self.thresholds(*k)[0] for k in ION_SHELLS[ion])


def pyloc(x, arr):
    """index of the last element smaller than x, clipped to [0, n-2] (the documented contract of Utilities::locate)"""
    return max(0, min(len(arr) - 2, bisect.bisect_left(arr, x) - 1))


# ------------------------------------------------------------------ generators
def loggrid(lo, hi, n):
    return [lo * (hi / lo) ** (i / (n - 1.0)) for i in range(n)]


def gen_ops(ck, T):
    """list of (op line, meta)"""
    rng = ck.rng
    q = ck.quick
    ops = [("K", None)]
    # cross sections: frequencies from half the hydrogen threshold to 100x it
    nf = 900 if q else 6000
    for ii, ion in enumerate(IONS):
        pts = loggrid(0.5 * NU_H, 100.0 * NU_H, nf)
        pts += [0.5 * NU_H * (200.0 ** rng.uniform()) for _ in range(nf // 3)]
        for k in ION_SHELLS[ion]:
            eth, einn = T.thresholds(*k)
            pts += ulps(eth)
            if 0.0 < einn < 1e29:
                pts += ulps(einn)
            for (z2, n2, s2), r in T.A.items():           # every shell edge of the same ion stage
                if (z2, n2) == (k[0], k[1]):
                    pts += ulps(T.fval(r["Eth"]) * EV_TO_HZ, (-1, 0, 1))
        pts += ulps(NU_H) + ulps(100.0 * NU_H, (-1, 0, 1)) + [3.289e15, 1.81 * NU_H, 4 * NU_H]
        for nu in pts:
            ops.append(("X %d %s" % (ii, hx(nu)), ("X", ion, nu)))
    keys = sorted(k for k in T.A if T.safe_V(*k))
    for _ in range(1500 if q else 20000):
        z, n, s = rng.choice(keys)
        eth, einn = T.thresholds(z, n, s)
        r = rng.below(6)
        nu = rng.choice(ulps(eth)) if r == 0 else (rng.choice(ulps(einn)) if r == 1 and 0 < einn < 1e29 else eth * 0.7 * 60.0 ** rng.uniform())
        ops.append(("V %d %d %d %s" % (z, n, s, hx(nu)), ("V", (z, n, s), nu)))
    # recombination: 10 .. 1e9 K
    nt = 700 if q else 5000
    special = [10.0, 1e5, 1e9, 1e4, 8000.0, 500.0, 3.148, 15.54] + ulps(1e5, (-1, 1)) + ulps(10.0, (1,)) + ulps(1e9, (-1,))
    for ii, ion in enumerate(IONS):
        pts = loggrid(10.0, 1e9, nt) + [10.0 * (1e8 ** rng.uniform()) for _ in range(nt // 4)] + [t for t in special if 10.0 <= t <= 1e9]
        for t in sorted(pts):
            ops.append(("R %d %s" % (ii, hx(t)), ("R", ion, t)))
    for iz in range(1, 31):
        for inn in range(1, iz + 1):
            for t in [10.0, 1e4, 1e9] + [10.0 * (1e8 ** rng.uniform()) for _ in range(3 if q else 30)]:
                ops.append(("W %d %d %s" % (iz, inn, hx(t)), ("W", (iz, inn), t)))
    # charge transfer, argument in 1e4 K
    ncT = 250 if q else 2500
    clampv = [0.6, 10.0, 0.5, 5.0, 0.1, 0.01, 0.001, 1.0, 3.0]
    for kind in range(3):
        for ii, ion in enumerate(IONS):
            if (kind, ii) in CT_ABORT:
                continue
            pts = loggrid(1e-3, 1e5, ncT) + [1e-3 * (1e8 ** rng.uniform()) for _ in range(ncT // 4)]
            for c in clampv:
                pts += ulps(c, (-1, 0, 1))
            for t in sorted(pts):
                ops.append(("C %d %d %s" % (kind, ii, hx(t)), ("C", (kind, ion), t)))
    # Utilities::locate on its own
    corpus = [([0.0, 1.0], [0.0, 0.5, 1.0, -1.0, 2.0]), ([0.0, 0.5, 1.0], [0.5, 0.25, 0.75, 1.0, 0.0]), ([1.0, 1.0, 1.0, 2.0], [1.0, 1.5, 2.0]),
              ([0.0, 0.0, 0.3, 1.0, 1.0, 1.0], [1e-10, 0.3, 0.999, 1.0])]
    for arr, xs in corpus:
        for x in xs:
            ops.append(("L %d %s %s" % (len(arr), " ".join(map(hx, arr)), hx(x)), ("L", arr, x)))
    for _ in range(1500 if q else 15000):
        n = 2 + rng.below(40)
        arr = sorted(rng.uniform() for _ in range(n))
        if rng.below(3) == 0:
            j = rng.below(n - 1)
            arr[j + 1] = arr[j]                     # plateau
        r = rng.below(6)
        x = arr[rng.below(n)] if r <= 1 else (rng.choice(ulps(arr[rng.below(n)], (-1, 1))) if r == 2 else (rng.uniform() * 1.2 - 0.1))
        ops.append(("L %d %s %s" % (n, " ".join(map(hx, arr)), hx(x)), ("L", arr, x)))
    return ops


def sampler_xs(rng, cdf, n):
    """random numbers in [1e-10, 1): the floor, nodes of the table and their neighbours, log-uniform and uniform values"""
    one_m = math.nextafter(1.0, 0.0)
    xs = [1e-10, math.nextafter(1e-10, 1.0), one_m, 0.5, 1e-5, 0.999999]
    nodes = [c for c in cdf if 1e-10 <= c < 1.0]
    for _ in range(n // 3):
        if nodes:
            c = rng.choice(nodes)
            xs += [y for y in ulps(c, (-1, 0, 1)) if 1e-10 <= y < 1.0]
    xs += [10.0 ** (-10.0 * rng.uniform()) for _ in range(n // 3)]
    xs += [min(one_m, max(1e-10, rng.uniform())) for _ in range(n // 3)]
    return xs


IN_T = [1567.5, 1702.5, 5000.0, 8000.0, 8047.5, 12345.678, 14932.5]
OUT_T = [500.0, 10.0, 100.0, 1000.0, 1500.0, 1567.0, 14933.0, 15000.0, 2e4, 1e5, 1e7, 1e9]


# ------------------------------------------------------------------ oracles on the REAL outputs
def finite_nonneg(v):
    return math.isfinite(v) and v >= 0.0


def oracle_xsec(T, ion, nu, v):
    if not finite_nonneg(v):
        return "cross section %r is not finite and non-negative" % v
    if nu < T.ion_threshold(ion) and v != 0.0:
        return "cross section %r below the ionization threshold is not zero" % v
    pub, _ = T.published_ion(ion, nu)
    if abs(v - pub) > 1e-9 * max(abs(pub), 1e-300):
        return "cross section %r differs from the published fit %r (independent evaluation from the data files)" % (v, pub)
    return None


def oracle_V(T, key, nu, v):
    if not finite_nonneg(v):
        return "cross section %r is not finite and non-negative" % v
    pub, _ = T.published_shell(key[0], key[1], key[2], nu)
    if abs(v - pub) > 1e-9 * max(abs(pub), 1e-300):
        return "shell cross section %r differs from the published fit %r" % (v, pub)
    return None


def oracle_rec_point(ion, t, v):
    if not finite_nonneg(v):
        return "recombination rate %r is not finite and non-negative" % v
    if t <= 1e5 and not v > 0.0:
        return "recombination rate is not strictly positive at T <= 1e5 K"
    return None


def oracle_ct(v):
    return None if finite_nonneg(v) else "charge transfer rate %r is not finite and non-negative" % v


def oracle_locate(arr, x, j):
    n = len(arr)
    if not (0 <= j <= n - 2):
        return "locate returned %d outside [0, n-2]" % j
    if arr[0] < x <= arr[-1] and not (arr[j] < x <= arr[j + 1]):
        return "locate index %d does not bracket x: need xarr[j] < x <= xarr[j+1]" % j
    return None


class Spectra:
    """tables dumped from the real spectrum objects + the property decided on a real sample"""

    def __init__(self):
        self.t = {}
        self.cdfs = {}

    def feed(self, line):
        f = line.split()
        if f[0] != "T" or f[1] == "end":
            return
        kd, name, vals = f[1], f[2], [unhx(h) for h in f[4:]]
        if name == "cdf" and kd in "HE":
            self.cdfs.setdefault(kd, []).append(vals)
        else:
            if name == "freq":
                self.cdfs[kd] = []
            self.t[kd + name] = vals

    def snapshot_planck(self):
        return {k: self.t[k] for k in ("Pcdf", "Plogcdf", "Plogfreq")}

    def range_of(self, kd, P=None):
        if kd == "P":
            lf = P["Plogfreq"]
            return 10.0 ** lf[0] * NU_H, 10.0 ** lf[-1] * NU_H
        fr = self.t[kd + "freq"]
        return fr[0], fr[-1]

    def oracle(self, kd, temp, x, f, P=None):
        if not math.isfinite(f):
            return "sampled frequency is not finite"
        lo, hi = self.range_of(kd, P)
        tol = 4e-16
        if f < lo * (1 - tol) or f > hi * (1 + tol):
            return "sampled frequency %.9e Hz lies outside the spectrum's range [%.9e, %.9e] Hz" % (f, lo, hi)
        # follows the cumulative distribution: inverse CDF recomputed independently
        if kd == "Q":
            fr, c = self.t["Qfreq"], self.t["Qcdf"]
            i = pyloc(x, c)
            exp = fr[i] + (fr[i + 1] - fr[i]) * (x - c[i]) / (c[i + 1] - c[i])
        elif kd == "P":
            c, lc, lf = P["Pcdf"], P["Plogcdf"], P["Plogfreq"]
            i = pyloc(x, c)
            exp = 10.0 ** (lf[i] + (math.log10(x) - lc[i]) / (lc[i + 1] - lc[i]) * (lf[i + 1] - lf[i])) * NU_H
        else:
            fr, tt, cs = self.t[kd + "freq"], self.t[kd + "temp"], self.cdfs[kd]
            k = pyloc(temp, tt)
            w = min(1.0, max(0.0, (temp - tt[k]) / (tt[k + 1] - tt[k])))       # the physical reading: no extrapolation
            f1, f2 = fr[pyloc(x, cs[k])], fr[pyloc(x, cs[k + 1])]
            exp = f1 + w * (f2 - f1)
        if abs(f - exp) > 1e-9 * abs(exp):
            return "sampled frequency %.12e differs from the inverse cumulative distribution %.12e" % (f, exp)
        return None


# ------------------------------------------------------------------ run
def build(ck):
    d = ck.scratch
    ok1, log1 = vf.coq_extract("C18", d)
    ok2, log2 = (False, "") if not ok1 else vf.ocaml_build(d, ["c18_model"], DRIVER, "model", floats=True)
    ok3, log3 = vf.cxx_build(HARNESS, os.path.join(d, "impl"), extra=data_flags(), openmp=False)
    if not ok3:
        ck.breaks.append("harness does not compile against the atomic data / spectrum sources:\n" + log3[-2000:])
    if not (ok1 and ok2):
        ck.breaks.append("model extraction/build failed:\n" + (log1 + log2)[-2000:])
    return ok1 and ok2, ok3


def finish_breaks(ck, violated_kinds):
    """every break that is not explained by a concrete failing input of the same kind is reported (no-failing-input-found).
    The standing D7 violations never explain anything else."""
    if not ck.breaks:
        return
    other = [v for v in ck.violations if not v["no_input"] and v["key"].get("kind") != "lyman_continuum_extrapolation"]
    unexplained = sorted(k for k in ck.c18_brk_kinds if k not in violated_kinds)
    untagged = [b for b in ck.breaks if not b.startswith("correspondence C18")]
    if unexplained or (untagged and not other):
        ck.violation("broken without a failing input: " + " || ".join(b[:1500] for b in ck.breaks),
                     {"no_longer_checks": ck.breaks, "unexplained_kinds": unexplained}, key={"kind": "break"}, no_input=True)


def run(ck):
    cov = ck.coverage
    ck.c18_brk_kinds = set()
    try:
        tabs = regenerate()
    except Exception as e:
        ck.breaks.append("data files no longer parse (independent reader): %r" % (e,))
        ck.prove()
        finish_breaks(ck, set())
        return
    for n in c18_tables.NOTES:
        ck.breaks.append("source scan: " + n)
    T = Tables(tabs)
    obl = T.obligations()
    for name, ok in obl:
        if not ok:
            ck.breaks.append("regenerated-table obligation failed: " + name)
    ok_proof = ck.prove(extra_obligations=len(obl), extra_discharged=sum(1 for _, ok in obl if ok), timeout=1500)
    ck.log("tables regenerated: A=%d B=%d C=%d rows; python-side obligations %d/%d" % (len(tabs["A"]), len(tabs["B"]), len(tabs["C"]), sum(1 for _, ok in obl if ok), len(obl)))
    okm, oki = build(ck)
    d = ck.scratch
    ops = gen_ops(ck, T)
    text = "\n".join(o for o, _ in ops) + "\n"
    nviol = {}

    def viol(kind, what, replay, key):
        nviol[kind] = nviol.get(kind, 0) + 1
        nviol[key["kind"]] = nviol.get(key["kind"], 0) + 1
        if nviol[kind] <= 2:
            ck.violation(what, replay, key=key)

    out_i = out_m = None
    if oki:
        rc, out_i = vf.run_lines([os.path.join(d, "impl")], text, timeout=900)
        if rc != 0:
            ck.breaks.append("implementation harness exited with %d" % rc)
    if okm:
        rc, out_m = vf.run_lines([os.path.join(d, "model")], text, timeout=900)
        if rc != 0:
            ck.breaks.append("model driver exited with %d" % rc)
    # ---- part 1: formulas
    evals = 0
    mism = {}
    hist_x = {}
    hist_r = {}
    hist_c = {}
    distinct = set()
    samples = []
    if out_i is not None:
        ki = sorted(l for l in out_i if l.startswith("K") and l != "K end")
        body_i = [l for l in out_i if not (l.startswith("K"))]
        if out_m is not None:
            km = sorted(l for l in out_m if l.startswith("K") and l != "K end")
            body_m = [l for l in out_m if not (l.startswith("K"))]
            if ki != km:
                sd = sorted(set(ki) ^ set(km))
                ck.breaks.append("prepared tables differ between the C++ constructors and the regenerated model (%d lines), e.g. %s" % (len(sd), sd[:4]))
            cov["table_entries_compared"] = len(ki)
        else:
            body_m = None
        body_ops = ops[1:]
        if len(body_i) != len(body_ops):
            ck.breaks.append("implementation produced %d result lines for %d operations" % (len(body_i), len(body_ops)))
        prev = {}
        for idx, ((op, meta), li) in enumerate(zip(body_ops, body_i)):
            lm = body_m[idx] if body_m is not None and idx < len(body_m) else None
            tag = ""
            if lm is not None and " #" in lm:
                lm, tag = lm.split(" #")
                tag = tag.split("br=")[-1].strip()
            kind = meta[0]
            evals += 1
            why = None
            if kind == "L":
                j = int(li.split()[1])
                why = oracle_locate(meta[1], meta[2], j)
                rp = {"op": op, "array": meta[1], "x": meta[2], "returned": j}
                key = {"kind": "locate"}
            else:
                v = unhx(li.split()[1])
                rp = {"op": op, "input": meta[2], "what": str(meta[1]), "returned": v, "returned_bits": li.split()[1]}
                if kind == "X":
                    why = oracle_xsec(T, meta[1], meta[2], v)
                    key = {"kind": "cross_section", "ion": meta[1]}
                    h = hist_x.setdefault(meta[1], {})
                    h[tag or "?"] = h.get(tag or "?", 0) + 1
                    if v > 0.0:
                        distinct.add(("X", meta[1], tag, li))
                elif kind == "V":
                    why = oracle_V(T, meta[1], meta[2], v)
                    key = {"kind": "cross_section_shell"}
                    hist_x.setdefault("other (nz,ne,is)", {}).setdefault(tag or "?", 0)
                    hist_x["other (nz,ne,is)"][tag or "?"] += 1
                    if v > 0.0:
                        distinct.add(("V", meta[1], tag, li))
                elif kind == "R":
                    why = oracle_rec_point(meta[1], meta[2], v)
                    if why is None and meta[1] in ("H_n", "He_n"):
                        p = prev.get(meta[1])
                        if p is not None and p[0] < meta[2] and not (v < p[1] or (v == p[1] and meta[2] < p[0] * (1 + 1e-12))):
                            why = "recombination rate does not decrease: alpha(%r)=%r, alpha(%r)=%r" % (p[0], p[1], meta[2], v)
                            rp["previous"] = {"T": p[0], "rate": p[1]}
                        prev[meta[1]] = (meta[2], v)
                    key = {"kind": "recombination", "ion": meta[1]}
                    hist_r[meta[1]] = hist_r.get(meta[1], 0) + 1
                    distinct.add(("R", meta[1], li))
                elif kind == "W":
                    why = None if math.isfinite(v) else "Verner recombination fit not finite"
                    key = {"kind": "recombination_verner"}
                    hist_r["rrfit (iz,in)"] = hist_r.get("rrfit (iz,in)", 0) + 1
                elif kind == "C":
                    why = oracle_ct(v)
                    key = {"kind": "charge_transfer", "reaction": str(meta[1])}
                    nm = "%s:%s" % (("rec_H", "ion_H", "rec_He")[meta[1][0]], meta[1][1])
                    hist_c[nm] = hist_c.get(nm, 0) + 1
                    if v > 0.0:
                        distinct.add(("C", nm, li))
            if why:
                viol(key["kind"], "C18 fails on the real code: %s [%s]" % (why, op), rp, key)
            if lm is not None and li != lm:
                mism[kind] = mism.get(kind, 0) + 1
                if mism[kind] <= 3 and not why:
                    ck.breaks.append("correspondence C18 model <-> real code (%s): op %r impl=%s model=%s" % (kind, op, li, lm))
                    ck.c18_brk_kinds.add(key["kind"])
            if len(samples) < 6 and idx % 9973 == 17:
                samples.append({"op": op, "impl": li, "model": lm})
    # ---- part 2: spectra (tables come from the real objects)
    sp_evals, sp_mism = run_spectra(ck, T, d, oki, okm, viol, distinct, samples)
    evals += sp_evals
    mk_evals, mk_mism = run_masked(ck, d, okm, viol, distinct, samples)
    evals += mk_evals
    sp_mism = {**sp_mism, **mk_mism}
    cov["evaluations"] = evals
    cov["distinct_nontrivial"] = len(distinct)
    cov["rule"] = ("one evaluation = one call of the real function (get_cross_section / get_cross_section_verner / get_recombination_rate / get_recombination_rate_verner / "
                   "three charge-transfer functions / Utilities::locate / get_random_frequency with an injected random number) whose result is compared as a 64-bit pattern with the "
                   "extracted model and checked by the property oracle. Inputs: log grids over [0.5,100] x 13.6 eV, [10,1e9] K, [1e-3,1e5] x 1e4 K, SplitMix64(VERIF_SEED) log-uniform points, "
                   "and -2..+2 ulp around every threshold, inner-shell edge, every shell edge of the ion stage, the clamp bounds, table nodes of every sampler and the 1e-10 floor. "
                   "non-trivial = result > 0 (cross sections, charge transfer), any rate, any sample; distinct = distinct (function, ion/reaction/spectrum, branch tag, result bits)")
    cov["cross_section_branch_histogram_per_ion"] = hist_x
    cov["branch_legend"] = "one letter per summed shell: b below threshold, o shell outside the ion, g dark gap below the inner edge, A 1995 fit, B 1996 fit"
    cov["recombination_evaluations_per_ion"] = hist_r
    cov["charge_transfer_evaluations_per_reaction"] = hist_c
    cov["mismatches"] = {**mism, **sp_mism}
    cov["samples"] = samples
    cov["balance_reactions"] = ["%s:%s" % (("rec_H", "ion_H", "rec_He")[k], IONS[i]) for k, i in BALANCE]
    ck.assumptions += [
        "theorems are over exact reals; the binary64 instance of the same formulas is tied to the code bit for bit and its outputs are checked by the oracle, sign/range preservation under rounding is not proved",
        "C pow(x,y) is modelled by Rpower x y, equal for x > 0; every base is proved positive under the table conditions",
        "pow/exp/log10 of the executable model are the C library's through OCaml; the harness compiles the implementation files with -fno-builtin -ffp-contract=off",
        "spectrum tables are taken from the real constructors; their order conditions are decided on every run by the extracted checkers",
        "samplers: the random number is injected into RandomGenerator's state so that get_uniform_random_double returns it",
    ]
    finish_breaks(ck, set(nviol))
    if not ck.violations:
        ck.resolve_breaks_without_input()


MASKED_HARNESS = os.path.join(vf.VERIF, "harness/c18/masked_harness.cpp")


def masked_expected(nb=50, per_bin=40):
    """the tables MaskedPhotonSourceSpectrum must build for the staircase spectrum of the harness (call k falls into bin k mod (nb-1)) and
    the linear mask: frequency bins and masked bin values in the constructor's own binary64 arithmetic, the cumulative table exactly"""
    from fractions import Fraction as Fr
    minf = 3.289e15
    maxf = 4. * minf
    bs = (maxf - minf) / (nb - 1.)
    freq = [minf + i * bs for i in range(nb)]
    w = [(float(per_bin) if i < nb - 1 else 0.0) * (1. - (freq[i] - minf) / (maxf - minf)) for i in range(nb)]
    tot = sum(Fr(x) for x in w[:-1])
    cdf = [float(sum((Fr(x) for x in w[:i]), Fr(0)) / tot) for i in range(nb)]
    return freq, w, cdf, float(tot) * 100. / (per_bin * (nb - 1))


def run_masked(ck, d, okm, viol, distinct, samples):
    """MaskedPhotonSourceSpectrum (real class from the repo's library): tables and samples, (M) a staircase spectrum whose histogram is known
    exactly and (N) the real Planck spectrum, both under the linear mask"""
    impl = os.path.join(d, "impl_masked")
    ok, log = vf.cxx_build(MASKED_HARNESS, impl, libs=True, openmp=False)
    if not ok:
        ck.breaks.append("masked-spectrum harness does not compile/link against the repository:\n" + log[-1500:])
        ck.c18_brk_kinds.add("sampler_M")
        return 0, {}
    rc, tout = vf.run_lines([impl], "TAB M\nTAB N\n", timeout=600)
    sp = Spectra()
    tlines = {"M": [], "N": []}
    for l in tout:
        if l.startswith("T ") and l != "T end":
            sp.feed(l)
            tlines[l.split()[1]].append(l)
    if rc != 0 or any(k not in sp.t for k in ("Mfreq", "Mcdf", "Mflux", "Nfreq", "Ncdf")):
        ck.breaks.append("masked-spectrum harness exited with %d / printed no tables" % rc)
        ck.c18_brk_kinds.add("sampler_M")
        return 0, {}
    rng = ck.rng
    efreq, ew, ecdf, eflux = masked_expected()
    # --- the tables of the real object (staircase instance) against what the constructor has to build
    why = None
    if [hx(x) for x in sp.t["Mfreq"]] != [hx(x) for x in efreq]:
        why = "frequency bins differ from min + i * (max - min)/(n - 1)"
    else:
        c = sp.t["Mcdf"]
        dev = max(abs(a - b) for a, b in zip(c, ecdf))
        ck.coverage["masked_table_max_deviation_from_exact_cdf"] = dev
        if c[0] != 0.0:
            why = ("the cumulative distribution starts at %r at the lowest frequency %r Hz instead of 0: random numbers below that value are extrapolated below the lowest frequency "
                   "(the table entry of bin i contains bin i itself, i.e. the whole distribution is shifted by one bin)" % (c[0], efreq[0]))
        elif dev > 1e-12:
            i = max(range(len(c)), key=lambda j: abs(c[j] - ecdf[j]))
            why = "cumulative distribution at %r Hz is %r, the masked histogram gives %r" % (efreq[i], c[i], ecdf[i])
        elif abs(sp.t["Mflux"][0] - eflux) > 1e-12 * eflux:
            why = "total flux %r differs from (masked fraction) x (unmasked flux) = %r" % (sp.t["Mflux"][0], eflux)
        else:
            spec = sp.t["Mspectrum"]
            for i in range(len(spec)):
                exp = ew[i] * 100. / (40 * 49)
                if abs(spec[i] - exp) > 1e-9 * max(exp, 1e-3):
                    why = "get_spectrum() reports %r for the bin starting at %r Hz, the masked histogram has %r there" % (spec[i], efreq[i], exp)
                    break
    if why:
        viol("sampler_M", "C18 fails on the real MaskedPhotonSourceSpectrum (49 bins with 40 samples each, linear mask): " + why,
             {"spectrum": "Masked", "what": "tables", "ops": ["S M %s %s" % (hx(0.0), hx(1e-3))], "T": 0.0, "random_number": 1e-3}, {"kind": "sampler", "spectrum": "Masked"})
    # --- samples
    n = 200 if ck.quick else 2500
    ops, metas = [], []
    for kd in "MN":
        c = sp.t[kd + "cdf"]
        first = [v for v in c if v > 0][:1] or [0.01]
        xs = sampler_xs(rng, c + ecdf if kd == "M" else c, n) + [first[0] * f for f in (0.01, 0.3, 0.5, 0.9, 0.999)] + [ecdf[1] * f for f in (0.02, 0.5, 0.97)]
        for x in sorted(xs):
            ops.append("S %s %s %s" % (kd, hx(0.0), hx(x)))
            metas.append((kd, x))
    rc, out_i = vf.run_lines([impl], "TAB M\nTAB N\n" + "\n".join(ops) + "\n", timeout=600)
    out_i = [l for l in out_i if l.startswith("S")]
    out_m = None
    mism = {}
    if okm:
        pre = tlines["M"] + ["CHK M", "MCDF M %d %s" % (len(ew), " ".join(hx(x) for x in ew))] + tlines["N"] + ["CHK N"]
        rc2, om = vf.run_lines([os.path.join(d, "model")], "\n".join(pre + ops) + "\n", timeout=600)
        chk = [l for l in om if l.startswith("CHK")]
        mc = [l for l in om if l.startswith("T M cdf")]
        out_m = [l for l in om if l.startswith("S")]
        bad = [l for l in chk if not l.endswith("true")]
        if bad or len(chk) != 2:
            ck.breaks.append("conditions of theorem C18_sample_masked_in_range do not hold of the real masked tables (extracted checkers: frequencies increasing, distribution non-decreasing and 0 at the lowest frequency): %s" % (bad or chk))
            ck.c18_brk_kinds.add("sampler_M")
        impl_line = [l for l in tlines["M"] if l.startswith("T M cdf")]
        if not mc or not impl_line or mc[0].split() != impl_line[0].split():
            mism["masked_cdf"] = 1
            ck.breaks.append("correspondence C18 masked_cdf (model of the constructor's cumulative/normalise loops) <-> real table: differ in %d of %d entries"
                             % (sum(1 for a, b in zip((mc or [""])[0].split(), (impl_line or [""])[0].split()) if a != b), len(ew)))
            ck.c18_brk_kinds.add("sampler_M")
    prev = {}
    hist = {}
    for idx, (kd, x) in enumerate(metas):
        li = out_i[idx] if idx < len(out_i) else "missing"
        lm = out_m[idx] if out_m is not None and idx < len(out_m) else None
        try:
            f = unhx(li.split()[1])
        except Exception:
            ck.breaks.append("masked sampler output unreadable: %r" % li)
            continue
        name = "Masked(staircase)" if kd == "M" else "Masked(Planck 40000 K)"
        hist[name] = hist.get(name, 0) + 1
        distinct.add(("S", name, li))
        fr = sp.t[kd + "freq"]
        why = None
        if not math.isfinite(f) or f < fr[0] * (1 - 4e-16) or f > fr[-1] * (1 + 4e-16):
            why = "sampled frequency %.9e Hz lies outside the spectrum's range [%.9e, %.9e] Hz (13.6 eV = 3.288e15 Hz)" % (f, fr[0], fr[-1])
        else:
            c = ecdf if kd == "M" else sp.t[kd + "cdf"]
            i = pyloc(x, c)
            exp = fr[i] + (fr[i + 1] - fr[i]) * (x - c[i]) / (c[i + 1] - c[i])
            if abs(f - exp) > 1e-9 * abs(exp):
                why = "sampled frequency %.12e differs from the inverse cumulative distribution of the masked histogram %.12e" % (f, exp)
            p = prev.get(kd)
            if why is None and p is not None and p[0] <= x and f < p[1] * (1 - 4e-16):
                why = "sampled frequency is not monotone in the random number: x=%r -> %r, x=%r -> %r" % (p[0], p[1], x, f)
            prev[kd] = (x, f)
        if why:
            viol("sampler_M", "C18 fails on the real %s sampler: random number %r -> %s" % (name, x, why),
                 {"spectrum": "Masked", "kind": kd, "T": 0.0, "random_number": x, "returned_frequency": f, "ops": [ops[idx]]}, {"kind": "sampler", "spectrum": "Masked"})
        if lm is not None and li != lm:
            mism["S" + kd] = mism.get("S" + kd, 0) + 1
            if mism["S" + kd] <= 3 and not why:
                ck.breaks.append("correspondence C18 sampler model <-> real %s: x=%r impl=%s model=%s" % (name, x, li, lm))
                ck.c18_brk_kinds.add("sampler_M")
        if len(samples) < 12 and idx % 97 == 5:
            samples.append({"op": ops[idx], "impl": li, "model": lm})
    ck.coverage.setdefault("sampler_evaluations", {}).update(hist)
    return len(metas), mism


def run_spectra(ck, T, d, oki, okm, viol, distinct, samples):
    if not oki:
        return 0, {}
    rng = ck.rng
    q = ck.quick
    impl = os.path.join(d, "impl")
    ptemps = [4e4, 1e4, 3e3, 1e5] if q else [4e4, 1e4, 3e3, 5e3, 2e4, 1e5, 1e6]
    # step 1: dump the tables
    t_in = "".join("P %s\nTAB P\n" % hx(t) for t in ptemps) + "TAB Q\nTAB H\nTAB E\n"
    rc, tout = vf.run_lines([impl], t_in, timeout=600)
    if rc != 0:
        ck.breaks.append("implementation harness exited with %d while building the spectra" % rc)
        return 0, {}
    sp = Spectra()
    blocks = []          # per TAB: list of T lines
    cur = None
    for l in tout:
        if l.startswith("T "):
            if cur is None:
                cur = []
            if l == "T end":
                blocks.append(cur)
                cur = None
            else:
                cur.append(l)
    pl_tabs = []
    for b in blocks[:len(ptemps)]:
        for l in b:
            sp.feed(l)
        pl_tabs.append(sp.snapshot_planck())
    for b in blocks[len(ptemps):]:
        for l in b:
            sp.feed(l)
    # step 2: sample operations
    n = 240 if q else 3000
    ops_i, ops_m, metas = [], [], []

    def add(kd, temp, x, P=None, pi=None):
        line = "S %s %s %s" % (kd, hx(temp), hx(x))
        ops_i.append(line)
        ops_m.append(line)
        metas.append((kd, temp, x, P, pi))

    for pi, t in enumerate(ptemps):
        ops_i.append("P %s" % hx(t))
        ops_m.append("P %s" % hx(t))
        metas.append(None)
        ops_m += blocks[pi]
        ops_m.append("CHK P")
        for x in sorted(sampler_xs(rng, pl_tabs[pi]["Pcdf"], n)):
            add("P", t, x, pl_tabs[pi], pi)
    ops_m += blocks[len(ptemps)]
    ops_m.append("CHK Q")
    for x in sorted(sampler_xs(rng, sp.t["Qcdf"], 2 * n)):
        add("Q", 8000.0, x)
    for bi, kd in ((len(ptemps) + 1, "H"), (len(ptemps) + 2, "E")):
        ops_m += blocks[bi]
        ops_m.append("CHK " + kd)
        tt = sp.t[kd + "temp"]
        temps_in = IN_T + [tt[rng.below(len(tt))] for _ in range(3)] + [tt[0] + (tt[-1] - tt[0]) * rng.uniform() for _ in range(4 if q else 40)]
        temps_in += ulps(tt[37], (-1, 1))
        for t in temps_in:
            k = pyloc(t, tt)
            for x in sorted(sampler_xs(rng, sp.cdfs[kd][k] + sp.cdfs[kd][k + 1], n // 4)):
                add(kd, t, x)
        for t in OUT_T:
            for x in sorted(sampler_xs(rng, sp.cdfs[kd][0 if t < tt[0] else -1], n // 6)):
                add(kd, t, x)
    rc, out_i = vf.run_lines([impl], "\n".join(ops_i) + "\n", timeout=900)
    out_m = None
    if okm:
        rc2, out_m = vf.run_lines([os.path.join(d, "model")], "\n".join(ops_m) + "\n", timeout=900)
        chk = [l for l in out_m if l.startswith("CHK")]
        out_m = [l for l in out_m if not l.startswith("CHK")]
        bad = [l for l in chk if not l.endswith("true")]
        if bad or len(chk) != len(ptemps) + 3:
            ck.breaks.append("order conditions of the real spectrum tables no longer hold (extracted checkers): %s" % (bad or chk))
        ck.coverage["spectrum_table_obligations"] = {"checked": len(chk), "hold": len(chk) - len(bad),
                                                     "what": "cdf non-decreasing, frequencies and temperatures strictly increasing (Planck x%d, He 2-photon, H and He Lyman continua 100 rows each)" % len(ptemps)}
    evals = 0
    mism = {}
    hist = {}
    prev = {}
    d7 = {}
    for idx, meta in enumerate(metas):
        if meta is None:
            continue
        kd, temp, x, P, pi = meta
        li = out_i[idx] if idx < len(out_i) else "missing"
        lm = out_m[idx] if out_m is not None and idx < len(out_m) else None
        evals += 1
        name = {"P": "Planck", "Q": "He2photon", "H": "H_Lyman", "E": "He_Lyman"}[kd]
        try:
            f = unhx(li.split()[1])
        except Exception:
            ck.breaks.append("sampler output unreadable: %r" % li)
            continue
        inside = True
        if kd in "HE":
            tt = sp.t[kd + "temp"]
            inside = tt[0] <= temp <= tt[-1]
        hist[name + ("" if inside else " (T outside table)")] = hist.get(name + ("" if inside else " (T outside table)"), 0) + 1
        distinct.add(("S", name, li))
        why = sp.oracle(kd, temp, x, f, P)
        rp = {"spectrum": name, "T": temp, "random_number": x, "returned_frequency": f, "ops": (["P %s" % hx(temp)] if kd == "P" else []) + ["S %s %s %s" % (kd, hx(temp), hx(x))]}
        if why is None and inside:
            pk = (kd, temp, pi)
            p = prev.get(pk)
            if p is not None and p[0] <= x and f < p[1] * (1 - 4e-16):
                why = "sampled frequency is not monotone in the random number: x=%r -> %r, x=%r -> %r" % (p[0], p[1], x, f)
            prev[pk] = (x, f)
        if why:
            if kd in "HE" and not inside:
                lo, hi = sp.range_of(kd)
                sev = (lo - f) / lo if f < lo else (f - hi) / hi if f > hi else 0.0
                # prefer a witness below the ionization threshold at a temperature the code assigns itself (500 K)
                score = (2 if (temp == 500.0 and f < lo) else 1 if f < lo else 0, sev)
                if kd not in d7 or score > d7[kd][0]:
                    d7[kd] = (score, why, rp)
            else:
                viol("sampler_" + kd, "C18 fails on the real %s sampler: %s" % (name, why), rp, {"kind": "sampler", "spectrum": name})
        if lm is not None and li != lm:
            mism["S" + kd] = mism.get("S" + kd, 0) + 1
            if mism["S" + kd] <= 3 and not why:
                ck.breaks.append("correspondence C18 sampler model <-> real %s: T=%r x=%r impl=%s model=%s" % (name, temp, x, li, lm))
                ck.c18_brk_kinds.add("sampler_" + kd)
        if len(samples) < 10 and idx % 997 == 5:
            samples.append({"op": ops_i[idx], "impl": li, "model": lm})
    for kd, (score, why, rp) in sorted(d7.items()):
        nm = "H" if kd == "H" else "He"
        ck.violation("C18 fails on the real %s Lyman continuum sampler (temperature interpolation weight not clamped, D7): T=%r K (table covers [1567.5, 14932.5] K), random number %r -> %s"
                     % (nm, rp["T"], rp["random_number"], why), rp, key={"kind": "lyman_continuum_extrapolation", "species": nm})
    ck.coverage["sampler_evaluations"] = hist
    return evals, mism


def replay(ck, rp):
    d = ck.scratch
    tabs = regenerate()
    T = Tables(tabs)
    ok3, log3 = vf.cxx_build(HARNESS, os.path.join(d, "impl"), extra=data_flags(), openmp=False)
    if not ok3:
        print(log3[-2000:])
        return 2
    r = rp["replay"]
    impl = os.path.join(d, "impl")
    if r.get("spectrum") == "Masked":
        ck.c18_brk_kinds = set()
        got = []
        n = run_masked(ck, d, False, lambda kind, what, replay, key: got.append(what), set(), [])
        print("REPLAY:", got[0] if got else "property holds on this input")
        return 1 if got else 0
    if "ops" in r:           # sampler
        kd = r["ops"][-1].split()[1]
        pre = "TAB %s\n" % kd if kd != "P" else r["ops"][0] + "\nTAB P\n"
        rc, out = vf.run_lines([impl], pre + "\n".join(r["ops"]) + "\n")
        sp = Spectra()
        for l in out:
            if l.startswith("T "):
                sp.feed(l)
        f = unhx([l for l in out if l.startswith("S ")][-1].split()[1])
        why = sp.oracle(kd, r["T"], r["random_number"], f, sp.snapshot_planck() if kd == "P" else None)
        print("T=%r x=%r -> frequency %.12e Hz" % (r["T"], r["random_number"], f))
    elif "op" in r:
        rc, out = vf.run_lines([impl], r["op"] + "\n")
        print("\n".join(out))
        f = r["op"].split()
        why = None
        if f[0] == "L":
            why = oracle_locate(r["array"], r["x"], int(out[0].split()[1]))
        else:
            v = unhx(out[0].split()[1])
            x = unhx(f[-1])
            if f[0] == "X":
                why = oracle_xsec(T, IONS[int(f[1])], x, v)
            elif f[0] == "V":
                why = oracle_V(T, (int(f[1]), int(f[2]), int(f[3])), x, v)
            elif f[0] == "R":
                why = oracle_rec_point(IONS[int(f[1])], x, v)
                if why is None and "previous" in r:
                    if not v < r["previous"]["rate"]:
                        why = "recombination rate does not decrease"
            elif f[0] == "C":
                why = oracle_ct(v)
    else:
        print("nothing to replay (no concrete input in this record)")
        return 0
    print("REPLAY:", why or "property holds on this input")
    return 1 if why else 0
