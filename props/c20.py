# C20  parameter files / units / snapshot write -> read: proof (Coq) + correspondence of the executable models with
#      src/YAMLDictionary.hpp, src/ParameterFile.cpp, src/Unit.hpp, src/UnitConverter.hpp, and (snapshot clause) a round trip through the real
#      DensitySubGridCreator / CartesianDensityGrid -> GadgetDensityGridWriter (HDF5) -> CMacIonizeSnapshotDensityFunction /
#      BufferedCMacIonizeSnapshotDensityFunction -> grid on the same geometry, tied to the extracted cell orderings of coq/Cxx/C20_SnapDefs.v
import os, re, json, math
import vf

LEVEL = "proof"
CLAIM = dict(cat="proof", design="§3 C20, §8 O2/O3",
   text="Coq theorems on literal models of YAMLDictionary (parser constructor, print_contents in plain and used-values form), Unit/UnitConverter and the Cartesian snapshot reader's index arithmetic: "
        "parse(print(d)) = d for EVERY well-formed dictionary (any nesting depth; names without ':' '#' LF and without surrounding blanks; values non-empty, trimmed, '#'-free; keys in std::map order), on lines and on the "
        "LF-joined text; the printer's pop loop with shrinking bound (O3) is proved harmless (stale stack entries only re-print group headers); the used-values dump re-parses to the same keys with the used values; "
        "over R: to-SI/from-SI are inverse for non-zero factors, products and compound unit token lists convert as the product of their parts, exponents add, photon energy/wavelength <-> frequency conversions invert "
        "each other; Unit::operator^= at exponent 0 (O2) is modelled in two variants: for the pinned code 'u^0 has factor 1' and 'exponents add' are refuted with the witness cm (cm^0 converts with 0.01), for the repaired "
        "code (hooks/c20_fix_unit_pow_zero.patch) u^0 = 1 and u^(a+b) = u^a u^b hold for all integers; the built-in unit table agrees with itself within 1 ulp (kpc/pc, Gyr/Myr/yr, km/m/cm, kg/g, J/erg, bar/Pa, angstrom); "
        "the snapshot reader maps the midpoint of cell i of n to index i for every n (over Q). "
        "Snapshot clause (Cxx/C20_SnapDefs.v, literal Z models): the task-based HDF5 writer's appends (subgrid loop, blocks of 10000 cells, running block_offset; DensitySubGridCreator::create_subgrid and "
        "DensitySubGrid::get_three_index decompositions) and the stores of BOTH branches of CMacIonizeSnapshotDensityFunction::initialize() (TaskBased: numblock = ncell/numsubgrid, the six loops, cell_index strides; "
        "Cartesian: placement by the stored coordinate) plus the position lookup of operator(). For ALL subgrid counts and cells per subgrid >= 1 (non-cubic included): the writer puts cell c of subgrid g at "
        "position g*cells_per_subgrid + c and this is a bijection onto [0, ncell); the reader's cell_index of (block, cell in block) is exactly that position and its stores hit every cell and every position once; "
        "the midpoint the grid computes for a cell is looked up as that cell; hence for an arbitrary field f every cell reads back f(cell) (rd_value .. (snapshot_file S B f) (midpoint of (g,c)) = Some (f (global_cell g c))); "
        "the legacy writer/reader pair reads back every cell whatever the order. Refuted variant: with the box known only to the 6 printed digits of the used values another cell is looked up. "
        "Tie: the extracted models are compared verbatim (text in hex, doubles as bit patterns) with the real YAMLDictionary, ParameterFile and UnitConverter on generated parameter trees, typed queries with defaults, "
        "used-values dumps fed back, and compound unit strings on every run; the unit table and SI unit names are dumped from the real converter. Snapshot tie, every run: ~55 (quick) geometries (cubic, non-cubic subgrids with "
        "different cell counts in x, y, z, one subgrid per axis, one-cell subgrids, subgrids > 10000 cells, non-cubic and offset boxes in m/cm/pc/kpc, periodic flags) are built as real DensitySubGridCreator< DensitySubGrid >, "
        "< HydroDensitySubGrid > or CartesianDensityGrid grids whose cells hold distinct values (functions of the global cell index), written with the real GadgetDensityGridWriter as the simulations call it, read back by the real "
        "CMacIonizeSnapshotDensityFunction (and BufferedCMacIonizeSnapshotDensityFunction) into a second grid on the same geometry; every cell's density, temperature and all stored neutral fractions must be BIT-IDENTICAL "
        "(the datasets are binary64: H5Tget_size = 8 is checked; a binary32 file would be held to the nearest float); the raw file order and the dataset position each cell was read from (observed through the distinct values) "
        "are compared with the extracted wr_entries / rd_entries for every cell.",
   note="Driver tie (no model): the used-values dump of complete runs (default mode with a tracker, default mode, task-based) is fed back to the binary: nothing the run was given is dumped as unused, the second run succeeds and dumps the same values. Snapshot clause: proved for the TaskBased and Cartesian branches only (AMR and Voronoi snapshots are not modelled or exercised); positions over Q (exact midpoints) under the hypothesis that the reader's "
        "anchor/sides equal the grid's; binary64 rounding of ncell*(x-anchor)/side and the HDF5 library are exercised on the real code for the generated boxes only, not proved. The buffered reader is tied by the oracle and "
        "by the same index model, its own position arithmetic is not modelled. FINDINGS of the unchanged code (reported as notes, see PINNED_BOX_PRECISION): (1) snapshot_box_precision: the /Parameters block stores "
        "SimulationBox:anchor/sides as used values with 6 significant digits; a box that needs more (e.g. anchor z 428.77666347504663 m, side 0.007542463164563509 m, 12 cells: 1056 of 1152 cells) is read back with the values "
        "of neighbouring cells; proved as C20_snapshot_printed_precision_box_refuted, fix in hooks/c20_fix_snapshot_box_precision.patch; the generators use only boxes that survive the 6 digit round trip while the flag is set. "
        "(2) a snapshot written with the DEFAULT output fields (no Temperature without hydro) cannot be read back at all (cmac_error 'Failed to open dataset Pressure'); all round trips set DensityGridWriterFields:Temperature. "
        "Number formatting/parsing (operator<< with 6 digits, strtod/stod/sscanf/stoi) are oracles: 'reproduces every physical value to the printed precision' is checked on the real "
        "code by re-reading (relative 5.1e-6), not proved. Unit theorems are over R; binary64 only through bit-exact correspondence. Trusted: Coq kernel, standard real-number axioms (sig_forall_dec, "
        "functional_extensionality_dep), PrimFloat primitives, extraction (ExtrOcamlString, ExtrOCamlFloats). The harness turns cmac_error (abort) into an exception to compare rejected inputs. "
        "KNOWN FINDING (not repaired): a string parameter used with an empty value (SPHNGSnapshotDensityFunction 'DensityFunction:binary dump name', default \"\") is dumped as 'name:  # (default value)', which reads back "
        "as a group header, so the used-values dump is rejected when fed back (key empty_used_value).",
   technique="Coq proof (lists of bytes, sorted-map invariant; reals; rationals; Z index bijections) + extraction-based differential correspondence with the real classes + HDF5 write/read round trip on real grids")

# which variant of Unit::operator^= the code under test is expected to be: True = pinned commit (exponent 0 keeps the
# scale factor, reported as finding unit_pow_zero), False = repaired (hooks/c20_fix_unit_pow_zero.patch)
PINNED_POW_ZERO = False
if os.environ.get("C20_PINNED_POW_ZERO") in ("0", "1"):      # for trying the patch: CMI_REPO=<worktree> C20_PINNED_POW_ZERO=0
    PINNED_POW_ZERO = os.environ["C20_PINNED_POW_ZERO"] == "1"
# snapshot parameter block: True = the tree under test stores SimulationBox:anchor/sides in the snapshot as USED VALUES, i.e. with the
# 6 significant digits of operator<< (finding snapshot_box_precision: a box that is not representable in 6 digits is read back
# shifted, cells receive values of neighbouring cells); the generators then only use boxes that survive the 6 digit round trip and
# the two probe geometries are reported as a note.  False = repaired (hooks/c20_fix_snapshot_box_precision.patch): every box is
# generated and a failing probe is a violation.
PINNED_BOX_PRECISION = False      # repo commit 9784fe3 stores anchor and sides of the box with 17 digits; True = the pinned commit (6 digits)
if os.environ.get("C20_PINNED_BOX_PRECISION") in ("0", "1"):
    PINNED_BOX_PRECISION = os.environ["C20_PINNED_BOX_PRECISION"] == "1"
HARNESS = os.path.join(vf.VERIF, "harness/c20/roundtrip_harness.cpp")
SNAP_HARNESS = os.path.join(vf.VERIF, "harness/c20/snapshot_harness.cpp")
DRIVER = os.path.join(vf.VERIF, "ocaml/c20_driver.ml")


def hx(b):
    if isinstance(b, str):
        b = b.encode("latin-1")
    return b.hex() if b else "-"


def unhx(h):
    return b"" if h == "-" else bytes.fromhex(h)


def undump(s):
    if s == "-":
        return []
    return [tuple(unhx(x) for x in e.split(":")) for e in s.split(",")]


def fields(line):
    """'Y D=.. P=.. R=..' -> dict; 'Y ERR' -> {'ERR': True}"""
    f = line.split()
    d = {"op": f[0] if f else ""}
    for x in f[1:]:
        if "=" in x:
            k, v = x.split("=", 1)
            d[k] = v
        else:
            d.setdefault("args", []).append(x)
    if "ERR" in d.get("args", []):
        d["ERR"] = True
    return d


def hd(tok):
    return math.nan if tok == "nan" else vf.bits_dbl(int(tok, 16))


def ulps(a, b):
    """distance in units in the last place between two finite doubles of the same sign"""
    ia, ib = vf.dbl_bits(a), vf.dbl_bits(b)
    if (ia >> 63) != (ib >> 63):
        return 1 << 62
    return abs(ia - ib)


# ----------------------------------------------------------------------------
# generators: parameter trees
NAME_FIRST = [b"a", b"b", b"A", b"z", b"0", b"_", b"-", b"!", b"+", b";", b"~", b".", b"=", b"\xc3\xa9", b"Z", b"9"]
NAME_MID = NAME_FIRST + [b" ", b" ", b"\t", b"  "]
VALUES = [b"1", b"42", b"-7", b"1.5", b"1e-3", b"2.5E+10", b"true", b"False", b"yes", b"off", b"[1, 2, 3]", b"[1.5,2.5,3.5]",
          b"[1 m, 2 cm, 3 km]", b"[true, false, yes]", b"3 kpc", b"1e-3 g cm^-3", b"8000. K", b"13.6 eV", b"10 km s^-1",
          b"foo", b"foo bar", b"a: b", b"x=1;y", b"path/to/file.hdf5", b"\xc3\xa9t\xc3\xa9", b"v:", b"::", b"[", b"0x1F", b"-",
          b"default value", b"value not used", b"1\t2"]


def gen_name(rng):
    r = rng.below(10)
    if r < 5:
        return rng.choice(NAME_FIRST)
    if r < 8:
        return rng.choice(NAME_FIRST) + rng.choice(NAME_FIRST)
    return rng.choice(NAME_FIRST) + rng.choice(NAME_MID) + rng.choice(NAME_FIRST)


def gen_paths(rng, idx):
    """list of (path, value); consecutive paths deliberately rise and drop by >= 2 levels"""
    n = 1 + rng.below(3 if idx % 5 == 0 else 10)
    pool = [gen_name(rng) for _ in range(2 + rng.below(4))]
    paths = []
    cur = []
    mode = idx % 4
    for i in range(n):
        if mode == 0:       # free
            keep = rng.below(len(cur) + 1) if cur else 0
            ln = 1 + rng.below(5)
        elif mode == 1:     # deep, then cut to a short prefix and go deep again (nesting drop >= 2 with a longer next key)
            keep = rng.below(2) if cur else 0
            ln = 3 + rng.below(3)
        elif mode == 2:     # alternate deep / shallow
            keep = rng.below(len(cur) + 1) if cur else 0
            ln = (4 + rng.below(2)) if i % 2 == 0 else 1 + rng.below(2)
        else:               # growing depth
            keep = max(0, len(cur) - 1 - rng.below(3))
            ln = min(5, len(cur) + 1 + rng.below(2))
        keep = min(keep, ln - 1, max(0, len(cur) - 1))
        p = cur[:keep]
        while len(p) < ln:
            p.append(rng.choice(pool) if rng.below(4) else gen_name(rng))
        cur = p
        paths.append((list(p), rng.choice(VALUES)))
    # drop entries whose key is a group of another entry (a name is a value or a group), except rarely
    if rng.below(8):
        keys = [tuple(p) for p, _ in paths]
        paths = [(p, v) for (p, v) in paths if not any(len(k) > len(p) and k[:len(p)] == tuple(p) for k in keys)]
    return paths


def render(rng, paths, style):
    """parameter file text for the given entries; style 0 = canonical print, else free formatting"""
    if style == 0:
        ent = sorted(paths, key=lambda pv: b":".join(pv[0]))
        widths = [b"  "] * 8
    else:
        ent = list(paths)
        if style == 2:
            ent.sort(key=lambda pv: b":".join(pv[0]))
        widths = [rng.choice([b" ", b"  ", b"   ", b"    ", b"\t", b" \t"]) for _ in range(8)]
    out = []
    openp = []
    for p, v in ent:
        groups, name = p[:-1], p[-1]
        i = 0
        while i < len(openp) and i < len(groups) and openp[i] == groups[i]:
            i += 1
        if style and i == len(groups) and i < len(openp) and rng.below(3) == 0:
            i = rng.below(i + 1)      # re-open a group that is already open
        for j in range(i, len(groups)):
            line = b"".join(widths[:j]) + groups[j] + (b" " if style and rng.below(6) == 0 else b"") + b":"
            if style and rng.below(5) == 0:
                line += rng.choice([b" ", b"  # group", b"\t", b" #"])
            out.append(line)
        openp = list(groups)
        line = b"".join(widths[:len(groups)]) + name
        if style:
            line += rng.choice([b"", b"", b"", b" ", b"\t"])
        line += b":" + (b" " if not style else rng.choice([b" ", b" ", b"  ", b"\t", b""]))
        line += v
        if style:
            line += rng.choice([b"", b"", b" ", b" # comment", b"# c:x", b"\t#", b"  "])
        out.append(line)
        if style and rng.below(6) == 0:
            out.append(rng.choice([b"", b"   ", b"# comment line", b"   # indented: comment", b"\t"]))
    txt = b"\n".join(out)
    if style == 0 or rng.below(4):
        txt += b"\n"
    return txt


Y_CORPUS = [
    # the nesting drop of DESIGN O3: a:b:c:x then a:d:e:f:y (pop loop leaves a stale entry), then a third key
    b"a:\n  b:\n    c:\n      x: 1\n  d:\n    e:\n      f:\n        y: 2\n        z: 3\nq: 4\n",
    b"a:\n  b:\n    c:\n      d:\n        x: 1\n  e:\n    f:\n      g:\n        h:\n          i:\n            y: 2\n            z: 3\n  w: 5\n",
    # names ordered around ':' (0x3a): '!' '+' '0' '9' below, ';' 'A' '_' 'a' '~' above
    b"a: 1\na!: 2\na;: 3\na:\n  b: 4\na b:\n  c: 5\na+:\n  d:\n    e: 6\n",
    b"x:\n  y: 1 # comment\n\n# full comment\n  z: 2\n",
    b"k: v: w\n", b"", b"\n\n", b"# only\n", b"top: 1", b"g:\n\tt: 1\n\tu:\n\t\tv: 2\n",
    b"no colon here\n", b"a: 1\n  b: 2\n", b"g:\n  a: 1\n    b: 2\n", b"g:\n  h:\n  i: 1\n",
    b"g:\n  a: 1\ng:\n  a: 2\n  b: 3\n", b" lead: 1\n", b"a:\n    b:\n        c: 1\n    d: 2\ne: 3\n",
]


# ----------------------------------------------------------------------------
# generators: unit strings
def gen_unit_tokens(rng, table, target, allow_zero=True):
    """tokens [(name, exp)] whose dimensions sum to target (6 ints)"""
    names = sorted(table)
    toks = []
    dims = [0] * 6
    for _ in range(rng.below(4)):
        nm = rng.choice(names)
        e = rng.choice([-3, -2, -1, -1, 1, 1, 1, 2, 2, 3] + ([0] if allow_zero and rng.below(3) == 0 else []))
        toks.append((nm, e))
        for k in range(6):
            dims[k] += table[nm][1][k] * e
    base = [["m", "cm", "km", "pc", "kpc", "au", "angstrom"], ["s", "yr", "Myr", "Gyr", "h"], ["kg", "g", "Msol"], ["K"], [], ["radians", "degrees"]]
    for k in range(6):
        r = target[k] - dims[k]
        if r != 0 and base[k]:
            cands = [b for b in base[k] if b in table]
            toks.append((rng.choice(cands) if cands else base[k][0], r))
    if not toks:
        toks.append(("m", 0) if allow_zero and rng.below(2) else ("K", 0))
        if not allow_zero:
            toks = [("radians", 1), ("radians", -1)]
    # shuffle
    for i in range(len(toks) - 1, 0, -1):
        j = rng.below(i + 1)
        toks[i], toks[j] = toks[j], toks[i]
    return toks


def unit_string(rng, toks):
    s = " " * rng.below(2)
    for i, (nm, e) in enumerate(toks):
        s += nm
        if e != 1 or rng.below(5) == 0:
            s += "^" + rng.choice(["%d", "%d", "%+d"]) % e if e >= 0 else "^%d" % e
            sep = rng.choice([" ", " ", "  ", ""]) if i + 1 < len(toks) else rng.choice(["", " "])
        else:
            sep = rng.choice([" ", "  "]) if i + 1 < len(toks) else rng.choice(["", " "])
        s += sep
    return s


def unit_factor(table, toks):
    """product of the parts (exponent 0 -> factor 1); ok=False when a partial product leaves the safe binary64 range"""
    v, ok = 1.0, True
    for nm, e in toks:
        try:
            v *= table[nm][0] ** e
        except OverflowError:
            return 0.0, False
        if not (1e-250 < abs(v) < 1e250):
            ok = False
    return v, ok


def unit_names_from_source():
    src = open(os.path.join(vf.REPO, "src/UnitConverter.hpp"), errors="replace").read()
    a = src.find("get_single_unit(std::string name)")
    b = src.find("get_SI_unit_name", a)
    return re.findall(r'name\s*==\s*"([^"]+)"', src[a:b])


# ----------------------------------------------------------------------------
def build(ck):
    d = ck.scratch
    ok1, log1 = vf.coq_extract("C20", d)
    ok2, log2 = (False, "") if not ok1 else vf.ocaml_build(d, ["c20_model"], DRIVER, "model", floats=True)
    ok3, log3 = vf.cxx_build(HARNESS, os.path.join(d, "impl"), openmp=False)
    if not ok3:
        ck.breaks.append("harness does not compile against /repo/src (YAMLDictionary/ParameterFile/UnitConverter):\n" + log3[-2000:])
    if not (ok1 and ok2):
        ck.breaks.append("model extraction/build failed:\n" + (log1 + log2)[-2000:])
    return ok1 and ok2, ok3


def canon(lines):
    """NaN results carry no comparable bit pattern (sign/payload differ between x86 and the OCaml runtime)"""
    out = []
    for l in lines:
        if l[:2] in ("G ", "C ", "V "):
            f = l.split()
            for j in range(1, len(f)):
                if len(f[j]) == 16 and re.fullmatch(r"[0-9a-f]{16}", f[j]):
                    b = int(f[j], 16)
                    if (b >> 52) & 0x7ff == 0x7ff and b & ((1 << 52) - 1):
                        f[j] = "nan"
            l = " ".join(f)
        out.append(l)
    return out


def run_impl(ck, cmds, timeout=900):
    rc, out = vf.run_lines([os.path.join(ck.scratch, "impl"), os.path.join(ck.scratch, "param.tmp")], "\n".join(cmds) + "\n", timeout=timeout)
    return rc, canon(out)


def run_model(ck, cmds, timeout=900):
    rc, out = vf.run_lines([os.path.join(ck.scratch, "model"), "1" if PINNED_POW_ZERO else "0"], "\n".join(cmds) + "\n", timeout=timeout)
    return rc, canon(out)


# ----------------------------------------------------------------------------
# oracles for the property, evaluated on outputs of the real code only
def wf_dict(D):
    """hypotheses of the round-trip theorem on a std::map content"""
    for k, v in D:
        for n in k.split(b":"):
            if not n or n[0] in b" \t" or n[-1] in b" \t" or b"#" in n or b"\n" in n:
                return False
        if not v or v[0] in b" \t" or v[-1] in b" \t" or b"#" in v or b"\n" in v:
            return False
    return True


def oracle_Y(cmd, out):
    f = fields(out)
    if f.get("ERR"):
        return None
    D = undump(f["D"])
    if not wf_dict(D):
        return None
    if f["R"] == "ERR":
        return "printed parameter file is rejected by the parser (cmac_error)"
    if undump(f["R"]) != D:
        R = undump(f["R"])
        miss = [k for k, _ in D if k not in dict(R)]
        return "parse(print(d)) != d: %d keys in, %d out, first lost/changed key %r" % (len(D), len(R), (miss or [k for (k, v) in D if dict(R).get(k) != v])[:1])
    return None


def val_close(a, b, rel):
    if a == b:
        return True
    if a[0] != b[0]:
        return False
    t = a[0]
    if t in "sib":
        return a == b
    xs = [hd(x) for x in a[1:].split("/")]
    ys = [hd(x) for x in b[1:].split("/")]
    for x, y in zip(xs, ys):
        if x != y and not (abs(x - y) <= rel * max(abs(x), abs(y))):
            return False
    return True


def oracle_Q(cmd, out):
    """used-values dump fed back: same keys, every value re-read equal to the printed precision (6 digits)"""
    f = fields(out)
    if f.get("ERR") and "A" not in f:
        return None, None
    D, U = undump(f["D"]), dict(undump(f["U"]))
    A = f["A"].split(",") if f["A"] != "-" else []
    if any(a in ("ERR", "EXC", "?") for a in A):
        return None, None                      # the queries themselves were not valid for this file
    for a in A:
        if a[0] in "dvpw":
            for xh in a[1:].split("/"):
                xv = abs(hd(xh))
                if xv != 0.0 and not (1e-200 < xv < 1e200):
                    return None, None          # SI value near the binary64 limits (std::stod throws on subnormals): out of scope
    if f.get("H") != "1":
        return "dump does not start with the time stamp comment", "header"
    empties = [k for k, _ in D if U.get(k, b"x") == b""]
    kind = "empty_used_value" if empties else "used_values"
    if f.get("R") == "ERR":
        return "the used-values dump is rejected by the parser (cmac_error)" + (
            "; parameter %r was used with an empty string value, its line 'name:  # (..)' reads back as a group header" % empties[0] if empties else ""), kind
    R = undump(f["R"])
    E = [(k, U.get(k, b"value not used")) for k, _ in D]
    if R != E:
        return "re-parsed dump differs from the used values: %r" % ([x for x in E if x not in R][:2],), kind
    B = f["B"].split(",") if f["B"] != "-" else []
    for i, (a, b) in enumerate(zip(A, B)):
        if not val_close(a, b, 5.1e-6):
            return "query %d returns %s from the original file but %s from the fed-back dump" % (i, a, b), kind
    return None, None


# ----------------------------------------------------------------------------
def gen_Q(rng, table, sinames, sidims, idx):
    """a parameter text with typed values and the list of queries (type, key, default)"""
    nq = len(sinames)
    groups = [b"SimulationBox", b"DensityGrid", b"DensityFunction", b"PhotonSourceDistribution", b"A b", b"x"]
    subs = [b"", b"", b"inner", b"a:b"]
    entries, queries = [], []
    used_keys = set()
    n = 2 + rng.below(8)
    for i in range(n):
        g = rng.choice(groups)
        s = rng.choice(subs)
        nm = rng.choice([b"anchor", b"sides", b"type", b"number of cells", b"value", b"temperature", b"flag", b"name", b"n", b"z"]) + (b" %d" % rng.below(3) if rng.below(2) else b"")
        key = b":".join([x for x in (g, s, nm) if x]) if rng.below(6) else nm
        if key in used_keys or any(k.startswith(key + b":") or key.startswith(k + b":") for k in used_keys):
            continue
        used_keys.add(key)
        t = rng.choice(["s", "d", "i", "b", "v", "p", "w", "p", "w"])
        if t == "s":
            val = rng.choice([b"Cartesian", b"foo bar", b"file.hdf5", b"a: b", b"x=1"])
            dflt = b"dflt"
        elif t == "d":
            val = ("%r" % ((rng.uniform() - 0.5) * 10.0 ** (rng.below(40) - 20))).encode()
            dflt = b"1.234567890123"
        elif t == "i":
            val = ("%d" % (rng.below(200000) - 1000)).encode()
            dflt = b"-12345678"
        elif t == "b":
            val = rng.choice([b"true", b"false", b"yes", b"No", b"ON", b"off", b"y", b"n"])
            dflt = rng.choice([b"true", b"false"])
        elif t == "v":
            val = ("[%r, %r,%r]" % (rng.uniform(), -rng.uniform() * 1e5, rng.uniform() * 1e-7)).encode()
            dflt = b"[1.23456789,2.,3.]"
        else:
            q = rng.below(nq)
            toks = gen_unit_tokens(rng, table, sidims[q], allow_zero=False)
            us = unit_string(rng, toks).strip()

            def pv():
                return "%r %s" % ((0.1 + rng.uniform()) * 10.0 ** (rng.below(12) - 6), us)
            if t == "p":
                val = pv().encode()
                dflt = ("%r %s" % (1.23456789, sinames[q])).encode()
            else:
                val = ("[%s, %s, %s]" % (pv(), pv(), pv())).encode()
                dflt = ("[1. %s, 2. %s, 3. %s]" % (us, us, us)).encode()
            t = t + str(q)
        present = rng.below(4) != 0
        queried = rng.below(5) != 0
        if present:
            entries.append((key.split(b":"), val))
        if queried or not present:
            queries.append((t, key, dflt))
    txt = render(rng, entries, rng.below(3)) if entries else b""
    return txt, queries


def q_cmd(txt, queries):
    return "Q %s %d" % (hx(txt), len(queries)) + "".join(" %s %s %s" % (t, hx(k), hx(d)) for (t, k, d) in queries)


Q_CORPUS = [
    # SPHNGSnapshotDensityFunction reads "DensityFunction:binary dump name" with default "": the dump line is
    # "  binary dump name:  # (default value)" which reads back as a group header
    (b"DensityFunction:\n  binary dump: false\n  filename: snap.dat\n",
     [("b", b"DensityFunction:binary dump", b"false"), ("s", b"DensityFunction:binary dump name", b""), ("s", b"DensityFunction:filename", b"x")]),
    (b"SimulationBox:\n  anchor: [-5. pc, -5. pc, -5. pc]\n  sides: [10. pc, 10. pc, 10. pc]\nDensityGrid:\n  number of cells: [64, 64, 64]\n",
     [("w12", b"SimulationBox:anchor", b"[0. m, 0. m, 0. m]"), ("w12", b"SimulationBox:sides", b"[1. m, 1. m, 1. m]"),
      ("s", b"DensityGrid:type", b"Cartesian"), ("p22", b"DensityFunction:temperature", b"8000. K"), ("p2", b"DensityFunction:density", b"100. g cm^-3")]),
]


# ----------------------------------------------------------------------------
# snapshot write -> read on the real code (harness/c20/snapshot_harness.cpp) + the extracted orderings
ION_NAMES = ["H", "He", "C+", "C++", "N", "N+", "N++", "O", "O+", "Ne", "Ne+", "S+", "S++", "S+++", "Ar", "Ar+", "Ar++", "Ar+++"]
def length_unit_factors():
    """SI factors of the length units used for boxes, as written in UnitConverter::get_single_unit of the tree under test
    (box_safe replays the 6 digit print of the used value in SI, so it needs the factor the code uses: pc is 3.086e16 there)"""
    f = {"m": 1.0, "cm": 0.01, "pc": 3.086e16, "kpc": 3.086e19}
    try:
        src = open(os.path.join(vf.REPO, "src/UnitConverter.hpp"), errors="replace").read()
        for u in list(f):
            m = re.search(r'name\s*==\s*"%s"\)\s*\{\s*return\s+Unit\(\s*([0-9.eE+-]+)\s*,' % u, src)
            if m:
                f[u] = float(m.group(1))
    except OSError:
        pass
    return f


UNIT_SI = length_unit_factors()
# (unit, anchor, sides)
SNAP_BOXES = [
    ("m", (0., 0., 0.), (1., 1., 1.)),
    ("pc", (-5., -2.5, 0.5), (10., 5., 1000.)),
    ("m", (-0.5, -0.25, -1.5), (1., 0.5, 3.)),
    ("m", (1000., -1000., 3.), (0.001, 2000., 1.e-6)),
    ("cm", (0.1, 0.2, 0.3), (0.7, 1.1, 1.3)),
]
# boxes that do NOT survive the 6 significant digits of the used-values print (finding snapshot_box_precision)
SNAP_PRECISION_PROBES = [
    ((16, 6, 12), (4, 3, 2), ("m", (-14.163889027484311, -39.50135950111277, 428.77666347504663), (0.0708688301383863, 3.656031998563064, 0.007542463164563509))),
    ((2, 2, 512), (1, 1, 4), ("pc", (1000., 2000., 3000.4), (1., 1., 1.))),          # a 1 pc zoom box 3 kpc from the origin, 512 cells along z
]


def box_strings(box):
    u, a, l = box
    return ("[%r %s, %r %s, %r %s]" % (a[0], u, a[1], u, a[2], u), "[%r %s, %r %s, %r %s]" % (l[0], u, l[1], u, l[2], u))


def box_safe(n, box):
    """does the reader find every cell when it only knows anchor and sides to the 6 significant digits of the used-values print?
    (own arithmetic; a cell is safe when its looked-up coordinate stays 0.05 away from the neighbouring cells)"""
    u, a, l = box
    for ax in range(3):
        A, L = a[ax] * UNIT_SI[u], l[ax] * UNIT_SI[u]
        A6, L6 = float("%g" % A), float("%g" % L)
        for i in range(n[ax]):
            mid = A + (i + 0.5) * L / n[ax]
            x = n[ax] * (mid - A6) / L6
            if not (i + 0.05 < x < i + 0.95):
                return False
    return True


# (cells, subgrids): cubic, one subgrid per axis, subgrids with different cell counts in x, y and z, one-cell subgrids,
# flat grids, and subgrids with more than the writer's block of 10000 cells
SNAP_CORPUS = [
    ((8, 8, 8), (2, 2, 2)), ((4, 4, 4), (1, 1, 1)), ((8, 8, 16), (2, 2, 2)), ((16, 8, 8), (2, 4, 2)), ((8, 8, 32), (4, 2, 2)),
    ((6, 15, 4), (3, 5, 1)), ((3, 5, 7), (1, 1, 1)), ((3, 5, 7), (3, 5, 7)), ((12, 10, 9), (2, 5, 3)), ((1, 1, 5), (1, 1, 5)),
    ((1, 6, 1), (1, 2, 1)), ((2, 3, 4), (1, 1, 1)), ((22, 23, 21), (1, 1, 1)), ((44, 23, 21), (2, 1, 1)), ((5, 4, 6), (5, 1, 2)),
]


def snap_param_text(n, s, box, all_ions=False, temperature=True, typ=None, number_density=False, periodic=None):
    t = "SimulationBox:\n  anchor: %s\n  sides: %s\n" % box_strings(box)
    if periodic:
        t += "  periodicity: [%s, %s, %s]\n" % tuple("true" if x else "false" for x in periodic)
    t += "DensityGrid:\n  number of cells: [%d, %d, %d]\n" % tuple(n)
    if typ:
        t += "  type: %s\n" % typ
    t += "DensitySubGridCreator:\n  number of subgrids: [%d, %d, %d]\n" % tuple(s)
    if periodic:
        t += "  periodicity: [%s, %s, %s]\n" % tuple("true" if x else "false" for x in periodic)
    t += "DensityGridWriter:\n  prefix: c20snap\n  padding: 3\nDensityGridWriterFields:\n  Coordinates: 1\n"
    if temperature:
        t += "  Temperature: 1\n"
    if number_density:
        t += "  NumberDensity: 1\n"
    if all_ions:
        t += "".join("  NeutralFraction%s: 1\n" % i for i in ION_NAMES)
    return t


def snap_cases(ck):
    """list of dicts mode, n, s, box, text, salt"""
    rng = ck.rng.fork("snapshot")
    cases = []

    def add(mode, n, s, box, **kw):
        if mode == "H":
            kw["number_density"] = True
        if mode == "L":
            kw["typ"] = "Cartesian"
        cases.append({"mode": mode, "n": tuple(n), "s": tuple(s), "box": box, "salt": rng.below(1000),
                      "text": snap_param_text(n, s, box, **kw), "opts": kw})

    for k, (n, s) in enumerate(SNAP_CORPUS):
        add("T", n, s, SNAP_BOXES[k % len(SNAP_BOXES)], all_ions=(k % 4 == 2), periodic=[(True, False, True), None, (False, True, False)][k % 3])
        if k % 3 == 0 and n[0] * n[1] * n[2] < 9000:
            add("H", n, s, SNAP_BOXES[(k + 1) % len(SNAP_BOXES)])
        if k % 3 == 1 and n[0] * n[1] * n[2] < 9000:
            add("L", n, (1, 1, 1), SNAP_BOXES[(k + 2) % len(SNAP_BOXES)])
    add("L", (22, 23, 21), (1, 1, 1), SNAP_BOXES[1])          # legacy writer with a second block of 10000
    add("H", (21, 22, 46), (1, 1, 2), SNAP_BOXES[4])          # hydro overload with a second block in every subgrid
    # a task based snapshot whose parameter block carries a left-over 'DensityGrid:type: Cartesian': the reader takes
    # the coordinate branch on the task based ordering
    add("T", (6, 4, 10), (3, 1, 2), SNAP_BOXES[2], typ="Cartesian")
    # buffered reader: cubic box and cubic cells only, subgrids may still be non-cubic
    for n1, s in [(12, (2, 3, 4)), (12, (6, 1, 3)), (8, (2, 2, 2)), (6, (1, 1, 1)), (12, (1, 12, 2))]:
        add("B", (n1, n1, n1), s, [SNAP_BOXES[0], ("pc", (-2., -2., -2.), (4., 4., 4.))][n1 % 8 == 4])
    nrand = 24 if ck.quick else 150
    for i in range(nrand):
        while True:
            s = [1 + rng.below(4) for _ in range(3)]
            b = [1 + rng.below(6 if ck.quick else 9) for _ in range(3)]
            if i % 4 != 3 and len(set(b)) < 3:
                continue            # mostly subgrids whose cell counts differ in x, y and z
            break
        n = [s[a] * b[a] for a in range(3)]
        if rng.below(3) == 0:
            while True:
                box = (rng.choice(["m", "cm", "pc", "kpc"]), tuple((rng.uniform() - 0.5) * 10.0 ** (rng.below(7) - 3) for _ in range(3)),
                       tuple((0.1 + rng.uniform()) * 10.0 ** (rng.below(7) - 3) for _ in range(3)))
                if not PINNED_BOX_PRECISION or box_safe(n, box):
                    break
        else:
            box = rng.choice(SNAP_BOXES)
        mode = ["T", "T", "T", "H", "L", "T"][i % 6]
        add(mode, n, s if mode != "L" else (1, 1, 1), box, all_ions=(i % 7 == 0))
    return cases


def snap_cmd(c):
    return "S %s %d %s" % (c["mode"], c["salt"], c["text"].encode().hex())


def snap_split(lines):
    """answer blocks of the harness: list of (header fields or None, W rows, K rows, C rows, end line)"""
    blocks, cur = [], None
    for l in lines:
        if cur is None:
            cur = {"G": None, "W": [], "K": [], "C": [], "E": None}
        t = l[:1]
        if t == "G":
            cur["G"] = l.split()
        elif t in "WKC":
            cur[t].append(l.split())
        elif t == "E":
            cur["E"] = l
            blocks.append(cur)
            cur = None
    if cur is not None:
        blocks.append(cur)
    return blocks


def f32_round_bits(bits):
    import struct
    x = vf.bits_dbl(bits)
    return vf.dbl_bits(struct.unpack("<f", struct.pack("<f", x))[0])


def snap_decode(case, fields, bits):
    """global cell index encoded in the value of each field (see the harness header); None when it is not a value the harness wrote"""
    ncell = case["n"][0] * case["n"][1] * case["n"][2]
    out = []
    for name, b in zip(fields, bits):
        x = vf.bits_dbl(int(b, 16))
        if name == "NumberDensity":
            g = x - 1.0 - case["salt"]
        elif name == "Temperature":
            g = (x - 1000.0 - case["salt"]) * 4.0
        else:
            ion = ION_NAMES.index(name[len("NeutralFraction"):])
            g = (x * 2.0 ** 40 - ion) / 32.0 - 1.0
        out.append(int(g) if g == int(g) and 0 <= g < ncell else None)
    return out


def snap_oracle(case, blk):
    """the property on the REAL code's answers only. returns (what, detail dict) of the first failure or None"""
    if blk["E"] is None or not blk["E"].startswith("E ok"):
        return "the snapshot could not be written or read back: %s" % (blk["E"] or "harness died"), {"error": blk["E"]}
    G = blk["G"]
    n = case["n"]
    ncell = n[0] * n[1] * n[2]
    elsize = int(G[9])
    fields = G[11:]
    need = ["NumberDensity", "Temperature", "NeutralFractionH"] + (["NeutralFractionHe"] if case["opts"].get("all_ions") else [])
    miss = [f for f in need if f not in fields]
    if miss:
        return "fields %s were requested but are not in the snapshot" % miss, {"fields": fields}
    if len(blk["C"]) != ncell or len(blk["W"]) != ncell:
        return "the snapshot holds %d entries and %d cells were compared, the grid has %d cells" % (len(blk["W"]), len(blk["C"]), ncell), {}
    for row in blk["C"]:
        cell = tuple(int(x) for x in row[1:4])
        for name, wr in zip(fields, row[4:]):
            w, r = wr.split(":")
            wb = int(w, 16)
            exp = wb if elsize == 8 else f32_round_bits(wb)
            if int(r, 16) != exp:
                src = snap_decode(case, [name], [r])[0]
                where = ""
                if src is not None:
                    where = " = the value of cell (%d, %d, %d)" % (src // (n[1] * n[2]), (src // n[2]) % n[1], src % n[2])
                return ("cell (%d, %d, %d): %s written %r (bits %s), read back %r (bits %s)%s; stored as %d byte floats so the read value must be %s" % (
                    cell + (name, vf.bits_dbl(wb), w, vf.bits_dbl(int(r, 16)), r, where, elsize, "bit-identical" if elsize == 8 else "the nearest binary32")),
                    {"cell": list(cell), "field": name, "written_bits": w, "read_bits": r, "value_of_cell": src})
    return None


def snapshot_pass(ck, okm, violate):
    cov = ck.coverage
    d = ck.scratch
    ok, log = vf.cxx_build(SNAP_HARNESS, os.path.join(d, "snap_impl"), extra=["-Wl,--no-as-needed", "-lhdf5_serial", "-lmpi_cxx", "-lmpi"], libs=False, openmp=True)
    if not ok:
        ck.breaks.append("snapshot harness does not compile against the tree (GadgetDensityGridWriter / CMacIonizeSnapshotDensityFunction / DensitySubGridCreator):\n" + log[-2500:])
        return
    work = os.path.join(d, "snapwork")
    os.makedirs(work, exist_ok=True)
    cases = snap_cases(ck)
    cmds = [snap_cmd(c) for c in cases]
    # the default output fields (no Temperature without hydro): observation only, see the notes
    probe = {"mode": "T", "n": (4, 6, 8), "s": (2, 2, 2), "salt": 0, "opts": {},
             "text": snap_param_text((4, 6, 8), (2, 2, 2), SNAP_BOXES[0], temperature=False)}
    # boxes that need more than the 6 printed digits of the used values (finding snapshot_box_precision)
    pprobes = [{"mode": "T", "n": n, "s": sg, "box": box, "salt": 7, "opts": {}, "text": snap_param_text(n, sg, box)} for (n, sg, box) in SNAP_PRECISION_PROBES]
    if not PINNED_BOX_PRECISION:
        cases += pprobes
        cmds += [snap_cmd(c) for c in pprobes]
        pprobes = []
    env = dict(os.environ, OMP_NUM_THREADS="2")
    allcmds = cmds + [snap_cmd(probe)] + [snap_cmd(c) for c in pprobes]
    rc, out = vf.run_lines([os.path.join(d, "snap_impl"), work], "\n".join(allcmds) + "\n", timeout=900, env=env)
    blocks = snap_split(out)
    if rc != 0 or len(blocks) != len(allcmds):
        k = min(len(blocks), len(cases) - 1)
        ck.breaks.append("snapshot harness exited with %d after %d of %d geometries; next: mode %s cells %s subgrids %s" % (
            rc, len(blocks), len(allcmds), cases[k]["mode"], cases[k]["n"], cases[k]["s"]))
    pb = blocks[len(cmds)] if len(blocks) > len(cmds) else None
    ppb = blocks[len(cmds) + 1:]
    blocks = blocks[:len(cmds)]
    nprobe_fail = 0
    for c, blk in zip(pprobes, ppb):
        why = snap_oracle(c, blk)
        nbad = sum(1 for row in blk["C"] if any(x.split(":")[0] != x.split(":")[1] for x in row[4:]))
        if why:
            nprobe_fail += 1
            a6 = ["%g" % (x * UNIT_SI[c["box"][0]]) for x in c["box"][1]]
            ck.notes.append("FINDING snapshot_box_precision (unchanged code, not a violation of the index theorems: their hypothesis 'same anchor and sides' fails): the /Parameters "
                            "block of a snapshot holds the USED values of SimulationBox:anchor/sides, printed with 6 significant digits (anchor read back as [%s] m); "
                            "CMacIonizeSnapshotDensityFunction rebuilds its box from them, so on cells %s subgrids %s anchor %s sides %s  %d of %d cells read back the "
                            "values of OTHER cells: %s" % ((", ".join(a6), c["n"], c["s"]) + box_strings(c["box"]) + (nbad, len(blk["C"]), why[0])))
    cov["snapshot_box_precision_probes"] = {"run": len(pprobes), "fail": nprobe_fail, "expected": "fail (pinned: 6 digit box in the parameter block)" if PINNED_BOX_PRECISION else "part of the cases"}
    if PINNED_BOX_PRECISION and pprobes and nprobe_fail == 0 and len(ppb) == len(pprobes):
        ck.notes.append("the snapshot_box_precision probes read back correctly: this tree stores the box exactly; set PINNED_BOX_PRECISION = False (or C20_PINNED_BOX_PRECISION=0) to make them part of the cases")
    default_fields_unreadable = pb is not None and pb["E"] is not None and pb["E"].startswith("E error")
    if default_fields_unreadable:
        msg = ("observation (unchanged code): a task based snapshot written with the DEFAULT output fields (DensityGridWriterFields defaults without hydro: Coordinates, "
               "NumberDensity, NeutralFractionH; Temperature off) cannot be used as 'DensityFunction: type: CMacIonizeSnapshot' initial condition: "
               "initialize() aborts with '%s' (it falls back to a Pressure dataset that is not there either); cells 4x6x8, subgrids 2x2x2; "
               "all round trips of this check therefore set 'DensityGridWriterFields:Temperature: 1'" % pb["E"][8:])
        ck.notes.append(msg)
        if os.environ.get("C20_DEFAULT_FIELDS_FINDING", "1") == "1":
            violate("C20 snapshot written with the default output fields cannot be read back: " + pb["E"],
                    {"snapshot_cmd": snap_cmd(probe), "param_text": probe["text"], "case": {k: probe[k] for k in ("mode", "n", "s", "salt", "opts")}},
                    {"kind": "snapshot_default_fields_unreadable"})
    elif pb is not None:
        ck.notes.append("a snapshot with the default output fields is readable in this tree (the check still forces Temperature on)")

    # ---- oracle: every cell reads back what was written
    ncmp = nfield = 0
    mode_hist, shape_hist = {}, {"cubic": 0, "two_equal": 0, "all_different": 0}
    elsizes = set()
    for c, blk in zip(cases, blocks):
        why = snap_oracle(c, blk)
        b = [c["n"][a] // c["s"][a] for a in range(3)]
        if why:
            what, detail = why
            violate("C20 snapshot write -> read on the real code (mode %s: %s), cells %dx%dx%d, subgrids %dx%dx%d (%dx%dx%d cells each), box anchor %s sides %s: %s" % (
                (c["mode"], {"T": "DensitySubGrid writer + CMacIonizeSnapshotDensityFunction", "H": "HydroDensitySubGrid writer + CMacIonizeSnapshotDensityFunction",
                             "L": "legacy CartesianDensityGrid writer + CMacIonizeSnapshotDensityFunction", "B": "DensitySubGrid writer + BufferedCMacIonizeSnapshotDensityFunction"}[c["mode"]])
                + c["n"] + c["s"] + tuple(b) + box_strings(c["box"]) + (what,)),
                dict(detail, snapshot_cmd=snap_cmd(c), param_text=c["text"], case={k: c[k] for k in ("mode", "n", "s", "salt", "opts")}),
                {"kind": "snapshot_roundtrip"})
            continue
        mode_hist[c["mode"]] = mode_hist.get(c["mode"], 0) + 1
        if c["mode"] != "L":
            shape_hist[{1: "cubic", 2: "two_equal", 3: "all_different"}[len(set(b))]] += 1
        ncmp += len(blk["C"])
        nfield += len(blk["C"]) * (len(blk["G"]) - 11)
        elsizes.add(int(blk["G"][9]))

    # ---- the writer's side of the file (real code only): every cell once, all fields of a row belong to one cell, stored
    #      coordinates inside that cell
    for c, blk in zip(cases, blocks):
        if blk["G"] is None or not (blk["E"] or "").startswith("E ok"):
            continue
        fields = blk["G"][11:]
        n = c["n"]
        ncell = n[0] * n[1] * n[2]
        seen = {}
        bad = None
        for row in blk["W"]:
            gs = set(snap_decode(c, fields, row[2:]))
            if len(gs) != 1 or None in gs:
                bad = "position %s of the datasets holds values of different cells / unknown values: %s" % (row[1], sorted(gs, key=str))
                break
            g = gs.pop()
            if g in seen:
                bad = "cell %d is stored at positions %d and %s" % (g, seen[g], row[1])
                break
            seen[g] = int(row[1])
        if not bad and len(seen) != ncell:
            bad = "%d of %d cells are stored" % (len(seen), ncell)
        c["pos_of_gidx"] = seen
        if bad:
            violate("C20 snapshot writer, mode %s cells %s subgrids %s: %s" % (c["mode"], c["n"], c["s"], bad),
                    {"snapshot_cmd": snap_cmd(c), "param_text": c["text"], "case": {k: c[k] for k in ("mode", "n", "s", "salt", "opts")}}, {"kind": "snapshot_roundtrip"})

    # ---- correspondence with the extracted orderings (Cxx/C20_SnapDefs.v): writer order and reader index, every cell
    nord = 0
    if okm:
        mcmds = []
        for c in cases:
            b = [c["n"][a] // c["s"][a] for a in range(3)]
            if c["mode"] == "L":
                mcmds.append("SL %d %d %d" % c["n"])
            else:
                mcmds.append("SW %d %d %d %d %d %d" % (c["s"] + tuple(b)))
                mcmds.append("SR %d %d %d %d %d %d" % (c["s"] + c["n"]))
        rc_m, mout = vf.run_lines([os.path.join(d, "model"), "0"], "\n".join(mcmds) + "\n", timeout=900)
        mblocks, cur = [], []
        for l in mout:
            if l == "e":
                mblocks.append(cur)
                cur = []
            else:
                cur.append(l.split())
        if rc_m != 0 or len(mblocks) != len(mcmds):
            ck.breaks.append("model driver (snapshot orderings) exited with %d after %d of %d commands" % (rc_m, len(mblocks), len(mcmds)))
        else:
            k = 0
            nmis = 0
            for c, blk in zip(cases, blocks):
                n = c["n"]
                if c["mode"] == "L":
                    wr, rd = mblocks[k], None
                    k += 1
                else:
                    wr, rd = mblocks[k], mblocks[k + 1]
                    k += 2
                if blk["G"] is None or not (blk["E"] or "").startswith("E ok") or "pos_of_gidx" not in c:
                    continue
                geo = "mode %s cells %s subgrids %s" % (c["mode"], c["n"], c["s"])
                # writer: model position of every cell == position found in the real file
                mpos = {}
                for row in wr:
                    cell = tuple(int(x) for x in row[-3:])
                    mpos[(cell[0] * n[1] + cell[1]) * n[2] + cell[2]] = int(row[1])
                nord += len(wr)
                if mpos != c["pos_of_gidx"]:
                    dif = [g for g in sorted(mpos) if c["pos_of_gidx"].get(g) != mpos[g]][:1]
                    nmis += 1
                    if nmis <= 4:
                        ck.breaks.append("correspondence C20 writer ordering model <-> real GadgetDensityGridWriter, %s: %d cells at other positions; first: cell index %s is at position %s of the real file, model %s" % (
                            geo, sum(1 for g in mpos if c["pos_of_gidx"].get(g) != mpos[g]), dif, c["pos_of_gidx"].get(dif[0]) if dif else None, mpos.get(dif[0]) if dif else None))
                    continue
                if rd is None:
                    continue
                # reader: the dataset position whose value each cell received == the model's cell_index for that cell
                midx = {tuple(int(x) for x in row[1:4]): int(row[4]) for row in rd}
                fields = blk["G"][11:]
                for row in blk["C"]:
                    cell = tuple(int(x) for x in row[1:4])
                    src = snap_decode(c, fields[:1], [row[4].split(":")[1]])[0]
                    rpos = c["pos_of_gidx"].get(src)
                    nord += 1
                    if rpos != midx.get(cell):
                        nmis += 1
                        if nmis <= 4:
                            ck.breaks.append("correspondence C20 reader index model <-> real %s, %s: cell %s received the value stored at dataset position %s, the model's cell_index is %s" % (
                                "BufferedCMacIonizeSnapshotDensityFunction" if c["mode"] == "B" else "CMacIonizeSnapshotDensityFunction::initialize", geo, cell, rpos, midx.get(cell)))
                        break
            cov["snapshot_model_mismatches"] = nmis
    cov["snapshot_geometries"] = len(cases)
    cov["snapshot_geometries_by_mode"] = {k: v for k, v in sorted(mode_hist.items())}
    cov["snapshot_subgrid_shapes"] = shape_hist
    cov["snapshot_cells_compared"] = ncmp
    cov["snapshot_values_compared_bitwise"] = nfield
    cov["snapshot_order_entries_compared_with_model"] = nord
    cov["snapshot_stored_element_bytes"] = sorted(elsizes)
    cov["snapshot_default_fields_unreadable"] = bool(default_fields_unreadable)
    return ncmp, nord


# ----------------------------------------------------------------------------
def driver_tie(ck):
    """the driver side of 'the dump of used values (defaults included) can be fed back as a parameter file': complete runs of the real
    binary; the <params>.used-values file of the first run is the parameter file of the second; the second run must succeed and
    dump the same values, and no parameter the first run was given may be reported as unused"""
    import shutil
    okb, logb = vf.repo_ninja(["CMacIonize"])
    if not okb:
        ck.breaks.append("whole binary does not build: " + logb[-800:])
        return 0
    exe = os.path.join(vf.REPOBUILD, "rundir", "CMacIonize")
    conf = os.path.join(vf.VERIF, "harness", "configs")
    # parameter files of this tie contain only parameters their run reads (a parameter nobody reads is, correctly, dumped as unused)
    leg = open(os.path.join(conf, "ion_legacy.param")).read().replace("Abundances:\n  helium: 0.\n", "")
    leg_tr = leg.replace("  random seed: 42\n", "  random seed: 42\n  enable trackers: true\n") + "TrackerManager:\n  filename: c20_trackers.yml\n  minimum number of photon packets: 5000\n"
    trk = "number of trackers: 1\n\ntracker[0]:\n  type: Spectrum\n  position: [2. pc, 0. pc, 0. pc]\n  output name: c20_tracker0.txt\n"
    runs = [("default mode, one spectrum tracker", [], leg_tr), ("default mode", [], leg), ("task-based mode", ["--task-based"], open(os.path.join(conf, "ion.param")).read())]
    strip = lambda t: [re.sub(r"\s*#.*$", "", l) for l in t.splitlines() if not l.lstrip().startswith("#") and l.strip()]
    n = 0
    for name, args, txt in runs:
        w = os.path.join(ck.scratch, "drv_used_%d" % n)
        shutil.rmtree(w, ignore_errors=True)
        os.makedirs(w)
        for f in os.listdir(conf):
            shutil.copy(os.path.join(conf, f), w)
        open(os.path.join(w, "c20_trackers.yml"), "w").write(trk)
        open(os.path.join(w, "gen1.param"), "w").write(txt)
        rc1, out1 = vf.sh([exe] + args + ["--params", "gen1.param", "--threads", "1", "--dirty"], cwd=w, timeout=600)
        n += 1
        d1 = os.path.join(w, "gen1.param.used-values")
        why = None
        if rc1 != 0 or not os.path.exists(d1):
            ck.breaks.append("driver tie (used values): the first run of `%s` fails (exit %d) or writes no used-values file" % (name, rc1))
            continue
        t1 = open(d1).read()
        unused = [l.strip() for l in t1.splitlines() if "value not used" in l]
        shutil.copy(d1, os.path.join(w, "gen2.param"))
        rc2, out2 = vf.sh([exe] + args + ["--params", "gen2.param", "--threads", "1", "--dirty"], cwd=w, timeout=600)
        d2 = os.path.join(w, "gen2.param.used-values")
        if unused:
            why = "the dump of the first run reports parameters of its own parameter file as unused although the run used them (the dump is written before they are read): %s" % unused[:4]
        elif rc2 != 0:
            err = [l for l in out2.splitlines() if "rror" in l][:2]
            why = "fed back as parameter file, the dump is rejected (exit %d): %s" % (rc2, err)
        elif not os.path.exists(d2) or strip(open(d2).read()) != strip(t1):
            a, b = strip(t1), strip(open(d2).read()) if os.path.exists(d2) else []
            why = "the run on the fed-back dump uses other values: %s" % [x for x in zip(a, b) if x[0] != x[1]][:3]
        if why:
            ck.violation("C20 fails on the real binary (%s): %s" % (name, why), {"driver_run": name}, key={"kind": "driver_used_values", "run": name})
        shutil.rmtree(w, ignore_errors=True)
    ck.coverage["driver_used_values_runs"] = n
    return n


def run(ck):
    ck.prove()
    driver_tie(ck)
    okm, oki = build(ck)
    rng = ck.rng
    cov = ck.coverage
    nviol_keys = set()

    def violate(what, replay, key):
        k = json.dumps(key, sort_keys=True)
        if k in nviol_keys and key.get("kind") in ("unit_pow_zero", "empty_used_value"):
            return
        if sum(1 for v in ck.violations if v["key"].get("kind") == key.get("kind")) >= 3:
            return
        nviol_keys.add(k)
        ck.violation(what, replay, key=key)

    # ---- snapshot clause: real grid -> real HDF5 writer -> real reader -> real grid, + extracted orderings
    snap = snapshot_pass(ck, okm, violate) or (0, 0)
    ck.log("snapshot: %d geometries, %d cells read back and compared, %d ordering entries compared with the model" % (
        cov.get("snapshot_geometries", 0), snap[0], snap[1]))

    if not oki:
        ck.resolve_breaks_without_input()
        return

    # ---- pass 0: dump the unit table and the SI unit names from the real converter
    names = unit_names_from_source()
    rc, o = run_impl(ck, ["N"])
    nq = int(o[0].split()[1]) if rc == 0 and o and o[0].split()[1].isdigit() else 0
    cmds0 = ["N"] + ["G " + hx(n) for n in names] + ["S %d" % q for q in range(nq + 1)]
    rc, out0 = run_impl(ck, cmds0)
    if rc != 0 or len(out0) != len(cmds0):
        ck.breaks.append("implementation harness failed on the table dump (rc=%d)" % rc)
        ck.resolve_breaks_without_input()
        return
    table = {}
    for n, l in zip(names, out0[1:1 + len(names)]):
        f = l.split()
        if len(f) == 8:
            table[n] = (hd(f[1]), [int(x) for x in f[2:]])
        else:
            ck.breaks.append("unit name %r found in get_single_unit is rejected by the converter" % n)
    sinames = []
    for q in range(nq):
        l = out0[1 + len(names) + q].split()
        sinames.append(unhx(l[1]).decode("latin-1") if len(l) == 2 and l[1] != "ERR" else "?")
    cmds_si = ["G " + hx(s) for s in sinames]
    rc, out_si = run_impl(ck, cmds_si)
    sidims = []
    for q, l in enumerate(out_si):
        f = l.split()
        if len(f) == 8:
            sidims.append([int(x) for x in f[2:]])
            if hd(f[1]) != 1.0:
                violate("SI unit name %r of quantity %d does not have factor 1 (used-value dumps would not read back)" % (sinames[q], q),
                        {"cmd": cmds_si[q]}, {"kind": "si_name_factor", "q": q})
        else:
            sidims.append([0] * 6)
            ck.breaks.append("SI unit name %r of quantity %d is rejected by get_unit" % (sinames[q], q))

    # table relations decided on the dumped table (1 ulp)
    rels = [("kpc", 1000.0, "pc"), ("Gyr", 1000.0, "Myr"), ("Myr", 1e6, "yr"), ("Gyr", 1e9, "yr"), ("km", 1000.0, "m"), ("m", 100.0, "cm"),
            ("kg", 1000.0, "g"), ("J", 1e7, "erg"), ("bar", 1e5, "Pa"), ("m", 1e10, "angstrom")]
    nrel = 0
    for a, k, b in rels:
        if a in table and b in table:
            nrel += 1
            if ulps(table[a][0], k * table[b][0]) > 1 or table[a][1] != table[b][1]:
                violate("unit table inconsistent: 1 %s = %r SI but %g %s = %r SI" % (a, table[a][0], k, b, k * table[b][0]),
                        {"cmds": ["G " + hx(a), "G " + hx(b)], "relation": [a, k, b]}, {"kind": "unit_table", "unit": a})

    # ---- commands
    nY = 3000 if ck.quick else 40000
    nQ = 600 if ck.quick else 8000
    nU = 3000 if ck.quick else 40000
    cmds, meta = [], []
    for t in Y_CORPUS:
        cmds.append("Y " + hx(t)); meta.append(("Y", None))
    for i in range(nY):
        paths = gen_paths(rng, i)
        style = 0 if i % 3 == 0 else 1 + rng.below(2)
        txt = render(rng, paths, style)
        if i % 97 == 96:      # error texts: a line without ':' / a child under a value
            if not txt.endswith(b"\n"):
                txt += b"\n"   # (a partial dedent below every open level is undefined behaviour in the parser: not generated)
            txt += rng.choice([b"oops no colon\n", b"v: 1\n      child: 2\n"])
        cmds.append("Y " + hx(txt)); meta.append(("Y", None))
    for (t, qs) in Q_CORPUS:
        cmds.append(q_cmd(t, qs)); meta.append(("Q", None))
    for i in range(nQ):
        t, qs = gen_Q(rng, table, sinames, sidims, i)
        cmds.append(q_cmd(t, qs)); meta.append(("Q", None))
    # units
    ucorp = ["m", " m", "K kg^3 s^-1m ", "kgs", "", "  ", "^2", "m^", "m^x", "m^ 2", "m^+2", "m^-+2", "m^2-3", "cm^0", "m cm^0", "kpc^0 s",
             "foo", "m^99999999999", "g cm^-3", "km s^-1", "erg cm^-3 s^-1", "m^02", "degrees", "Hz^-1", "J s", "m2"]
    for u in ucorp:
        cmds.append("G " + hx(u)); meta.append(("G", None))
    for q, u, x in [(8, "eV", 13.6), (8, "angstrom", 912.0), (8, "erg", 1e-11), (3, "Hz", 3.2e15), (12, "Hz", 3.2e15), (12, "m cm^0", 1.0),
                    (12, "kg", 1.0), (2, "g cm^-3", 1.0), (16, "cm^-3", 100.0), (24, "km s^-1", 10.0), (1, "degrees", 180.0)]:
        if q < nq:
            cmds.append("C %d %016x %s" % (q, vf.dbl_bits(x), hx(u))); meta.append(("C", (q, x, u)))
    exp_hist = {}
    for i in range(nU):
        mode = i % 6
        if mode in (0, 1, 2):       # to_SI / to_unit on a quantity with a unit string of matching dimensions
            q = rng.below(nq)
            toks = gen_unit_tokens(rng, table, sidims[q])
            u = unit_string(rng, toks)
            for _, e in toks:
                exp_hist[e] = exp_hist.get(e, 0) + 1
            x = (1.0 if rng.below(5) == 0 else (0.5 + rng.uniform())) * 10.0 ** (rng.below(21) - 10) * (-1 if rng.below(7) == 0 else 1)
            cmds.append("C %d %016x %s" % (q, vf.dbl_bits(x), hx(u))); meta.append(("C", (q, x, u, toks)))
        elif mode == 3:             # compound = product of parts
            t1 = gen_unit_tokens(rng, table, [rng.below(3) - 1 for _ in range(4)] + [0, 0], allow_zero=False)
            t2 = gen_unit_tokens(rng, table, [rng.below(3) - 1 for _ in range(4)] + [0, 0], allow_zero=False)
            u1, u2 = unit_string(rng, t1).strip(), unit_string(rng, t2).strip()
            okp = unit_factor(table, t1)[1] and unit_factor(table, t2)[1] and unit_factor(table, t1 + t2)[1]
            for u in (u1, u2, u1 + " " + u2):
                cmds.append("G " + hx(u)); meta.append(("Gp", (u1, u2, okp)))
        elif mode == 4:             # exponents add / power zero
            nm = rng.choice(sorted(table))
            a, b = rng.choice([-3, -2, -1, 1, 2, 3]), rng.choice([-3, -2, -1, 1, 2, 3, 0])
            for u in ("%s^%d" % (nm, a), "%s^%d" % (nm, b), "%s^%d" % (nm, a + b)):
                cmds.append("G " + hx(u)); meta.append(("Ge", (nm, a, b)))
        else:                       # convert between two unit strings of the same dimensions
            tgt = [rng.below(5) - 2 for _ in range(4)] + [0, rng.below(2)]
            k1 = gen_unit_tokens(rng, table, tgt, allow_zero=False)
            k2 = gen_unit_tokens(rng, table, tgt, allow_zero=False)
            u1, u2 = unit_string(rng, k1), unit_string(rng, k2)
            x = (0.5 + rng.uniform()) * 10.0 ** (rng.below(13) - 6)
            cmds.append("V %016x %s %s" % (vf.dbl_bits(x), hx(u1), hx(u2))); meta.append(("V", (x, u1, u2, k1, k2)))

    rc_i, out_i = run_impl(ck, cmds)
    if rc_i != 0 or len(out_i) != len(cmds):
        ck.breaks.append("implementation harness exited with %d after %d of %d commands; next command: %s" % (rc_i, len(out_i), len(cmds), cmds[min(len(out_i), len(cmds) - 1)][:300]))

    # ---- oracles on the real code's answers
    n_eval = 0
    shapes_nontrivial, shapes_all = set(), set()
    depth_hist, drop_hist, size_hist, q_hist = {}, {}, {}, {}
    n_err = 0
    n_q_checked = n_c_checked = 0
    for k, (cmd, out) in enumerate(zip(cmds, out_i)):
        kind = meta[k][0]
        if kind == "Y":
            f = fields(out)
            if f.get("ERR"):
                n_err += 1
                continue
            why = oracle_Y(cmd, out)
            if why:
                violate("C20 parse/print round trip fails on the real YAMLDictionary: " + why, {"cmd": cmd, "text": unhx(cmd.split()[1]).decode("latin-1"), "impl_out": out},
                        {"kind": "yaml_roundtrip"})
            D = undump(f["D"])
            keys = [kk.split(b":") for kk, _ in D]
            shape = tuple(kk for kk, _ in D)
            shapes_all.add(shape)
            P = unhx(f["P"]).split(b"\n")
            nhead = sum(1 for l in P if l.rstrip().endswith(b":") and l.strip() != b":")
            groups = set()
            for kk in keys:
                for j in range(1, len(kk)):
                    groups.add(tuple(kk[:j]))
            maxdrop = 0
            for a, b in zip(keys, keys[1:]):
                ga, gb = a[:-1], b[:-1]
                i = 0
                while i < len(ga) and i < len(gb) and ga[i] == gb[i]:
                    i += 1
                if len(gb) > len(ga):
                    maxdrop = max(maxdrop, len(ga) - i)
            if D:
                md = max(len(kk) for kk in keys)
                depth_hist[md] = depth_hist.get(md, 0) + 1
                drop_hist[maxdrop] = drop_hist.get(maxdrop, 0) + 1
                size_hist[min(len(D), 10)] = size_hist.get(min(len(D), 10), 0) + 1
            if maxdrop >= 2:
                shapes_nontrivial.add(shape)
        elif kind == "Q":
            why, vk = oracle_Q(cmd, out)
            fq = fields(out)
            if "B" in fq and not any(a in ("ERR", "EXC", "?") for a in fq.get("A", "").split(",")):
                n_q_checked += 1
            if why:
                f = cmd.split()
                nqs = int(f[2])
                queries = [{"type": f[3 + 3 * j], "key": unhx(f[4 + 3 * j]).decode("latin-1"), "default": unhx(f[5 + 3 * j]).decode("latin-1")} for j in range(nqs)]
                violate("C20 used-values dump fed back as parameter file: " + why, {"cmd": cmd, "text": unhx(f[1]).decode("latin-1"), "queries": queries,
                        "dump": unhx(fields(out).get("W", "-")).decode("latin-1"), "impl_out": out}, {"kind": vk})
        elif kind == "C":
            f = out.split()
            q = meta[k][1][0]
            q_hist[q] = q_hist.get(q, 0) + 1
            if len(f) == 3 and f[1] != "ERR":
                x = meta[k][1][1]
                si, back = hd(f[1]), hd(f[2])
                direct = table and sidims[q] is not None
                if math.isfinite(si) and 1e-280 < abs(si) < 1e280:
                    n_c_checked += 1
                    if ulps(x, back) > 16:
                        violate("to_SI then to_unit does not return the value: %r %r -> %r SI -> %r" % (x, meta[k][1][2], si, back),
                                {"cmd": cmd, "x": x, "unit": meta[k][1][2]}, {"kind": "unit_si_roundtrip"})
                    # independent expectation: product of table factors (exponent 0 -> factor 1)
                    if len(meta[k][1]) == 4:
                        uf, okf = unit_factor(table, meta[k][1][3])
                        exp = x * uf
                        if okf and not (abs(si - exp) <= 1e-12 * abs(exp)):
                            zero = [nm for nm, e in meta[k][1][3] if e == 0 and table[nm][0] != 1.0]
                            violate("to_SI<%d>(%r, %r) = %r but the product of the parts is %r%s" % (q, x, meta[k][1][2], si, exp,
                                    " (unit %r with exponent 0 keeps its factor %r)" % (zero[0], table[zero[0]][0]) if zero else ""),
                                    {"cmd": cmd, "x": x, "unit": meta[k][1][2], "expected": exp}, {"kind": "unit_pow_zero" if zero else "unit_product"})
        elif kind == "Gp" and k + 2 < len(out_i) and meta[k + 2][0] == "Gp" and (k == 0 or meta[k - 1] != meta[k]) :
            fa, fb, fc = out_i[k].split(), out_i[k + 1].split(), out_i[k + 2].split()
            if len(fa) == 8 and len(fb) == 8 and len(fc) == 8:
                va, vb, vc = (hd(z[1]) for z in (fa, fb, fc))
                ea, eb, ec = ([int(t) for t in z[2:]] for z in (fa, fb, fc))
                if meta[k][1][2] and math.isfinite(va * vb) and 1e-250 < abs(va * vb) < 1e250:
                    if ec != [p + r for p, r in zip(ea, eb)] or not (abs(vc - va * vb) <= 1e-13 * abs(vc)):
                        violate("compound unit is not the product of its parts: %r=%r, %r=%r, together %r" % (meta[k][1][0], va, meta[k][1][1], vb, vc),
                                {"cmds": cmds[k:k + 3]}, {"kind": "unit_product"})
        elif kind == "Ge" and k + 2 < len(out_i) and meta[k + 2] == meta[k] and (k == 0 or meta[k - 1] != meta[k]):
            nm, a, b = meta[k][1]
            fa, fb, fc = out_i[k].split(), out_i[k + 1].split(), out_i[k + 2].split()
            if len(fa) == 8 and len(fb) == 8 and len(fc) == 8:
                va, vb, vc = (hd(z[1]) for z in (fa, fb, fc))
                if math.isfinite(va * vb) and 1e-280 < abs(va * vb) < 1e280 and not (abs(vc - va * vb) <= 1e-13 * abs(vc)):
                    zero = (b == 0 or a + b == 0) and table[nm][0] != 1.0
                    violate("unit exponents do not add: %s^%d = %r, %s^%d = %r, %s^%d = %r%s" % (nm, a, va, nm, b, vb, nm, a + b, vc,
                            " (exponent 0 keeps the scale factor)" if zero else ""), {"cmds": cmds[k:k + 3]}, {"kind": "unit_pow_zero" if zero else "unit_pow_add"})
        elif kind == "G" and cmd.split()[1] != "-":
            u = unhx(cmd.split()[1]).decode("latin-1")
            m = re.fullmatch(r"\s*(\w+)\^[+-]?0+\s*", u)
            f = out.split()
            if m and len(f) == 8 and hd(f[1]) != 1.0:
                violate("unit %r (exponent 0) converts with factor %r instead of 1" % (u, hd(f[1])), {"cmd": cmd, "unit": u}, {"kind": "unit_pow_zero"})
        elif kind == "V":
            f = out.split()
            if len(f) == 2 and f[1] != "ERR":
                x, u1, u2, k1, k2 = meta[k][1]
                y = hd(f[1])
                f1, ok1 = unit_factor(table, k1)
                f2, ok2 = unit_factor(table, k2)
                exp = x * (f1 / f2) if ok1 and ok2 else 0.0
                if ok1 and ok2 and 1e-250 < abs(f1 / f2) < 1e250 and 1e-250 < abs(exp) < 1e250 and not (abs(y - exp) <= 1e-12 * abs(exp)):
                    violate("convert(%r, %r, %r) = %r but the ratio of the products of the parts gives %r" % (x, u1, u2, y, exp),
                            {"cmd": cmd, "x": x, "from": u1, "to": u2, "expected": exp}, {"kind": "unit_convert"})

    # ---- correspondence: extracted model on the same commands (+ W commands built from the Q answers)
    mism = 0
    if okm:
        mcmds, mexp, mref = [], [], []
        for k, (cmd, out) in enumerate(zip(cmds, out_i)):
            if meta[k][0] == "Q":
                f = fields(out)
                if "D" not in f:
                    continue
                # parser on the original text, used-values printer, parser on the dump
                mcmds.append("Y " + cmd.split()[1]); mexp.append(None); mref.append(k)
                mcmds.append("W %s %s" % (f["D"], f["U"])); mexp.append("W W=%s R=%s" % (f["W"], f.get("R", "ERR"))); mref.append(k)
            else:
                mcmds.append(cmd); mexp.append(out); mref.append(k)
        mcmds0 = cmds0 + cmds_si + ["T"]
        rc_m, out_m_all = run_model(ck, mcmds0 + mcmds)
        if rc_m != 0 or len(out_m_all) != len(mcmds0) + len(mcmds):
            ck.breaks.append("model driver exited with %d after %d of %d commands" % (rc_m, len(out_m_all), len(mcmds0) + len(mcmds)))
        out_m0, out_m = out_m_all[:len(mcmds0)], out_m_all[len(mcmds0):]
        # table: names and values
        exp0 = out0 + out_si
        for c, a, b in zip(mcmds0, exp0, out_m0):
            n_eval += 1
            if a != b:
                mism += 1
                what = "unit table / SI names: real converter answers %r, model %r for command %s (%r)" % (a, b, c, unhx(c.split()[1]) if len(c.split()) > 1 and not c.split()[1].isdigit() else "")
                ck.breaks.append("correspondence C20 model <-> UnitConverter.hpp: " + what)
        if out_m0[len(exp0):]:
            tline = out_m0[len(exp0)]
            mnames = tline.split()[1].split(",") if len(tline.split()) > 1 else []
            if sorted(mnames) != sorted(names):
                ck.breaks.append("unit names of get_single_unit %r differ from the model's table %r" % (sorted(set(names) ^ set(mnames)), "symmetric difference"))
            if "consistent=true" not in tline:
                ck.breaks.append("model unit table fails its internal relations")
        for j, (c, e, m) in enumerate(zip(mcmds, mexp, out_m)):
            if e is None:
                continue
            n_eval += 1
            mm = m
            if c.startswith("W "):
                mm = " ".join(m.split()[:3])       # W=.. R=..   (E= is the model's expectation, compared below)
                fm = fields(m)
                if fm.get("R") != "ERR" and fm.get("R") != fm.get("E"):
                    if not any(v == b"" for _, v in undump(c.split()[2])) :
                        ck.breaks.append("model: re-parse of the used-values print differs from used_dict for D=%s U=%s" % (c.split()[1][:200], c.split()[2][:200]))
            if mm != e:
                mism += 1
                if mism <= 5:
                    k = mref[j]
                    fi, fm = fields(e), fields(mm)
                    diff = [x for x in ("D", "P", "R", "W") if fi.get(x) != fm.get(x)] or ["answer"]
                    detail = ""
                    if diff[0] in ("P", "W") and fi.get(diff[0]) and fm.get(diff[0]) and "ERR" not in (fi.get(diff[0]), fm.get(diff[0])):
                        li, lm = unhx(fi[diff[0]]).split(b"\n"), unhx(fm[diff[0]]).split(b"\n")
                        n = vf.first_diff(li, lm)
                        detail = " line %d: impl %r model %r" % (n, li[n] if n < len(li) else None, lm[n] if n < len(lm) else None)
                    ck.breaks.append("correspondence C20 model <-> real code: command %s differs in %s%s; impl=%s model=%s" % (
                        c[:160], diff[0], detail, e[:300], mm[:300]))
    cov["evaluations"] = n_eval + snap[1]
    cov["distinct_nontrivial"] = len(shapes_nontrivial)
    cov["rule"] = ("commands from SplitMix64(VERIF_SEED): Y = parameter text (corpus of boundary cases, then generated trees with 1..5 name components, "
                   "names over bytes around ':' such as ' ' '!' '+' '-' '0' '9' ';' 'A' '_' 'z' '~' and UTF-8, scalar/vector/bool/unit values, rendered canonically or with free "
                   "indentation/tabs/comments/blank lines/re-opened groups/unsorted order) -> real parser, real printer, real parser again; Q = typed queries with defaults on a real "
                   "ParameterFile, used-values dump, dump parsed again and queried again; G/C/V = get_unit, to_SI+to_unit, convert on generated compound unit strings "
                   "(exponents -3..3 incl. 0, '+' signs, missing blanks after powers). evaluations = answer lines of the real code compared verbatim with the extracted Coq model "
                   "(text in hex, doubles as bit patterns). A Y case is non-trivial when the parsed dictionary has two consecutive keys where the second has more groups than "
                   "the first and the first has >= 2 groups that are not shared (the printer's pop loop leaves stale entries, DESIGN O3); distinct = distinct key sets among those. "
                   "Snapshot: S <mode> = one geometry (corpus of cubic / non-cubic / one-subgrid / one-cell-subgrid / > 10000-cell-subgrid layouts, then random layouts with 1..4 subgrids and 1..6 (thorough 1..9) cells per "
                   "subgrid per axis, mostly pairwise different, boxes from a corpus or random in m/cm/pc/kpc) -> real grid with distinct cell values -> real HDF5 writer -> real reader -> second real grid; "
                   "every cell compared bitwise; evaluations include one per entry of the writer order and one per cell of the reader index compared with the extracted model")
    cov["yaml_cases"] = sum(1 for m in meta if m[0] == "Y")
    cov["yaml_distinct_dictionaries"] = len(shapes_all)
    cov["yaml_parse_errors_compared"] = n_err
    cov["used_value_cases"] = sum(1 for m in meta if m[0] == "Q")
    cov["used_value_cases_fed_back_and_requeried"] = n_q_checked
    cov["si_roundtrips_checked_on_real_code"] = n_c_checked
    cov["unit_commands"] = sum(1 for m in meta if m[0] in ("G", "Gp", "Ge", "C", "V"))
    cov["unit_table_entries"] = len(table)
    cov["unit_table_relations_checked"] = nrel
    cov["si_unit_names"] = len(sinames)
    cov["max_components_histogram"] = {str(k): v for k, v in sorted(depth_hist.items())}
    cov["stale_pop_depth_histogram"] = {str(k): v for k, v in sorted(drop_hist.items())}
    cov["entries_histogram"] = {str(k): v for k, v in sorted(size_hist.items())}
    cov["unit_exponent_histogram"] = {str(k): v for k, v in sorted(exp_hist.items())}
    cov["quantity_histogram"] = {str(k): v for k, v in sorted(q_hist.items())}
    cov["case_mismatches"] = mism
    ys = [k for k, m in enumerate(meta) if m[0] == "Y"]
    cov["samples"] = [{"text": unhx(cmds[k].split()[1]).decode("latin-1"), "printed": unhx(fields(out_i[k]).get("P", "-")).decode("latin-1")}
                      for k in ys[len(Y_CORPUS) + 1:len(Y_CORPUS) + 3] if k < len(out_i) and not fields(out_i[k]).get("ERR")]
    ck.assumptions += [
        "snapshot clause: index theorems over Z for every layout; positions over Q under the hypothesis that the reader's box equals the grid's box (the pinned tree stores the box with 6 digits: finding snapshot_box_precision, "
        "generators restricted to boxes that survive it while PINNED_BOX_PRECISION); binary64 rounding of ncell*(x-anchor)/side, HDF5 I/O and the unit block are exercised on the real code (bit-exact read back), not proved; "
        "AMR / Voronoi snapshot branches are outside the claim; all round trips set DensityGridWriterFields:Temperature: 1 (with the default fields the reader aborts)",
        "number formatting and parsing (operator<< with 6 significant digits, strtod/stod/sscanf, std::stoi) are oracles: the used-values clause is checked on the real code by re-reading (tolerance 5.1e-6 relative = printed precision), not proved",
        "unit algebra theorems are over R; binary64 behaviour is tied by bit-exact comparison of the model (Coq PrimFloat through ExtrOCamlFloats) with the real UnitConverter; to_SI/to_unit round trip on the real code within 16 ulp",
        "harness replaces cmac_error (abort) by a C++ exception so that rejected inputs can be compared; undefined behaviour of the parser (dedent below every open level) is modelled as an error and not generated",
        "round-trip theorem hypotheses: key components non-empty, no ':' '#' LF, no leading/trailing blank/tab; values non-empty, trimmed, no '#' or LF; keys strictly sorted in byte order (std::map)",
    ]
    ck.notes.append("observation outside C20 (malformed input, not a violation): the YAML parser has undefined behaviour (segmentation fault, exit 139) instead of a cmac_error when a line is "
                    "dedented to an indentation below every open level but above 0, e.g. 'g:\\n    a: 1\\n  b: 2\\n' (levels.back() on an empty vector); the model returns an error there and the generators avoid it")
    ck.notes.append("Unit::operator^= variant expected by the correspondence: %s" % ("pinned (exponent 0 keeps the factor)" if PINNED_POW_ZERO else "repaired (exponent 0 gives factor 1)"))
    # a break must not hide behind the two confirmed defects (which may be registered as known findings)
    confirmed = ("unit_pow_zero", "empty_used_value")
    if ck.breaks and not any((not v["no_input"]) and v["key"].get("kind") not in confirmed for v in ck.violations):
        ck.violation("broken without a failing input: " + " || ".join(b[:1500] for b in ck.breaks), {"no_longer_checks": ck.breaks}, key={"kind": "break"}, no_input=True)


def replay_snapshot(ck, rp):
    r = rp["replay"]
    d = ck.scratch
    ok, log = vf.cxx_build(SNAP_HARNESS, os.path.join(d, "snap_impl"), extra=["-Wl,--no-as-needed", "-lhdf5_serial", "-lmpi_cxx", "-lmpi"], libs=False, openmp=True)
    if not ok:
        print(log[-2000:])
        print("REPLAY: snapshot harness does not compile")
        return 1
    work = os.path.join(d, "snapwork")
    os.makedirs(work, exist_ok=True)
    c = dict(r["case"])
    c["n"], c["s"] = tuple(c["n"]), tuple(c["s"])
    c["text"] = r["param_text"]
    print(r["param_text"])
    rc, out = vf.run_lines([os.path.join(d, "snap_impl"), work], r["snapshot_cmd"] + "\n", timeout=600, env=dict(os.environ, OMP_NUM_THREADS="2"))
    blocks = snap_split(out)
    if not blocks:
        print("REPLAY: harness died (exit %d)" % rc)
        return 1
    blk = blocks[0]
    print(" ".join(blk["G"] or []), "|", blk["E"])
    why = snap_oracle(c, blk)
    nbad = sum(1 for row in blk["C"] if any(x.split(":")[0] != x.split(":")[1] for x in row[4:]))
    print("cells whose read-back values differ bitwise from the written values: %d of %d" % (nbad, len(blk["C"])))
    print("REPLAY:", why[0] if why else "property holds on this input")
    return 1 if why else 0


def replay(ck, rp):
    if "driver_run" in rp["replay"]:
        driver_tie(ck)
        bad = [v for v in ck.violations if v["key"].get("kind") == "driver_used_values"]
        print("REPLAY:", bad[0]["what"] if bad else "property holds on this input")
        return 1 if bad else 0
    if "snapshot_cmd" in rp["replay"]:
        return replay_snapshot(ck, rp)
    okm, oki = build(ck)
    r = rp["replay"]
    cmds = r.get("cmds") or [r["cmd"]]
    rc, out = run_impl(ck, cmds)
    print("\n".join(out))
    bad = None
    for c, o in zip(cmds, out):
        if c.startswith("Y "):
            bad = bad or oracle_Y(c, o)
        elif c.startswith("Q "):
            bad = bad or oracle_Q(c, o)[0]
    if cmds[0][0] in "GCV":
        # unit findings: show model and implementation side by side; the stored answer documents the failure
        if okm:
            print("\n".join(run_model(ck, cmds)[1]))
        bad = rp.get("what")
    print("REPLAY:", bad or "property holds on this input")
    return 1 if bad else 0
