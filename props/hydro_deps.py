# shared by C04 and C10: the hydro task table of the REAL code must order the phases per subgrid.
# Both properties need it (C10: thread/schedule independence; C04: the conserved update of a cell sees every flux through
# its faces exactly once); the theorem is C07_phases_ordered, the tie on every run of ./check C07.  C04 and C10 repeat the
# executable part here on a few layouts so that a change of set_dependencies is reported by them as well, with a concrete
# schedule of the real task objects as the failing history.
import os
import vf
import c07


def phase_order_findings(ck, layouts=None):
    """-> list of dicts (layout, t1, t2, subgrid, order, observed) for pairs of tasks of consecutive populated phases touching a
    common subgrid for which the REAL table has no dependency path, replayed on the real task objects; [] if the table is fine.
    Returns None if the harness cannot be built (a break is recorded)."""
    class Shim:
        pass
    sh = Shim()
    sh.scratch = os.path.join(ck.scratch, "deps")
    os.makedirs(sh.scratch, exist_ok=True)
    d = sh.scratch
    ok3, log3 = vf.cxx_build(c07.HARNESS, os.path.join(d, "impl"), libs=True)
    if not ok3:
        ck.breaks.append("hydro task table harness does not compile against /repo/src/TaskBasedRadiationHydrodynamicsSimulation.cpp:\n" + log3[-1500:])
        return None
    layouts = layouts or [(1, 1, 1, 0, 0, 0), (1, 1, 2, 0, 0, 0), (2, 1, 1, 1, 0, 0), (1, 2, 1, 0, 1, 0), (1, 1, 3, 0, 0, 1), (2, 2, 2, 1, 1, 1), (3, 2, 1, 0, 1, 0), (1, 1, 1, 1, 1, 1)]
    rc, blocks = c07.run_impl(sh, [("G", l, 0, 0) for l in layouts])
    found = []
    for b in blocks:
        tasks = b.get("tasks", [])
        n = len(tasks)
        if not n:
            continue
        by_sub = {}
        for t in tasks:
            for x in c07.touched(t):
                by_sub.setdefault(x, {}).setdefault(c07.PHASE[t["kind"]], []).append(t["id"])
        done = False
        for x, ph in sorted(by_sub.items()):
            ks = sorted(ph)
            for a, c in zip(ks, ks[1:]):
                for t1 in ph[a]:
                    for t2 in ph[c]:
                        order = c07.phase_order_witness(b, t1, t2)
                        if order is None:
                            continue
                        verdict, events = c07.run_ordered(sh, b["layout"], order)
                        found.append({"layout": list(b["layout"]), "t1": c07.tname(b, t1), "t2": c07.tname(b, t2), "subgrid": x,
                                      "phases": [c07.PHASE_NAME[a], c07.PHASE_NAME[c]], "order": order, "observed": {"verdict": verdict, "events": events[:80]}})
                        done = True
                        break
                    if done:
                        break
                if done:
                    break
            if done:
                break
    # parent counters: a task whose initial counter (as set by the real reset_hydro_tasks) is below its number of parent edges becomes
    # ready before all its parents have finished
    for b in blocks:
        tasks = b.get("tasks", [])
        n = len(tasks)
        parents = [[] for _ in range(n)]
        for t in tasks:
            for c in t["children"]:
                if 0 <= c < n:
                    parents[c].append(t["id"])
        for t in tasks:
            c = t["id"]
            if t["p0"] >= len(parents[c]) or not parents[c]:
                continue
            # run p0 of the parents (with everything they need), then c; leave out a parent that touches a common subgrid if possible
            shared = [q for q in parents[c] if set(c07.touched(tasks[q])) & set(c07.touched(t))]
            left_out = shared[-1] if shared else parents[c][-1]
            chosen = [q for q in parents[c] if q != left_out][:t["p0"]]
            need, stack = set(), list(chosen)
            while stack:
                q = stack.pop()
                if q in need:
                    continue
                need.add(q)
                stack += parents[q]
            # topological order by parent counts on the needed set
            cnt = {q: len(parents[q]) for q in need}
            ready = sorted(q for q in need if cnt[q] == 0)
            order = []
            while ready:
                q = ready.pop(0)
                order.append(q)
                for ch in tasks[q]["children"]:
                    if ch in cnt:
                        cnt[ch] -= 1
                        if cnt[ch] == 0:
                            ready.append(ch)
                            ready.sort()
            if len(order) != len(need) or left_out in need:
                continue
            order.append(c)
            verdict, events = c07.run_ordered(sh, b["layout"], order)
            if ("+%d" % c) in events:
                found.append({"layout": list(b["layout"]), "t1": c07.tname(b, left_out), "t2": c07.tname(b, c), "subgrid": (sorted(set(c07.touched(tasks[left_out])) & set(c07.touched(t))) or [t["sub"]])[0],
                              "phases": [c07.PHASE_NAME[c07.PHASE[tasks[left_out]["kind"]]], c07.PHASE_NAME[c07.PHASE[t["kind"]]]], "order": order,
                              "counter": {"initial_parent_counter": t["p0"], "parent_edges": len(parents[c])}, "observed": {"verdict": verdict, "events": events[:80]}})
                break
    ck.coverage["hydro_task_tables_checked_for_phase_order"] = len(blocks)
    return found
