# C16, traversal clauses: CartesianDensityGrid::interact and AMRDensityGrid::interact (LegacyEngine).
# Called from props/c16.py.  Tie = the extracted binary64 instance of coq/Cxx/C16_InteractDefs.v against the real classes,
# bit for bit (returned iterator, final position, every changed mean intensity); property oracle = straight-line
# geometry in exact rationals, independent of the model.
import os, math, json
from fractions import Fraction as Fr
import vf

HARNESS = os.path.join(vf.VERIF, "harness/c16/interact_harness.cpp")
DRIVER = os.path.join(vf.VERIF, "ocaml/c16i_driver.ml")
H = lambda x: "%016x" % vf.dbl_bits(x)
D = lambda s: vf.bits_dbl(int(s, 16))
HUGE = 1e300
TOL = 1e-11          # oracle tolerance relative to the box scale (the model is compared bit for bit)


# ---------------------------------------------------------------------------------------------------------------
# geometry in exact rationals (oracle side only)
class CartGeom:
    def __init__(self, anchor, sides, n, per, cells):
        self.a = [Fr(x) for x in anchor]
        self.s = [Fr(x) for x in sides]
        self.n = list(n)
        self.per = list(per)
        self.cells = cells                      # list of (n, xH, xHe) in long index order
        self.scale = max(max(abs(x) for x in anchor), max(sides))

    def locate(self, p, d):
        idx = []
        for k in range(3):
            t = (p[k] - self.a[k]) * self.n[k] / self.s[k]
            i = math.floor(t)
            if d[k] < 0 and t == i:
                i -= 1
            if not 0 <= i < self.n[k]:
                return None
            idx.append(i)
        lo = [self.a[k] + self.s[k] * idx[k] / self.n[k] for k in range(3)]
        hi = [self.a[k] + self.s[k] * (idx[k] + 1) / self.n[k] for k in range(3)]
        return (idx[0] * self.n[1] * self.n[2] + idx[1] * self.n[2] + idx[2], lo, hi)

    def near_wall(self, k, x, delta):
        t = (x - self.a[k]) * self.n[k] / self.s[k]
        return abs(t - round(t)) * self.s[k] / self.n[k] <= delta

    def box(self, cid):
        n = self.n
        idx = (cid // (n[1] * n[2]), (cid // n[2]) % n[1], cid % n[2])
        return ([self.a[k] + self.s[k] * idx[k] / n[k] for k in range(3)], [self.a[k] + self.s[k] * (idx[k] + 1) / n[k] for k in range(3)])

    def content(self, cid):
        return self.cells[cid]


def amr_decompose(ncell):
    def p2(n):
        m = n
        while m % 2 == 0:
            m //= 2
        return n // m
    pw = min(p2(ncell[0]), p2(ncell[1]), p2(ncell[2]))
    nb = tuple(c // pw for c in ncell)
    lev = 0
    while pw > 1:
        pw //= 2
        lev += 1
    return nb, lev


def amr_key(b, path):
    k, m = 0, 1
    for c in path:
        k += c * m
        m *= 8
    return (((b[0] << 20) + (b[1] << 10) + b[2]) << 32) + k + m


def amr_unkey(key):
    blk = key >> 32
    b = ((blk & 0x3ff00000) >> 20, (blk & 0xffc00) >> 10, blk & 0x3ff)
    c = key & 0xffffffff
    path = []
    while c > 1:
        path.append(c & 7)
        c >>= 3
    return b, tuple(path)


class AmrGeom:
    def __init__(self, anchor, sides, ncell, per, internal, contents):
        self.a = [Fr(x) for x in anchor]
        self.s = [Fr(x) for x in sides]
        self.nb, self.l0 = amr_decompose(ncell)
        self.per = list(per)
        self.internal = internal            # set of (block, path) that have children
        self.contents = contents            # key -> (n, xH, xHe)
        self.scale = max(max(abs(x) for x in anchor), max(sides))

    def path_box(self, b, path):
        s = [self.s[k] / self.nb[k] for k in range(3)]
        a = [self.a[k] + s[k] * b[k] for k in range(3)]
        for c in path:
            s = [x / 2 for x in s]
            bits = ((c >> 2) & 1, (c >> 1) & 1, c & 1)
            a = [a[k] + bits[k] * s[k] for k in range(3)]
        return a, [a[k] + s[k] for k in range(3)]

    def locate(self, p, d):
        b = []
        for k in range(3):
            t = (p[k] - self.a[k]) * self.nb[k] / self.s[k]
            i = math.floor(t)
            if d[k] < 0 and t == i:
                i -= 1
            if not 0 <= i < self.nb[k]:
                return None
            b.append(i)
        b = tuple(b)
        path = ()
        while (b, path) in self.internal:
            lo, hi = self.path_box(b, path)
            c = 0
            for k in range(3):
                mid = (lo[k] + hi[k]) / 2
                up = p[k] > mid or (p[k] == mid and d[k] >= 0)
                c = 2 * c + (1 if up else 0)
            path = path + (c,)
        lo, hi = self.path_box(b, path)
        return (amr_key(b, path), lo, hi)

    def near_wall(self, k, x, delta):
        # walls of the finest level present anywhere (a superset of the walls that matter)
        if not hasattr(self, "_maxdepth"):
            self._maxdepth = max([len(p) + 1 for (_, p) in self.internal] + [0])
        m = self.nb[k] * (1 << self._maxdepth)
        t = (x - self.a[k]) * m / self.s[k]
        return abs(t - round(t)) * self.s[k] / m <= delta

    def box(self, key):
        b, path = amr_unkey(key)
        return self.path_box(b, path)

    def content(self, key):
        return self.contents[key]


def ray_segments(geom, ph, ttol, max_steps=20000):
    """the straight line p0 + s d cut at the cell walls, exact rationals: list of segments
    dict(cell, s0, s1, q = position at s0 wrapped into the box, kap, tau0 = optical depth up to s0) and how it ends:
    ("escaped", s, tau, position) through an open face, ("beyond", ...) once the optical depth exceeds target + ttol,
    ("stuck" / "endless", ...)"""
    p = [Fr(x) for x in ph["pos"]]
    d = [Fr(x) for x in ph["dir"]]
    target = Fr(ph["tau"])
    sH, sHe = Fr(ph["sH"]), Fr(ph["sHe"])
    tau = Fr(0)
    s = Fr(0)
    segs = []
    hi_box = [geom.a[k] + geom.s[k] for k in range(3)]
    for step in range(max_steps):
        for k in range(3):
            # a position on a periodic face, heading out of the box, is the same point on the opposite face
            if geom.per[k]:
                if d[k] > 0 and p[k] >= hi_box[k]:
                    p[k] -= geom.s[k]
                elif d[k] < 0 and p[k] <= geom.a[k]:
                    p[k] += geom.s[k]
        loc = geom.locate(p, d)
        if loc is None:
            return segs, ("escaped", s, tau, p)
        cid, lo, hi = loc
        sk = []
        for k in range(3):
            if d[k] > 0:
                sk.append((hi[k] - p[k]) / d[k])
            elif d[k] < 0:
                sk.append((lo[k] - p[k]) / d[k])
        if not sk:
            return segs, ("stuck", s, tau, p)
        ds = min(sk)
        nd, xH, xHe = geom.content(cid)
        kap = Fr(nd) * (sH * Fr(xH) + sHe * Fr(xHe))
        segs.append({"cell": cid, "s0": s, "s1": s + ds, "q": list(p), "kap": kap, "tau0": tau, "nd": nd})
        tau += kap * ds
        s += ds
        p = [p[k] + ds * d[k] for k in range(3)]
        if tau > target + ttol:
            return segs, ("beyond", s, tau, p)
    return segs, ("endless", s, tau, p)


def parse_answer(line, tag):
    """CR/AQ <cell|END> px py pz k {cell J}*k"""
    f = line.split(" #")[0].split()
    if len(f) < 6 or f[0] != tag:
        return None
    try:
        cell = None if f[1] == "END" else int(f[1])
        pos = [D(f[2]), D(f[3]), D(f[4])]
        k = int(f[5])
        J = {}
        for i in range(k):
            J[int(f[6 + 2 * i])] = D(f[7 + 2 * i])
    except (ValueError, IndexError):
        return None
    return {"cell": cell, "pos": pos, "J": J}


def oracle(geom, ph, line, tag, amr):
    """None if the traversal clauses of C16 hold on this answer of the real code (within TOL), else (clause, text).
    A start within rounding of a cell wall belongs to either neighbour (the walls of the code are binary64 numbers, those of
    the oracle exact rationals): the answer is accepted if it is right for the start moved by TOL/4 to either side."""
    ws = oracle_all(geom, ph, line, tag, amr)
    return ws[0] if ws else None


def oracle_all(geom, ph, line, tag, amr):
    """[] if the answer is accepted, else the verdicts for the start as given and for the start moved to either side of the walls it is on"""
    why = oracle1(geom, ph, line, tag, amr)
    if why is None:
        return []
    if why[0] in ("hang", "no_answer", "finite"):
        return [why]
    delta = TOL * geom.scale / 4
    near = []
    for k in range(3):
        x = Fr(ph["pos"][k])
        if geom.near_wall(k, x, Fr(delta)):
            near.append(k)
    if not near:
        return [why]
    res = [why]
    variants = [[]]
    for k in near:
        variants = [v + [(k, sg)] for v in variants for sg in (-1, 1)]
    starts = []
    for v in variants:
        q = dict(ph)
        pos = list(ph["pos"])
        for (k, sg) in v:
            pos[k] = pos[k] + sg * delta
            lo, hi = float(geom.a[k]), float(geom.a[k] + geom.s[k])
            if pos[k] < lo:
                pos[k] = lo
            if pos[k] >= hi:
                pos[k] = math.nextafter(hi, lo)
        q["pos"] = pos
        starts.append(q)
        w2 = oracle1(geom, q, line, tag, amr)
        if w2 is None:
            return []
        res.append(w2)
    if any(ph["dir"][k] == 0.0 for k in near):
        # the ray lies IN a wall plane: every point of it belongs to two (four) closed cells and the traversal may use
        # either one in every step; judge the answer against the envelope of all such choices
        w3 = oracle_plane(geom, ph, starts, line, tag, amr)
        if w3 is None:
            return []
        return [w3]
    return res


def oracle_plane(geom, ph, starts, line, tag, amr):
    r = parse_answer(line or "", tag)
    if r is None:
        return ("no_answer", "no answer from the real code")
    target = Fr(ph["tau"])
    ttol = Fr(1e-11 * max(1.0, ph["tau"])) if ph["tau"] < 1e290 else Fr(0)
    dmin = min([abs(x) for x in ph["dir"] if x != 0.0] + [1.0])
    tol = geom.scale * (TOL + 64 * 2.0 ** -52 / dmin)
    ftol = Fr(tol)
    d = [Fr(x) for x in ph["dir"]]
    dn = math.sqrt(sum(x * x for x in ph["dir"])) if amr else 1.0
    k = max(range(3), key=lambda j: abs(d[j]))
    rp = [Fr(x) for x in r["pos"]]
    for j in range(3):
        if d[j] == 0 and abs(rp[j] - Fr(ph["pos"][j])) > ftol:
            return ("end_position", "final position %s left the wall plane the ray lies in (coordinate %d)" % (fmt(rp), j))
    env = None
    for cap in (48, 192, 768, 3072):
        runs = [ray_segments(geom, dict(q, tau=1e300), Fr(0), max_steps=cap) for q in starts]
        if any(f[0] == "stuck" for _, f in runs):
            return None
        s_cov = min(f[1] for _, f in runs)                    # every choice of side is known up to here
        escaped = all(f[0] == "escaped" for _, f in runs)
        cuts = sorted(set(x for segs, _ in runs for sg in segs for x in (sg["s0"], sg["s1"]) if x <= s_cov))
        env = []          # (u, v, kmin, kmax, cells, all_dense, any_dense, tlo(u), thi(u), lmin(u), lmax(u))
        tlo = thi = lmin = lmax = Fr(0)
        ptr = [0] * len(runs)
        for u, v in zip(cuts, cuts[1:]):
            if v <= u:
                continue
            m = (u + v) / 2
            ks, cs, dense = [], set(), []
            for ri, (segs, _) in enumerate(runs):
                i = ptr[ri]
                while i < len(segs) and segs[i]["s1"] < m:
                    i += 1
                ptr[ri] = i
                if i < len(segs) and segs[i]["s0"] <= m:
                    ks.append(segs[i]["kap"])
                    cs.add(segs[i]["cell"])
                    dense.append(segs[i]["nd"] > 0)
            if not ks:
                continue
            env.append((u, v, min(ks), max(ks), cs, all(dense), any(dense), tlo, thi, lmin, lmax))
            tlo += min(ks) * (v - u)
            thi += max(ks) * (v - u)
            lmin += (v - u) if all(dense) else 0
            lmax += (v - u) if any(dense) else 0
        if escaped or tlo > target + ttol:
            break
    else:
        return None              # too long a path for the oracle: no verdict
    s_exit = s_cov if escaped else None

    def at(sx):
        """(tlo, thi, lmin, lmax, per-cell touch lengths) at parameter sx"""
        per_cell = {}
        res = (Fr(0), Fr(0), Fr(0), Fr(0))
        for (u, v, kmin, kmax, cs, alld, anyd, t0, t1, l0, l1) in env:
            if u >= sx:
                break
            w_ = min(v, sx) - u
            res = (t0 + kmin * w_, t1 + kmax * w_, l0 + (w_ if alld else 0), l1 + (w_ if anyd else 0))
            for c in cs:
                per_cell[c] = per_cell.get(c, Fr(0)) + w_
        return res + (per_cell,)
    absorbed = r["cell"] is not None
    # candidate parameters of the reported position (one per lap around a periodic box)
    cands = []
    for sg in runs[0][0]:
        if sg["s0"] > s_cov:
            break
        for w in ((0, -1, 1) if geom.per[k] else (0,)):
            sp = sg["s0"] + (rp[k] + w * geom.s[k] - sg["q"][k]) / d[k]
            if sg["s0"] - ftol <= sp <= sg["s1"] + ftol:
                pt = [sg["q"][j] + (sp - sg["s0"]) * d[j] for j in range(3)]
                ok = True
                for j in range(3):
                    if d[j] == 0:
                        continue
                    diff = abs(pt[j] - rp[j])
                    if geom.per[j]:
                        diff = min(diff, abs(diff - geom.s[j]))
                    ok = ok and diff <= ftol
                if ok:
                    cands.append(min(max(sp, sg["s0"]), sg["s1"]))
    if not cands:
        return ("end_position", "final position %s is not a point of the straight line (ray in a wall plane)" % fmt(rp))
    def lengths_ok(sx):
        t0, t1, l0, l1, per_cell = at(sx)
        wsig = ph["w"] * ph["sH"]
        if wsig > 0:
            tot = 0.0
            for c, J in r["J"].items():
                got = (J - ph["j0"]) / wsig
                tot += got
                jt = tol + (16 * 2.0 ** -52 * abs(ph["j0"]) / wsig if ph["j0"] != 0 else 0.0)
                if got > float(per_cell.get(c, Fr(0))) * dn + jt + 1e-12 * abs(got):
                    return ("credited_lengths", "cell %d is credited %r but the straight line touches it for %r only" % (c, got, float(per_cell.get(c, Fr(0))) * dn))
            jt = (tol + (16 * 2.0 ** -52 * abs(ph["j0"]) / wsig if ph["j0"] != 0 else 0.0)) * (1 + len(r["J"]))
            if tot < float(l0) * dn - jt - 1e-12 * tot or tot > float(l1) * dn + jt + 1e-12 * tot:
                return ("credited_lengths", "credited lengths sum to %r, the distance travelled through cells of non-zero density is between %r and %r" % (tot, float(l0) * dn, float(l1) * dn))
        return None
    if absorbed:
        try:
            lo, hi = geom.box(r["cell"])
        except Exception:
            return ("returned_cell", "returned cell %r is not a cell of the grid" % r["cell"])
        for j in range(3):
            x = rp[j]
            ok = lo[j] - ftol <= x <= hi[j] + ftol
            if not ok and geom.per[j]:
                ok = any(lo[j] - ftol <= x + w * geom.s[j] <= hi[j] + ftol for w in (-1, 1))
            if not ok:
                return ("returned_cell", "returned cell %d does not contain the final position %s (coordinate %d)" % (r["cell"], fmt(rp), j))
        first = None
        for sp in cands:                       # one candidate per lap around a periodic box
            t0, t1 = at(sp)[:2]
            if t0 - ttol <= target <= t1 + ttol:
                why = lengths_ok(sp)
                if why is None:
                    return None
                first = first or why
        if first is not None:
            return first
        t0, t1 = at(cands[0])[:2]
        return ("end_position", "absorbed at %s: the optical depth up to there is between %.6g and %.6g for every choice of cells along the wall plane, the target is %.6g"
                % (fmt(rp), float(t0), float(t1), float(target)))
    if s_exit is None or not any(abs(sp - s_exit) <= ftol for sp in cands):
        return ("absorbed_reported_escaped", "reported escaped at %s, which is not where the straight line leaves the box (ray in a wall plane)" % fmt(rp))
    if at(s_exit)[0] > target + ttol:
        return ("absorbed_reported_escaped", "reported escaped, but the optical depth to the exit is at least %.6g > target %.6g for every choice of cells along the wall plane"
                % (float(at(s_exit)[0]), float(target)))
    return lengths_ok(s_exit)


def oracle1(geom, ph, line, tag, amr):
    if line is not None and line.strip() == "HANG":
        return ("hang", "the traversal does not return (no progress: the photon is moved by zero-length steps forever)")
    r = parse_answer(line or "", tag)
    if r is None:
        return ("no_answer", "no answer from the real code: %r" % (line or "")[:80])
    if not all(math.isfinite(x) for x in list(r["pos"]) + list(r["J"].values())):
        return ("finite", "the traversal returns non-finite numbers: final position %r, %d non-finite path lengths credited" % (r["pos"], sum(1 for x in r["J"].values() if not math.isfinite(x))))
    target = Fr(ph["tau"])
    ttol = Fr(1e-11 * max(1.0, ph["tau"])) if ph["tau"] < 1e290 else Fr(0)
    segs, fin = ray_segments(geom, ph, ttol)
    if fin[0] in ("stuck", "endless"):
        return None
    # a wall distance is (wall - p_k) / d_k: its rounding error is ulp(scale) / |d_k|, large for a nearly axis aligned ray
    dmin = min([abs(x) for x in ph["dir"] if x != 0.0] + [1.0])
    tol = geom.scale * (TOL + 64 * 2.0 ** -52 / dmin)
    ftol = Fr(tol)
    d = [Fr(x) for x in ph["dir"]]
    dn = math.sqrt(sum(x * x for x in ph["dir"])) if amr else 1.0
    absorbed = r["cell"] is not None
    rp = [Fr(x) for x in r["pos"]]
    can_escape = fin[0] == "escaped" and fin[2] <= target + ttol
    can_absorb = fin[2] >= target - ttol

    def where_target():
        # the point of the ray where the optical depth reaches the target exactly (if it does)
        for sg in segs:
            if sg["kap"] > 0 and sg["tau0"] + sg["kap"] * (sg["s1"] - sg["s0"]) >= target:
                dl = (target - sg["tau0"]) / sg["kap"]
                return [sg["q"][k] + dl * d[k] for k in range(3)], sg
        return None, None

    def close(a, b):
        for k in range(3):
            diff = abs(a[k] - b[k])
            if geom.per[k]:
                diff = min(diff, abs(diff - geom.s[k]))
            if diff > ftol:
                return False
        return True
    s_code = None
    if not absorbed:
        if not can_escape:
            pt, sg = where_target()
            return ("absorbed_reported_escaped",
                    "the target optical depth is reached inside the box (at %s in cell %s, %.3g optical depth before the photon would leave that cell), but the photon is reported ESCAPED (end())"
                    % (fmt(pt) if pt else "?", sg["cell"] if sg else "?", float(sg["tau0"] + sg["kap"] * (sg["s1"] - sg["s0"]) - target) if sg else 0.0))
        if not close(rp, fin[3]):
            return ("end_position", "reported escaped, but the final position %s is not the point %s where the straight line leaves the box" % (fmt(rp), fmt(fin[3])))
        s_code = fin[1]
    else:
        if not can_absorb:
            return ("escaped_reported_absorbed",
                    "the photon leaves the box through an open face at %s with %.3g optical depth left, but is reported ABSORBED in cell %d" % (fmt(fin[3]), float(target - fin[2]), r["cell"]))
        # the reported position has to be a point of the ray at which the optical depth is the target (within ttol)
        for sg in segs:
            t1 = sg["tau0"] + sg["kap"] * (sg["s1"] - sg["s0"])
            if t1 < target - ttol or sg["tau0"] > target + ttol:
                continue
            if sg["kap"] > 0:
                lo_s = max(sg["s0"], sg["s0"] + (target - ttol - sg["tau0"]) / sg["kap"])
                hi_s = min(sg["s1"], sg["s0"] + (target + ttol - sg["tau0"]) / sg["kap"])
            else:
                lo_s, hi_s = sg["s0"], sg["s1"]
            k = max(range(3), key=lambda j: abs(d[j]))
            for w in ((0, -1, 1) if geom.per[k] else (0,)):
                spw = sg["s0"] + (rp[k] + w * geom.s[k] - sg["q"][k]) / d[k]
                if not (lo_s - ftol <= spw <= hi_s + ftol):
                    continue
                pt = [sg["q"][j] + (spw - sg["s0"]) * d[j] for j in range(3)]
                if close(rp, pt):
                    s_code = min(max(spw, sg["s0"]), sg["s1"])
                    break
            if s_code is not None:
                break
        if s_code is None:
            pt, sg = where_target()
            return ("end_position", "final position %s is not the point of the straight line%s where the target optical depth is reached, %s"
                    % (fmt(rp), " (wrapped into the box)" if any(geom.per) else "", fmt(pt) if pt else "(none)"))
    for k in range(3):
        if rp[k] - geom.a[k] < -ftol or rp[k] - geom.a[k] - geom.s[k] > ftol:
            return ("end_position", "final position %s is outside the box (coordinate %d)" % (fmt(rp), k))
    # returned cell contains the end position
    if absorbed:
        try:
            lo, hi = geom.box(r["cell"])
        except Exception:
            return ("returned_cell", "returned cell %r is not a cell of the grid" % r["cell"])
        for k in range(3):
            x = rp[k]
            ok = lo[k] - ftol <= x <= hi[k] + ftol
            if not ok and geom.per[k]:
                ok = any(lo[k] - ftol <= x + w * geom.s[k] <= hi[k] + ftol for w in (-1, 1)) and \
                    (abs(x - geom.a[k]) <= ftol or abs(x - geom.a[k] - geom.s[k]) <= ftol)
            if not ok:
                return ("returned_cell", "returned cell %d with box [%s, %s] does not contain the final position %s (coordinate %d)"
                        % (r["cell"], fmt(lo), fmt(hi), fmt(rp), k))
    # credited lengths: J_H - j0 = w * sigma_H * (length in the cell), cells of zero density are not credited
    exp_len = {}
    for sg in segs:
        if sg["s0"] >= s_code:
            break
        exp_len[sg["cell"]] = exp_len.get(sg["cell"], Fr(0)) + (min(sg["s1"], s_code) - sg["s0"])
    wsig = ph["w"] * ph["sH"]
    if wsig > 0:
        cells = set(exp_len) | set(r["J"])
        for c in sorted(cells):
            try:
                nd = geom.content(c)[0]
            except Exception:
                return ("credited_lengths", "cell %r credited by the real code is not a cell of the grid" % c)
            exp = float(exp_len.get(c, Fr(0))) * dn if nd > 0 else 0.0
            got = (r["J"][c] - ph["j0"]) / wsig if c in r["J"] else 0.0
            jtol = tol + 1e-12 * abs(exp) + (16 * 2.0 ** -52 * abs(ph["j0"]) / wsig if ph["j0"] != 0 else 0.0)
            if abs(got - exp) > jtol:
                return ("credited_lengths", "cell %d is credited the path length %r, the straight line spends %r in it (sum credited %r, distance travelled in cells of non-zero density %r)"
                        % (c, got, exp, sum((v - ph["j0"]) / wsig for v in r["J"].values()),
                           float(sum(l for cc, l in exp_len.items() if geom.content(cc)[0] > 0)) * dn))
    return None


def fmt(v):
    return "(" + " ".join("%.9g" % float(x) for x in v) + ")"


# ---------------------------------------------------------------------------------------------------------------
# protocol lines
def photon_line(op, ph):
    return op + " " + " ".join(H(x) for x in list(ph["pos"]) + list(ph["dir"]) + [ph["tau"], ph["sH"], ph["sHe"], ph["w"], ph["j0"]])


def cart_setup(g):
    return ["CG " + " ".join(H(x) for x in list(g["anchor"]) + list(g["sides"])) + " %d %d %d %d %d %d" % (tuple(g["n"]) + tuple(g["per"])),
            "CD " + " ".join(H(x) for c in g["cells"] for x in c)]


def amr_setup(g, flags):
    ls = ["AF %d %d %d" % tuple(int(x) for x in flags),
          "AG " + " ".join(H(x) for x in list(g["anchor"]) + list(g["sides"])) + " %d %d %d %d %d %d" % (tuple(g["ncell"]) + tuple(g["per"]))]
    ls += ["AR %d" % k for k in g["refine"]]
    ls.append("AI")
    keys = sorted(g["contents"])
    ls.append("AD " + " ".join(H(x) for k in keys for x in g["contents"][k]))
    return ls


def geom_of(g):
    if g["kind"] == "C":
        return CartGeom(g["anchor"], g["sides"], g["n"], g["per"], g["cells"])
    return AmrGeom(g["anchor"], g["sides"], g["ncell"], g["per"], g["internal"], g["contents"])


# ---------------------------------------------------------------------------------------------------------------
# generators
def unit(v):
    n = math.sqrt(sum(x * x for x in v))
    return [x / n for x in v]


def mk_photon(pos, d, tau, sH=1.0, sHe=0.0, w=1.0, j0=0.0):
    return {"pos": list(pos), "dir": list(d), "tau": tau, "sH": sH, "sHe": sHe, "w": w, "j0": j0}


def cart_grid(anchor, sides, n, per, cells=None):
    nc = n[0] * n[1] * n[2]
    return {"kind": "C", "anchor": list(anchor), "sides": list(sides), "n": tuple(n), "per": tuple(per),
            "cells": cells if cells is not None else [(1.0, 1.0, 0.0)] * nc}


def cart_corpus():
    r3, r2 = 1.0 / math.sqrt(3.0), 1.0 / math.sqrt(2.0)
    P = mk_photon
    open8 = cart_grid((0, 0, 0), (1, 1, 1), (8, 8, 8), (0, 0, 0))
    per8 = cart_grid((0, 0, 0), (1, 1, 1), (8, 8, 8), (1, 1, 1))
    cases = [
        (open8, [
            P((0.820650, 0.610903, 0.148764), (0.986455, -0.150454, -0.065347), 0.130176),   # absorbed in an outermost cell heading outward
            P((0.9, 0.5, 0.5), (1, 0, 0), 0.05), P((0.9, 0.5, 0.5), (-1, 0, 0), 0.05),         # outermost cell, outward / inward
            P((0.5, 0.9375, 0.5), (0, 1, 0), 0.03125), P((0.5, 0.5, 0.0625), (0, 0, -1), 0.03125),
            P((0.5, 0.5, 0.5), (1, 0, 0), 0.25),                                                  # target reached exactly at a cell wall
            P((0.5, 0.5, 0.5), (1, 0, 0), 0.5),                                                   # target reached exactly at the box wall
            P((0.5, 0.5, 0.5), (1, 0, 0), 2.25), P((0.5, 0.5, 0.5), (1, 0, 0), HUGE),
            P((0.95, 0.95, 0.95), (r3, r3, r3), 0.01), P((0.95, 0.95, 0.95), (r3, r3, r3), HUGE),
            P((0.0, 0.0, 0.0), (r3, r3, r3), HUGE), P((0.0, 0.0, 0.0), (r3, r3, r3), 0.5),       # along the main diagonal: corner ties
            P((0.875, 0.5, 0.5), (1, 0, 0), 0.0625), P((0.875, 0.5, 0.5), (-1, 0, 0), 0.0625),   # start exactly on a cell face
            P((0.875, 0.875, 0.5), (r2, r2, 0), 0.05), P((0.875, 0.875, 0.875), (-r3, -r3, -r3), 0.3),   # on an edge / a corner
            P((0.125, 0.125, 0.5), (r2, r2, 0), HUGE), P((0.25, 0.25, 0.3), (0, 0, 1), HUGE),    # edge crossings, along a cell edge
            P((0.0, 0.3, 0.3), (-1, 0, 0), 1.0),                                                  # on the lower box face moving out
            P((0.99, 0.01, 0.5), (0.6, -0.8, 0), 0.0125), P((0.99, 0.01, 0.5), (0.6, -0.8, 0), 0.02)]),
        (per8, [
            P((0.097915, 0.359677, 0.245974), (-0.791357, -0.499938, 0.351874), 0.613752),
            P((0.9, 0.5, 0.5), (1, 0, 0), 0.05),                       # stops in the last cell heading for the periodic face
            P((0.9, 0.5, 0.5), (1, 0, 0), 0.15),                       # absorbed right after the wrap
            P((0.875, 0.5, 0.5), (1, 0, 0), 0.125),                    # target reached exactly at the periodic face
            P((0.875, 0.5, 0.5), (1, 0, 0), 0.25), P((0.1, 0.5, 0.5), (-1, 0, 0), 0.15), P((0.1, 0.5, 0.5), (-1, 0, 0), 0.05),
            P((0.5, 0.5, 0.5), (1, 0, 0), 2.25), P((0.95, 0.95, 0.95), (r3, r3, r3), 0.01), P((0.95, 0.95, 0.95), (r3, r3, r3), 0.2),
            P((0.0, 0.0, 0.0), (r3, r3, r3), 2.0), P((0.0, 0.0, 0.0), (-r3, -r3, -r3), 0.25),
            P((0.05, 0.95, 0.5), (-r2, r2, 0), 0.1), P((0.05, 0.95, 0.5), (-r2, r2, 0), 0.05)]),
        (cart_grid((0, 0, 0), (1, 1, 1), (8, 8, 8), (1, 0, 0)), [
            P((0.9, 0.9, 0.5), (r2, r2, 0), 0.05), P((0.9, 0.9, 0.5), (r2, r2, 0), HUGE), P((0.9, 0.5, 0.5), (1, 0, 0), 3.0),
            P((0.9, 0.95, 0.5), (0.8, 0.6, 0), 0.05)]),
        (cart_grid((0, 0, 0), (1, 1, 1), (1, 1, 1), (0, 0, 0)), [
            P((0.5, 0.5, 0.5), (1, 0, 0), 0.25), P((0.5, 0.5, 0.5), (-1, 0, 0), 0.25), P((0.5, 0.5, 0.5), (0, r2, -r2), 0.25),
            P((0.5, 0.5, 0.5), (1, 0, 0), HUGE), P((0.0, 0.0, 0.0), (r3, r3, r3), HUGE)]),
        (cart_grid((0, 0, 0), (1, 1, 1), (1, 1, 1), (1, 1, 1)), [
            P((0.5, 0.5, 0.5), (1, 0, 0), 0.25), P((0.5, 0.5, 0.5), (1, 0, 0), 3.25), P((0.5, 0.5, 0.5), (-r3, r3, r3), 2.0),
            P((0.5, 0.5, 0.5), (1, 0, 0), 0.5)]),
        (cart_grid((0, 0, 0), (1, 0.125, 0.125), (8, 1, 1), (1, 0, 1)), [                        # one cell thick
            P((0.9, 0.06, 0.06), (1, 0, 0), 0.3), P((0.9, 0.06, 0.06), (r2, 0, r2), 0.3), P((0.9, 0.06, 0.06), (r2, r2, 0), 0.3),
            P((0.9, 0.06, 0.06), (r2, r2, 0), 0.05)]),
        (cart_grid((-0.5, 0.0, 1.0), (1.0, 0.75, 0.5), (12, 6, 5), (0, 0, 0)), [
            P((0.45, 0.7, 1.45), (0.6, 0.0, 0.8), 0.02), P((0.45, 0.7, 1.45), (0.6, 0.0, 0.8), HUGE), P((-0.203776, 0.022036, 1.167033), (-0.786108, -0.184928, 0.589776), 0.312934)]),
        (cart_grid((-0.5, 0.0, 1.0), (1.0, 0.75, 0.5), (12, 6, 5), (1, 1, 1)), [
            P((-0.203776, 0.022036, 1.167033), (-0.786108, -0.184928, 0.589776), 0.312934), P((0.45, 0.7, 1.45), (0.6, 0.0, 0.8), 0.2)]),
    ]
    for g, ps in cases:
        for p in ps:
            p["dir"] = unit(p["dir"])
    return cases


def gen_densities(rng, nc, allow_zero):
    dm = rng.below(5)
    cells = []
    for i in range(nc):
        if dm == 0:
            nd = 1.0
        elif dm == 1:
            nd = 0.25 + 4.0 * rng.uniform()
        elif dm == 2:
            nd = 10.0 ** (rng.uniform() * 3 - 1.3)
        elif dm == 3:
            nd = 0.0 if (allow_zero and rng.below(3) == 0) else 0.5 + rng.uniform()
        else:
            nd = [0.0625, 1.0, 16.0][i % 3] if not allow_zero else [0.0, 1.0, 16.0][i % 3]
        if not allow_zero:
            nd = max(nd, 0.05)
        xH = [1.0, 1.0, 0.5, rng.uniform() * 0.9 + 0.1][rng.below(4)]
        xHe = [0.0, 1.0, rng.uniform()][rng.below(3)]
        cells.append((nd, xH, xHe))
    return cells


def gen_geometry(rng, mode, n):
    if mode == 0:        # dyadic: unit cells of size 2^e, anchor 0
        c = 2.0 ** (rng.below(5) - 3)
        return [0.0, 0.0, 0.0], [c * n[0], c * n[1], c * n[2]]
    if mode == 1:        # unit box
        return [0.0, 0.0, 0.0], [1.0, 1.0, 1.0]
    if mode == 2:        # random anchor and sides
        return [(rng.uniform() - 0.5) * 4 for _ in range(3)], [0.25 + 2 * rng.uniform() for _ in range(3)]
    if mode == 3:        # dyadic anisotropic with integer anchor
        return [float(rng.below(5) - 2) for _ in range(3)], [n[k] * 2.0 ** (rng.below(4) - 2) for k in range(3)]
    return [-1.3, 5.0, 0.1], [3.7 * (0.5 + rng.uniform()), 0.3 * (1 + rng.below(4)), 1.1]


def gen_direction(rng):
    dm = rng.below(8)
    if dm == 0:
        d = [0.0, 0.0, 0.0]
        d[rng.below(3)] = rng.choice([-1.0, 1.0])
        return d
    if dm == 1:
        d = [rng.choice([-1.0, 1.0]) for _ in range(3)]
        if rng.below(2):
            d[rng.below(3)] = 0.0
        return unit(d)
    if dm == 2:
        d = rng.choice([[0.6, 0.8, 0.0], [3.0, 4.0, 12.0], [1.0, 2.0, 2.0], [2.0, 1.0, 2.0], [0.0, 0.6, 0.8]])
        return unit([x * rng.choice([-1.0, 1.0]) for x in d])
    if dm == 3:
        d = [rng.uniform() - 0.5 for _ in range(3)]
        d[rng.below(3)] *= 10.0 ** (-rng.below(12))
        return unit(d)
    ct = 2 * rng.uniform() - 1
    st = math.sqrt(max(0.0, 1 - ct * ct))
    ph = 2 * math.pi * rng.uniform()
    return unit([st * math.cos(ph), st * math.sin(ph), ct])


def gen_position(rng, anchor, sides, walls):
    """walls[k] = sorted list of the cell wall coordinates along axis k (floats, as the grid computes them)"""
    pm = rng.below(8)
    pos = []
    for k in range(3):
        lo, hi = anchor[k], anchor[k] + sides[k]
        w = walls[k]
        if pm == 0:                                     # exactly on a cell wall (not the upper box face)
            x = w[rng.below(len(w) - 1)]
        elif pm == 1:                                   # cell centre
            i = rng.below(len(w) - 1)
            x = 0.5 * (w[i] + w[i + 1])
        elif pm == 2:                                   # one ulp next to a wall
            x = w[rng.below(len(w))]
            x = math.nextafter(x, lo + 0.5 * sides[k])
        elif pm == 3:                                   # in an outermost cell
            i = rng.choice([0, len(w) - 2])
            x = w[i] + (w[i + 1] - w[i]) * rng.uniform()
        else:
            x = lo + sides[k] * rng.uniform()
        if not (lo <= x < hi):
            x = lo + sides[k] * 0.5 * rng.uniform()
        pos.append(x)
    return pos


def gen_photon(rng, g, walls, periodic_any):
    pos = gen_position(rng, g["anchor"], g["sides"], walls)
    d = gen_direction(rng)
    tm = rng.below(6)
    L = min(g["sides"])
    if tm == 0:
        tau = 1e-3 * L * (0.1 + rng.uniform())
    elif tm in (1, 2):
        tau = L * rng.uniform() * 0.5
    elif tm == 3:
        tau = 3.0 * max(g["sides"]) * rng.uniform()
    else:
        tau = HUGE if not periodic_any else 2.5 * max(g["sides"]) * rng.uniform()
    tau = max(tau, 1e-9)
    wm = rng.below(4)
    w, sH = [(1.0, 1.0), (0.5, 2.0), (1.0, 1.0), (0.1 + rng.uniform(), 0.5 + rng.uniform())][wm]
    sHe = [0.0, 0.0, 0.5, rng.uniform()][rng.below(4)]
    j0 = [0.0, 0.0, 0.0, 0.25][rng.below(4)]
    return mk_photon(pos, d, tau, sH, sHe, w, j0)


CART_SHAPES = [(1, 1, 1), (7, 5, 3), (1, 5, 1), (2, 2, 2), (3, 3, 3), (7, 1, 1), (1, 1, 3), (4, 4, 3)]


def gen_cart_case(rng, idx, nph):
    n = CART_SHAPES[idx] if idx < len(CART_SHAPES) else (1 + rng.below(7), 1 + rng.below(6), 1 + rng.below(5))
    per = tuple(rng.below(2) for _ in range(3)) if idx % 3 else ((0, 0, 0) if idx % 2 else (1, 1, 1))
    anchor, sides = gen_geometry(rng, idx % 5, n)
    pany = any(per)
    g = cart_grid(anchor, sides, n, per, gen_densities(rng, n[0] * n[1] * n[2], not pany))
    walls = []
    for k in range(3):
        cs = sides[k] / n[k]
        walls.append([anchor[k] + cs * i for i in range(n[k] + 1)])
    return g, [gen_photon(rng, g, walls, pany) for _ in range(nph)]


AMR_NCELL = [(1, 1, 1), (2, 2, 2), (4, 4, 8), (3, 1, 2), (2, 4, 6), (1, 2, 2), (6, 2, 2), (4, 4, 4), (1, 1, 4), (2, 2, 1)]


def gen_amr_case(rng, idx, nph, flags, quick):
    ncell = AMR_NCELL[idx % len(AMR_NCELL)] if idx < 2 * len(AMR_NCELL) else (1 + rng.below(4), 1 + rng.below(4), 1 + rng.below(4))
    nb, l0 = amr_decompose(ncell)
    per = [rng.below(2) for _ in range(3)] if idx % 3 else ([0, 0, 0] if idx % 2 else [1, 1, 1])
    anchor, sides = gen_geometry(rng, [0, 1, 2, 3, 4, 1, 0][idx % 7], nb)
    leaves = []
    for bx in range(nb[0]):
        for by in range(nb[1]):
            for bz in range(nb[2]):
                paths = [()]
                for _ in range(l0):
                    paths = [p + (c,) for p in paths for c in range(8)]
                leaves += [((bx, by, bz), p) for p in paths]
    internal = set()
    for (b, p) in leaves:
        for j in range(len(p)):
            internal.add((b, p[:j]))
    refine = []
    nref = rng.below(9 if quick else 16)
    style = rng.below(4)           # 0 random, 1 chain, 2 cells at the box faces, 3 mixed
    maxdepth = 5
    last = None
    for _ in range(nref):
        cand = None
        if style in (1, 3) and last is not None and len(last[1]) + 1 < maxdepth and (style == 1 or rng.below(2)):
            cand = (last[0], last[1] + (rng.below(8),))
        if cand is None and style == 2:
            c = [x for x in leaves if len(x[1]) < maxdepth and len(x[1]) > 0 and all(((q >> 2) & 1) == ((x[1][0] >> 2) & 1) for q in x[1])]
            if c:
                cand = c[rng.below(len(c))]
        if cand is None or cand not in leaves:
            c = [x for x in leaves if len(x[1]) < maxdepth]
            if not c:
                break
            cand = c[rng.below(len(c))]
        i = leaves.index(cand)
        leaves[i:i + 1] = [(cand[0], cand[1] + (q,)) for q in range(8)]
        internal.add(cand)
        refine.append(amr_key(cand[0], cand[1]))
        last = cand
    if not flags[1]:
        # defect B (single cell across a periodic axis: the loop never ends) is exhibited by its own probe only
        for k in range(3):
            if per[k] and nb[k] == 1 and any(len(p) == 0 for (b, p) in leaves):
                per[k] = 0
    pany = any(per)
    dens = gen_densities(rng, len(leaves), not pany)
    contents = {amr_key(b, p): dens[i] for i, (b, p) in enumerate(leaves)}
    g = {"kind": "A", "anchor": anchor, "sides": sides, "ncell": tuple(ncell), "per": tuple(per), "refine": refine, "internal": internal,
         "contents": contents, "nleaves": len(leaves), "depth": max(len(p) for _, p in leaves), "nb": nb, "l0": l0}
    # cell walls along each axis at the finest level present (floats computed like the grid does: anchor + i*side, halving)
    geo = AmrGeom(anchor, sides, ncell, per, internal, contents)
    walls = []
    for k in range(3):
        ws = set()
        for (b, p) in leaves:
            lo, hi = geo.path_box(b, p)
            ws.add(float(lo[k]))
            ws.add(float(hi[k]))
        walls.append(sorted(ws))
    return g, [gen_photon(rng, g, walls, pany) for _ in range(nph)]


def amr_corpus():
    r3, r2 = 1.0 / math.sqrt(3.0), 1.0 / math.sqrt(2.0)
    P = mk_photon
    one = (1.0, 1.0, 0.0)

    def grid(anchor, sides, ncell, per, refine_paths):
        nb, l0 = amr_decompose(ncell)
        leaves = []
        for bx in range(nb[0]):
            for by in range(nb[1]):
                for bz in range(nb[2]):
                    paths = [()]
                    for _ in range(l0):
                        paths = [p + (c,) for p in paths for c in range(8)]
                    leaves += [((bx, by, bz), p) for p in paths]
        internal = set()
        for (b, p) in leaves:
            for j in range(len(p)):
                internal.add((b, p[:j]))
        refine = []
        for cand in refine_paths:
            i = leaves.index(cand)
            leaves[i:i + 1] = [(cand[0], cand[1] + (q,)) for q in range(8)]
            internal.add(cand)
            refine.append(amr_key(cand[0], cand[1]))
        contents = {amr_key(b, p): one for (b, p) in leaves}
        return {"kind": "A", "anchor": list(anchor), "sides": list(sides), "ncell": tuple(ncell), "per": tuple(per), "refine": refine,
                "internal": internal, "contents": contents, "nleaves": len(leaves), "depth": max(len(p) for _, p in leaves), "nb": nb, "l0": l0}
    cases = [
        (grid((0, 0, 0), (1, 1, 1), (1, 1, 1), (0, 0, 0), []), [
            P((0.5, 0.5, 0.5), (1, 0, 0), 0.25), P((0.5, 0.5, 0.5), (-1, 0, 0), 0.25), P((0.5, 0.5, 0.5), (1, 0, 0), HUGE), P((0.5, 0.5, 0.5), (1, 0, 0), 0.5)]),
        (grid((0, 0, 0), (1, 1, 1), (4, 4, 4), (0, 0, 0), [((0, 0, 0), (7, 7))]), [
            P((0.9, 0.5, 0.5), (1, 0, 0), 0.05), P((0.9, 0.5, 0.5), (-1, 0, 0), 0.05), P((0.5, 0.5, 0.5), (1, 0, 0), 0.25),
            P((0.95, 0.95, 0.95), (r3, r3, r3), 0.01), P((0.95, 0.95, 0.95), (-r3, -r3, -r3), 0.4), P((0.0, 0.0, 0.0), (r3, r3, r3), HUGE),
            P((0.75, 0.9, 0.9), (1, 0, 0), 0.1), P((0.125, 0.125, 0.5), (r2, r2, 0), HUGE), P((0.25, 0.25, 0.3), (0, 0, 1), HUGE)]),
        (grid((0, 0, 0), (2, 1, 1), (2, 1, 1), (1, 0, 0), [((0, 0, 0), ())]), [
            P((1.5, 0.25, 0.25), (1, 0, 0), 0.75), P((1.5, 0.75, 0.75), (1, 0, 0), 0.75), P((1.5, 0.25, 0.25), (1, 0, 0), 0.25),
            P((0.25, 0.25, 0.25), (-1, 0, 0), 0.5), P((0.25, 0.25, 0.25), (-1, 0, 0), 1.0), P((1.5, 0.25, 0.25), (1, 0, 0), 0.5)]),
        (grid((0, 0, 0), (1, 1, 1), (2, 2, 2), (1, 1, 1), [((0, 0, 0), (0,)), ((0, 0, 0), (7,))]), [
            P((0.9, 0.9, 0.9), (r3, r3, r3), 0.3), P((0.1, 0.1, 0.1), (-r3, -r3, -r3), 0.3), P((0.9, 0.3, 0.3), (1, 0, 0), 0.15),
            P((0.9, 0.3, 0.3), (1, 0, 0), 0.05), P((0.6, 0.9, 0.6), (0, 1, 0), 1.7), P((0.1, 0.8, 0.8), (-1, 0, 0), 0.125)]),
    ]
    for g, ps in cases:
        for p in ps:
            p["dir"] = unit(p["dir"])
    return cases


# ---------------------------------------------------------------------------------------------------------------
# the three defects of the pinned AMRDensityGrid::interact, each with its minimal input
def amr_probe_inputs():
    r = {}
    g1 = amr_corpus()[0][0]
    r["amr_interact_absorbed_reported_escaped"] = (0, g1, mk_photon((0.5, 0.5, 0.5), (1.0, 0.0, 0.0), 0.25),
        "AMRDensityGrid::interact: a photon whose target optical depth is reached inside an outermost cell while it is heading for the open box face of that cell "
        "is returned as end() (escaped), with its path deposited and its position inside the box: get_wall_intersection overwrites current_cell with the "
        "neighbour (nullptr at an open face) even when the photon stops in the cell. Minimal input: unit box, 1 cell, open boundaries, opacity 1 /m, "
        "photon at (0.5,0.5,0.5) direction (1,0,0) target 0.25")
    g2 = {"kind": "A", "anchor": [0.0, 0.0, 0.0], "sides": [1.0, 1.0, 1.0], "ncell": (1, 1, 1), "per": (1, 0, 0), "refine": [], "internal": set(),
          "contents": {1: (1.0, 1.0, 0.0)}, "nleaves": 1, "depth": 0, "nb": (1, 1, 1), "l0": 0}
    r["amr_interact_periodic_single_cell_hang"] = (1, g2, mk_photon((0.5, 0.5, 0.5), (1.0, 0.0, 0.0), 0.75),
        "AMRDensityGrid::interact never returns when a photon crosses a periodic face whose neighbour is the cell itself (one unrefined block along a periodic "
        "axis): the periodic correction is only applied when the neighbour's anchor differs from the cell's, so the photon stays on the face and is moved by "
        "zero-length steps forever. Minimal input: unit box, 1 cell, periodic in x, opacity 1 /m, photon at (0.5,0.5,0.5) direction (1,0,0) target 0.75")
    g3 = amr_corpus()[2][0]
    r["amr_interact_periodic_wrong_child"] = (2, g3, mk_photon((1.5, 0.25, 0.25), (1.0, 0.0, 0.0), 0.75),
        "AMRDensityGrid::interact: a photon crossing a periodic face into a region that is refined deeper than the cell it leaves continues in the wrong child: "
        "the descent into the refined neighbour uses the wall position BEFORE the periodic correction, so the child on the far side is chosen; the path in the "
        "near child is credited to the far child and the returned cell does not contain the final position. Minimal input: box 2x1x1 of two blocks, periodic in "
        "x, left block refined once, photon at (1.5,0.25,0.25) direction (1,0,0) target 0.75 ends at (0.25,0.25,0.25) but is returned in the cell [0.5,1]x[0,0.5]^2")
    return r


def run_child(exe, lines, timeout=60):
    rc, out = vf.run_lines([exe], "\n".join(lines) + "\n", timeout=timeout)
    return rc, out


def probe_amr_defects(ck, impl):
    """runs the three minimal inputs on the real class (one child process each); returns flags (True = repaired)"""
    flags = [True, True, True]
    summary = {}
    for key, (fi, g, ph, text) in amr_probe_inputs().items():
        lines = amr_setup(g, (1, 1, 1)) + [photon_line("AP", ph)]
        rc, out = run_child(impl, lines, timeout=30)
        ans = out[-1] if out else None
        if ans is not None and not (ans.startswith("AQ") or ans.strip() == "HANG"):
            ans = None
        why = oracle(geom_of(g), ph, ans, "AQ", True)
        summary[key] = {"present": bool(why), "answer": (ans or "")[:200]}
        if why:
            flags[fi] = False
            ck.violation("C16 defect %s on the real code: %s || observed: %s" % (key, text, why[1]),
                         {"part": "interact", "kind": "A", "setup": amr_setup(g, (1, 1, 1)), "photon": photon_line("AP", ph), "impl_out": ans, "failing_clause": why[1],
                          "readable": readable(g, ph)}, key={"kind": key})
    ck.coverage["amr_interact_defect_probes"] = summary
    return flags


def readable(g, ph):
    r = {"grid": "Cartesian" if g["kind"] == "C" else "AMR", "anchor": g["anchor"], "sides": g["sides"], "periodic": list(g["per"]),
         "position": ph["pos"], "direction": ph["dir"], "target_optical_depth": ph["tau"], "sigma_H": ph["sH"], "sigma_He_corr": ph["sHe"], "weight": ph["w"], "J_before": ph["j0"]}
    if g["kind"] == "C":
        r["cells"] = list(g["n"])
        r["contents(n,xH,xHe)"] = g["cells"] if len(g["cells"]) <= 8 else g["cells"][:8] + ["..."]
    else:
        r["unrefined_cells"] = list(g["ncell"])
        r["refined_keys"] = g["refine"]
        cs = sorted(g["contents"].items())
        r["contents(key:(n,xH,xHe))"] = cs if len(cs) <= 9 else cs[:9] + ["..."]
    return r


# ---------------------------------------------------------------------------------------------------------------
def build(ck, extracted_ok, need_model=True):
    d = ck.scratch
    ok3, log3 = vf.cxx_build(HARNESS, os.path.join(d, "impl_i"), libs=False, openmp=True, extra=["-ffp-contract=off"])
    if not ok3:
        ck.breaks.append("interact harness does not compile against the repository:\n" + log3[-2500:])
    okm = False
    if need_model:
        if extracted_ok:
            okm, log2 = vf.ocaml_build(d, ["c16i_model"], DRIVER, "model_i", floats=True)
        else:
            log2 = "extraction failed"
        if not okm:
            ck.breaks.append("interact model extraction/build failed:\n" + log2[-2000:])
    return ok3, okm


def parse_tags(line):
    t = {}
    if " #" in line:
        for kv in line.split(" #", 1)[1].split():
            if "=" in kv:
                k, v = kv.split("=", 1)
                t[k] = v
    return t


def second_pass(rng, g, ph, mline):
    """targets at / one ulp around the partial sums of optical depth at the cell walls, as the code accumulates them"""
    t = parse_tags(mline)
    vis = []
    for x in (t.get("vis", "") or "").split(","):
        if ":" in x:
            c, l = x.split(":")
            vis.append((int(c), D(l)))
    if not vis:
        return []
    content = (lambda c: g["cells"][c]) if g["kind"] == "C" else (lambda c: g["contents"][c])
    ps = []
    left = ph["tau"]
    done = 0.0
    for (c, L) in vis:
        nd, xH, xHe = content(c)
        done += L * nd * (ph["sH"] * xH + ph["sHe"] * xHe)
        ps.append(done)
    ps = [x for x in ps if 0.0 < x < 1e290]
    if not ps:
        return []
    out = []
    x = rng.choice(ps)
    out.append(rng.choice([x, math.nextafter(x, 0.0), math.nextafter(x, math.inf)]))
    k = rng.below(len(ps))
    lo = ps[k - 1] if k > 0 else 0.0
    out.append(lo + (ps[k] - lo) * rng.uniform() if ps[k] > lo else ps[k] * 0.5)
    res = []
    for tv in out:
        if tv > 0.0:
            q = dict(ph)
            q["tau"] = tv
            res.append(q)
    return res


def flatten(cases, flags):
    lines, owner = [], []
    for ci, (g, ps) in enumerate(cases):
        setup = cart_setup(g) if g["kind"] == "C" else amr_setup(g, flags)
        for l in setup:
            lines.append(l)
            owner.append((ci, None))
        for pi, p in enumerate(ps):
            lines.append(photon_line("CP" if g["kind"] == "C" else "AP", p))
            owner.append((ci, pi))
    return lines, owner


def run_impl_resumable(impl, cases, flags):
    """one process for all cases; if the real code stops (abort / hang watchdog) inside a case, the answers of that case are
    dropped and the run resumes with the next case.  returns (lines, owner, answers per line or None, [(case, exit code)])"""
    lines, owner = flatten(cases, flags)
    out_all = [None] * len(lines)
    first = {}
    last = {}
    for k, (ci, pi) in enumerate(owner):
        first.setdefault(ci, k)
        last[ci] = k
    stops = []
    start_case = 0
    while start_case < len(cases) and len(stops) < 20:
        base = first[start_case]
        rc, out = vf.run_lines([impl], "\n".join(lines[base:]) + "\n", timeout=1500)
        n = min(len(out), len(lines) - base)
        for k in range(n):
            out_all[base + k] = out[k]
        if n == len(lines) - base and not (out and out[n - 1].strip() == "HANG"):
            break
        hang = n > 0 and out[n - 1].strip() == "HANG"
        died_at = base + (n - 1 if hang else n)          # the line that was being answered
        died_at = min(died_at, len(lines) - 1)
        ci = owner[died_at][0]
        stops.append((ci, rc, lines[died_at][:200], "HANG" if hang else "no answer"))
        for k in range(died_at + (1 if hang else 0), last[ci] + 1):
            out_all[k] = None
        start_case = ci + 1
    return lines, owner, out_all, stops


def run_interact(ck, extracted_ok):
    quick = ck.quick
    rng = ck.rng.fork("interact")
    d = ck.scratch
    ok3, okm = build(ck, extracted_ok)
    cov = ck.coverage
    if not ok3:
        return
    impl = os.path.join(d, "impl_i")
    model = os.path.join(d, "model_i")
    rc, info = vf.run_lines([impl, "--info"], "")
    kv = dict(zip(info[0].split()[0::2], info[0].split()[1::2])) if info else {}
    if kv.get("helium") != "1" or kv.get("variable_abundances") != "0" or kv.get("lockfree") != "0":
        ck.breaks.append("configuration of the repository differs from the one modelled (HAS_HELIUM, no VARIABLE_ABUNDANCES, no USE_LOCKFREE): %r" % kv)
    flags = probe_amr_defects(ck, impl)
    cov["amr_interact_model_flags(fxA,fxB,fxC)"] = flags
    # ---- pass 1
    cases = list(cart_corpus())
    ncart_corpus = len(cases)
    ncorpus = sum(len(ps) for _, ps in cases)
    for i in range(50 if quick else 400):
        cases.append(gen_cart_case(rng, i, 14 if quick else 24))
    acorp = amr_corpus()
    if not flags[1]:
        acorp = [c for c in acorp if not any(c[0]["per"][k] and c[0]["nb"][k] == 1 and c[0]["l0"] == 0 and not c[0]["refine"] for k in range(3))]
    cases += acorp
    ncorpus += sum(len(ps) for _, ps in acorp)
    for i in range(40 if quick else 300):
        cases.append(gen_amr_case(rng, i, 12 if quick else 20, flags, quick))
    lines1, owner1, out_i1, stops1 = run_impl_resumable(impl, cases, flags)
    out_m1 = None
    if okm:
        rcm, out_m1 = vf.run_lines([model], "\n".join(lines1) + "\n", timeout=1500)
        if rcm != 0 or len(out_m1) != len(lines1):
            ck.breaks.append("interact model driver exited with %d after %d of %d lines" % (rcm, len(out_m1), len(lines1)))
    # ---- pass 2: same geometries, targets at the partial sums
    cases2 = []
    if out_m1 is not None and len(out_m1) == len(lines1):
        cur = None
        for k, (ci, pi) in enumerate(owner1):
            if pi is None:
                continue
            g, ps = cases[ci]
            if cur is None or cur[0] is not g:
                cur = (g, [])
                cases2.append(cur)
            if rng.below(3) == 0 or ci < ncart_corpus:
                cur[1].extend(second_pass(rng, g, ps[pi], out_m1[k]))
    cases2 = [(g, ps) for (g, ps) in cases2 if ps]
    lines2, owner2, out_i2, stops2 = run_impl_resumable(impl, cases2, flags) if cases2 else ([], [], [], [])
    out_m2 = None
    if okm and cases2:
        rcm, out_m2 = vf.run_lines([model], "\n".join(lines2) + "\n", timeout=1500)
        if rcm != 0 or len(out_m2) != len(lines2):
            ck.breaks.append("interact model driver exited with %d after %d of %d lines (pass 2)" % (rcm, len(out_m2), len(lines2)))
    neval = nmis = norac = orac_fail = 0
    nviol = 0
    hist = {"Cartesian absorbed": 0, "Cartesian escaped": 0, "AMR absorbed": 0, "AMR escaped": 0}
    hist_per, hist_depth = {}, {}
    sigs = set()
    known_defect_hits = {}
    pending = []          # (g, ph, impl line, why) oracle failures on agreeing lines
    geoms = {}

    def geom(g):
        if id(g) not in geoms:
            geoms[id(g)] = geom_of(g)
        return geoms[id(g)]
    for (cs_, lines, owner, out_i, out_m) in ((cases, lines1, owner1, out_i1, out_m1), (cases2, lines2, owner2, out_i2, out_m2)):
        for k, (ci, pi) in enumerate(owner):
            li = out_i[k] if k < len(out_i) else None
            lm_raw = out_m[k] if (out_m is not None and k < len(out_m)) else None
            lm = lm_raw.split(" #")[0] if lm_raw is not None else None
            g, ps = cs_[ci]
            if pi is None:
                if li is not None and lm is not None and li != lm:
                    nmis += 1
                    if nmis <= 3:
                        ck.breaks.append("correspondence C16 interact: set-up line differs: input=%r impl=%r model=%r" % (lines[k][:80], li[:200], lm[:200]))
                continue
            ph = ps[pi]
            tag = "CR" if g["kind"] == "C" else "AQ"
            amr = g["kind"] == "A"
            why = None
            if li is None:
                continue
            if lm is not None:
                neval += 1
                if li != lm:
                    nmis += 1
                    why = oracle(geom(g), ph, li, tag, amr)
                    desc = "model and %s::interact disagree: impl=%s model=%s" % ("CartesianDensityGrid" if not amr else "AMRDensityGrid", li[:300], lm_raw[:400])
                    if nviol < 3:
                        nviol += 1
                        rp = {"part": "interact", "kind": g["kind"], "setup": cart_setup(g) if not amr else amr_setup(g, flags),
                              "photon": photon_line("CP" if not amr else "AP", ph), "impl_out": li, "model_out": lm_raw,
                              "failing_clause": why[1] if why else None, "readable": readable(g, ph)}
                        if why:
                            ck.violation("C16 (traversal) fails on the real %s::interact: %s (%s)" % ("AMRDensityGrid" if amr else "CartesianDensityGrid", why[1], desc), rp,
                                         key={"kind": ("amr_interact_" if amr else "cartesian_interact_") + why[0]})
                        else:
                            ck.breaks.append("correspondence C16 model <-> interact: " + desc + " input=" + json.dumps(readable(g, ph), default=str)[:1500])
                r = parse_answer(li, tag)
                if r is not None:
                    nm = ("AMR " if amr else "Cartesian ") + ("absorbed" if r["cell"] is not None else "escaped")
                    hist[nm] += 1
                    pk = "%s per=%d%d%d" % ("AMR" if amr else "Cart", g["per"][0], g["per"][1], g["per"][2])
                    hist_per[pk] = hist_per.get(pk, 0) + 1
                    if amr:
                        hist_depth[g["depth"]] = hist_depth.get(g["depth"], 0) + 1
                    t = parse_tags(lm_raw)
                    nv = int(t.get("visits", "0"))
                    if nv >= 2:
                        sigs.add((g["kind"], tuple(g["n"]) if not amr else (tuple(g["ncell"]), tuple(g["refine"])), tuple(g["per"]), r["cell"], tuple(sorted(r["J"])),
                                  tuple((x > 0) - (x < 0) for x in ph["dir"])))
            whys = oracle_all(geom(g), ph, li, tag, amr)
            if why is None and whys:
                why = whys[0]
            norac += 1
            if why:
                orac_fail += 1
                known = None
                if amr and any(w[0] == "absorbed_reported_escaped" for w in whys) and not flags[0]:
                    known = "amr_interact_absorbed_reported_escaped"
                elif amr and why[0] in ("credited_lengths", "returned_cell", "end_position", "escaped_reported_absorbed", "absorbed_reported_escaped") and not flags[2] and any(g["per"]):
                    known = "amr_interact_periodic_wrong_child"
                if known and (lm is None or li == lm):
                    known_defect_hits[known] = known_defect_hits.get(known, 0) + 1
                else:
                    pending.append((g, ph, li, why))
    cov["interact_evaluations"] = neval
    cov["interact_mismatches"] = nmis
    cov["interact_oracle_evaluations"] = norac
    cov["interact_oracle_disagreements"] = orac_fail
    cov["interact_oracle_disagreements_explained_by_reported_amr_defects"] = known_defect_hits
    cov["interact_histogram_outcome"] = hist
    cov["interact_histogram_periodicity"] = hist_per
    cov["interact_histogram_amr_depth"] = {str(k): v for k, v in sorted(hist_depth.items())}
    cov["interact_corpus_photons"] = ncorpus
    cov["interact_distinct_nontrivial"] = len(sigs)
    cov["interact_real_code_stops"] = [list(x) for x in (list(stops1) + list(stops2))]
    if stops1 or stops2:
        ck.breaks.append("the real interact stopped (abort / watchdog) inside %d generated case(s), first: %r" % (len(list(stops1) + list(stops2)), (list(stops1) + list(stops2))[0]))
    ck.log("interact: %d photons compared bit for bit, %d mismatches; oracle %d/%d disagree (%s attributed to reported AMR defects)" % (
        neval, nmis, orac_fail, norac, known_defect_hits))
    # an oracle failure on a line where model and code AGREE is a property failure of the modelled algorithm itself:
    # report it (the model cannot excuse the code)
    for (g, ph, li, why) in pending[:3]:
        amr = g["kind"] == "A"
        if any(isinstance(v["replay"], dict) and v["replay"].get("photon") == photon_line("CP" if not amr else "AP", ph) for v in ck.violations):
            continue
        ck.violation("C16 (traversal) fails on the real %s::interact: %s" % ("AMRDensityGrid" if amr else "CartesianDensityGrid", why[1]),
                     {"part": "interact", "kind": g["kind"], "setup": cart_setup(g) if not amr else amr_setup(g, flags), "photon": photon_line("CP" if not amr else "AP", ph),
                      "impl_out": li, "failing_clause": why[1], "readable": readable(g, ph)},
                     key={"kind": ("amr_interact_" if amr else "cartesian_interact_") + why[0]})
    cov["interact_oracle_failures_reported"] = min(3, len(pending))
    return {"evaluations": neval, "distinct": len(sigs)}


def replay_interact(ck, r):
    ok3, _ = build(ck, False, need_model=False)
    if not ok3:
        print("REPLAY: harness does not build")
        return 2
    lines = list(r["setup"]) + [r["photon"]]
    rc, out = run_child(os.path.join(ck.scratch, "impl_i"), lines)
    print("\n".join(x[:300] for x in out[-3:]))
    # rebuild the geometry from the protocol lines
    f = r["setup"][0].split() if r["kind"] == "C" else r["setup"][1].split()
    vals = [D(x) for x in f[1:7]]
    ints = [int(x) for x in f[7:13]]
    q = [D(x) for x in r["photon"].split()[1:]]
    ph = mk_photon(q[0:3], q[3:6], q[6], q[7], q[8], q[9], q[10])
    if r["kind"] == "C":
        cv = [D(x) for x in r["setup"][1].split()[1:]]
        cells = [tuple(cv[3 * i:3 * i + 3]) for i in range(len(cv) // 3)]
        geo = CartGeom(vals[0:3], vals[3:6], ints[0:3], ints[3:6], cells)
        tag = "CR"
    else:
        keys = [int(l.split()[1]) for l in r["setup"] if l.startswith("AR ")]
        internal = set()
        nb, l0 = amr_decompose(ints[0:3])
        leaves = []
        for bx in range(nb[0]):
            for by in range(nb[1]):
                for bz in range(nb[2]):
                    paths = [()]
                    for _ in range(l0):
                        paths = [p + (c,) for p in paths for c in range(8)]
                    leaves += [((bx, by, bz), p) for p in paths]
        for (b, p) in leaves:
            for j in range(len(p)):
                internal.add((b, p[:j]))
        for k in keys:
            cand = amr_unkey(k)
            if cand in leaves:
                i = leaves.index(cand)
                leaves[i:i + 1] = [(cand[0], cand[1] + (c,)) for c in range(8)]
                internal.add(cand)
        cv = [D(x) for x in [l for l in r["setup"] if l.startswith("AD")][0].split()[1:]]
        ks = sorted(amr_key(b, p) for (b, p) in leaves)
        contents = {k: tuple(cv[3 * i:3 * i + 3]) for i, k in enumerate(ks)}
        geo = AmrGeom(vals[0:3], vals[3:6], ints[0:3], ints[3:6], internal, contents)
        tag = "AQ"
    ans = out[-1] if out else None
    why = oracle(geo, ph, ans, tag, r["kind"] == "A")
    print("REPLAY:", why[1] if why else "property holds on this input")
    return 1 if why else 0
