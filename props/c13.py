# C13  RANLUX random generator: proof (Coq) + correspondence of the executable model with
#      src/RandomGenerator.hpp, three-way with gsl_rng_ranlxd2 and a plain python subtract-with-borrow reference
import os, json, re
import vf

LEVEL = "proof"
CLAIM = dict(cat="proof", design="§3 C13, Appendix A.3",
   text="Coq theorems over an exact integer model of RandomGenerator (every state word is a multiple of 2^-48, proved to be the binary64 computation: no rounding anywhere), for ALL 64-bit seeds and ALL stream positions: "
        "state invariant, every value in [0, 1-2^-48] (so -log u is never <= 0), the unrolled 12-step block and the three refill loops equal plain subtract-with-borrow steps (base 2^48, lags 12/5, luxury _pr): the stream "
        "IS ranlxd2; seeding is the 31-bit shift register, seed 0 = seed 1, only seed mod 2^31 matters, seeding injective on [1,2^31), and two seeds whose first 24 values agree are equal (Marsaglia-Zaman argument); "
        "restore(dump s) = s and the continued stream is identical. Tie: extracted model vs the real class vs GSL's gsl_rng_ranlxd2 on many seeds, positions across every refill boundary and dump/restore points, bit for bit; "
        "whole binary: two one-thread runs with the same seed write snapshots whose every dataset and attribute (except the creation-time stamp) is bitwise identical. Whole binary: same seed twice is bitwise identical also for 7 discrete sources with a packet number that does not divide (remainder packets placed by a random draw); seeds differing in a low bit and in bits 20, 27 and 30 give different snapshots; the op language has 'E' = re-seed the USED generator object.",
   note="Whole-binary ties (no model): same seed twice -> identical snapshots in task-based, task-based RHD and default mode; seed pairs differing in bits 0/20/27/30 give different snapshots; seeds 0 and 1 give identical snapshots. Trusted: Coq kernel (20 of 21 theorems axiom-free; the binary64-exactness lemma uses Flocq + standard real axioms), extraction, libgsl as third implementation. The whole-binary clause is an observation on the "
        "sampled configurations (task-based ionization with diffuse field and continuous source, RHD with radiation), not a theorem: it rests on C01 (one thread => one schedule) and on the stream theorems.",
   technique="Coq proof by induction over the generator state + three-way differential correspondence (model, class, GSL)")
W = 1 << 48
P31 = 1 << 31
HARNESS = os.path.join(vf.VERIF, "harness/c13/rng_harness.cpp")
HEAD = 24            # every seeded case starts with "D 24": the first two batches of 12


def seed_idx(seed):
    """what the property says about seeds: 0 means 1, then modulo 2^31"""
    return (seed if seed != 0 else 1) % P31


def hexd(n):
    return "%016x" % vf.dbl_bits(n * 2.0 ** -48)       # exact: n < 2^53


def numer(h):
    return vf.bits_dbl(int(h, 16)) * float(W)


# ------------------------------------------------------------------ plain reference (oracle + coverage)
def ref_refill(x, c, ir, pr, hits=None):
    """pr plain subtract-with-borrow steps on the circular buffer, lags (12,5), base 2^48.
    hits: histogram of boundary differences by the C++ code path that executes the step"""
    k1 = (12 - ir) % 12
    n2 = 0 if pr - 12 < k1 else (pr - 12 - k1) // 12 + 1
    jr = (ir + 7) % 12
    for k in range(pr):
        d = x[jr] - x[ir] - c
        if hits is not None and d in (0, -1, -W, W - 1, -W + 1):
            path = "loop1" if k < k1 else ("block%02d" % ((k - k1) % 12) if k < k1 + 12 * n2 else "loop3")
            key = path + ":" + {0: "d=0", -1: "d=-1", -W: "d=-W", W - 1: "d=W-1", -W + 1: "d=-W+1"}[d]
            hits[key] = hits.get(key, 0) + 1
        c = 1 if d < 0 else 0
        x[ir] = d % W
        ir = (ir + 1) % 12
        jr = (jr + 1) % 12
    return c, ir


def ref_stream(state, n, hits=None):
    x, c, ir, jr, iro, pr = state
    x = list(x)
    out = []
    for _ in range(n):
        ir = (ir + 1) % 12
        if ir == iro:
            c, ir = ref_refill(x, c, ir, pr, hits)
            iro = ir
        out.append(x[ir])
    return out, (x, c, ir, (iro + 7) % 12, iro, pr)


# ------------------------------------------------------------------ generators
CORPUS_SEEDS = [0, 1, 2, 3, 42, 12345, P31 - 1, P31 - 2, P31, P31 + 1, P31 + 5, 1 << 32, (1 << 32) + 1, (1 << 33) + 7,
                (1 << 62) + 12345, (1 << 63) - 1, -1, -5, -P31, -(1 << 40) + 3, 1 << 30, 0x55555555, 0x2AAAAAAA, 0x40000001]


def gen_ops(rng, total, with_head=True, reseed=False):
    ops = ["D %d" % HEAD] if with_head else []
    left = total - (HEAD if with_head else 0)
    while left > 0:
        r = rng.below(10)
        if reseed and rng.below(12) == 0:
            # set_seed on the used object (histories: any number of draws, then a new seed)
            ops.append("E %d" % (CORPUS_SEEDS[rng.below(len(CORPUS_SEEDS))] if rng.below(2) else rng.below(P31)))
            n = 1 + rng.below(30)
            ops.append("D %d" % n)
            left -= n
        elif r == 0:
            ops.append("R")
        elif r == 1:
            ops.append("T")
        elif r == 2:
            n = 1 + rng.below(14)
            ops.append("I %d" % n)
            left -= n
        else:
            n = 1 + rng.below(30) if rng.below(4) else 1 + rng.below(3)
            ops.append("D %d" % n)
            left -= n
    return ops


def gen_seed_case(rng, seed, total):
    return ["S %d" % seed] + gen_ops(rng, total, reseed=True)


def craft_block_boundary(rng, q, want):
    """state with ir_old = 0 whose q-th step of the next refill (q-th RANLUX_STEP position of the unrolled block) has the
    difference x[jr]-x[ir]-carry exactly `want` (0 or -1): fixed point iteration on x[q] with the plain reference"""
    for _ in range(200):
        x = [rng.below(W) for _ in range(12)]
        c = rng.below(2)
        for _ in range(4):
            y, cc, ir, jr = list(x), c, 0, 7
            for k in range(q):
                d = y[jr] - y[ir] - cc
                cc = 1 if d < 0 else 0
                y[ir] = d % W
                ir, jr = (ir + 1) % 12, (jr + 1) % 12
            if y[jr] - y[ir] - cc == want:
                return x, c
            x[q] = (y[jr] - cc - want) % W
    return x, c


def gen_state_case(rng, idx, total):
    """overwrite the members with a well-formed state aimed at the case splits of the proofs:
    differences exactly 0, -1, -W at the first step of a refill, small alphabets (many ties), extremes"""
    mode = idx % 7
    if mode == 6:
        # boundary at a chosen position of the unrolled block, short luxury so that the word is handed out unchanged
        q = (idx // 7) % 12
        x, c = craft_block_boundary(rng, q, rng.choice([0, 0, -1]))
        pr = rng.choice([12, 12, 24, 13, 397])
        line = "X " + " ".join(hexd(a) for a in x) + " %s 11 7 0 %d" % (hexd(c), pr)
        return [line] + gen_ops(rng, total, with_head=False), (x, c, 11, 7, 0, pr)
    v = rng.below(W)
    alpha = [0, 1, 2, W - 1, W - 2, v, (v + 1) % W, (v - 1) % W]
    if mode == 0:
        x = [rng.below(W) for _ in range(12)]
    elif mode == 1:
        x = [rng.choice(alpha) for _ in range(12)]
    elif mode == 2:
        x = [v] * 12
    elif mode == 3:
        x = [rng.choice([0, W - 1]) for _ in range(12)]
    else:
        x = [rng.below(W) if rng.below(3) else rng.choice(alpha) for _ in range(12)]
    c = rng.below(2)
    iro = rng.below(12)
    if mode >= 4:
        # first step of the next refill hits a boundary: x[jr] - x[ir] - c = 0 / -1 / -W / W-1
        jr = (iro + 7) % 12
        kind = rng.below(4)
        if kind == 0:
            x[jr] = max(x[jr], c)
            x[iro] = x[jr] - c
        elif kind == 1:
            x[jr] = min(x[jr], W - 2)
            x[iro] = x[jr] - c + 1
        elif kind == 2:
            x[jr], x[iro], c = 0, W - 1, 1
        else:
            x[jr], x[iro], c = W - 1, 0, 0
    consumed = rng.below(12)                 # 0..11 values of the current batch still to hand out first
    ir = (iro + consumed - 1) % 12 if rng.below(3) else (iro - 1) % 12
    pr = 397 if rng.below(8) else rng.choice([12, 13, 23, 24, 25, 36, 100, 223, 389, 404])
    line = "X " + " ".join(hexd(a) for a in x) + " %s %d %d %d %d" % (hexd(c), ir, (iro + 7) % 12, iro, pr)
    return [line] + gen_ops(rng, total, with_head=False), (x, c, ir, (iro + 7) % 12, iro, pr)


# ------------------------------------------------------------------ output bookkeeping
def n_out(op, impl):
    if op in "DI":
        return 2 if impl else 1
    if op == "R":
        return 3
    return 1


def split_out(cases, out, impl):
    """cases: list of lists of input lines; out: all output lines (first is the Z line). returns per case list of
    per-op output line groups (missing lines -> shorter lists)"""
    pos = 1
    res = []
    for ops in cases:
        r = []
        for o in ops:
            k = n_out(o[0], impl)
            r.append(out[pos:pos + k])
            pos += k
        res.append(r)
    return res


def strip_tag(l):
    return l.split(" #")[0]


def comparable(groups, impl):
    """the lines the model and the implementation must agree on"""
    r = []
    for g in groups:
        r.append([strip_tag(l) for l in g if not l.startswith("G ")])
    return r


# ------------------------------------------------------------------ the property, decided on implementation output only
def oracle_case(ops, groups, pyref=None):
    """property C13 on one implementation trace. returns None or the failing clause"""
    drawn = []
    for o, g in zip(ops, groups):
        f = o.split()
        if len(g) < n_out(f[0], True):
            return "harness output ends early at op %r (crash?)" % o
        if f[0] == "D":
            vals = g[0].split()[1:]
            if len(vals) != int(f[1]):
                return "draw count: asked %s values, got %d" % (f[1], len(vals))
            for j, h in enumerate(vals):
                v = vf.bits_dbl(int(h, 16))
                if not (0.0 <= v < 1.0):
                    return "range: value %r (bits %s) is not in [0,1) at draw %d of %r (an optical depth -log(1-u) or -log(u) would be infinite or negative)" % (v, h, j, o)
                drawn.append(numer(h))
        elif f[0] == "I":
            vals = g[0].split()[1:]
            for j, s in enumerate(vals):
                if not (0 <= int(s) < P31):
                    return "range: random integer %s is not in [0,2^31) at draw %d of %r" % (s, j, o)
                drawn.append(None)
        if f[0] in "DI":
            if g[1].startswith("G MISMATCH"):
                return "ranlux: stream differs from gsl_rng_ranlxd2 in %r: %s" % (o, g[1])
        if f[0] == "R":
            before = g[0].split()[1:]
            after = g[2].split()[1:]
            names = ["_xdbl[%d]" % i for i in range(12)] + ["_carry", "_ir", "_jr", "_ir_old", "_pr"]
            if len(before) != 17 or len(after) != 17:
                return "restart: state unreadable"
            for nm, a, b in zip(names, before, after):
                if a != b:
                    return "restart: the generator restored from the restart file differs from the saved one in %s (saved %s, restored %s)" % (nm, a, b)
    if pyref is not None:
        want, _ = ref_stream(pyref, len(drawn))
        for j, (a, b) in enumerate(zip(drawn, want)):
            if a is not None and a != float(b):
                return "ranlux: stream differs from the plain subtract-with-borrow reference at draw %d (impl numerator %r, reference %d)" % (j, a, b)
    return None


def head_of(groups):
    """first HEAD values of a seeded case as printed by the implementation"""
    if len(groups) > 1 and groups[1]:
        return " ".join(groups[1][0].split()[1:])
    return None


def build_impl(d):
    ok, out = vf.repo_configure()
    if not ok:
        return False, out
    exe = os.path.join(d, "impl")
    # vf.cxx_build puts `extra` before the source file, so -lgsl would be dropped by ld --as-needed: compile here
    rc, out = vf.sh(["g++"] + vf.cxx_flags(openmp=False) + [HARNESS, "-o", exe, "-lgsl", "-lgslcblas"], timeout=900)
    return rc == 0, out


def run(ck):
    ok_proof = ck.prove(timeout=1200)
    d = ck.scratch
    ok1, log1 = vf.coq_extract("C13", d)
    ok2, log2 = (False, "") if not ok1 else vf.ocaml_build(d, ["c13_model"], os.path.join(vf.VERIF, "ocaml/c13_driver.ml"), "model")
    ok3, log3 = build_impl(d)
    if not ok3:
        ck.breaks.append("harness does not compile against src/RandomGenerator.hpp:\n" + log3[-2000:])
    if not (ok1 and ok2):
        ck.breaks.append("model extraction/build failed:\n" + (log1 + log2)[-2000:])
    rng = ck.rng
    nseeds = 420 if ck.quick else 6000
    nstates = 180 if ck.quick else 2500
    total = 170 if ck.quick else 330
    cases, kinds, pyrefs, seeds = [], [], [], []
    for s in CORPUS_SEEDS:
        cases.append(gen_seed_case(rng, s, total)); kinds.append("seed"); pyrefs.append(None); seeds.append(s)
    for k in range(31):
        cases.append(gen_seed_case(rng, 1 << k, 60)); kinds.append("seed"); pyrefs.append(None); seeds.append(1 << k)
    for i in range(nseeds):
        r = rng.below(10)
        s = 1 + rng.below(P31 - 1) if r < 8 else (rng.next() >> 1 if r == 8 else -(rng.next() >> 2))
        cases.append(gen_seed_case(rng, s, total)); kinds.append("seed"); pyrefs.append(None); seeds.append(s)
    # witness of C13_step_injective_refuted: (x[0], carry) = (5,0) and (4,1), everything else equal -> same successor
    wit = []
    for x0, c in ((5, 0), (4, 1)):
        x = [x0, 0, 0, 0, 0, 0, 0, 9, 0, 0, 0, 0]
        wit.append(len(cases))
        cases.append(["X " + " ".join(hexd(a) for a in x) + " %s 11 7 0 12" % hexd(c), "D 12", "T", "D 30"])
        kinds.append("state"); pyrefs.append((x, c, 11, 7, 0, 12)); seeds.append(None)
    for i in range(nstates):
        c, st = gen_state_case(rng, i, 60 if i % 3 else 150)
        cases.append(c); kinds.append("state"); pyrefs.append(st); seeds.append(None)
    text = "\n".join("\n".join(c) for c in cases) + "\n"
    cov = ck.coverage
    gi = gm = None
    if ok3:
        rc_i, out_i = vf.run_lines([os.path.join(d, "impl"), os.path.join(d, "restart.tmp")], text, timeout=1500)
        if rc_i != 0:
            ck.breaks.append("implementation harness exited with %d" % rc_i)
        gi = split_out(cases, out_i, True)
        if not out_i or out_i[0] != "Z 8 8 8":
            ck.breaks.append("integer/double sizes differ from the model's assumption (uint_fast32_t, int_fast32_t, double = 8 bytes): %r" % (out_i[:1],))
    if ok1 and ok2:
        rc_m, out_m = vf.run_lines([os.path.join(d, "model")], text, timeout=1500)
        gm = split_out(cases, out_m, False)
    reported = set()

    def report(ci, why, desc=""):
        if ci in reported or len(reported) >= 4:
            return
        reported.add(ci)
        clause = why.split(":")[0]
        ck.violation("C13 fails on the real RandomGenerator: %s %s" % (why, desc),
                     {"ops": cases[ci], "impl_out": [l for g in gi[ci] for l in g][:40], "failing_clause": why,
                      "pyref": pyrefs[ci]}, key={"kind": "rng", "clause": clause})

    mism = 0
    if gi is not None and gm is not None:
        phases = {}
        pairs = set()
        nvals = 0
        nrestart = 0
        notwf = 0
        opshist = {}
        for ci, ops in enumerate(cases):
            a = comparable(gi[ci], True)
            b = comparable(gm[ci], False)
            ident = seed_idx(seeds[ci]) if seeds[ci] is not None else "state:" + ops[0][:60]
            for o, g in zip(ops, gm[ci]):
                opshist[o[0]] = opshist.get(o[0], 0) + 1
                if o[0] in "DI" and g:
                    nvals += int(o.split()[1])
                    tag = g[0].split(" #")[1] if " #" in g[0] else ""
                    for tok in tag.split():
                        if tok.startswith("refills=") and len(tok) > 8:
                            for ph in tok[8:].strip(",").split(","):
                                phases[ph] = phases.get(ph, 0) + 1
                                pairs.add((ident, ph))
                        if tok.startswith("notwf="):
                            notwf = max(notwf, int(tok[6:]))
                if o[0] == "R":
                    nrestart += 1
            if a != b:
                mism += 1
                k = vf.first_diff(a, b)
                desc = "model and RandomGenerator.hpp disagree at op %d (%r) of case %r: impl=%r model=%r" % (
                    k, ops[k] if k < len(ops) else None, ops[0][:80], a[k] if k < len(a) else None, b[k] if k < len(b) else None)
                why = oracle_case(ops, gi[ci], pyrefs[ci])
                if why:
                    report(ci, why, "(" + desc[:600] + ")")
                elif mism <= 3:
                    ck.breaks.append("correspondence C13 model <-> RandomGenerator.hpp: " + desc[:1500])
        if notwf:
            ck.breaks.append("executable well-formedness check wfb failed on %d model states reached from seeds" % notwf)
        hits = {}
        for ci, st in enumerate(pyrefs):
            if st is not None:
                n = sum(int(o.split()[1]) for o in cases[ci] if o[0] in "DI")
                ref_stream(st, n, hits)
        cov["evaluations"] = nvals
        cov["distinct_nontrivial"] = len(pairs)
        cov["rule"] = ("cases = set_seed(seed) or an overwritten well-formed state, followed by random draws of doubles/integers with dump+restore "
                       "(RestartWriter/RestartReader through a file) and state prints in between, all from SplitMix64(VERIF_SEED); seeds: corpus "
                       "(0,1,2^31-1,2^31,2^31+5,2^32,2^32+1,negatives,...), the 31 one-bit seeds, random in [1,2^31), random 63-bit and negative; "
                       "states: 7 modes (random, small alphabet with many ties, all equal, only 0/W-1, first refill step with difference exactly 0,-1,-W,W-1, "
                       "difference exactly 0/-1 at each of the 12 positions of the unrolled block with luxury 12/13/24 so that the word is handed out), "
                       "random phase ir_old, random carry, pr = 397 mostly; evaluations = drawn values compared bit for bit "
                       "(plus every state word after set_seed/restore and every restart file word); distinct_nontrivial = distinct "
                       "(seed index or state, refill phase ir_old) pairs for which a draw crossed the 12-value refill boundary, i.e. ran increment_state")
        cov["refill_phase_histogram"] = dict(sorted(phases.items(), key=lambda kv: int(kv[0])))
        cov["ops_histogram"] = opshist
        cov["boundary_difference_hits_in_state_cases"] = dict(sorted(hits.items()))
        cov["cases"] = len(cases)
        cov["seed_cases"] = kinds.count("seed")
        cov["state_cases"] = kinds.count("state")
        cov["restarts"] = nrestart
        cov["case_mismatches"] = mism
        cov["samples"] = [{"ops": cases[ci][:5], "impl_out": [l[:120] for g in gi[ci][:5] for l in g]} for ci in (0, 6, len(cases) - 1)]
    # the property itself on every implementation trace when anything is broken, and always the cheap global clauses
    if gi is not None:
        heads = {}
        nsame = ndiff = 0
        for ci, ops in enumerate(cases):
            if kinds[ci] != "seed":
                continue
            h = head_of(gi[ci])
            if h is None:
                continue
            idx = seed_idx(seeds[ci])
            if h in heads and heads[h][0] != idx:
                report(ci, "seeds: seeds %d and %d (different modulo 2^31) give the same first %d values" % (seeds[ci], heads[h][1], HEAD))
            heads.setdefault(h, (idx, seeds[ci]))
        byidx = {}
        for ci, ops in enumerate(cases):
            if kinds[ci] == "seed" and head_of(gi[ci]) is not None:
                idx = seed_idx(seeds[ci])
                if idx in byidx:
                    if byidx[idx][0] != head_of(gi[ci]):
                        report(ci, "seeds: seeds %d and %d are equal modulo 2^31 (0 counts as 1) but give different streams" % (seeds[ci], byidx[idx][1]))
                    nsame += 1
                else:
                    byidx[idx] = (head_of(gi[ci]), seeds[ci])
                    ndiff += 1
        a, b = gi[wit[0]], gi[wit[1]]
        same = len(a) == 4 and len(b) == 4 and a[0] != b[0] and a[1:] == b[1:] and bool(a[1])
        cov["step_not_injective_witness_reproduced_on_real_class"] = same
        if not same:
            ck.breaks.append("witness of C13_step_injective_refuted (two different states, one successor) does not reproduce on the real class")
        cov["distinct_seed_indices_with_pairwise_distinct_first_24_values"] = ndiff
        cov["seed_pairs_equal_modulo_2^31_compared"] = nsame
        bad = 0
        full = bool(ck.breaks) or mism > 0
        for ci, ops in enumerate(cases):
            why = oracle_case(ops, gi[ci], pyrefs[ci] if (full or ci % 4 == 0) else None)
            if why:
                bad += 1
                report(ci, why)
        ck.notes.append("property oracle (range, equals gsl ranlxd2, equals python subtract-with-borrow reference on state cases, seed clauses) "
                        "evaluated on %d implementation traces, %d fail" % (len(cases), bad))
    ck.assumptions += [
        "NOT covered here: the clause 'two runs of the same photoionization problem with the same seed and one thread write byte-identical snapshots' "
        "(whole-program runs) is checked by the coordinator's whole-binary comparison, not by this part",
        "doubles are modelled by their numerators over 2^48; C13_exact_in_binary64 bounds every intermediate by 2^48 in magnitude, so binary64 evaluates the "
        "same expressions without rounding (x86-64 SSE2, no x87 excess precision; no multiplication that could be fused)",
        "uint_fast32_t/int_fast32_t/double are 8 bytes (the harness prints the sizes and the run compares them)",
        "gsl 2.7.1 masks the seed with 0xffffffff into an int, so seeds with bit 31 set are outside gsl's domain; the three-way comparison runs for every "
        "seed with bit 31 clear (all of [0,2^31)) and for overwritten states through gsl's state struct (layout checked with gsl_rng_size)",
        "'different seeds give different streams' is proved at full strength on the domain where it can hold: the 2^31-1 seeds in [1,2^31) give pairwise "
        "different streams already within the first 24 values (C13_streams_differ); seed 0 gives the stream of seed 1 and the code uses seeds modulo 2^31 "
        "(C13_seed_zero_is_one, C13_seed_mod_2_31), so those coincide by construction; seeds that are non-zero multiples of 2^31 (possible because "
        "int_fast32_t is 64 bit) start from the all-ones state 1-2^-48 in every word (Example ex_degenerate_seed) - a valid but poor stream",
        "the design sketch's step_injective is false (C13_step_injective_refuted: two well-formed states with one successor); nothing depends on it",
    ]
    whole_binary_determinism(ck)
    ck.resolve_breaks_without_input()


def replay(ck, rp):
    d = ck.scratch
    ok3, log3 = build_impl(d)
    if not ok3:
        print(log3[-2000:])
        return 2
    r = rp["replay"]
    if "ops" not in r:       # whole-binary replays (same seed twice / different seeds)
        ck.quick = True
        whole_binary_determinism(ck)
        bad = [v for v in ck.violations if v["key"].get("config") == r.get("config")]
        print("REPLAY:", bad[0]["what"] if bad else "property holds on this input")
        return 1 if bad else 0
    ops = r["ops"]
    rc, out = vf.run_lines([os.path.join(d, "impl"), os.path.join(d, "restart.tmp")], "\n".join(ops) + "\n")
    groups = split_out([ops], out, True)[0]
    st = r.get("pyref")
    if st is not None:
        st = (st[0], st[1], st[2], st[3], st[4], st[5])
    why = oracle_case(ops, groups, st)
    print("\n".join(l[:200] for l in out[:60]))
    print("REPLAY:", why or "property holds on this input")
    return 1 if why else 0


def whole_binary_determinism(ck):
    """two one-thread runs of the same problem with the same seed: every dataset/attribute of every snapshot equal"""
    import shutil
    d = ck.scratch
    okb, logb = vf.repo_ninja(["CMacIonize"])
    if not okb:
        ck.breaks.append("whole binary does not build: " + logb[-800:])
        return
    exe = os.path.join(vf.REPOBUILD, "rundir", "CMacIonize")
    dig = os.path.join(d, "h5digest")
    rc, out = vf.sh(["g++", "-O1", "-I/usr/include/hdf5/serial", os.path.join(vf.VERIF, "harness/c13/h5digest.cpp"), "-o", dig, "-lhdf5_serial"], timeout=300)
    if rc != 0:
        ck.breaks.append("h5digest does not build: " + out[-500:])
        return
    # ion_multi: 7 discrete sources + an external field, 5003 packets: the packets lost to rounding in the split over the sources are
    # handed out by a random draw (DistributedPhotonSource), which must be reproducible too
    # ion_legacy: the default (not task-based) photoionization mode, which seeds its generators in IonizationSimulation /
    # IonizationPhotonShootJobMarket rather than in the task-based driver
    cfgs = [("ion.param", ["--task-based"]), ("ion_multi.param", ["--task-based"]), ("rhd.param", ["--task-based-rhd", "--number-of-steps", "2"]), ("ion_legacy.param", [])]
    if not ck.quick:
        cfgs.append(("o7.param", ["--task-based"]))
    ncomp = 0
    for cfg, args in cfgs:
        digs = []
        for rep in (0, 1):
            w = os.path.join(d, "wb_%s_%d" % (cfg, rep))
            shutil.rmtree(w, ignore_errors=True)
            os.makedirs(w)
            for f in os.listdir(os.path.join(vf.VERIF, "harness", "configs")):
                shutil.copy(os.path.join(vf.VERIF, "harness", "configs", f), w)
            rc, out = vf.sh([exe] + args + ["--params", cfg, "--threads", "1", "--dirty"], cwd=w, timeout=600)
            if rc != 0:
                ck.breaks.append("whole-binary run %s exits with %d" % (cfg, rc))
                return
            res = {}
            for f in sorted(os.listdir(w)):
                if f.endswith(".hdf5"):
                    rc2, o2 = vf.sh([dig, os.path.join(w, f)], timeout=120)
                    res[f] = [l for l in o2.splitlines() if "@Creation time" not in l]
            digs.append(res)
            shutil.rmtree(w, ignore_errors=True)
        if digs[0].keys() != digs[1].keys():
            ck.violation("C13: two one-thread runs of %s with the same seed wrote different snapshot files" % cfg, {"config": cfg, "files": [sorted(x) for x in digs]}, key={"kind": "snapshot_nondeterministic", "config": cfg})
            continue
        for f in digs[0]:
            ncomp += len(digs[0][f])
            if digs[0][f] != digs[1][f]:
                diff = [(a, b) for a, b in zip(digs[0][f], digs[1][f]) if a != b][:5]
                ck.violation("C13: two one-thread runs of %s with the same seed differ in snapshot %s: %s" % (cfg, f, diff), {"config": cfg, "file": f, "diff": diff},
                             key={"kind": "snapshot_nondeterministic", "config": cfg})
    # the seed given in the parameter file reaches the generators: different seeds give different snapshots
    nseed = 0
    for cfg, args in cfgs:
        txt = open(os.path.join(vf.VERIF, "harness", "configs", cfg)).read()
        if not re.search(r"(?m)^\s*random seed:\s*\d+", txt):
            continue
        by_seed = {}
        # pairs of seeds that differ in a low bit and in high bits (a seed must reach the generators in full: 31 bits)
        pairs = [(1, 2)] + ([(42, 42 + (1 << 27)), (42 + (1 << 20), 42), ((1 << 31) - 1, (1 << 27) - 1)] if cfg in ("ion.param", "ion_legacy.param") else [])
        # seed 0 is the seed 1 (statement: "seed 0 maps to 1"): same snapshots, and different from every other seed
        same = [(0, 1)] if cfg in ("ion.param", "ion_legacy.param") else []
        if same:
            pairs.append((0, 42))
        for seed in sorted(set(x for pr in pairs + same for x in pr)):
            w = os.path.join(d, "wbs_%s_%d" % (cfg, seed))
            shutil.rmtree(w, ignore_errors=True)
            os.makedirs(w)
            for f in os.listdir(os.path.join(vf.VERIF, "harness", "configs")):
                shutil.copy(os.path.join(vf.VERIF, "harness", "configs", f), w)
            open(os.path.join(w, cfg), "w").write(re.sub(r"(?m)^(\s*random seed:)\s*\d+", r"\1 %d" % seed, txt))
            rc, out = vf.sh([exe] + args + ["--params", cfg, "--threads", "1", "--dirty"], cwd=w, timeout=600)
            res = {}
            for f in sorted(os.listdir(w)):
                if f.endswith(".hdf5"):
                    rc2, o2 = vf.sh([dig, os.path.join(w, f)], timeout=120)
                    res[f] = [l for l in o2.splitlines() if "@Creation time" not in l and "random seed" not in l.lower()]
            by_seed[seed] = (rc, res)
            shutil.rmtree(w, ignore_errors=True)
        if any(v[0] != 0 for v in by_seed.values()):
            ck.breaks.append("whole-binary run %s with another seed exits with %r" % (cfg, [v[0] for v in by_seed.values()]))
            continue
        nseed += len(pairs)
        for (sa, sb) in pairs:
            if by_seed[sa][1] == by_seed[sb][1]:
                ck.violation("C13: one-thread runs of %s with 'random seed: %d' and 'random seed: %d' write identical snapshots (all %d datasets/attributes apart from the recorded parameter): the seed does not reach the "
                             "generators in full, so the run does not use the RANLUX stream of its seed" % (cfg, sa, sb, sum(len(v) for v in by_seed[sa][1].values())),
                             {"config": cfg, "seeds": [sa, sb]}, key={"kind": "seed_ignored", "config": cfg})
                break
        for (sa, sb) in same:
            if by_seed[sa][1] != by_seed[sb][1]:
                ck.violation("C13: one-thread runs of %s with 'random seed: %d' and 'random seed: %d' write different snapshots, but seed 0 is defined to give the stream of seed 1" % (cfg, sa, sb),
                             {"config": cfg, "seeds": [sa, sb], "expect": "identical"}, key={"kind": "seed_zero_not_one", "config": cfg})
    ck.coverage["whole_binary_seed_pairs"] = nseed
    ck.coverage["whole_binary_objects_compared"] = ncomp
    ck.coverage["whole_binary_configs"] = [c for c, _ in cfgs]
