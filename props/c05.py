# C05  Riemann flux symmetries: proof (Coq, reals) + bit-exact correspondence of the float
# instance of the same definitions with the compiled HLLC / exact solvers
import os, math, json
import vf

LEVEL = "proof"
CLAIM = dict(cat="proof", design="§3 C05, §8 D1/D8, §11",
   text="Coq theorems over the real-number instance of a literal model of HLLCRiemannSolver::solve_for_flux and of the vacuum/flux-assembly part of ExactRiemannSolver: Galilean boost for both solvers "
        "(all states incl. vacuum, every eps), HLLC star-region antisymmetry in all five components away from the tie S*=0, continuity across the contact at S*=0 for ordered wave speeds, identical states give the "
        "analytic flux, mirror states below Mach 1.5 exchange no mass and no energy, vacuum samplers are mirror images of each other at every sampling speed and a mirrored sample gives the negated flux. "
        "Defects D1 (fan coefficient) and D8 (star-state density ratio) of the pinned commit are refuted by theorems with witnesses, shown on the real solvers and repaired (fix: commits). "
        "Tie: the binary64 instance of the SAME definitions is compared bit for bit (5 flux components) with the compiled solvers on every run.",
   note="Trusted: Coq kernel + standard real-number axioms (sig_forall_dec, sig_not_dec, functional_extensionality_dep, classic as reported); extraction with ExtrOCamlFloats for the correspondence; glibc pow as oracle. "
        "Partial: theorems comparing with the textbook form take eps=0 for DBL_MIN; the exact solver's iterative star-state solve is not modelled here (C11); solve_for_flux-level antisymmetry is given as its "
        "three ingredients (star region, mirrored vacuum samplers, mirrored sample => negated flux) rather than one composed statement; 'textbook HLLC' equality is covered through the contact-continuity and mirror theorems, "
        "not stated against Toro's U* form. KNOWN FINDING (not repaired): at S*=0 with S_L>=0 (mirror states colliding faster than ~1.62 sound speeds) HLLC is not antisymmetric (C05_hllc_supersonic_tie_refuted).",
   technique="Coq proof over reals of a literal solver model + bit-exact binary64 correspondence")


def hx(x):
    return "%016x" % vf.dbl_bits(x)


def unit(rng, k):
    if k < 6:
        v = [0.0, 0.0, 0.0]
        v[k % 3] = 1.0 if k < 3 else -1.0
        return v
    while True:
        v = [2 * rng.uniform() - 1 for _ in range(3)]
        n = math.sqrt(sum(x * x for x in v))
        if n > 1e-3:
            return [x / n for x in v]


def gen_base(rng, i):
    """returns dict(kind tags, gamma, L=(rho,u,P), R=(rho,u,P), n, vface)"""
    gamma = rng.choice([5.0 / 3.0, 1.4, 2.0, 1.001, 1.0, 1.0 + rng.uniform()])
    g = max(gamma, 1.00000001)
    n = unit(rng, rng.below(9))
    mode = i % 12
    dec = lambda lo, hi: 10.0 ** (lo + (hi - lo) * rng.uniform())
    rhoL, PL = dec(-3, 3), dec(-3, 3)
    rhoR, PR = dec(-3, 3), dec(-3, 3)
    if mode == 1:      # many decades
        rhoL, PL, rhoR, PR = dec(-20, 20), dec(-20, 20), dec(-20, 20), dec(-20, 20)
    aL = math.sqrt(g * PL / rhoL)
    aR = math.sqrt(g * PR / rhoR)
    tang = lambda s: [s * (2 * rng.uniform() - 1) for _ in range(3)]
    ML, MR = 2 * rng.uniform() - 1, 2 * rng.uniform() - 1
    tag = "generic"
    if mode == 2:      # supersonic
        ML, MR = 5 * (2 * rng.uniform() - 1), 5 * (2 * rng.uniform() - 1)
        tag = "supersonic"
    uL = [ML * aL * n[k] + t for k, t in enumerate(tang(aL))]
    uR = [MR * aR * n[k] + t for k, t in enumerate(tang(aR))]
    if mode == 3:      # identical states
        rhoR, PR, uR = rhoL, PL, list(uL)
        tag = "identical"
    elif mode == 4:    # mirror states approaching / receding
        M = rng.choice([0.1, 0.5, 1.0, 1.4, 1.49, 1.7, 3.0, -0.5]) * (0.5 + 0.5 * rng.uniform() if rng.below(2) else 1.0)
        t = tang(aL)
        tn = sum(t[k] * n[k] for k in range(3))
        t = [t[k] - tn * n[k] for k in range(3)]
        uL = [M * aL * n[k] + t[k] for k in range(3)]
        uR = [-M * aL * n[k] + t[k] for k in range(3)]
        rhoR, PR = rhoL, PL
        tag = "mirror"
    elif mode == 5:    # vacuum right
        rhoR, PR = (0.0, 0.0) if rng.below(2) else (rng.choice([0.0, rhoR]), 0.0)
        tag = "vacR"
    elif mode == 6:    # vacuum left
        rhoL, PL = (0.0, 0.0) if rng.below(2) else (0.0, rng.choice([0.0, PL]))
        tag = "vacL"
    elif mode == 7:    # vacuum generation: vR - vL around 2/(g-1) (aL+aR)
        f = rng.choice([0.9, 0.99, 1.0, 1.01, 1.2, 2.0, 5.0])
        dv = f * 2.0 / (g - 1.0) * (aL + aR)
        vc = (2 * rng.uniform() - 1) * (aL + aR) * rng.choice([0.0, 1.0, 5.0, 30.0])
        uL = [(vc - 0.5 * dv) * n[k] for k in range(3)]
        uR = [(vc + 0.5 * dv) * n[k] for k in range(3)]
        tag = "vacgen"
    elif mode == 8:    # both vacuum
        rhoL = PL = rhoR = PR = 0.0
        tag = "vacLR"
    elif mode == 9:    # strong shock / strong rarefaction
        PL = PL * 10.0 ** (6 * rng.uniform())
        tag = "strong"
    elif mode == 10:   # tiny values (denormal neighbourhood)
        s = rng.choice([1e-300, 1e-308, 5e-324, 1e-140, 1e-100])
        rhoL, PL = rhoL * s, PL * s
        tag = "tiny" if s >= 1e-140 and rhoL > 0 and PL > 0 else "extreme"   # ratios beyond 1e300 overflow 1/P: outside the domain, correspondence only
    if mode == 11 and i % 24 == 11:
        # shear layer: the same density, pressure and (bitwise) normal velocity on both sides, different tangential velocities;
        # the normal is a coordinate axis so that u.n is exactly the stored component
        ax = rng.below(3)
        n = [1.0 if k == ax else 0.0 for k in range(3)]
        if rng.below(2):
            n = [-x for x in n]
        vn = aL * rng.choice([0.0, 0.3, -0.3, 1.0, -2.0]) * (0.5 + rng.uniform())
        uL = [vn * n[k] if k == ax else aL * (2 * rng.uniform() - 1) for k in range(3)]
        uR = [vn * n[k] if k == ax else aL * (2 * rng.uniform() - 1) for k in range(3)]
        rhoR, PR = rhoL, PL
        tag = "shear"
    vf_ = [0.0, 0.0, 0.0]
    r = rng.below(4)
    if r == 1:
        vf_ = tang(3 * (aL + aR + 1e-300))
    elif r == 2:
        vf_ = list(uL)
    elif r == 3:
        vf_ = [0.5 * (uL[k] + uR[k]) for k in range(3)]
    return dict(tag=tag, gamma=gamma, L=(rhoL, uL, PL), R=(rhoR, uR, PR), n=n, vface=vf_)


def line(kind, c):
    (rl, ul, pl), (rr, ur, pr) = c["L"], c["R"]
    w = [c["gamma"], rl] + list(ul) + [pl, rr] + list(ur) + [pr] + list(c["n"]) + list(c["vface"])
    return kind + " " + " ".join(hx(x) for x in w)


def swapped(c):
    return dict(c, L=c["R"], R=c["L"], n=[-x for x in c["n"]])


def boosted(c, w):
    (rl, ul, pl), (rr, ur, pr) = c["L"], c["R"]
    return dict(c, L=(rl, [ul[k] + w[k] for k in range(3)], pl), R=(rr, [ur[k] + w[k] for k in range(3)], pr),
                vface=[c["vface"][k] + w[k] for k in range(3)])


def parse_flux(l):
    f = l.split("|")[0].split("#")[0].split()
    v = [vf.bits_dbl(int(x, 16)) for x in f[:5]]
    return v[0], v[1:4], v[4]


def close(a, b, scale, tol=1e-9):
    return abs(a - b) <= tol * scale or (a != a and b != b)


def oracle_group(c, w, fb, fs, fbo):
    """symmetry clauses of C05 on the real solver's outputs for base / swapped / boosted inputs"""
    (m, p, e), (ms, ps, es), (mb, pb, eb) = fb, fs, fbo
    # physical scales of the problem (face frame), so that round-off of cancelling terms is not an alarm
    g = max(c["gamma"], 1.00000001)
    (rl, ul, pl), (rr, ur, pr) = c["L"], c["R"]
    nrm = lambda v: math.sqrt(sum(x * x for x in v))
    aL = math.sqrt(g * pl / rl) if rl > 0 else 0.0
    aR = math.sqrt(g * pr / rr) if rr > 0 else 0.0
    S_v = max(nrm([ul[k] - c["vface"][k] for k in range(3)]), nrm([ur[k] - c["vface"][k] for k in range(3)]), aL, aR, 1e-300)
    if c["tag"] in ("vacL", "vacR", "vacgen", "vacLR"):
        S_v = S_v * (1 + 2 / (g - 1))
    S_rho, S_P = max(rl, rr), max(pl, pr)
    if c["tag"] == "extreme":
        return None
    def scales(V):
        s_m = S_rho * S_v
        s_p = S_rho * S_v * S_v + S_P
        s_e = (S_rho * S_v * S_v + S_P / (g - 1) + S_P) * S_v
        return max(s_m, 1e-300), max(s_p + s_m * V, 1e-300), max(s_e + V * s_p + V * V * s_m, 1e-300)
    sm, sp, se = scales(nrm(c["vface"]))
    if not all(math.isfinite(x) for x in [m, e] + p):
        return "flux is not finite"
    # antisymmetry
    if not close(m, -ms, sm) or not all(close(p[k], -ps[k], sp) for k in range(3)) or not close(e, -es, se):
        return "exchanging the states and reversing the normal does not negate the flux: F=%r swapped=%r" % ((m, p, e), (ms, ps, es))
    # Galilean boost, frame of base -> frame moving with w:  m' = m, p' = p + m w, E' = E + w.p + |w|^2 m / 2
    w2 = sum(x * x for x in w)
    pe = [p[k] + m * w[k] for k in range(3)]
    ee = e + sum(w[k] * p[k] for k in range(3)) + 0.5 * w2 * m
    smb, sc_p, sc_e = scales(nrm(c["vface"]) + math.sqrt(w2))
    # the boost changes the rounding of (u - vface): relative 1e-16 * (|u|+|w|)/S_v
    amp = 1e-9 * max(1.0, (nrm(ul) + nrm(ur) + nrm(c["vface"]) + math.sqrt(w2)) / S_v * 1e-6)
    if not close(mb, m, smb, amp) or not all(close(pb[k], pe[k], sc_p, amp) for k in range(3)) or not close(eb, ee, sc_e, amp):
        return "boosting states and face by w=%r does not transform the flux as a Galilean boost: F=%r boosted=%r expected=%r" % (w, (m, p, e), (mb, pb, eb), (m, pe, ee))
    if c["tag"] == "mirror":
        (rl, ul, pl) = c["L"]
        g = max(c["gamma"], 1.00000001)
        a = math.sqrt(g * pl / rl)
        vn = sum((ul[k] - c["vface"][k]) * c["n"][k] for k in range(3))
        vfn = [c["vface"][k] for k in range(3)]
        if abs(vn) < 1.49 * a and c["vface"] == [0.0, 0.0, 0.0]:
            scale_m = rl * a
            scale_e = (pl / (g - 1) + 0.5 * rl * sum(x * x for x in ul) + pl) * a
            if abs(m) > 1e-9 * scale_m:
                return "mirror states at Mach %.3g exchange mass: m=%r" % (vn / a, m)
            if abs(e) > 1e-9 * scale_e:
                return "mirror states at Mach %.3g exchange energy: E flux=%r (scale %r)" % (vn / a, e, scale_e)
    if c["tag"] == "identical":
        (rl, ul, pl) = c["L"]
        g = max(c["gamma"], 1.00000001)
        urel = [ul[k] - c["vface"][k] for k in range(3)]
        vn = sum(urel[k] * c["n"][k] for k in range(3))
        m0 = rl * vn
        p0 = [m0 * urel[k] + pl * c["n"][k] for k in range(3)]
        e0 = (pl / (g - 1) + 0.5 * rl * sum(x * x for x in urel) + pl) * vn
        v = c["vface"]
        v2 = sum(x * x for x in v)
        pa = [p0[k] + m0 * v[k] for k in range(3)]
        ea = e0 + sum(v[k] * p0[k] for k in range(3)) + 0.5 * v2 * m0
        a = math.sqrt(g * pl / rl)
        s_m = rl * (abs(vn) + a)
        s_p = s_m * (math.sqrt(sum(x * x for x in ul)) + math.sqrt(v2) + a)
        s_e = s_p * (math.sqrt(sum(x * x for x in ul)) + math.sqrt(v2) + a)
        if not close(m, m0, s_m, 1e-8) or not all(close(p[k], pa[k], s_p, 1e-8) for k in range(3)) or not close(e, ea, s_e, 1e-8):
            return "identical states do not give the analytic flux: F=%r analytic=%r" % ((m, p, e), (m0, pa, ea))
    return None


def viol_key(kind, c, why):
    cid = ("antisym" if why.startswith("exchanging") else "boost" if why.startswith("boosting") else "mirror" if why.startswith("mirror")
           else "identical" if why.startswith("identical") else "finite" if "finite" in why else "other")
    key = {"kind": "riemann", "solver": kind, "tag": c["tag"], "clause_id": cid}
    if c["tag"] == "mirror":
        (rl, ul, pl) = c["L"]
        g = max(c["gamma"], 1.00000001)
        a = math.sqrt(g * pl / rl)
        vn = sum((ul[k] - c["vface"][k]) * c["n"][k] for k in range(3))
        key["mirror_mach_ge_1p6"] = bool(vn / a >= 1.6)
    return key


def build(ck, d):
    ok1, log1 = vf.coq_extract("C05", d)
    ok2, log2 = (False, "") if not ok1 else vf.ocaml_build(d, ["c05_model"], os.path.join(vf.VERIF, "ocaml/c05_driver.ml"), "model", floats=True)
    ok3, log3 = vf.cxx_build(os.path.join(vf.VERIF, "harness/c05/riemann_harness.cpp"), os.path.join(d, "impl"), openmp=False,
                             extra=["-fno-builtin", "-ffp-contract=off"])
    if not ok3:
        ck.breaks.append("harness does not compile against /repo/src Riemann solvers:\n" + log3[-2000:])
    if not (ok1 and ok2):
        ck.breaks.append("model extraction/build failed:\n" + (log1 + log2)[-2000:])
    return ok1 and ok2, ok3


PINNED = ("0", "0")   # which variant of the two repaired sites the current code is expected to be: d1_pinned d8_pinned


def run(ck):
    ck.prove()
    d = ck.scratch
    okm, oki = build(ck, d)
    if not oki:
        ck.resolve_breaks_without_input()
        return
    n = 1500 if ck.quick else 20000
    groups = []
    lines = []
    corpus = [
        # known finding: mirror collision at Mach 3 (gamma = 2)
        dict(tag="mirror", gamma=2.0, L=(1.0, [3.0, 0.0, 0.0], 0.5), R=(1.0, [-3.0, 0.0, 0.0], 0.5), n=[1.0, 0.0, 0.0], vface=[0.0, 0.0, 0.0]),
        # D8 witness: mirror approach at Mach 3/8
        dict(tag="mirror", gamma=2.0, L=(1.0, [0.375, 0.0, 0.0], 0.5), R=(1.0, [-0.375, 0.0, 0.0], 0.5), n=[1.0, 0.0, 0.0], vface=[0.0, 0.0, 0.0]),
        # D1 witnesses: gas moving next to vacuum on either side, and vacuum generation with a moving centre
        dict(tag="vacL", gamma=2.0, L=(0.0, [0.0, 0.0, 0.0], 0.0), R=(1.0, [0.5, 0.0, 0.0], 0.5), n=[1.0, 0.0, 0.0], vface=[0.0, 0.0, 0.0]),
        dict(tag="vacR", gamma=1.4, L=(1.0, [-0.3, 0.1, 0.0], 1.0), R=(0.0, [0.0, 0.0, 0.0], 0.0), n=[0.0, 1.0, 0.0], vface=[0.0, 0.0, 0.0]),
        dict(tag="vacgen", gamma=5.0 / 3.0, L=(1.0, [-9.0, 0.0, 0.0], 1.0), R=(1.0, [11.0, 0.0, 0.0], 1.0), n=[1.0, 0.0, 0.0], vface=[0.0, 0.0, 0.0]),
    ]
    # shear layer: identical density, pressure and normal velocity, opposite tangential velocities (the upwind side decides which one is advected)
    corpus.append(dict(tag="shear", gamma=5.0 / 3.0, L=(1.0, [0.5, 0.3, 0.0], 1.0), R=(1.0, [-0.5, 0.3, 0.0], 1.0), n=[0.0, 1.0, 0.0], vface=[0.0, 0.0, 0.0]))
    corpus.append(dict(tag="shear", gamma=1.4, L=(2.0, [-0.7, 0.2, 0.4], 0.5), R=(2.0, [-0.7, -0.6, 0.1], 0.5), n=[-1.0, 0.0, 0.0], vface=[0.0, 0.0, 0.0]))
    ncorpus = 0
    for c in corpus:
        for kind in ("H", "E"):
            groups.append((kind, c, [0.25, -0.5, 0.125], len(lines)))
            lines += [line(kind, c), line(kind, swapped(c)), line(kind, boosted(c, [0.25, -0.5, 0.125]))]
            ncorpus += 1
    for i in range(n):
        c = gen_base(ck.rng, i)
        sc = (math.sqrt(max(c["gamma"], 1.00000001) * (c["L"][2] + c["R"][2] + 1e-300) / (c["L"][0] + c["R"][0] + 1e-300)))
        w = [sc * 3 * (2 * ck.rng.uniform() - 1) for _ in range(3)]
        for kind in ("H", "E"):
            groups.append((kind, c, w, len(lines)))
            lines += [line(kind, c), line(kind, swapped(c)), line(kind, boosted(c, w))]
    text = "\n".join(lines) + "\n"
    rc, out_i = vf.run_lines([os.path.join(d, "impl")], text, timeout=900)
    if rc != 0 or len(out_i) != len(lines):
        ck.breaks.append("implementation harness failed (rc=%d, %d of %d lines)" % (rc, len(out_i), len(lines)))
        ck.resolve_breaks_without_input()
        return
    mism = 0
    hist = {}
    sig = set()
    if okm:
        # the model needs the exact solver's sampled star state for non-vacuum input: append it
        mlines = []
        for l, o in zip(lines, out_i):
            if l[0] == "E":
                st = o.split("|")[1].split()
                mlines.append(l + " " + " ".join(st))
            else:
                mlines.append(l)
        rc_m, out_m = vf.run_lines([os.path.join(d, "model")] + list(PINNED), "\n".join(mlines) + "\n", timeout=900)
        if len(out_m) != len(lines):
            ck.breaks.append("model driver produced %d lines for %d cases" % (len(out_m), len(lines)))
        else:
            for k, (l, oi, om) in enumerate(zip(lines, out_i, out_m)):
                fi = oi.split("|")[0].split()
                fm = om.split("#")[0].split()
                br = om.split("#")[1].strip() if "#" in om else ""
                key = l[0] + ":" + br
                hist[key] = hist.get(key, 0) + 1
                # NaN payloads/signs are not part of the contract: canonicalise NaNs
                can = lambda xs: ["nan" if (int(x, 16) & 0x7ff0000000000000) == 0x7ff0000000000000 and (int(x, 16) & 0xfffffffffffff) else x for x in xs]
                if can(fi) != can(fm):
                    mism += 1
                    if mism <= 5:
                        ck.breaks.append("correspondence C05 model <-> %s solver: input %s\n impl=%s\n model=%s (%s)" % ("HLLC" if l[0] == "H" else "exact", l, fi, fm, br))
                elif br not in ("br=0",):
                    sig.add((key, groups[k // 3][1]["tag"], fi[0][:6]))
    # property oracle on the implementation outputs: always evaluated in the thorough tier (extra evidence),
    # and after a break (search for a failing input)
    bad = 0
    nor = 0
    full_oracle = bool(ck.breaks) or not ck.quick
    if True:
        for gi, (kind, c, w, k) in enumerate(groups):
            if gi >= ncorpus and not full_oracle:
                break
            fb, fs, fbo = parse_flux(out_i[k]), parse_flux(out_i[k + 1]), parse_flux(out_i[k + 2])
            nor += 1
            why = oracle_group(c, w, fb, fs, fbo)
            if why:
                bad += 1
                if bad <= 4:
                    ck.violation("C05 fails on the real %s solver: %s" % ("HLLC" if kind == "H" else "exact", why),
                                 {"solver": kind, "case": c, "boost": w, "input_lines": lines[k:k + 3], "impl_out": out_i[k:k + 3]},
                                 key=viol_key(kind, c, why))
        ck.notes.append("property oracle evaluated on %d groups of the real solvers' outputs, %d fail" % (nor, bad))
    cov = ck.coverage
    cov["evaluations"] = len(lines)
    cov["distinct_nontrivial"] = len(sig)
    cov["rule"] = ("inputs from SplitMix64(VERIF_SEED): 12 modes (generic, 40 decades, supersonic, identical, mirror pairs at Mach 0.1..3, vacuum left/right/both, vacuum generation "
                   "with vR-vL at 0.9..5 x the critical value and moving centre, strong jumps, denormal scale) x 6 adiabatic indices x axis/random normals x 4 face velocities; every base "
                   "case also swapped (states exchanged, normal reversed) and boosted; each line is run through the compiled solver and the extracted binary64 model and all five flux "
                   "components are compared bit for bit (NaNs canonicalised); non-trivial = not the pure-vacuum branch, distinct = (solver, branch, mode, leading bits of mass flux)")
    cov["branch_histogram"] = hist
    cov["case_mismatches"] = mism
    cov["samples"] = [{"input": lines[k], "impl": out_i[k]} for k in (0, 1, 2)]
    ck.assumptions += [
        "theorems are about the real-number instance of the definitions in coq/Cxx/C05_Defs.v; the binary64 instance of the SAME definitions is what is compared bit for bit with the compiled solvers",
        "std::pow enters as a parameter: glibc pow on both sides (OCaml Float.pow and g++ -fno-builtin)",
        "exact solver: the iterative star-state solve is not modelled here (C11); its sampled state is taken from the real solver and the flux assembly/vacuum logic is what is modelled",
        "DBL_MIN regularisation: theorems that compare with the textbook form take eps = 0; symmetry theorems hold for every eps >= 0",
    ]
    ck.resolve_breaks_without_input()


def replay(ck, rp):
    d = ck.scratch
    okm, oki = build(ck, d)
    r = rp["replay"]
    rc, out = vf.run_lines([os.path.join(d, "impl")], "\n".join(r["input_lines"]) + "\n")
    why = oracle_group(r["case"], r["boost"], parse_flux(out[0]), parse_flux(out[1]), parse_flux(out[2]))
    print("\n".join(out))
    print("REPLAY:", why or "property holds on this input")
    return 1 if why else 0
